"""C12 -- Serialised DOM re-parses to an equal tree; output is always well-formed.
Theorems: coq/theories/C12/Properties_C12.v (models Model12.v, spec Spec12.v, tables regenerated from /repo by
translator/c12_esc.py into Gen/GenEsc.v).
Correspondence (a) formatter level: bin/xh_C12 (real XMLFormatter over MemBufFormatTarget) vs bin/xm_C12 (extracted
model) on every single BMP unit per (encoding, escape mode, XML version) and on seeded random strings; the oracle is
the extracted Spec (unescape_parse applied to the decoded implementation output gives the input back).
(b) document level: random DOM trees through DOMLSSerializer x encodings x features, re-parsed and compared with
isEqualNode, serialised again (the property's own oracle, needs no model); for DOM level 1 trees the emitted bytes are
also compared with the extracted serializer model."""
import json
import os
import subprocess
import sys
import time

import vcommon as V

sys.path.insert(0, os.path.join(V.VERIF, "translator"))
import c12_esc as TE  # noqa

ENCS = ["utf8", "latin1", "ascii", "win1252", "utf16"]       # modelled (intrinsic) transcoders
ENCS_DOC_ONLY = ["utf16le", "utf16be", "ibm1140"]   # document-level oracle only (intrinsic, not modelled)
PYCODEC = {"utf8": "utf-8", "latin1": "latin-1", "ascii": "ascii", "win1252": "cp1252", "utf16": "utf-16-le"}


# ------------------------------------------------------------------------------------------------------
# helpers
# ------------------------------------------------------------------------------------------------------
def units_of(cps):
    out = []
    for c in cps:
        if c >= 0x10000:
            c -= 0x10000
            out += [0xD800 + (c >> 10), 0xDC00 + (c & 1023)]
        else:
            out.append(c)
    return out


def H(units):
    return "-" if not units else "".join("%04X" % u for u in units)


def HS(s):
    return H(units_of([ord(ch) for ch in s]))


def unhex(h, w):
    return [] if h == "-" else [int(h[i:i + w], 16) for i in range(0, len(h), w)]


def run_bin(binpath, lines, restart_on_hang=False, timeout=3000):
    """feed request lines, return answers.  The harness answers `hang` and exits with 3 when the library does not
    return from a call (watchdog); the remaining lines are then fed to a fresh process."""
    answers = []
    todo = list(lines)
    err = ""
    rc = 0
    while todo:
        p = subprocess.run([binpath], input=("\n".join(todo) + "\n").encode(), stdout=subprocess.PIPE,
                           stderr=subprocess.PIPE, timeout=timeout)
        out = p.stdout.decode("ascii", "replace").splitlines()
        err = p.stderr.decode("utf-8", "replace")
        rc = p.returncode
        answers += out
        if rc == 3 and restart_on_hang and out and out[-1] == "hang" and len(out) <= len(todo):
            todo = todo[len(out):]
            rc = 0
            continue
        break
    return rc, answers, err


def run_bin_par(binpath, lines, nproc=6):
    """the model driver is a pure function of each line: run contiguous chunks concurrently, keep the order"""
    import concurrent.futures
    if len(lines) < 4 * nproc:
        return run_bin(binpath, lines)
    size = (len(lines) + nproc - 1) // nproc
    chunks = [lines[i:i + size] for i in range(0, len(lines), size)]
    with concurrent.futures.ThreadPoolExecutor(max_workers=nproc) as ex:
        res = list(ex.map(lambda ch: run_bin(binpath, ch), chunks))
    rc = max(r[0] for r in res)
    out = [a for r in res for a in r[1]]
    return rc, out, "".join(r[2] for r in res)


def well_formed16(units):
    i = 0
    while i < len(units):
        u = units[i]
        if 0xD800 <= u <= 0xDBFF:
            if i + 1 < len(units) and 0xDC00 <= units[i + 1] <= 0xDFFF:
                i += 2
                continue
            return False
        if 0xDC00 <= u <= 0xDFFF:
            return False
        i += 1
    return True


def decode_bytes(enc, bs):
    """bytes -> UTF-16 units, or None when python cannot decode them"""
    try:
        if enc == "win1252":
            txt = "".join(chr(b) if b in (0x81, 0x8D, 0x8F, 0x90, 0x9D) else bytes([b]).decode("cp1252") for b in bs)
        else:
            txt = bytes(bs).decode(PYCODEC[enc], "surrogatepass")
    except Exception:
        return None
    return units_of([ord(c) for c in txt]) if enc != "utf16" else [ord(c) for c in txt] if all(
        ord(c) < 0x10000 for c in txt) else units_of([ord(c) for c in txt])


# ------------------------------------------------------------------------------------------------------
# generators
# ------------------------------------------------------------------------------------------------------
MARKUP = [0x26, 0x3C, 0x3E, 0x22, 0x27]
WS = [0x9, 0xA, 0xD, 0x20]
LETTERS = [0x61, 0x62, 0x7A, 0x41, 0x30, 0x5D, 0x2D, 0x3F, 0x3B, 0x23]
NONASCII = [0xE9, 0xFF, 0x100, 0x152, 0x20AC, 0x3A9, 0x4E2D, 0xFFFD, 0x80, 0x81, 0xA0]
LINE11 = [0x85, 0x2028, 0x7F, 0x9F, 0x84, 0x86]
SUPP = [0x10000, 0x10348, 0x1F600, 0x10FFFF]
CTRL = [0x1, 0x8, 0xB, 0x1F]
SPECIALS = [0x26, 0x3C, 0x3E, 0x22, 0x27, 0xD, 0xA, 0x9, 0x85, 0x2028]   # & < > " ' CR LF TAB NEL LSEP
ILLEGAL = [0xFFFE, 0xFFFF]


def rand_text(rng, allow_ctrl=False, allow_bad=False, n=None):
    """list of code points / raw units (lone surrogates are returned as their unit value)"""
    n = rng.randrange(0, 12) if n is None else n
    out = []
    for _ in range(n):
        k = rng.random()
        if k < 0.30:
            out.append(rng.choice(LETTERS))
        elif k < 0.50:
            out.append(rng.choice(MARKUP))
        elif k < 0.62:
            out.append(rng.choice(WS))
        elif k < 0.74:
            out.append(rng.choice(NONASCII))
        elif k < 0.80:
            out.append(rng.choice(LINE11))
        elif k < 0.88:
            out.append(rng.choice(SUPP))
        elif k < 0.93:
            out += [0x5D, 0x5D, 0x3E]
        elif k < 0.96 and allow_ctrl:
            out.append(rng.choice(CTRL))
        elif k < 0.98 and allow_bad:
            out.append(rng.choice(ILLEGAL + [0xD800, 0xDBFF, 0xDC00, 0xDFFF]))
        else:
            out.append(rng.randrange(0x20, 0xD800))
    return out


def gen_fmt_cases(ctx):
    rng = ctx.rng
    thorough = ctx.tier == "thorough"
    cases = []
    # exhaustive single BMP units (surrogate units are not characters: lone ones are covered below)
    for enc in ENCS:
        for mode in range(4):
            for ver in ("10", "11"):
                for unrep in (1, 0):
                    # quick tier, in full (every BMP unit): XML 1.0 CharEscapes for every encoding, XML 1.0 AttrEscapes for
                    # UTF-8 and Windows-1252, XML 1.1 CharEscapes for UTF-8, UnRep_Fail + CharEscapes for US-ASCII and
                    # Windows-1252; every other UnRep_CharRef combination on U+0000..U+07FF and U+2000..U+21FF (where mode,
                    # version -- C0/C1 controls, NEL, LSEP -- and the single-byte tables matter).  thorough: everything.
                    full = thorough or (unrep == 1 and ver == "10" and mode == 3) or \
                        (unrep == 1 and ver == "10" and mode == 2 and enc in ("utf8", "win1252")) or \
                        (unrep == 1 and ver == "11" and enc == "utf8" and mode == 3) or \
                        (unrep == 0 and mode == 3 and ver == "10" and enc in ("ascii", "win1252"))
                    part = unrep == 1
                    if not (full or part):
                        continue
                    firsts = range(0, 0x10000, 512) if full else list(range(0, 0x800, 512)) + list(range(0x2000, 0x2200, 512))
                    for first in firsts:
                        if 0xD800 <= first < 0xE000:
                            continue
                        cases.append(("sweep", "sweep %s %d %d %s %d 512" % (enc, mode, unrep, ver, first)))
    # every surrogate pair boundary + lone surrogates where the formatter terminates
    for enc in ENCS:
        for cp in SUPP + [0x10001, 0xFFFFF, 0x100000]:
            for mode in (0, 2, 3):
                cases.append(("pair", "fmt %s %d 1 10 %s" % (enc, mode, H(units_of([0x61, cp, 0x3C, cp, cp])))))
        for u in (0xD800, 0xDBFF, 0xDC00, 0xDFFF):
            for tail in ([], [0x62], [0x3C], [0xDC00], [0xD800, 0xDC00]):
                cases.append(("lone", "fmt %s 3 1 10 %s" % (enc, H([0x61, u] + tail))))
    # random strings
    for _ in range(60000 if thorough else 7000):
        enc = rng.choice(ENCS)
        mode = rng.choice([0, 1, 2, 2, 3, 3])
        unrep = 1 if rng.random() < 0.8 else 0
        ver = "11" if rng.random() < 0.35 else "10"
        s = rand_text(rng, allow_ctrl=True, allow_bad=rng.random() < 0.1, n=rng.randrange(0, 16))
        cases.append(("rand", "fmt %s %d %d %s %s" % (enc, mode, unrep, ver, H(units_of(s)))))
    # escape modes as first-class requests: every mode x every ordered pair / sampled triple of the special characters
    # (the reference strings are cached lazily, per formatter, in the order of first use)
    for enc in ENCS:
        for mode in range(4):
            for ver in ("10", "11"):
                for c1 in SPECIALS:
                    cases.append(("special", "fmt %s %d 1 %s %s" % (enc, mode, ver, H([c1]))))
                    for c2 in SPECIALS:
                        if c2 != c1 and (thorough or enc == "utf8" or rng.random() < 0.2):
                            cases.append(("special", "fmt %s %d 1 %s %s" % (enc, mode, ver, H([0x78, c1, 0x79, c2, c1, c2, 0x7A]))))
                for _ in range(40 if not thorough else 400):
                    t = [rng.choice(SPECIALS + [0x61]) for _ in range(rng.randrange(3, 8))]
                    cases.append(("special", "fmt %s %d 1 %s %s" % (enc, mode, ver, H(t))))
    # long strings across the kTmpBufSize chunking of handleUnEscapedChars
    for enc in ENCS:
        for n in ((16383, 16384, 16385, 20000) if thorough else (16384, 16385)):
            body = [0x61] * (n - 2) + units_of([0x10348]) + [0xE9 if enc != "ascii" else 0x62, 0x3C, 0x62]
            cases.append(("long", "fmt %s 3 1 10 %s" % (enc, H(body))))
            if thorough or enc in ("utf8", "latin1"):
                cases.append(("long", "fmt %s 3 1 10 %s" % (enc, H([0x20AC] * 6000 + [0x61] * (n - 6000)))))
    return cases


def gen_fseq_cases(ctx):
    """one XMLFormatter object, several formatBuf calls with their own escape modes"""
    rng = ctx.rng
    thorough = ctx.tier == "thorough"
    out = []
    for c1 in SPECIALS:
        for c2 in SPECIALS:
            if c1 == c2:
                continue
            for m1 in range(4):
                for m2 in range(4):
                    if not (thorough or m1 == m2 or rng.random() < 0.25):
                        continue
                    enc = "utf8" if rng.random() < 0.6 else rng.choice(ENCS)
                    ver = "11" if rng.random() < 0.3 else "10"
                    out.append("fseq %s 1 %s %d %s %d %s %d %s" % (enc, ver, m1, H([c1]), m2, H([0x61, c2]), m1, H([c2, c1, 0x62])))
    for _ in range(1500 if not thorough else 20000):
        enc = rng.choice(ENCS)
        ver = "11" if rng.random() < 0.3 else "10"
        steps = []
        for _ in range(rng.randrange(2, 6)):
            t = [rng.choice(SPECIALS + [0x61, 0xE9, 0x20AC]) for _ in range(rng.randrange(0, 6))]
            steps.append("%d %s" % (rng.randrange(4), H(t)))
        out.append("fseq %s %d %s %s" % (enc, 1 if rng.random() < 0.85 else 0, ver, " ".join(steps)))
    return out


NAME_START = [0x61, 0x62, 0x7A, 0x41, 0x5F]
NAME_MORE = [0x61, 0x30, 0x2D, 0x2E, 0x5F, 0x78]
NAME_NONASCII = [0xE9, 0x3A9, 0x4E2D]


def rand_name(rng, exotic=0.15):
    n = [rng.choice(NAME_START)] + [rng.choice(NAME_MORE) for _ in range(rng.randrange(0, 4))]
    if rng.random() < exotic:
        n.insert(rng.randrange(1, len(n) + 1), rng.choice(NAME_NONASCII))
    if len(n) >= 3 and [c | 0x20 for c in n[:3]] == [0x78, 0x6D, 0x6C]:
        n[0] = 0x61
    return n


class Tree:
    """random tree + the facts the oracle needs about it"""

    def __init__(self, rng, ns, ver11, bad_rate):
        self.rng, self.ns, self.ver11, self.bad = rng, ns, ver11, bad_rate
        self.names = []          # all names (units) written as markup
        self.attr_names = []
        self.data = []           # text / attribute values (code points)
        self.cdata = []
        self.comments = []
        self.pis = []
        self.nsmissing = False
        self.f50 = False
        self.nodes = 0

    def text(self, what):
        rng = self.rng
        allow_bad = rng.random() < self.bad
        t = rand_text(rng, allow_ctrl=self.ver11 or allow_bad, allow_bad=allow_bad)
        if what == "text" and not t:
            t = [0x61]
        return t

    def element(self, depth, scope):
        rng = self.rng
        self.nodes += 1
        local = rand_name(rng)
        toks = []
        uri = "-"
        qn = local
        attrs = []
        scope = dict(scope)
        if self.ns and rng.random() < 0.6:
            pref = rng.choice([[], [0x70], [0x71]])
            u = rng.choice(["urn:a", "urn:b", "http://x/y?a=1&b=2"])
            key = bytes(pref).decode()
            uri = HS(u)
            qn = (pref + [0x3A] if pref else []) + local
            if scope.get(key) != u:
                if rng.random() < 0.7:
                    attrs.append((HS("http://www.w3.org/2000/xmlns/"), HS("xmlns:" + key if key else "xmlns"), HS(u)))
                else:
                    self.nsmissing = True        # the serializer has to supply the declaration
                    if key == "" and scope.get("_outer") == u:
                        self.f50 = True          # default namespace un-declared above, outer one equal: finding F50
                scope[key] = u
            if key == "":
                scope["_outer"] = None
        elif self.ns and scope.get(""):
            # an element in no namespace under a default namespace needs xmlns="" (fix-up)
            if rng.random() < 0.5:
                attrs.append((HS("http://www.w3.org/2000/xmlns/"), HS("xmlns"), "-"))
            else:
                self.nsmissing = True
            scope["_outer"] = scope[""]
            scope[""] = None
        self.names.append(qn)
        seen = set()
        for _ in range(rng.choice([0, 0, 1, 1, 2, 3])):
            an = rand_name(rng)
            if an[:5] == [0x78, 0x6D, 0x6C, 0x6E, 0x73] or tuple(an) in seen:
                continue
            seen.add(tuple(an))
            v = self.text("attr")
            self.attr_names.append(an)
            self.data.append(v)
            attrs.append(("-", H(an), H(units_of(v))))
        if not self.ns:
            attrs.sort(key=lambda a: unhex(a[1], 4))     # DOMAttrMapImpl keeps the attributes sorted by name
        kids = []
        last_text = False
        for _ in range(rng.choice([0, 1, 2, 3, 4]) if depth < 3 else rng.choice([0, 1])):
            k = rng.random()
            if k < 0.35 and not last_text:
                t = self.text("text")
                self.data.append(t)
                kids.append("T " + H(units_of(t)))
                last_text = True
                continue
            last_text = False
            if k < 0.55:
                kids.append(self.element(depth + 1, scope))
            elif k < 0.75:
                t = self.text("cdata")
                self.cdata.append(t)
                kids.append("C " + H(units_of(t)))
            elif k < 0.88:
                t = self.text("comment")
                if rng.random() > self.bad:
                    t = [c for c in t if c != 0x2D]
                self.comments.append(t)
                kids.append("M " + H(units_of(t)))
            else:
                tg = rand_name(rng, 0.05)
                d = self.text("pi")
                if rng.random() > self.bad:
                    d = [c for c in d if c != 0x3F]
                    while d and d[0] in WS:
                        d = d[1:]
                self.pis.append((tg, d))
                kids.append("P %s %s" % (H(tg), H(units_of(d))))
        self.nodes += len(kids)
        toks = ["E", uri, H(qn), str(len(attrs))] + [x for a in attrs for x in a] + [str(len(kids))] + kids
        return " ".join(toks)

    def document(self):
        rng = self.rng
        pro = []
        for _ in range(rng.choice([0, 0, 1])):
            t = [c for c in self.text("comment") if c != 0x2D]
            self.comments.append(t)
            pro.append("M " + H(units_of(t)))
        root = self.element(0, {})
        epi = []
        if rng.random() < 0.2:
            tg = rand_name(rng, 0)
            self.pis.append((tg, [0x78]))
            epi.append("P %s 0078" % H(tg))
        kids = pro + [root] + epi
        return "D %d %s" % (len(kids), " ".join(kids))


# ------------------------------------------------------------------------------------------------------
# namespace fix-up: API-built trees with namespaceURI/prefix set, declarations missing, prefixes rebound at inner
# levels, attributes in namespaces of outer bindings, default namespace undeclared / redeclared
# ------------------------------------------------------------------------------------------------------
XMLNS_URI = "http://www.w3.org/2000/xmlns/"
NS_URIS = ["urn:u1", "urn:u2", "urn:u3"]


class NsTree:
    def __init__(self, rng):
        self.rng = rng
        self.f50 = self.f51 = self.f52 = self.f53 = False
        self.empty_attr = False
        self.nelem = 0
        self.rebound = False

    def element(self, depth, dflt, under_undecl, scope):
        """dflt: default namespace in scope per the tree's own names/declarations; scope: prefix -> uri as intended"""
        rng = self.rng
        self.nelem += 1
        uri = None if rng.random() < 0.25 else rng.choice(NS_URIS)
        pref = "" if uri is None else rng.choice(["", "p", "p", "q"])
        local = rng.choice("abc") + str(self.nelem)
        attrs = []                       # (uri|None, qname, value)
        need = {}                        # prefix -> set of URIs this element requires / declares
        explicit_self = False
        scope = dict(scope)
        if uri is not None:
            need.setdefault(pref, set()).add(uri)
            if scope.get(pref) not in (None, uri):
                self.rebound = True
            if rng.random() < 0.45:
                explicit_self = True
                attrs.append((XMLNS_URI, "xmlns:" + pref if pref else "xmlns", uri))
            scope[pref] = uri
            if pref == "":
                if under_undecl and not explicit_self:
                    self.f50 = True
                dflt = uri
        else:
            need.setdefault("", set()).add("")
            if dflt:
                under_undecl = True
            if rng.random() < 0.2:
                attrs.append((XMLNS_URI, "xmlns", ""))
                self.empty_attr = True
            dflt = None
            scope[""] = None
        if rng.random() < 0.15:          # a declaration for the benefit of descendants, possibly rebinding
            dp, du = rng.choice(["p", "q"]), rng.choice(NS_URIS)
            if not any(a[1] == "xmlns:" + dp for a in attrs):
                attrs.append((XMLNS_URI, "xmlns:" + dp, du))
                need.setdefault(dp, set()).add(du)
                scope[dp] = du
        seen_q, seen_l = set(a[1] for a in attrs), set()
        for _ in range(rng.choice([0, 1, 1, 2])):
            au = None if rng.random() < 0.35 else rng.choice(NS_URIS)
            ap = "" if au is None else rng.choice(["", "p", "p", "q"])
            al = rng.choice(["k", "m"])
            qn = (ap + ":" if ap else "") + al
            if qn in seen_q or (au, al) in seen_l:
                continue
            seen_q.add(qn)
            seen_l.add((au, al))
            attrs.append((au, qn, "v" + str(len(attrs))))
            if au is not None:
                if ap == "":
                    self.f52 = True
                else:
                    need.setdefault(ap, set()).add(au)
                if au == dflt:
                    self.f53 = True      # the attribute's namespace is the default namespace in scope
        if any(len(v) > 1 for v in need.values()):
            self.f51 = True
        kids = []
        if depth < 3:
            for _ in range(rng.choice([0, 1, 1, 2])):
                if rng.random() < 0.2 and (not kids or not kids[-1].startswith("T ")):
                    kids.append("T 0074")
                else:
                    kids.append(self.element(depth + 1, dflt, under_undecl, scope))
        toks = ["E", HS(uri) if uri else "-", HS((pref + ":" if pref else "") + local), str(len(attrs))]
        for au, qn, v in attrs:
            toks += [HS(au) if au else "-", HS(qn), HS(v)]
        toks += [str(len(kids))] + kids
        return " ".join(toks)


def gen_ns_cases(ctx):
    rng = ctx.rng
    out = []
    for _ in range(1500 if ctx.tier == "quick" else 20000):
        t = NsTree(rng)
        body = "D 1 " + t.element(0, None, False, {})
        x = rng.choice([0, 1])
        for z in (0, 1):
            out.append((t, z, "doc utf8 x%ds1d1b0n1z%d 10 %s" % (x, z, body)))
    return out



def gen_seq_cases(ctx):
    """several documents written one after the other by ONE DOMLSSerializer instance: version changes (XML 1.1, then a
    document without version information carrying C0/C1 controls, NEL, LSEP, and the other way round), encoding
    changes, pretty-print / newline settings switched on and off between writes"""
    rng = ctx.rng
    thorough = ctx.tier == "thorough"
    out = []

    def step(tr_ver, enc, feats, tr=None, body=None):
        ver11 = tr_ver == "11"
        if tr is None:
            tr = Tree(rng, False, ver11, bad_rate=0.08 if rng.random() < 0.3 else 0.0)
            body = tr.document()
        return (tr, enc, feats, tr_ver, "%s %s %s %s" % (enc, feats, tr_ver, body))

    def fixed_tree(ver11, units, where):
        tr = Tree(rng, False, ver11, 0.0)
        tr.names.append([0x72])
        tr.data.append(units)
        tr.nodes = 2
        if where == "text":
            body = "D 1 E - 0072 0 1 T %s" % H(units_of(units))
        else:
            tr.attr_names.append([0x6B])
            body = "D 1 E - 0072 1 - 006B %s 0" % H(units_of(units))
        return tr, body

    # systematic: a character whose treatment depends on the XML version, after / before a document of the other version
    for c in [0x1, 0x8, 0xB, 0x1F, 0x7F, 0x84, 0x85, 0x9F, 0x2028]:
        for where in ("text", "attr"):
            for enc in (ENCS if thorough else ["utf8", "latin1"]):
                for va, vb in (("11", "10"), ("10", "11"), ("11", "1e"), ("1e", "11"), ("11", "11"), ("10", "10")):
                    ta, ba = fixed_tree(va == "11", [0x61, c, 0x62], where)
                    tb, bb = fixed_tree(vb == "11", [0x61, c, 0x62], where)
                    out.append([step(va, enc, "x1s1n0", ta, ba), step(vb, enc, "x1s1n0", tb, bb), step(va, enc, "x1s1n0", ta, ba)])
    # random sequences
    for _ in range(600 if not thorough else 8000):
        steps = []
        for _ in range(rng.randrange(2, 5)):
            ver = rng.choice(["10", "10", "11", "1e"])
            enc = rng.choice(ENCS)
            feats = "x%ds%dd%db0n0p%dl%d" % (1 if (ver == "11" or enc != "utf8" or rng.random() < 0.7) else 0,
                                            0 if rng.random() < 0.2 else 1, rng.choice([0, 1]),
                                            1 if rng.random() < 0.2 else 0, rng.choice([0, 0, 1, 2]))
            steps.append(step(ver, enc, feats))
        out.append(steps)
    return out


def valid_units(units, ver11, production=False):
    """units that ensureValidString accepts: XML 1.0 Chars; for XML 1.1 the characters that may appear literally
    (Char minus RestrictedChar).  production=True: the Char production of XML 1.1 itself."""
    i = 0
    while i < len(units):
        c = units[i]
        if ver11 and production:
            ok = (1 <= c <= 0xD7FF) or (0xE000 <= c <= 0xFFFD)
        elif ver11:
            ok = c in (9, 10, 13, 0x85) or (0x20 <= c <= 0x7E) or (0xA0 <= c <= 0xD7FF) or (0xE000 <= c <= 0xFFFD)
        else:
            ok = c in (9, 10, 13) or (0x20 <= c <= 0xD7FF) or (0xE000 <= c <= 0xFFFD)
        if not ok:
            if 0xD800 <= c <= 0xDBFF and i + 1 < len(units) and 0xDC00 <= units[i + 1] <= 0xDFFF:
                i += 2
                continue
            return False
        i += 1
    return True


def contains(seq, pat):
    n = len(pat)
    return any(seq[i:i + n] == pat for i in range(len(seq) - n + 1))


def classify(tree, enc, feats, can):
    """(serialisable, reasons, cdata_split_needed): reasons name why the content cannot be written as
    well-formed XML in this configuration"""
    ver11 = tree.ver11
    reasons = []
    rep = lambda cps: all(can(enc, c) for c in cps)
    for n in tree.names:
        if not rep(n):
            reasons.append("name-unrepresentable")
    for n in tree.attr_names:
        if not rep(n):
            reasons.append("attrname-unrepresentable")
    for d in tree.data:
        if not valid_units(units_of(d), ver11):
            reasons.append("restricted11" if valid_units(units_of(d), ver11, production=True) else "invalid-char")
    split_needed = False
    lineends = [0xD] + ([0x85, 0x2028] if ver11 else [])
    for d in tree.cdata:
        u = units_of(d)
        if any(c in lineends for c in u):
            reasons.append("lineend-in-cdata")
        if not valid_units(u, ver11):
            reasons.append("invalid-char-cdata")
        has_end = contains(u, [0x5D, 0x5D, 0x3E])
        unrep = not rep(d)
        if "s0" in feats:
            if has_end:
                reasons.append("cdata-end-nosplit")
            if unrep:
                reasons.append("cdata-unrep-nosplit")
        elif has_end or unrep:
            split_needed = True
    for d in tree.comments:
        u = units_of(d)
        if not valid_units(u, ver11):
            reasons.append("invalid-char")
        if contains(u, [0x2D, 0x2D]) or (u and u[-1] == 0x2D):
            reasons.append("comment-dashes")
        if any(c in lineends for c in u):
            reasons.append("lineend-in-comment")
        if not rep(d):
            reasons.append("comment-unrepresentable")
    for tg, d in tree.pis:
        u = units_of(d)
        if not valid_units(u, ver11) or not valid_units(tg, ver11):
            reasons.append("invalid-char")
        if contains(u, [0x3F, 0x3E]):
            reasons.append("pi-end")
        if u and u[0] in WS:
            reasons.append("pi-leading-ws")
        if any(c in lineends for c in u):
            reasons.append("lineend-in-pi")
        if not rep(d) or not rep(tg):
            reasons.append("pi-unrepresentable")
    return (not reasons), sorted(set(reasons)), split_needed


def parse_doc_answer(line):
    d = {}
    for part in line.split():
        if "=" in part:
            k, v = part.split("=", 1)
            d.setdefault(k, v)
    return d


# ------------------------------------------------------------------------------------------------------
# witnesses of the defects of this property (replayed first on every run)
# ------------------------------------------------------------------------------------------------------
def E(name, attrs, kids):
    return "E - %s %d %s %d %s" % (HS(name), len(attrs), " ".join("- %s %s" % (HS(a), HS(v)) for a, v in attrs),
                                   len(kids), " ".join(kids))


WITNESS = {
    "F16": "doc utf8 x1s1 10 D 1 " + E("r", [], ["C " + HS("a]]>b")]),
    "F17": "doc utf8 x1s1 11 D 1 " + E("r", [("k", "a b\u0085c")], ["T " + HS("a b\u0085c")]),
    "F42": "doc latin1 x1s1 10 D 1 " + E("r", [], ["C " + HS("a\U00010000b")]),
    "F43": "doc utf8 x1s1 10 D 1 " + E("r", [], ["C " + HS("a\x01b")]),
    "F44d": "doc utf8 x1s1 10 D 1 " + E("r", [], ["C " + H([0x61, 0xD800])]),
    "F40": "doc utf8 x1s1 10 D 1 " + E("r", [], ["M " + HS("a--b")]),
    "F41": "doc utf8 x1s1 10 D 1 " + E("r", [], ["P " + HS("t") + " " + HS("a?>b")]),
    "F45": "doc latin1 x1s1 10 D 1 " + E("r", [("kΩ", "v")], []),
    "F47": "doc utf8 x1s1 10 D 1 " + E("r", [], ["C " + HS("a\rb"), "M " + HS("c\rd")]),
    "F48": "doc utf8 x1s1 11 D 1 " + E("r", [("k", "a\x01")], ["T " + HS("b\x86c")]),
    "F49": "doc koi8r x1s1 10 D 1 " + E("r", [], ["T " + HS("a\U0001F600b")]),
    "F50": "doc utf8 x1s1n1 10 D 1 E %s %s 1 %s %s %s 1 E - %s 0 1 E %s %s 0 0" % (
        HS("urn:b"), HS("r"), HS("http://www.w3.org/2000/xmlns/"), HS("xmlns"), HS("urn:b"), HS("x"), HS("urn:b"), HS("y")),
    "F51": "doc utf8 x0s1n1z0 10 D 1 E %s %s 1 %s %s %s 0" % (HS("urn:u2"), HS("p:x"), HS("urn:u1"), HS("p:a"), HS("v")),
    "F52": "doc utf8 x0s1n1z0 10 D 1 E - %s 1 %s %s %s 0" % (HS("r"), HS("urn:u1"), HS("a"), HS("v")),
    "F53": "doc utf8 x0s1n1z1 10 D 1 E %s %s 1 %s %s %s 0" % (HS("urn:u1"), HS("r"), HS("urn:u1"), HS("a"), HS("v")),
    "F54": "doc utf8 x0s1n1z1 10 D 1 E %s %s 2 %s %s %s %s %s %s 1 E %s %s 2 %s %s %s %s %s %s 0" % (
        HS("urn:u3"), HS("p:r"), HS("http://www.w3.org/2000/xmlns/"), HS("xmlns:p"), HS("urn:u3"),
        HS("http://www.w3.org/2000/xmlns/"), HS("xmlns:q"), HS("urn:u3"),
        HS("urn:u1"), HS("p:x"), HS("http://www.w3.org/2000/xmlns/"), HS("xmlns:p"), HS("urn:u1"),
        HS("http://www.w3.org/2000/xmlns/"), HS("xmlns:q"), HS("urn:u2")),
    "F46": "doc win1252 x1s1 10 D 1 " + E("r", [], ["T " + HS("a\uFF1Cb\uFF1E")]),
    "F55": "doc utf8 x1s1 10 D 1 " + E("r", [], ["P " + HS("t") + " " + HS(" a")]),
    "F56": "doc utf8 x1s1 10 D 2 Y " + HS("r") + " - " + HS('x"y') + " " + E("r", [], []),
    "F44": "fmt utf8 3 1 10 " + H([0x61, 0xD800]),
}


def run(ctx):
    t0 = time.time()
    ctx.coverage["trusted_base"] = list(V.GLOBAL_TRUSTED_BASE) + [
        "modelled rather than verified: the transcoders are C05's models (UTF-8, ISO-8859-1, US-ASCII, Windows-1252, "
        "UTF-16); XMLChar1_1::isControlChar/isWhitespace are ranges in the model (tied by the exhaustive BMP sweep); "
        "namespace fix-up, DocumentType/EntityReference nodes, pretty-printing, filters, BOM and the non-memory "
        "targets are not modelled (document-level oracle only for namespaces/BOM); the parser side is the "
        "specification Spec12.unescape_parse, tied to the real parser only through the document-level re-parse"]
    ctx.assumptions = ["strings handed to XMLFormatter are NUL terminated (specialFormat reads one unit past the "
                       "count after a trailing high surrogate)",
                       "host is little endian (UTF-16 output of the formatter is native order)"]
    ctx.build_lib()
    try:
        gen = TE.generate()
    except Exception as e:
        ctx.note("translator failed: %r" % (e,))
        ctx.violation("translator", {"what": "translator can no longer read the escape tables of XMLFormatter.cpp",
                                     "error": repr(e)}, no_input=True)
        return
    # best-fit entries of the single-byte tables (C05's translator unit reads them): unit -> byte pairs whose byte
    # does not decode back to the unit
    import tables as TT
    try:
        tabs = TT.gen_tables()
        TT.gen_utf8()
    except Exception as e:
        ctx.violation("translator", {"what": "table translator failed", "error": repr(e)}, no_input=True)
        return
    lossy = {nm: set(u for u, b in t["to"] if b != 0 and t["from"][b] != u) for nm, t in tabs.items()}
    ok, out, failed = ctx.prove(["Base", "Gen", "C05", "C12"],
                                ["theories/C12/Properties_C12.vo", "theories/C12/Extract_C12.vo"],
                                props_file="theories/C12/Properties_C12.v")
    proof_broken = not ok
    if proof_broken:
        ctx.note("proof obligations failed: %s" % failed)
        ctx.note(out[-2500:])
    if not os.path.exists(os.path.join(V.VERIF, "ocaml", "C12", "gen_c12.ml")):
        ctx.violation("obligation", {"what": "model does not extract", "output": out[-3000:]}, no_input=True)
        return
    xm = ctx.ocaml("C12", ["gen_c12"])
    xh = ctx.harness("C12")

    viol = [0]

    def violation(tag, payload):
        viol[0] += 1
        if viol[0] <= 6:
            ctx.violation(tag, payload)

    # ---------------------------------------------------------------------------------------------
    # replay of one recorded case
    # ---------------------------------------------------------------------------------------------
    if ctx.replay:
        r = json.load(open(ctx.replay))
        req = r["request"]
        rc, impl, _ = run_bin(xh, [req], restart_on_hang=True)
        rcm, model, _ = run_bin(xm, [req])
        ctx.note("replay request: %s" % req[:300])
        ctx.note("impl : %s" % (impl[0][:600] if impl else "<none>"))
        ctx.note("model: %s" % (model[0][:600] if model else "<none>"))
        ctx.count()
        if req.startswith("seq "):
            parts = impl[0].split(" | ") if impl else []
            part = parts[r.get("step", 0)] if r.get("step", 0) < len(parts) else "missing"
            a = parse_doc_answer(part)
            bad = not (a.get("fresh") == "1") or (a.get("ser") == "ok" and (a.get("reparse") != "ok" or a.get("eq") not in ("1", "merged")))
            if bad:
                ctx.violation("replay", dict(r, impl=part[:3000]))
        elif req.startswith("doc") or req.startswith("src"):
            a = parse_doc_answer(impl[0]) if impl else {}
            if a.get("eq") == "0" and " Y " in req and " orig=" in impl[0]:
                o_, g_ = impl[0].split(" orig=")[1].split(" got=")
                if o_.replace("~", "-") == g_.replace("~", "-"):
                    a["eq"] = "1"
            good = a.get("ser") == "ok" and a.get("reparse") == "ok" and a.get("eq") in ("1", "merged") and a.get("idem") == "1"
            if r.get("expect") == "nsfixup":
                good = (a.get("ser") == "ok" and a.get("reparse") == "ok" and a.get("res") == "1" and
                        a.get("eq") in ("1", "nsdecl") and a.get("idem") in ("1", "reordered"))
            reported = a.get("ser", "ok") != "ok"
            if not good and not (reported and r.get("expect") == "error"):
                ctx.violation("replay", dict(r, impl=impl[0] if impl else None))
        elif req.startswith("encsel"):
            if not impl or not model or impl[0].split()[:3] != model[0].split()[:3]:
                ctx.violation("replay", dict(r, impl=impl[0] if impl else None, model=model[0] if model else None))
        else:
            if not impl or not model or impl[0] != model[0]:
                ctx.violation("replay", dict(r, impl=impl[0] if impl else None, model=model[0] if model else None))
        return

    # ---------------------------------------------------------------------------------------------
    # 0. witnesses
    # ---------------------------------------------------------------------------------------------
    wkeys = list(WITNESS)
    rc, wimpl, werr = run_bin(xh, [WITNESS[k] for k in wkeys], restart_on_hang=True)
    _, wmodel, _ = run_bin(xm, [WITNESS[k] for k in wkeys])
    _, wold, _ = run_bin(xm, [WITNESS[k].replace("doc ", "docold ", 1).replace("fmt ", "fmtold ", 1) for k in wkeys])
    if len(wimpl) != len(wkeys):
        ctx.violation("harness-crash", {"what": "harness crashed on the witness list", "stderr": werr[-2000:],
                                        "answered": len(wimpl)}, no_input=True)
        return
    W = dict(zip(wkeys, wimpl))
    WM = dict(zip(wkeys, wmodel))
    WO = dict(zip(wkeys, wold))
    ctx.count(len(wkeys))

    def doc_good(a, allow=("1",)):
        return a.get("ser") == "ok" and a.get("reparse") == "ok" and a.get("eq") in allow and a.get("idem") == "1"

    def fixed_or_violation(fid, what, good, expect_error=False):
        """defects with a proposed repair: the repaired behaviour is required"""
        a = parse_doc_answer(W[fid])
        if good(a):
            ctx.distinct(("witness", fid))
            return
        old = ("bytes=" + WO[fid][3:]) in W[fid] if WO[fid].startswith("ok ") else False
        violation("divergence", {"request": WITNESS[fid], "impl": W[fid][:1500], "model": WM[fid][:800],
                                 "finding": fid, "what": what, "matches_unrepaired_model": old,
                                 "expect": "error" if expect_error else "roundtrip",
                                 "spec": "re-parsed tree differs / output ill-formed / no error reported"})

    fixed_or_violation("F16", "CDATA section containing ']]>' loses these three characters (procCdataSection); "
                       "repair: fixes/C12-cdata-split.patch", lambda a: doc_good(a, ("merged",)))
    fixed_or_violation("F17", "XML 1.1 output writes U+2028 / U+0085 literally; they re-parse as LF (text) or space "
                       "(attribute); repair: fixes/C12-xml11-lineends.patch", lambda a: doc_good(a))
    fixed_or_violation("F42", "unrepresentable supplementary character in a CDATA section is written as two "
                       "references to its surrogates (ill-formed); repair: fixes/C12-cdata-chars.patch",
                       lambda a: doc_good(a, ("merged",)))
    fixed_or_violation("F43", "characters that are not XML Chars are written verbatim inside CDATA sections when "
                       "split-cdata-sections is on (ill-formed output, no error); repair: fixes/C12-cdata-chars.patch",
                       lambda a: a.get("ser", "ok") != "ok" and "F" in a.get("errs", ""), expect_error=True)
    if W["F44d"] == "hang":
        violation("divergence", {"request": WITNESS["F44d"], "impl": "hang", "model": WM["F44d"], "finding": "F44d",
                                 "expect": "error", "what": "serialising a CDATA section that ends in an unpaired high "
                                 "surrogate never returns (UTF-8 output); repair: fixes/C12-cdata-chars.patch",
                                 "spec": "neither output nor error"})
    else:
        a = parse_doc_answer(W["F44d"])
        if a.get("ser", "ok") == "ok":
            violation("divergence", {"request": WITNESS["F44d"], "impl": W["F44d"][:800], "finding": "F44d",
                                     "expect": "error", "what": "unpaired surrogate in CDATA emitted without error"})

    def known_or_violation(fid, reproduced, text, payload):
        if not reproduced:
            return
        if ctx.find_known(fid):
            ctx.known_finding(fid, text)
        else:
            violation(fid, payload)

    # F40 / F41 / F44 have a proposed repair (fixes/C12-comment-pi-wf.patch, fixes/C12-formatter-no-progress.patch); the
    # models describe the repaired code.  While the entries are "known" and the witnesses still show the old behaviour,
    # inputs of exactly these classes are attributed to the finding and not compared with the model.
    a = parse_doc_answer(W["F40"])
    f40_open = a.get("ser") == "ok" and a.get("reparse") != "ok" and ctx.find_known("F40") is not None
    known_or_violation("F40", a.get("ser") == "ok" and a.get("reparse") != "ok",
                       "comment data containing '--' (or ending in '-') is emitted verbatim without any DOMError; the "
                       "output is not well-formed (witness: comment 'a--b' -> <!--a--b-->)",
                       {"request": WITNESS["F40"], "impl": W["F40"][:800], "what": "ill-formed comment emitted"})
    a = parse_doc_answer(W["F41"])
    f41_open = a.get("ser") == "ok" and a.get("eq") != "1" and ctx.find_known("F41") is not None
    known_or_violation("F41", a.get("ser") == "ok" and a.get("eq") != "1",
                       "processing-instruction data containing '?>' is emitted verbatim without any DOMError; the "
                       "output re-parses to a different tree (witness: PI data 'a?>b')",
                       {"request": WITNESS["F41"], "impl": W["F41"][:800], "what": "PI data with ?> emitted"})
    fixed_or_violation("F45", "an attribute name with a character the encoding cannot represent is written with a character "
                       "reference inside the name (ill-formed) instead of being reported; repair: "
                       "fixes/C12-attrname-unrep.patch", lambda a: a.get("ser", "ok") != "ok" and "F" in a.get("errs", ""),
                       expect_error=True)
    fixed_or_violation("F48", "XML 1.1: text / attribute values containing a RestrictedChar are refused by ensureValidString "
                       "although XMLFormatter writes them as references; repair: fixes/C12-xml11-restricted.patch",
                       lambda a: doc_good(a))
    fixed_or_violation("F50", "namespace fix-up records xmlns=\"\" with a null URI: a descendant in the outer default "
                       "namespace loses its declaration; repair: fixes/C12-nsfixup-default.patch",
                       lambda a: doc_good(a, ("1", "nsdecl")) and a.get("res") == "1")
    a = parse_doc_answer(W["F47"])
    known_or_violation("F47", a.get("ser") == "ok" and a.get("reparse") == "ok" and a.get("eq") == "0",
                       "a CR (XML 1.1: also NEL, LSEP) inside a CDATA section, a comment or PI data is written "
                       "literally (no reference is possible there, no DOMError is raised, a CDATA section is not "
                       "split around it) and re-parses as LF (witness: CDATA 'a CR b', comment 'c CR d')",
                       {"request": WITNESS["F47"], "impl": W["F47"][:800], "what": "CR in CDATA/comment becomes LF"})
    a = parse_doc_answer(W["F49"])
    known_or_violation("F49", a.get("ser") == "ok" and a.get("reparse") != "ok",
                       "with an ICU-provided output encoding (KOI8-R) a supplementary character is written as a "
                       "reference to its low surrogate alone (&#xDE00;): ill-formed output, no error (ICU's "
                       "canTranscodeTo is asked about single UTF-16 units); ICU encodings are therefore excluded from "
                       "the generated document configurations",
                       {"request": WITNESS["F49"], "impl": W["F49"][:800], "what": "lone surrogate reference (ICU encoding)"})
    a = parse_doc_answer(W["F51"])
    known_or_violation("F51", a.get("ser") == "ok" and a.get("reparse") != "ok",
                       "DOMLSSerializer's own namespace fix-up: when an element and one of its attributes (or two "
                       "attributes) use the same prefix for different namespaces and carry no xmlns attributes, the "
                       "prefix is declared twice on the element (witness: p:x{urn:u2} with attribute p:a{urn:u1} -> "
                       "xmlns:p twice): ill-formed output; normalizeDocument() resolves this case with an NSn prefix",
                       {"request": WITNESS["F51"], "impl": W["F51"][:800], "what": "duplicate xmlns declaration"})
    a = parse_doc_answer(W["F52"])
    known_or_violation("F52", a.get("ser") == "ok" and a.get("reparse") == "ok" and a.get("res") == "0",
                       "DOMLSSerializer's own namespace fix-up ignores an attribute that has a namespace but no prefix: "
                       "it is written unprefixed and re-parses into no namespace (witness: attribute a{urn:u1} without "
                       "prefix); normalizeDocument() gives it a prefix",
                       {"request": WITNESS["F52"], "impl": W["F52"][:800], "what": "attribute namespace lost"})
    nsgood = lambda a: (a.get("norm") == "ok" and a.get("ser") == "ok" and a.get("reparse") == "ok" and a.get("res") == "1"
                        and a.get("eq") in ("1", "nsdecl") and a.get("idem") in ("1", "reordered"))
    fixed_or_violation("F53", "normalizeDocument(): an attribute in the namespace that is bound as default namespace is given "
                       "the empty prefix and loses its namespace; repair: fixes/C12-normalizer-scope.patch", nsgood)
    fixed_or_violation("F54", "normalizeDocument() throws NoSuchElementException when two prefixes bound to one URI are both "
                       "rebound; repair: fixes/C12-normalizer-scope.patch", nsgood)
    a = parse_doc_answer(W["F46"])
    known_or_violation("F46", a.get("ser") == "ok" and (a.get("reparse") != "ok" or a.get("eq") == "0"),
                       "the Windows-1252 / IBM037 / IBM1047 / IBM1140 to-tables contain best-fit entries (U+FF01..U+FF5E "
                       "-> ASCII, ...): canTranscodeTo reports them representable and they are written as a different "
                       "character, e.g. U+FF1C becomes a literal '<' in text (witness: text a U+FF1C b U+FF1E in "
                       "WINDOWS-1252); %d such entries in the Windows-1252 table" % len(lossy.get("win1252", ())),
                       {"request": WITNESS["F46"], "impl": W["F46"][:800], "what": "best-fit transcoding changes characters"})
    f46 = [0]

    def bestfit_case(req):
        a_ = req.split()
        return a_[1] in lossy and any(u in lossy[a_[1]] for u in unhex(a_[5], 4))

    a = parse_doc_answer(W["F55"])
    known_or_violation("F55", a.get("ser") == "ok" and a.get("reparse") == "ok" and a.get("eq") == "0",
                       "processing-instruction data that begins with white space is written after the separating blank "
                       "and read back without it (witness: PI data ' a'); no DOMError",
                       {"request": WITNESS["F55"], "impl": W["F55"][:800], "what": "PI data loses leading white space"})
    f44_open = W["F44"] == "hang" and ctx.find_known("F44") is not None
    if W["F44"] != "hang" and W["F44"] != WM["F44"]:
        violation("divergence", {"request": WITNESS["F44"], "impl": W["F44"], "model": WM["F44"],
                                 "what": "formatBuf of a run ending in an unpaired high surrogate: neither the old loop nor "
                                         "the TranscodingException of the repair"})
    known_or_violation("F44", W["F44"] == "hang" and WM["F44"] in ("err HANG", "err Trans_BadSrcSeq"),
                       "XMLFormatter::handleUnEscapedChars loops forever when the transcoder consumes nothing: a run "
                       "that ends in an unpaired high surrogate with UTF-8 output (witness: formatBuf of 0061 D800)",
                       {"request": WITNESS["F44"], "impl": W["F44"], "what": "formatter does not terminate"})

    # ---------------------------------------------------------------------------------------------
    # 1. formatter level: impl vs extracted model
    # ---------------------------------------------------------------------------------------------
    cases = gen_fmt_cases(ctx)
    lines = [c[1] for c in cases]
    tf0 = time.time()
    rc2, model, err2 = run_bin_par(xm, lines)
    tf1 = time.time()
    if rc2 != 0 or len(model) != len(lines):
        ctx.violation("model-crash", {"what": "model driver crashed", "stderr": err2[-2000:]}, no_input=True)
        return
    # requests on which the model predicts non-termination are not sent to the library (one witness is, above)
    no_progress = (lambda m: "HANG" in m or "Trans_BadSrcSeq" in m) if f44_open else (lambda m: "HANG" in m)
    keep = [i for i, m in enumerate(model) if not no_progress(m)]
    skipped_hang = len(lines) - len(keep)
    cases = [cases[i] for i in keep]
    lines = [lines[i] for i in keep]
    model = [model[i] for i in keep]
    rc1, impl, err1 = run_bin(xh, lines, restart_on_hang=True)
    ctx.note("formatter level timing: setup %.1fs, model %.1fs, impl %.1fs" % (tf0 - t0, tf1 - tf0, time.time() - tf1))
    if rc1 != 0 or len(impl) != len(lines):
        ctx.violation("harness-crash", {"what": "implementation harness crashed or lost lines", "rc": rc1,
                                        "stderr": err1[-2000:], "answered": len(impl), "asked": len(lines),
                                        "request": lines[len(impl)] if len(impl) < len(lines) else None})
        return
    kinds = {}
    divergences = []
    nsingle = 0
    for (kind, req), i, m in zip(cases, impl, model):
        kinds[kind] = kinds.get(kind, 0) + 1
        if kind == "sweep":
            ia, ma = i[3:].split(","), m[3:].split(",")
            a = req.split()
            nsingle += len(ia)
            ctx.count(len(ia))
            ctx.distinct(req)
            if i != m:
                first = int(a[5])
                for k in range(max(len(ia), len(ma))):
                    x = ia[k] if k < len(ia) else None
                    y = ma[k] if k < len(ma) else None
                    if x != y:
                        divergences.append(("sweep1", "fmt %s %s %s %s %04X" % (a[1], a[2], a[3], a[4], first + k),
                                            "ok " + x if x and not x.startswith("!") else "err " + (x or "")[1:],
                                            "ok " + y if y and not y.startswith("!") else "err " + (y or "")[1:]))
        else:
            ctx.count()
            u = unhex(req.split()[5], 4)
            if any(c in MARKUP + [9, 10, 13] or c > 0x7F for c in u):
                ctx.distinct(req)
            if i != m:
                divergences.append((kind, req, i, m))
    ctx.coverage["traces_validated_against_impl"] = len(lines)
    ctx.coverage["single_unit_formatBuf_calls"] = nsingle
    # Spec oracle: decode the implementation's bytes, un-escape them as a parser would, compare with the input
    def norm_cr(units):
        """what a parser reports for literal text: CR LF and CR become LF (XML 2.11)"""
        out, i = [], 0
        while i < len(units):
            if units[i] == 13:
                out.append(10)
                i += 2 if i + 1 < len(units) and units[i + 1] == 10 else 1
            else:
                out.append(units[i])
                i += 1
        return out

    def spec_requests(req, ans):
        """the Spec request that judges the implementation's answer: modes Std/Char are read as character data, Attr as
        an attribute value (NoEscapes is judged in spec_verdict without the Spec: the text must be unchanged)"""
        a = req.split()
        enc, mode, unrep, ver, hx = a[1], a[2], a[3], a[4], a[5]
        if mode not in ("1", "2", "3") or not ans.startswith("ok"):
            return None
        bs = unhex(ans.split()[1], 2) if len(ans.split()) > 1 else []
        dec = decode_bytes(enc, bs)
        if dec is None:
            return None
        return "unesc %s %s %s" % ("1" if mode == "2" else "0", ver, H(dec))

    def encodable(enc, units):
        try:
            "".join(chr(u) for u in units).encode(PYCODEC[enc], "surrogatepass")
            return True
        except Exception:
            return False

    def spec_verdict(req, ans, sans, xmlok):
        """'ok' | 'violates' | 'na'"""
        a = req.split()
        enc, mode, hx = a[1], a[2], a[5]
        if xmlok != "ok 1":
            return "na"          # the input is not a string of XML characters: nothing is promised at this level
        if ans.startswith("err"):
            return "ok" if a[3] == "0" else "violates"      # UnRep_Fail may refuse; UnRep_CharRef must not
        if mode == "0":
            # NoEscapes: the text is written unchanged (characters the encoding lacks become references: not judged)
            units = unhex(hx, 4)
            if not encodable(enc, units) or enc == "win1252":
                return "na"
            dec = decode_bytes(enc, unhex(ans.split()[1], 2) if len(ans.split()) > 1 else [])
            return "ok" if dec == units else "violates"
        if sans is None:
            return "na"
        if mode == "1":
            # StdEscapes protects & < > " ' but not CR: read back as character data, line ends normalised
            return "ok" if sans == "some " + H(norm_cr(unhex(hx, 4))) else "violates"
        return "ok" if sans == "some " + hx else "violates"

    unexplained = []
    for kind, req, i, m in divergences[:300]:
        sreq = spec_requests(req, i)
        _, so, _ = run_bin(xm, [sreq or "bad", "xmlstring %s %s" % (req.split()[4], req.split()[5])])
        verdict = spec_verdict(req, i, so[0] if sreq else None, so[1])
        if verdict == "violates":
            _, oldm, _ = run_bin(xm, [req.replace("fmt ", "fmtold ", 1)])
            violation("divergence", {"request": req, "impl": i[:600], "model": m[:600], "kind": kind,
                                     "spec": "unescape_parse(decoded output) = %s, input %s" % (so[0][:300], req.split()[5]),
                                     "matches_unrepaired_model": oldm[0] == i,
                                     "what": "XMLFormatter output differs from the model and does not re-parse to the "
                                             "input (F17 when the character is U+0085/U+2028 in XML 1.1)"})
        else:
            unexplained.append((kind, req, i, m))
    # (divergences that do not violate the Spec are reported after the remaining searches of this level, see 1b)
    # the same oracle on a seeded sample of agreeing cases, and on all single units of modes 2/3 via the sweep rows
    idx = [k for k, c in enumerate(cases) if c[0] != "sweep"]
    ctx.rng.shuffle(idx)
    sample = idx[:4000 if ctx.tier == "quick" else 40000]
    sreqs, owners = [], []
    for k in sample:
        sreq = spec_requests(cases[k][1], impl[k])
        sreqs.append(sreq or "bad")
        sreqs.append("xmlstring %s %s" % (cases[k][1].split()[4], cases[k][1].split()[5]))
        owners.append(k)
    # sweep rows: rebuild per-unit requests for modes 2 and 3, unrep 1 (quick: all below U+3000, every 16th above)
    seed16 = ctx.rng.randrange(16)
    for k, (kind, req) in enumerate(cases):
        if kind != "sweep":
            continue
        a = req.split()
        if a[2] not in ("1", "2", "3") or a[3] != "1":
            continue
        first = int(a[5])
        for j, ans in enumerate(impl[k][3:].split(",")):
            if ans.startswith("!") or (ctx.tier == "quick" and first + j >= 0x3000 and (first + j) % 16 != seed16):
                continue
            one = "fmt %s %s %s %s %04X" % (a[1], a[2], a[3], a[4], first + j)
            sreq = spec_requests(one, "ok " + ans)
            sreqs.append(sreq or "bad")
            sreqs.append("xmlstring %s %04X" % (a[4], first + j))
            owners.append((one, "ok " + ans))
    _, sout, _ = run_bin(xm, sreqs)
    spec_checked = 0
    for n, owner in enumerate(owners):
        req, ans = (cases[owner][1], impl[owner]) if isinstance(owner, int) else owner
        sans, xmlok = sout[2 * n], sout[2 * n + 1]
        verdict = spec_verdict(req, ans, None if sreqs[2 * n] == "bad" else sans, xmlok)
        if verdict != "na":
            spec_checked += 1
        if verdict == "violates" and bestfit_case(req) and ctx.find_known("F46"):
            f46[0] += 1
            continue
        if verdict == "violates":
            violation("spec", {"request": req, "impl": ans[:600], "spec": sans[:300],
                               "what": "XMLFormatter output (agreeing with the model) does not un-escape to the input"})
    if f46[0]:
        ctx.known_hits = [h + (" ; %d formatter requests of this class" % f46[0] if h.startswith("F46:") else "")
                          for h in ctx.known_hits]
    ctx.note("formatter level: %d requests (%d single units), %d divergences, %d spec-checked, %d skipped (model "
             "predicts non-termination), %.1fs" % (len(lines), nsingle, len(divergences), spec_checked, skipped_hang,
                                                   time.time() - t0))

    # ---------------------------------------------------------------------------------------------
    # 1b. one XMLFormatter object, several formatBuf calls (each with its own escape mode): per step impl = model,
    #     and the Spec oracle on every step
    # ---------------------------------------------------------------------------------------------
    t1b = time.time()
    fq = gen_fseq_cases(ctx)
    _, fqm, _ = run_bin(xm, fq)
    keepq = [i for i, m in enumerate(fqm) if not no_progress(m)]
    fq = [fq[i] for i in keepq]
    fqm = [fqm[i] for i in keepq]
    rcq, fqi, errq = run_bin(xh, fq, restart_on_hang=True)
    if rcq != 0 or len(fqi) != len(fq):
        ctx.violation("harness-crash", {"what": "implementation harness crashed or lost lines (fseq)", "rc": rcq,
                                        "stderr": errq[-2000:], "request": fq[len(fqi)] if len(fqi) < len(fq) else None})
        return
    sq_reqs, sq_owner = [], []
    for req, i, m in zip(fq, fqi, fqm):
        ctx.count()
        ctx.distinct(req)
        a = req.split()
        ia, ma = i.split()[1:], m.split()[1:]
        njobs = (len(a) - 4) // 2
        for j in range(njobs):
            x = ia[j] if j < len(ia) else "?"
            y = ma[j] if j < len(ma) else "?"
            one = "fmt %s %s %s %s %s" % (a[1], a[4 + 2 * j], a[2], a[3], a[5 + 2 * j])
            ans = ("err " + x[1:]) if x.startswith("!") else ("ok " + x)
            sreq = spec_requests(one, ans)
            sq_reqs += [sreq or "bad", "xmlstring %s %s" % (a[3], a[5 + 2 * j])]
            sq_owner.append((req, j, one, ans, ("err " + y[1:]) if y.startswith("!") else ("ok " + y), sreq))
    _, sq_out, _ = run_bin(xm, sq_reqs)
    fq_div = 0
    for n, (req, j, one, ans, mans, sreq) in enumerate(sq_owner):
        verdict = spec_verdict(one, ans, None if sreq is None else sq_out[2 * n], sq_out[2 * n + 1])
        if verdict != "na":
            spec_checked += 1
        if ans != mans:
            fq_div += 1
        if verdict == "violates" and bestfit_case(one) and ctx.find_known("F46"):
            f46[0] += 1
        elif verdict == "violates":
            violation("divergence" if ans != mans else "spec",
                      {"request": req, "step": j, "as_single_call": one, "impl": ans[:600], "model": mans[:600],
                       "spec": sq_out[2 * n][:300],
                       "what": "one XMLFormatter object, several formatBuf calls: the output of this step does not read "
                               "back as its input (escape mode / reference cache)"})
        elif ans != mans:
            unexplained.append(("fseq", req, ans, mans))
    if unexplained and not viol[0]:
        k_, req, i, m = unexplained[0]
        ctx.violation("correspondence", {"what": "model and XMLFormatter differ but the Spec oracle found no failing input: "
                                         "correspondence xh_C12~xm_C12 no longer checks",
                                         "request": req, "impl": i[:600], "model": m[:600], "count": len(unexplained)},
                      no_input=True)
        viol[0] += 1
    kinds["fseq"] = len(fq)
    ctx.coverage["traces_validated_against_impl"] += len(fq)
    ctx.note("formatter sequences: %d requests, %d differing steps, %.1fs" % (len(fq), fq_div, time.time() - t1b))

    # ---------------------------------------------------------------------------------------------
    # 2. document level
    # ---------------------------------------------------------------------------------------------
    t1 = time.time()
    rng = ctx.rng
    # canTranscodeTo of the real transcoders for the generator alphabet
    alphabet = sorted(set(MARKUP + WS + LETTERS + NONASCII + LINE11 + SUPP + CTRL + ILLEGAL + NAME_START + NAME_MORE +
                          NAME_NONASCII + list(range(0x20, 0x100)) + [0x3A, 0x78, 0x70, 0x71]))
    all_encs = ENCS + ENCS_DOC_ONLY
    creq = ["can %s %d" % (e, c) for e in all_encs for c in alphabet]
    _, cans, _ = run_bin(xh, creq)
    can_tab = {}
    for r_, a_ in zip(creq, cans):
        _, e, c = r_.split()
        can_tab[(e, int(c))] = a_ == "ok 1"

    def can(enc, c):
        if (enc, c) in can_tab:
            return can_tab[(enc, c)]
        if enc in ("utf8", "utf16", "utf16le", "utf16be"):
            return True
        if c >= 0x10000:
            return False
        if enc == "latin1":
            return c < 256
        if enc == "ascii":
            return c < 128
        return None     # unknown: the case is generated only from the alphabet, except random BMP units

    ntrees = 2500 if ctx.tier == "quick" else 40000
    dcases = []
    for t in range(ntrees):
        ns = rng.random() < 0.4
        ver11 = rng.random() < 0.3
        tr = Tree(rng, ns, ver11, bad_rate=0.08 if rng.random() < 0.35 else 0.0)
        body = tr.document()
        for _ in range(4):
            enc = rng.choice(all_encs if rng.random() < 0.25 else ENCS)
            x = 0 if (not ver11 and enc == "utf8" and rng.random() < 0.3) else 1
            b = 1 if (enc in ("utf8", "utf16", "utf16le", "utf16be") and rng.random() < 0.3) else 0
            feats = "x%ds%dd%db%dn%d" % (x, 0 if rng.random() < 0.2 else 1, rng.choice([0, 1]), b, 1 if ns else 0)
            dcases.append((tr, enc, feats, "doc %s %s %s %s" % (enc, feats, "11" if ver11 else "10", body)))
    dlines = [c[3] for c in dcases]
    rc1, dimpl, err1 = run_bin(xh, dlines, restart_on_hang=True)
    if rc1 != 0 or len(dimpl) != len(dlines):
        ctx.violation("harness-crash", {"what": "implementation harness crashed or lost lines (document level)", "rc": rc1,
                                        "stderr": err1[-2000:], "answered": len(dimpl), "asked": len(dlines),
                                        "request": dlines[len(dimpl)][:3000] if len(dimpl) < len(dlines) else None})
        return
    midx = [k for k, c in enumerate(dcases) if not c[0].ns and c[1] in ENCS]
    rc2, dmodel, err2 = run_bin(xm, [dlines[k] for k in midx])
    if rc2 != 0 or len(dmodel) != len(midx):
        ctx.violation("model-crash", {"what": "model driver crashed (document level)", "stderr": err2[-2000:]}, no_input=True)
        return
    dmodel = dict(zip(midx, dmodel))
    stats = {"serialisable": 0, "unserialisable": 0, "eq": 0, "eq-merged": 0, "eq-nsdecl": 0, "error-reported": 0,
             "model-compared": 0, "known-class": 0}
    known_hits = {}
    ddiv = 0
    for k, ((tr, enc, feats, req), ans) in enumerate(zip(dcases, dimpl)):
        ctx.count()
        unknown = any(can(enc, c) is None for lst in (tr.data + tr.cdata + tr.comments + tr.names + tr.attr_names +
                                                      [d for _, d in tr.pis]) for c in lst)
        if ans == "hang":
            violation("divergence", {"request": req, "impl": "hang", "what": "serializer does not return", "expect": "error"})
            continue
        if ans.startswith("build-exc"):
            stats["build-rejected"] = stats.get("build-rejected", 0) + 1
            continue
        a = parse_doc_answer(ans)
        ok_ser, reasons, split_needed = classify(tr, enc, feats, lambda e, c: can(e, c) is not False)
        if tr.nodes > 1:
            ctx.distinct(req)
        # --- model comparison (DOM level 1 trees, modelled encodings)
        open_class = (f40_open and "comment-dashes" in reasons) or (f41_open and "pi-end" in reasons)
        if k in dmodel and not open_class:
            stats["model-compared"] += 1
            m = dmodel[k]
            if m.startswith("ok ") and "b1" in feats:
                m = "ok " + {"utf8": "EFBBBF", "utf16": "FFFE"}.get(enc, "") + m[3:]
            agree = (m.startswith("ok ") and a.get("ser") == "ok" and a.get("bytes") == m[3:]) or \
                    (m.startswith("err unrepresentable") and a.get("ser") == "fail") or \
                    (m.startswith("err invalid-char") and a.get("ser", "").startswith("exc:DOMLSException")) or \
                    (m.startswith("err nested-cdata") and a.get("ser", "").startswith("exc:DOMLSException"))
            if not agree:
                ddiv += 1
                good = doc_good(a, ("1", "merged")) or a.get("ser") != "ok"
                if not good or ddiv <= 1:
                    tag = "divergence" if not good else "correspondence"
                    if tag == "divergence" or not viol[0]:
                        if tag == "correspondence":
                            ctx.violation(tag, {"request": req, "impl": ans[:1500], "model": m[:1500],
                                                "what": "serializer model and DOMLSSerializer differ; the document-level "
                                                        "oracle is satisfied on this input"}, no_input=True)
                            viol[0] += 1
                        else:
                            violation(tag, {"request": req, "impl": ans[:1500], "model": m[:1500],
                                            "what": "DOMLSSerializer differs from the model and the round trip fails"})
        if unknown:
            continue
        # --- the property's own oracle
        if ok_ser:
            stats["serialisable"] += 1
            allow = ["1"]
            if split_needed:
                allow.append("merged")
            if tr.ns:
                # namespace fix-up may add declarations (needed ones when the tree lacks them; the implementation also
                # repeats xmlns="" on descendants of an unprefixed element in no namespace): equality is then required
                # up to xmlns attributes, with every element/attribute keeping its (namespace URI, name)
                allow += ["nsdecl"] + (["merged+nsdecl"] if split_needed else [])
            if doc_good(a, tuple(allow)):
                stats["eq" if a["eq"] == "1" else "eq-" + a["eq"].replace("merged+", "")] += 1
            elif tr.f50 and ctx.find_known("F50") and a.get("ser") == "ok" and a.get("reparse") == "ok":
                stats["known-class"] += 1
                known_hits["F50"] = known_hits.get("F50", 0) + 1
            else:
                violation("spec", {"request": req[:6000], "impl": ans[:3000], "allowed_eq": allow, "expect": "roundtrip",
                                   "what": "serialisable tree does not survive serialise/re-parse/serialise"})
        else:
            stats["unserialisable"] += 1
            if a.get("ser") != "ok":
                stats["error-reported"] += 1
                if reasons == ["restricted11"] and ctx.find_known("F48"):
                    known_hits["F48"] = known_hits.get("F48", 0) + 1
            elif doc_good(a, ("1", "merged", "nsdecl", "merged+nsdecl")):
                pass        # e.g. an unrepresentable character that the grammar lets a reference stand for after all
            else:
                # emitted something that is ill-formed or different, without an error: attribute to the known classes
                KNOWN_CLASS = {"comment-dashes": "F40", "pi-end": "F41", "pi-leading-ws": "F55", "attrname-unrepresentable": "F45",
                               "lineend-in-cdata": "F47", "lineend-in-comment": "F47", "lineend-in-pi": "F47"}
                # (an XML 1.1 RestrictedChar in text/attribute values is no obstacle by itself: it is written as a reference)
                rs = [r for r in reasons if r != "restricted11"]
                if rs and all(r in KNOWN_CLASS and ctx.find_known(KNOWN_CLASS[r]) for r in rs):
                    stats["known-class"] += 1
                    for cls in sorted(set(KNOWN_CLASS[r] for r in rs)):
                        known_hits[cls] = known_hits.get(cls, 0) + 1
                else:
                    violation("spec", {"request": req[:6000], "impl": ans[:3000], "reasons": reasons, "expect": "error",
                                       "what": "content that cannot be expressed as well-formed XML was emitted without "
                                               "an error"})
    # tree-level Spec oracle: the extracted SpecTree12.reparse applied to the text the *library* wrote must give
    # SpecTree12.normalise of the tree (statement of T12_roundtrip, evaluated on the implementation's output)
    rt_reqs, rt_owner = [], []
    for k in midx:
        (tr, enc, feats, req), ans = dcases[k], dimpl[k]
        if not ans.startswith("ser=ok") or "b1" in feats:
            continue
        a = parse_doc_answer(ans)
        units = decode_bytes(enc, unhex(a.get("bytes", "-"), 2))
        if units is None:
            continue
        parts = req.split(" ", 4)
        rt_reqs.append("rt %s %s %s %s %s" % (parts[1], parts[2], parts[3], H(units), parts[4]))
        rt_owner.append(k)
    _, rt_out, _ = run_bin(xm, rt_reqs)
    rt_stats = {"same": 0, "na": 0, "differ": 0}
    for k, o in zip(rt_owner, rt_out):
        key = o.split()[0] if o else "differ"
        rt_stats[key if key in rt_stats else "differ"] += 1
        if key not in ("same", "na"):
            violation("spec", {"request": dcases[k][3][:6000], "impl": dimpl[k][:3000], "spec": o[:1500],
                               "what": "SpecTree12.reparse of the document the library wrote is not normalise(tree) "
                                       "(tree-level Spec oracle, statement of T12_roundtrip)"})
    stats["tree-spec-oracle"] = rt_stats
    for cls, n in sorted(known_hits.items()):
        ctx.known_hits = [h + (" ; %d generated trees of this class" % n if h.startswith(cls + ":") else "")
                          for h in ctx.known_hits]
    ctx.coverage["document_level"] = stats
    ctx.coverage["traces_validated_against_impl"] += len(dlines)
    ctx.note("document level: %d cases, %s, %.1fs" % (len(dlines), stats, time.time() - t1))
    for k in (0, len(dcases) // 2):
        ctx.sample({"kind": "doc", "request": dcases[k][3][:400], "impl": dimpl[k][:400]})
    ctx.sample({"kind": "fmt", "request": lines[-1][:200], "impl": impl[-1][:200], "model": model[-1][:200]})

    # ---------------------------------------------------------------------------------------------
    # 2b. DocumentType nodes (ModelDt12.v / SpecDt12.v) and the encoding / version selection of write()
    # ---------------------------------------------------------------------------------------------
    t1c = time.time()
    a56 = parse_doc_answer(W["F56"])
    f56_open = a56.get("ser") == "ok" and a56.get("reparse") != "ok" and ctx.find_known("F56") is not None
    known_or_violation("F56", a56.get("ser") == "ok" and a56.get("reparse") != "ok",
                       "a DocumentType whose system identifier contains a double quote (legal: a parser reports it for "
                       "<!DOCTYPE r SYSTEM 'x\"y'>) is written between double quotes: ill-formed output, no DOMError; "
                       "identifiers that cannot be written as a literal at all (both kinds of quote, non-PubidChar in the "
                       "public id, non-Char in the system id) are emitted too; repair proposed: "
                       "fixes/C12-doctype-literals.patch (witness: system id x\"y)",
                       {"request": WITNESS["F56"], "impl": W["F56"][:800], "expect": "roundtrip",
                        "what": "DOCTYPE with a double quote in the system identifier is emitted ill-formed"})
    PUBID = [0x20, 0x61, 0x7A, 0x41, 0x5A, 0x30, 0x39] + [ord(c) for c in "-'()+,./:=?;!*#@$_%"]
    NOT_PUBID = [0x22, 0x3C, 0x3E, 0x26, 0x7B, 0x5C, 0x5E, 0xE9, 0x09, 0x7E, 0x5B, 0x60]
    SYSCH = [0x61, 0x2E, 0x2F, 0x3A, 0x20, 0x26, 0x3C, 0x3E, 0x5D, 0x5B, 0x25, 0x23]
    ndt = 400 if ctx.tier == "quick" else 6000
    dtcases = []
    for t in range(ndt):
        name = [rng.choice(NAME_START)] + [rng.choice(NAME_START + NAME_MORE) for _ in range(rng.randrange(0, 4))]
        if rng.random() < 0.06:
            name.append(rng.choice(NAME_NONASCII))
        pub = None
        if rng.random() < 0.55:
            pub = [rng.choice(PUBID) for _ in range(rng.randrange(1, 8))]
            if rng.random() < 0.15:
                pub.insert(rng.randrange(0, len(pub) + 1), rng.choice(NOT_PUBID))
        sysid = None
        if rng.random() < 0.88:
            sysid = [rng.choice(SYSCH) for _ in range(rng.randrange(1, 8))]
            k = rng.random()
            if k < 0.25:
                sysid.insert(rng.randrange(0, len(sysid) + 1), 0x22)
            elif k < 0.45:
                sysid.insert(rng.randrange(0, len(sysid) + 1), 0x27)
            elif k < 0.55:
                sysid.insert(rng.randrange(0, len(sysid) + 1), 0x22)
                sysid.insert(rng.randrange(0, len(sysid) + 1), 0x27)
            if rng.random() < 0.08:
                sysid.insert(rng.randrange(0, len(sysid) + 1), rng.choice([0xE9, 0x20AC, 0x152]))
            if rng.random() < 0.05:
                sysid.insert(rng.randrange(0, len(sysid) + 1), rng.choice([0x1, 0xFFFE, 0x1F]))
        enc = rng.choice(ENCS)
        ver = "11" if rng.random() < 0.25 else "10"
        body = "%s x1s1d1b0n0e1 %s D 2 Y %s %s %s E - %s 0 0" % (enc, ver, H(name), H(pub) if pub else "-",
                                                                H(sysid) if sysid else "-", H(name))
        dtcases.append((name, pub or [], sysid or [], enc, ver, body))
    dtlines = ["doc " + c[5] for c in dtcases]
    rcd, dtimpl, errd = run_bin(xh, dtlines, restart_on_hang=True)
    if rcd != 0 or len(dtimpl) != len(dtlines):
        ctx.violation("harness-crash", {"what": "implementation harness crashed or lost lines (doctype)", "rc": rcd,
                                        "stderr": errd[-2000:], "answered": len(dtimpl), "asked": len(dtlines),
                                        "request": dtlines[len(dtimpl)][:3000] if len(dtimpl) < len(dtlines) else None})
        return
    _, dtmodel, _ = run_bin(xm, [("docdq0 " if f56_open else "doc ") + c[5] for c in dtcases])
    _, pubtab, _ = run_bin(xm, ["pubid %d" % c for c in range(0, 256)])
    is_pubid = lambda c: c < 256 and pubtab[c] == "ok 1"
    dtstats = {"cases": len(dtlines), "expressible": 0, "roundtrip": 0, "refused": 0, "model-equal": 0, "spec-oracle-same": 0,
               "known-class": 0, "single-quoted": 0}
    dt_spec_req, dt_spec_own = [], []
    dt_known = 0
    for k, ((name, pub, sysid, enc, ver, body), ans) in enumerate(zip(dtcases, dtimpl)):
        ctx.count()
        ctx.distinct(dtlines[k])
        if ans.startswith("build-exc"):
            continue
        a = parse_doc_answer(ans)
        v11 = ver == "11"
        reasons = []
        if any(not is_pubid(c) for c in pub):
            reasons.append("pubid-char")
        if 0x22 in sysid and 0x27 in sysid:
            reasons.append("both-quotes")
        if not valid_units(sysid, v11):
            reasons.append("sysid-not-char")
        if pub and not sysid:
            reasons.append("public-without-system")
        if any(can(enc, c) is False for c in name + pub + sysid):
            reasons.append("unrepresentable")
        f56_class = f56_open and (0x22 in sysid or "pubid-char" in reasons or "sysid-not-char" in reasons)
        m = dtmodel[k] if k < len(dtmodel) else "missing"
        magree = (m.startswith("ok ") and a.get("ser") == "ok" and a.get("bytes") == m[3:]) or \
                 (m.startswith("err unrepresentable") and a.get("ser") == "fail") or \
                 (m.startswith("err invalid-char") and a.get("ser", "").startswith("exc:DOMLSException"))
        if magree:
            dtstats["model-equal"] += 1
        eq = a.get("eq")
        if eq == "0" and " orig=" in ans and " got=" in ans:
            # a DocumentType built through the API has a null publicId / systemId where the parser reports an empty string
            o_, g_ = ans.split(" orig=")[1].split(" got=")
            if o_.replace("~", "-") == g_.replace("~", "-"):
                eq = "1"
        good_rt = a.get("ser") == "ok" and a.get("reparse") == "ok" and eq == "1" and a.get("idem") == "1"
        bad = None
        if not reasons:
            dtstats["expressible"] += 1
            if good_rt:
                dtstats["roundtrip"] += 1
                if 0x22 in sysid:
                    dtstats["single-quoted"] += 1
                units = decode_bytes(enc, unhex(a.get("bytes", "-"), 2))
                if units is not None and 0x3E in units:
                    dt_spec_req.append("dtspec " + H(units[units.index(0x3E) + 1:]))
                    dt_spec_own.append(k)
            elif f56_class and a.get("ser") == "ok":
                dtstats["known-class"] += 1
                dt_known += 1
            else:
                bad = ("roundtrip", "a DocumentType that XML can express does not survive serialise/re-parse/serialise")
        else:
            if a.get("ser") != "ok":
                dtstats["refused"] += 1
            elif f56_class:
                dtstats["known-class"] += 1
                dt_known += 1
            elif good_rt:
                pass
            else:
                bad = ("error", "a DocumentType that cannot be written as well-formed XML was emitted without an error")
        if bad:
            violation("divergence" if not magree else "spec",
                      {"request": dtlines[k], "impl": ans[:2000], "model": m[:800], "reasons": reasons, "expect": bad[0],
                       "what": bad[1]})
        elif not magree and not viol[0]:
            ctx.violation("correspondence", {"request": dtlines[k], "impl": ans[:1500], "model": m[:800],
                                             "what": "doctype model (ModelDt12.ser_doctype) and DOMLSSerializer differ; the "
                                                     "document-level oracle is satisfied on this input"}, no_input=True)
            viol[0] += 1
    _, dt_spec_out, _ = run_bin(xm, dt_spec_req)
    for k, o in zip(dt_spec_own, dt_spec_out):
        name, pub, sysid = dtcases[k][0], dtcases[k][1], dtcases[k][2]
        want = "some %s %s %s - %s" % (H(name), H(pub) if pub else "-", H(sysid) if sysid else "-", H([0x3C] + name + [0x2F, 0x3E]))
        if o == want:
            dtstats["spec-oracle-same"] += 1
        else:
            violation("spec", {"request": dtlines[k], "impl": dtimpl[k][:2000], "spec": o[:800], "want": want, "expect": "roundtrip",
                               "what": "SpecDt12.parse_doctype of the declaration the library wrote is not the DocumentType "
                                       "(statement of T12_doctype_roundtrip on the implementation's output)"})
    if dt_known:
        ctx.known_hits = [h + (" ; %d generated DocumentTypes of this class" % dt_known if h.startswith("F56:") else "")
                          for h in ctx.known_hits]
    # documents parsed from source: DOCTYPE with single-quoted literals and an internal subset
    srcs = []
    for sysid, sub in (('x"y', ""), ("a'b", '<!ENTITY e "v">'), ('p"q', "<!ELEMENT r ANY><!ATTLIST r k CDATA 'd\"q'>"),
                       ("plain.dtd", "<!-- c --><!ENTITY % pe 'x'>")):
        q = "'" if '"' in sysid else '"'
        for pub in (None, "-//X//Y 'z'//EN"):
            ext = ("PUBLIC \"%s\" %s%s%s" % (pub, q, sysid, q)) if pub else ("SYSTEM %s%s%s" % (q, sysid, q))
            txt = "<!DOCTYPE r %s%s><r>t</r>" % (ext, (" [%s]" % sub) if sub else "")
            srcs.append((sysid, "src utf8 x1s1d0b0n0e1 " + "".join("%02X" % b for b in txt.encode("ascii")), sub))
    _, simpl_, _ = run_bin(xh, [q_[1] for q_ in srcs], restart_on_hang=True)
    dtstats["parsed-sources"] = len(srcs)
    f57_seen = False
    for (sysid, rq, sub), ans in zip(srcs, simpl_):
        ctx.count()
        a = parse_doc_answer(ans)
        if doc_good(a):
            dtstats["parsed-sources-ok"] = dtstats.get("parsed-sources-ok", 0) + 1
        elif f56_open and '"' in sysid and a.get("ser") == "ok":
            dtstats["known-class"] += 1
        elif ("<!--" in sub or "<!ENTITY %" in sub) and ctx.find_known("F57") and a.get("ser") == "ok" and a.get("reparse") == "ok":
            dtstats["known-class"] += 1
            if not f57_seen:
                f57_seen = True
                ctx.known_finding("F57", "the internal subset a parsed DocumentType reports (getInternalSubset, rebuilt by "
                                  "AbstractDOMParser) is not the subset that was read: a comment <!-- c --> gains a blank on "
                                  "each side on every parse (doctypeComment) and a parameter-entity declaration <!ENTITY % pe "
                                  "'x'> is recorded without the '%' (entityDecl); the serializer re-emits that text, so the "
                                  "re-parsed document is not isEqualNode and the second serialisation differs")
        else:
            violation("spec", {"request": rq, "impl": ans[:2000], "expect": "roundtrip",
                               "what": "a parsed document with a DOCTYPE does not survive serialise/re-parse/serialise"})
    # encoding / version selection: LSOutput.encoding, Document.inputEncoding, Document.xmlEncoding, UTF-8; writeToString
    NAMES = ["-", "UTF-8", "ISO-8859-1", "US-ASCII", "UTF-16", "windows-1252", "utf-8"]
    ereqs = []
    for o_ in NAMES:
        for i_ in NAMES[:5]:
            for x_ in NAMES[:5]:
                for v_ in ("-", "1.0", "1.1"):
                    for ts in ("0", "1"):
                        if ts == "1" and rng.random() < 0.7:
                            continue
                        ereqs.append("encsel %s %s %s %s %s" % tuple([HS(n) if n != "-" else "-" for n in (o_, i_, x_, v_)] + [ts]))
    _, eimpl, _ = run_bin(xh, ereqs, restart_on_hang=True)
    _, emodel, _ = run_bin(xm, ereqs)
    esel = {"requests": len(ereqs), "agree": 0}
    for rq, i_, m_ in zip(ereqs, eimpl, emodel):
        ctx.count()
        ctx.distinct(rq)
        # the model answers "ok <version> <encoding> <10|11>"; the harness "ok <version> <encoding> <bytes>"
        if i_.split()[:3] == m_.split()[:3] and i_.startswith("ok "):
            esel["agree"] += 1
        else:
            # Spec: the order of DOM L3 LS (first non-empty of LSOutput.encoding, inputEncoding, xmlEncoding, else UTF-8)
            f = rq.split()
            want = next((n for n in f[1:4] if n != "-"), HS("UTF-8")) if f[5] == "0" else HS("UTF-16")
            got = i_.split()[2] if i_.startswith("ok ") and len(i_.split()) > 2 else None
            if got != want:
                violation("divergence", {"request": rq, "impl": i_[:600], "model": m_, "want_encoding": want, "expect": "encsel",
                                         "what": "write()/writeToString did not use the encoding DOM L3 LS prescribes"})
            elif not viol[0]:
                ctx.violation("correspondence", {"request": rq, "impl": i_[:600], "model": m_,
                                                 "what": "encoding/version selection differs from the model"}, no_input=True)
                viol[0] += 1
    ctx.coverage["doctype"] = dtstats
    ctx.coverage["encoding_selection"] = esel
    ctx.coverage["traces_validated_against_impl"] += len(dtlines) + len(srcs) + len(ereqs)
    ctx.note("doctype: %s; encoding selection: %s, %.1fs" % (dtstats, esel, time.time() - t1c))

    # ---------------------------------------------------------------------------------------------
    # 3. namespace fix-up on API-built trees: (a) DOMLSSerializer's own fix-up, (b) normalizeDocument() first
    # ---------------------------------------------------------------------------------------------
    t2 = time.time()
    ncases = gen_ns_cases(ctx)
    nlines = [c[2] for c in ncases]
    rc1, nimpl, err1 = run_bin(xh, nlines, restart_on_hang=True)
    if rc1 != 0 or len(nimpl) != len(nlines):
        ctx.violation("harness-crash", {"what": "implementation harness crashed or lost lines (namespace fix-up)", "rc": rc1,
                                        "stderr": err1[-2000:], "answered": len(nimpl), "asked": len(nlines),
                                        "request": nlines[len(nimpl)][:3000] if len(nimpl) < len(nlines) else None})
        return
    nstats = {"serializer-fixup-ok": 0, "normalizeDocument-ok": 0, "reordered": 0, "known-class": 0, "rebound-prefix": 0}
    nknown = {}
    for (t, z, req), ans in zip(ncases, nimpl):
        ctx.count()
        if t.nelem > 1:
            ctx.distinct(req)
        if t.rebound:
            nstats["rebound-prefix"] += 1
        a = parse_doc_answer(ans)
        # route (b): Node.normalize() removes the empty Text child of an attribute whose value is "" (DOM Core; the
        # parser gives such an attribute an empty Text child): the same attribute value, a division of (no) text only
        eq_ok = ("1", "nsdecl", "merged", "merged+nsdecl") if (z and t.empty_attr) else ("1", "nsdecl")
        good = (a.get("ser") == "ok" and a.get("reparse") == "ok" and a.get("res") == "1" and
                a.get("eq") in eq_ok and a.get("idem") in (("1", "reordered") if z else ("1",)))
        if z:
            good = good and a.get("norm") == "ok"
        if good:
            nstats["normalizeDocument-ok" if z else "serializer-fixup-ok"] += 1
            if a.get("idem") == "reordered":
                nstats["reordered"] += 1
            continue
        if not z:
            # the serializer's own fix-up has three known gaps; a failing tree must show one of them
            cls = [f for f, on in (("F50", t.f50), ("F51", t.f51), ("F52", t.f52)) if on and ctx.find_known(f)]
        elif "NoSuchElementException" in a.get("norm", ""):
            cls = ["F54"] if ctx.find_known("F54") else []
        else:
            cls = ["F53"] if (t.f53 and ctx.find_known("F53") and a.get("norm") == "ok") else []
        if cls and a.get("ser") == "ok":
            nstats["known-class"] += 1
            for f in cls:
                nknown[f] = nknown.get(f, 0) + 1
            continue
        violation("spec", {"request": req[:6000], "impl": ans[:3000], "route": "normalizeDocument" if z else "serializer",
                           "expect": "nsfixup",
                           "what": "namespace fix-up: output ill-formed, or an element/attribute no longer resolves to its "
                                   "(namespaceURI, localName), or the second serialisation differs"})
    for cls, n in sorted(nknown.items()):
        ctx.known_hits = [h + (" ; %d namespace trees of this class" % n if h.startswith(cls + ":") else "")
                          for h in ctx.known_hits]
    ctx.coverage["namespace_fixup"] = dict(nstats, cases=len(nlines))
    ctx.coverage["traces_validated_against_impl"] += len(nlines)
    ctx.note("namespace fix-up: %d cases, %s, %.1fs" % (len(nlines), nstats, time.time() - t2))

    # ---------------------------------------------------------------------------------------------
    # 4. one DOMLSSerializer instance writing several documents: every output must be that of a fresh instance (and of
    #    the model, which has no state), and must satisfy the property's oracle
    # ---------------------------------------------------------------------------------------------
    t3 = time.time()
    seqs = gen_seq_cases(ctx)
    sreqs_ = ["seq " + " | ".join(st[4] for st in steps) for steps in seqs]
    rc1, simpl, err1 = run_bin(xh, sreqs_, restart_on_hang=True)
    if rc1 != 0 or len(simpl) != len(sreqs_):
        ctx.violation("harness-crash", {"what": "implementation harness crashed or lost lines (seq)", "rc": rc1,
                                        "stderr": err1[-2000:], "answered": len(simpl), "asked": len(sreqs_),
                                        "request": sreqs_[len(simpl)][:3000] if len(simpl) < len(sreqs_) else None})
        return
    mreq, mown = [], []
    for qi, steps in enumerate(seqs):
        for si, (tr, enc, feats, ver, body) in enumerate(steps):
            if enc in ENCS and "p1" not in feats:
                mreq.append("doc " + body)
                mown.append((qi, si))
    _, mout, _ = run_bin(xm, mreq)
    smodel = dict(zip(mown, mout))
    sstats = {"sequences": len(seqs), "steps": 0, "fresh-equal": 0, "model-equal": 0, "oracle-good": 0, "known-class": 0}
    seq_unexplained = []
    for qi, (steps, ans) in enumerate(zip(seqs, simpl)):
        ctx.count()
        ctx.distinct(sreqs_[qi])
        if ans == "hang":
            violation("divergence", {"request": sreqs_[qi][:6000], "impl": "hang", "what": "serializer does not return"})
            continue
        parts = ans.split(" | ")
        for si, (tr, enc, feats, ver, body) in enumerate(steps):
            sstats["steps"] += 1
            part = parts[si] if si < len(parts) else "missing"
            a = parse_doc_answer(part)
            pretty = "p1" in feats
            fresh = a.get("fresh") == "1"
            if fresh:
                sstats["fresh-equal"] += 1
            ok_ser, reasons, split_needed = classify(tr, enc, feats, lambda e, c: can(e, c) is not False)
            open_class = (f40_open and "comment-dashes" in reasons) or (f41_open and "pi-end" in reasons)
            # model (DOM level 1 trees, modelled encodings, pretty-print off)
            magree = True
            if (qi, si) in smodel and not open_class:
                m = smodel[(qi, si)]
                magree = (m.startswith("ok ") and a.get("ser") == "ok" and a.get("bytes") == m[3:]) or \
                         (m.startswith("err unrepresentable") and a.get("ser") == "fail") or \
                         (m.startswith("err") and not m.startswith("err unrepresentable") and
                          a.get("ser", "").startswith("exc:DOMLSException"))
                if magree:
                    sstats["model-equal"] += 1
            # the property's oracle on what the re-used instance wrote
            verdict = "good"
            if not pretty and part != "missing" and not part.startswith(("build-exc", "bad-step")):
                unknown = any(can(enc, c) is None for lst in (tr.data + tr.cdata + tr.comments + tr.names + tr.attr_names +
                                                              [d for _, d in tr.pis]) for c in lst)
                okout = a.get("ser") == "ok" and a.get("reparse") == "ok"
                if unknown or ("x0" in feats and enc != "utf8"):
                    verdict = "na"
                elif ok_ser:
                    verdict = "good" if okout and a.get("eq") in (("1", "merged") if split_needed else ("1",)) else "bad"
                elif a.get("ser") != "ok" or (okout and a.get("eq") in ("1", "merged")):
                    verdict = "good"
                else:
                    KNOWN_CLASS = {"comment-dashes": "F40", "pi-end": "F41", "pi-leading-ws": "F55", "lineend-in-cdata": "F47",
                                   "lineend-in-comment": "F47", "lineend-in-pi": "F47"}
                    rs = [r for r in reasons if r != "restricted11"]
                    verdict = "known" if rs and all(r in KNOWN_CLASS and ctx.find_known(KNOWN_CLASS[r]) for r in rs) else "bad"
            if verdict == "good":
                sstats["oracle-good"] += 1
            elif verdict == "known":
                sstats["known-class"] += 1
            if verdict == "bad":
                violation("divergence" if not (fresh and magree) else "spec",
                          {"request": sreqs_[qi][:8000], "step": si, "impl": part[:3000],
                           "model": smodel.get((qi, si), "-")[:1500], "fresh_instance_equal": fresh,
                           "expect": "seq-step",
                           "what": "document %d written by a re-used DOMLSSerializer: the output is ill-formed / re-parses "
                                   "to a different tree / content that cannot be expressed was emitted without an error"
                                   % (si + 1)})
            elif not fresh or not magree:
                seq_unexplained.append((sreqs_[qi], si, part, smodel.get((qi, si), "-")))
    if seq_unexplained and not viol[0]:
        rq, si, part, m = seq_unexplained[0]
        ctx.violation("correspondence", {"what": "a re-used DOMLSSerializer writes something else than a fresh instance / the "
                                         "model, but the oracle found no failing input", "request": rq[:8000], "step": si,
                                         "impl": part[:2000], "model": m[:1500], "count": len(seq_unexplained)}, no_input=True)
        viol[0] += 1
    ctx.coverage["serializer_sequences"] = sstats
    ctx.coverage["traces_validated_against_impl"] += len(sreqs_)
    ctx.note("serializer sequences: %s, %.1fs" % (sstats, time.time() - t3))

    if proof_broken and not ctx.violations:
        ctx.violation("obligation", {"what": "Coq obligation no longer checks and no failing input was found by the "
                                     "correspondence sweeps", "failed": failed, "output": out[-3000:]}, no_input=True)
    elif proof_broken:
        ctx.note("proof obligation failed; a concrete failing input was found by the correspondence")
    kinds["doc"] = len(dlines)
    kinds["seq"] = len(sreqs_)
    ctx.coverage["input_distribution"] = {
        "formatter_requests": kinds,
        "document_cases": {"trees": ntrees, "configs_per_tree": 4, "encodings": all_encs,
                           "features": "x (xml-declaration; 0 only for XML 1.0 + UTF-8), s split-cdata-sections, d "
                                       "discard-default-content, b BOM (UTF-8/16 only), n namespaces",
                           "with_namespaces": sum(1 for c in dcases if c[0].ns), "xml11": sum(1 for c in dcases if c[0].ver11),
                           "with_unserialisable_content": stats["unserialisable"]},
        "excluded": "xml-declaration=false with XML 1.1 or a non-UTF-8 encoding (the re-parse could not know them); "
                    "adjacent/empty Text nodes (not a CDATA split); lone surrogate single units in the exhaustive sweep"}
    ctx.coverage["rule"] = ("formatter: every BMP unit (except surrogate units) as a one-unit string x 5 encodings x 4 "
                            "escape modes x XML 1.0/1.1 (UnRep_CharRef; UnRep_Fail too for CharEscapes), surrogate pairs "
                            "and lone surrogates, seeded random strings with markup/CR/TAB/LF/]]>/non-ASCII/supplementary/"
                            "control characters, strings around kTmpBufSize; a request is non-trivial when it contains a "
                            "markup, white-space or non-ASCII unit; document: a case is non-trivial when the tree has more "
                            "than one node; distinct by request text")
    ctx.coverage["rule"] += ("; namespace fix-up: %d API-built trees (namespaceURI/prefix set, xmlns attributes present or "
                             "missing, prefixes rebound at inner levels, attributes in namespaces of outer bindings with "
                             "their own / another / no prefix, default namespace undeclared and redeclared) x {DOMLSSerializer's "
                             "own fix-up, normalizeDocument() with namespaces then serialise}: well-formed, every element/"
                             "attribute keeps its (namespaceURI, localName), isEqualNode up to xmlns attributes, second "
                             "serialisation byte-identical (or a fixed point when only the attribute order differs)"
                             % (len(nlines) // 2))
    ctx.coverage["exhaustive"] = False
