"""C05 -- Transcoders and encoding detection decode every supported encoding exactly.
Theorems: coq/theories/C05/Properties_C05.v (models in Model05.v, tables regenerated from /repo).
Correspondence: bin/xh_C05 (real transcoders) vs bin/xm_C05 (extracted models) on exhaustive / structured
sweeps; the oracle for a divergence is the extracted *Spec* (spec_dec8 / spec_enc16 / spec_enc8)."""
import os
import subprocess
import sys
import time

import vcommon as V

sys.path.insert(0, os.path.join(V.VERIF, "translator"))
import tables as T  # noqa
import c05_names as TN  # noqa

TABS = ["win1252", "ibm037", "ibm1047", "ibm1140"]


def hx(vals, w):
    return "-" if not vals else "".join("%0*X" % (w, v) for v in vals)


def utf8_of(cp):
    if cp < 0x80:
        return [cp]
    if cp < 0x800:
        return [0xC0 | cp >> 6, 0x80 | cp & 63]
    if cp < 0x10000:
        return [0xE0 | cp >> 12, 0x80 | (cp >> 6) & 63, 0x80 | cp & 63]
    return [0xF0 | cp >> 18, 0x80 | (cp >> 12) & 63, 0x80 | (cp >> 6) & 63, 0x80 | cp & 63]


def utf16_of(cp):
    if cp < 0x10000:
        return [cp]
    cp -= 0x10000
    return [0xD800 + (cp >> 10), 0xDC00 + (cp & 1023)]


def gen_cases(ctx, tabs=None, names=None):
    """returns list of (kind, request-line).  Everything derives from ctx.rng (VERIF_SEED)."""
    rng = ctx.rng
    thorough = ctx.tier == "thorough"
    cases = []
    add = lambda kind, line: cases.append((kind, line))
    pad = [0x41] * 6
    # -- 1. UTF-8 decode: exhaustive 1- and 2-byte inputs, bare (truncation) and padded (error vs decode)
    for b0 in range(256):
        add("u8from-1", "u8from 8 %s" % hx([b0], 2))
        add("u8from-1p", "u8from 8 %s" % hx([b0] + pad, 2))
        for b1 in range(256):
            add("u8from-2", "u8from 8 %s" % hx([b0, b1], 2))
            add("u8from-2p", "u8from 8 %s" % hx([b0, b1] + pad, 2))
    # -- 2. 3/4-byte boundary set
    bnd1 = [0x00, 0x7F, 0x80, 0x8F, 0x90, 0x9F, 0xA0, 0xBF, 0xC0, 0xFF]
    bnd2 = [0x00, 0x7F, 0x80, 0xBF, 0xC0, 0xFF]
    for b0 in range(0xE0, 0x100):
        for b1 in (range(256) if thorough else bnd1):
            for b2 in bnd2:
                add("u8from-3", "u8from 8 %s" % hx([b0, b1, b2] + pad, 2))
                for b3 in bnd2:
                    add("u8from-4", "u8from 8 %s" % hx([b0, b1, b2, b3] + pad, 2))
                    if b0 >= 0xF0 and b2 == 0x80 and b3 == 0x80:
                        add("u8from-4r1", "u8from 1 %s" % hx([b0, b1, b2, b3], 2))   # no room for a pair
    # -- 3. code points: encode and decode
    edges = [0, 1, 0x7F, 0x80, 0x7FF, 0x800, 0xFFF, 0x1000, 0xD7FF, 0xE000, 0xFFFD, 0xFFFE, 0xFFFF, 0x10000,
             0x10001, 0x3FFFF, 0x40000, 0xFFFFF, 0x100000, 0x10FFFE, 0x10FFFF]
    cps = list(range(0x110000)) if thorough else (
        edges + [rng.randrange(0x110000) for _ in range(20000)] + list(range(0, 0x900)) + list(range(0xD700, 0xE100)))
    for cp in cps:
        if 0xD800 <= cp <= 0xDFFF:
            continue
        add("cp-dec", "u8from 4 %s" % hx(utf8_of(cp), 2))
        add("cp-enc", "u8to 8 1 %s" % hx(utf16_of(cp), 4))
    # -- 4. UTF-16 unit pairs into the UTF-8 and UCS-4 encoders (surrogate handling, incl. ill-formed)
    uedge = [0x0041, 0x07FF, 0x0800, 0xD7FF, 0xD800, 0xD801, 0xDBFF, 0xDC00, 0xDC01, 0xDFFF, 0xE000, 0xFFFF]
    units = uedge + ([rng.randrange(0x10000) for _ in range(60)] if not thorough else
                     [rng.randrange(0x10000) for _ in range(600)])
    for a in units:
        for b in uedge:
            add("pair-u8to", "u8to 16 1 %s" % hx([a, b], 4))
            add("pair-u8to-rep", "u8to 16 0 %s" % hx([a, b], 4))
            add("pair-u4to", "u4to 0 16 %s" % hx([a, b], 4))
            add("pair-u4to-be", "u4to 1 16 %s" % hx([a, b], 4))
        add("single-u8to", "u8to 16 1 %s" % hx([a], 4))
    # -- 5. block boundaries: every maxChars / maxBytes 1..8 against mixed strings
    pool = [0x24, 0xA2, 0x20AC, 0x10348, 0x7FF, 0x800, 0xFFFF, 0x10000, 0x10FFFF, 0x41]
    for _ in range(400 if not thorough else 5000):
        s = [rng.choice(pool) for _ in range(rng.randrange(1, 7))]
        b8 = [b for c in s for b in utf8_of(c)]
        u16 = [u for c in s for u in utf16_of(c)]
        for m in range(1, 9):
            add("split-dec", "u8from %d %s" % (m, hx(b8, 2)))
            add("split-enc", "u8to %d 1 %s" % (m, hx(u16, 4)))
            add("split-dec-trunc", "u8from %d %s" % (m, hx(b8[:rng.randrange(1, len(b8) + 1)], 2)))
        b4 = [b for c in s for b in [c & 255, (c >> 8) & 255, (c >> 16) & 255, (c >> 24) & 255]]
        for m in range(1, 6):
            add("split-u4from", "u4from 0 %d %s" % (m, hx(b4, 2)))
            add("split-u4to", "u4to 0 %d %s" % (4 * m + rng.randrange(4), hx(u16, 4)))
            add("split-u4to-be", "u4to 1 %d %s" % (4 * m, hx(u16, 4)))
    # -- 6. > 32 chars then a bad sequence (the "break then throw next time" rule)
    for n in (31, 32, 33, 34, 40):
        add("late-bad", "u8from 64 %s" % hx([0x41] * n + [0xF5, 0x80, 0x80, 0x80] + pad, 2))
        for bad in (0x80, 0xE9, 0xFF):
            add("late-bad-ascii", "asciifrom 64 %s" % hx([0x41] * n + [bad] + pad, 2))
            add("late-bad-ascii", "asciifrom %d %s" % (n + 1, hx([0x41] * n + [bad] + pad, 2)))
    # -- 7. UCS-4 decode: boundary and random 32-bit values in both byte orders
    v4 = [0, 0x41, 0xD7FF, 0xD800, 0xDBFF, 0xDC00, 0xDFFF, 0xE000, 0xFFFF, 0x10000, 0x10FFFF, 0x110000, 0x7FFFFFFF,
          0x80000000, 0xFFFFFFFF, 0x00410000, 0x41000000] + [rng.randrange(1 << 32) for _ in range(300)] + \
         [rng.randrange(0x120000) for _ in range(1500 if not thorough else 60000)]
    for v in v4:
        le = [v & 255, (v >> 8) & 255, (v >> 16) & 255, (v >> 24) & 255]
        add("u4from-le", "u4from 0 4 %s" % hx(le, 2))
        add("u4from-be", "u4from 1 4 %s" % hx(le[::-1], 2))
        add("u4from-le-r1", "u4from 0 1 %s" % hx(le, 2))
    # -- 8. single-byte tables: every byte, every BMP unit, canTranscodeTo on every BMP unit + above
    for t in TABS:
        add("tabfrom", "tabfrom %s 256 %s" % (t, hx(list(range(256)), 2)))
        for b in range(256):
            add("tabfrom1", "tabfrom %s 1 %s" % (t, hx([b], 2)))
        step = 1 if thorough else 1
        for base in range(0, 0x10000, 64):
            us = list(range(base, base + 64))
            add("tabto-rep", "tabto %s 64 0 %s" % (t, hx(us, 4)))
        for u in range(0, 0x10000, step):
            add("can-bmp", "can %s %d" % (t, u))
            if u < 0x500 or u % 97 == 0:
                add("tabto-throw", "tabto %s 4 1 %s" % (t, hx([u], 4)))
        for c in [0x10000, 0x10041, 0x100A9, 0x1FFFF, 0x20AC + 0x10000, 0x10FFFF, 0x110000, 0xFFFFFFFF] + \
                 [0x10000 + rng.randrange(0x100000) for _ in range(200)]:
            add("can-supp", "can %s %d" % (t, c))
    # -- 8b. the first / last / middle records of every to-table (the ends of xlatOneTo's binary search), one
    #        unit per request, in both UnRepOpts modes, and canTranscodeTo of exactly those units and their neighbours
    for t in TABS:
        to = (tabs or {}).get(t, {}).get("to", [])
        if to:
            n = len(to)
            idxs = sorted(set([0, 1, 2, n // 2 - 1, n // 2, n // 2 + 1, n - 3, n - 2, n - 1] +
                              [rng.randrange(n) for _ in range(12)]))
            for i in idxs:
                u = to[i][0]
                for v in (u - 1, u, u + 1):
                    if 0 < v <= 0xFFFF:
                        add("tab-edge-throw", "tabto %s 4 1 %s" % (t, hx([v], 4)))
                        add("tab-edge-rep", "tabto %s 4 0 %s" % (t, hx([v], 4)))
                        add("tab-edge-can", "can %s %d" % (t, v))
                add("tab-edge-ctx", "tabto %s 8 0 %s" % (t, hx([0x41, u, 0x42], 4)))
                add("tab-edge-room", "tabto %s 1 1 %s" % (t, hx([u, 0x41], 4)))
    for enc in ("utf8", "latin1", "ascii"):
        for c in [0, 0x7F, 0x80, 0xFF, 0x100, 0xFFFF, 0x10000, 0x10FFFF, 0x110000, 0xFFFFFFFF]:
            add("can-intrinsic", "can %s %d" % (enc, c))
    add("latin1from", "latin1from 256 %s" % hx(list(range(256)), 2))
    add("asciifrom", "asciifrom 128 %s" % hx(list(range(128)), 2))
    # -- 9. UTF-16 copy/swap
    for _ in range(300):
        us = [rng.randrange(0x10000) for _ in range(rng.randrange(1, 9))]
        bs = [rng.randrange(256) for _ in range(rng.randrange(1, 17))]
        for sw in (0, 1):
            add("u16to", "u16to %d %d %s" % (sw, rng.randrange(1, 10), hx(us, 4)))
            add("u16from", "u16from %d %d %s" % (sw, rng.randrange(1, 10), hx(bs, 2)))
    # -- 10. encoding recognizer: every 4-byte head over the bytes the code tests for, x tails; prefix truncations
    alpha = [0x00, 0x3C, 0x3F, 0xFE, 0xFF, 0xEF, 0xBB, 0xBF, 0x4C, 0x6F, 0x78, 0x41]
    tails = [[], [0x00], [0x3F, 0x00], [0x00, 0x00, 0x00, 0x3F]]
    for a0 in alpha:
        for a1 in alpha:
            add("probe-2", "probe %s" % hx([a0, a1], 2))
            for a2 in alpha:
                add("probe-3", "probe %s" % hx([a0, a1, a2], 2))
                for a3 in alpha:
                    add("probe-4", "probe %s" % hx([a0, a1, a2, a3] + rng.choice(tails), 2))
    decl = [0x3C, 0x3F, 0x78, 0x6D, 0x6C, 0x20]
    fams = {"utf8": decl, "u16b": [x for c in decl for x in (0, c)], "u16l": [x for c in decl for x in (c, 0)],
            "u4b": [x for c in decl for x in (0, 0, 0, c)], "u4l": [x for c in decl for x in (c, 0, 0, 0)],
            "ebcdic": [0x4C, 0x6F, 0xA7, 0x94, 0x93, 0x40]}
    # every length 0..26 of each family's declaration start, with and without the family's byte order mark, and of
    # the byte order marks alone (the recognizer's length tiers: < 2, < 4, < prefix length, EBCDIC's strict >)
    boms = {"utf8": [0xEF, 0xBB, 0xBF], "u16b": [0xFE, 0xFF], "u16l": [0xFF, 0xFE], "u4b": [0, 0, 0xFE, 0xFF],
            "u4l": [0xFF, 0xFE, 0, 0], "u4-2143": [0, 0, 0xFF, 0xFE], "u4-3412": [0xFE, 0xFF, 0, 0]}
    add("probe-len", "probe -")
    for nm, pre in fams.items():
        full = pre + ([0x41, 0x42] if nm in ("utf8", "ebcdic") else pre[-4:])
        for k in range(1, min(len(full), 27) + 1):
            add("probe-len", "probe %s" % hx(full[:k], 2))
        for bn, bom in boms.items():
            for k in (0, 1, 2, 3, 4, len(pre), len(pre) + 1):
                add("probe-bom-len", "probe %s" % hx(bom + full[:k], 2))
    for bn, bom in boms.items():
        for k in range(1, len(bom) + 1):
            add("probe-bom-len", "probe %s" % hx(bom[:k], 2))
    for _ in range(600):
        pre = rng.choice(list(fams.values()) + list(boms.values()))
        q = list(pre[:rng.randrange(1, len(pre) + 1)]) + [rng.choice(alpha) for _ in range(rng.randrange(0, 4))]
        if rng.random() < 0.5 and q:
            q[rng.randrange(len(q))] = rng.choice(alpha)
        add("probe-rand", "probe %s" % hx(q, 2))
    # -- 11. encoding names: encodingForName / nameForEncoding / makeNewTranscoderFor by name and by enumerator /
    #        XMLReader::setEncoding on entities of every detected family
    if names:
        def units(txt):
            return [ord(ch) for ch in txt]
        def mixcase(u):
            return [c + 32 if 0x41 <= c <= 0x5A and rng.random() < 0.5 else c for c in u]
        known = []
        for u in ([m[0] for m in names["maps"]] + names["name_map"] + names["gen16"] + names["gen4"] +
                  [n for cl, _ in names["chain"] for n in cl]):
            if u not in known:
                known.append(u)
        # names no table knows; they go to the transcoding service (model: "service"): real ICU names and junk
        foreign = [units(x) for x in ("SHIFT_JIS", "ISO-8859-2", "KOI8-R", "X-NO-SUCH-ENCODING", "UTF-7", "EBCDIC", "UTF-16L",
                                      "UTF-8 ", "UCS-4 (XE)", "UTF_8", "UTF-16 (LE", "IBM-037", "WINDOWS-1251")]
        for e in range(0, 10):
            add("namefor", "namefor %d" % e)
            add("mkenum", "mkenum %d" % e)
        add("namefor", "namefor 999")
        add("mkenum", "mkenum 999")
        allnames = known + foreign
        for u in allnames:
            variants = [u, [c + 32 if 0x41 <= c <= 0x5A else c for c in u], mixcase(u), mixcase(u)]
            if len(u) > 1:
                variants += [u[:-1], u + [0x58], u[:1] + [u[1] ^ 1] + u[2:]]      # near misses
            for v in variants:
                add("encfor", "encfor %s" % hx(v, 4))
                add("mktrans", "mktrans %s" % hx(v, 4))
        heads = {"utf8": fams["utf8"], "utf8-bom": boms["utf8"] + fams["utf8"], "u16l": fams["u16l"], "u16b": fams["u16b"],
                 "u16l-bom": boms["u16l"] + fams["u16l"], "u16b-bom": boms["u16b"] + fams["u16b"],
                 "u4l": fams["u4l"], "u4b": fams["u4b"], "u4l-bom": boms["u4l"] + fams["u4l"], "u4b-bom": boms["u4b"] + fams["u4b"],
                 "ebcdic": fams["ebcdic"] + [0xA5], "nodecl": [0x3C, 0x72, 0x2F, 0x3E], "u16l-bom-only": boms["u16l"] + [0x3C, 0],
                 "u16b-bom-only": boms["u16b"] + [0, 0x3C]}
        for hn, raw in heads.items():
            for u in allnames:
                add("setenc/" + hn, "setenc %s %s" % (hx(raw, 2), hx(u, 4)))
                add("setenc-case/" + hn, "setenc %s %s" % (hx(raw, 2), hx(mixcase(u), 4)))
    for nm, pre in fams.items():
        for k in range(1, len(pre) + 3):
            add("probe-prefix", "probe %s" % hx((pre + [0x41, 0x42])[:k], 2))
        for j in range(len(pre)):          # one byte of the prefix altered
            q = list(pre); q[j] ^= 0x01
            add("probe-mut", "probe %s" % hx(q + [0x41], 2))
    return cases


# ------------------------------------------------------------------------------------------------------------
# document level: the same document in every encoding x BOM x declaration
# ------------------------------------------------------------------------------------------------------------
def doc_cases(ctx, tabs):
    """returns list of (label, bytes, expectation) ; expectation = ('ok', text) | ('fatal',) | ('any',)"""
    rng = ctx.rng
    out = []
    uni_pool = [0x41, 0x7A, 0xE9, 0x3A9, 0x20AC, 0x4E2D, 0xFFFD, 0x10348, 0x10FFFF, 0x1F600, 0xD7FF, 0xE000]
    def inv(tab):
        m = {}
        for b, c in enumerate(tab["from"]):
            if c not in m and 0x20 <= c and c not in (0x3C, 0x26, 0x22, 0x27, 0x3E) and not (0x7F <= c < 0xA0):
                m[c] = b
        # all ASCII letters/punctuation needed for markup
        full = {c: b for b, c in reversed(list(enumerate(tab["from"])))}
        return m, full
    n_docs = 6 if ctx.tier == "quick" else 60
    for d in range(n_docs):
        for enc in ["UTF-8", "UTF-16LE", "UTF-16BE", "UCS-4LE", "UCS-4BE", "ISO-8859-1", "US-ASCII", "WINDOWS-1252",
                    "IBM037", "IBM1047", "IBM1140"]:
            if enc in ("WINDOWS-1252", "IBM037", "IBM1047", "IBM1140"):
                tab = tabs[{"WINDOWS-1252": "win1252", "IBM037": "ibm037", "IBM1047": "ibm1047", "IBM1140": "ibm1140"}[enc]]
                m, full = inv(tab)
                chars = [rng.choice(sorted(m)) for _ in range(6)]
                encode = lambda s, full=full: bytes(full[ord(ch)] for ch in s)
            elif enc == "ISO-8859-1":
                chars = [rng.choice([0x41, 0xE9, 0xFF, 0xA0, 0x7E]) for _ in range(6)]
                encode = lambda s: s.encode("latin-1")
            elif enc == "US-ASCII":
                chars = [rng.choice([0x41, 0x7E, 0x20, 0x30]) for _ in range(6)]
                encode = lambda s: s.encode("ascii")
            else:
                chars = [rng.choice(uni_pool) for _ in range(6)]
                codec = {"UTF-8": "utf-8", "UTF-16LE": "utf-16-le", "UTF-16BE": "utf-16-be", "UCS-4LE": "utf-32-le",
                         "UCS-4BE": "utf-32-be"}[enc]
                encode = lambda s, codec=codec: s.encode(codec)
            txt = "".join(chr(c) for c in chars[:3])
            att = "".join(chr(c) for c in chars[3:])
            body = '<r a="%s">%s</r>' % (att, txt)
            want_units = []
            for ch in "r|" + att + "|" + txt:
                want_units += utf16_of(ord(ch))
            want = "ok " + hx(want_units, 4)
            declname = {"UTF-16LE": "UTF-16", "UTF-16BE": "UTF-16", "UCS-4LE": "UCS-4", "UCS-4BE": "UCS-4"}.get(enc, enc)
            bom = {"UTF-8": b"\xef\xbb\xbf", "UTF-16LE": b"\xff\xfe", "UTF-16BE": b"\xfe\xff",
                   "UCS-4LE": b"\xff\xfe\x00\x00", "UCS-4BE": b"\x00\x00\xfe\xff"}.get(enc)
            matching = '<?xml version="1.0" encoding="%s"?>' % declname
            # (a) matching declaration, no BOM
            out.append(("decl-match/" + enc, encode(matching + body), ("ok", want)))
            # (b) BOM, with and without declaration
            if bom:
                # without a declaration the property only speaks about UTF-8/UTF-16 (XML 1.0 4.3.3); UCS-4 without a
                # declaration is outside the statement ("... and with a matching encoding declaration")
                if not enc.startswith("UCS-4"):
                    out.append(("bom-nodecl/" + enc, bom + encode(body), ("ok", want)))
                out.append(("bom-decl/" + enc, bom + encode(matching + body), ("ok", want)))
            if enc == "UTF-8":
                out.append(("nobom-nodecl/UTF-8", encode(body), ("ok", want)))
            # (c) contradictory declaration: the declared family differs from the detected one
            contra = {"UTF-8": ["UTF-16", "UCS-4"], "UTF-16LE": ["UTF-8", "UCS-4", "ISO-8859-1"],
                      "UTF-16BE": ["UTF-8", "UCS-4", "US-ASCII"], "UCS-4LE": ["UTF-8", "UTF-16"], "UCS-4BE": ["UTF-8", "UTF-16"],
                      "IBM037": ["UTF-16"], "ISO-8859-1": ["UTF-16", "UCS-4"]}.get(enc, [])
            for cn in contra:
                bad = '<?xml version="1.0" encoding="%s"?>' % cn
                out.append(("decl-contra/%s-as-%s" % (enc, cn), encode(bad + body), ("fatal",)))
                if bom:
                    out.append(("bom-decl-contra/%s-as-%s" % (enc, cn), bom + encode(bad + body), ("fatal",)))
            # (d) size dimension: documents shorter / just longer than the "<?xml " probe (6 characters after the BOM):
            # the auto-sensing code has separate paths for "too few bytes to hold a declaration"
            if d == 0 and enc in ("UTF-8", "UTF-16LE", "UTF-16BE"):
                c1 = chr(chars[0])
                for L in range(1, 9):
                    nm = "abcdefgh"[:L]
                    for bd, wtxt in (("<%s/>" % nm, nm + "|"), ("<%s>%s</%s>" % (nm, c1, nm), nm + "|" + c1)):
                        wu = []
                        for ch in wtxt:
                            wu += utf16_of(ord(ch))
                        out.append(("short-bom-nodecl/%s/%d" % (enc, len(bd)), bom + encode(bd), ("ok", "ok " + hx(wu, 4))))
                        if enc == "UTF-8":
                            out.append(("short-nobom-nodecl/UTF-8/%d" % len(bd), encode(bd), ("ok", "ok " + hx(wu, 4))))
            # non-ASCII bytes under a US-ASCII declaration must be rejected
            if enc == "ISO-8859-1":
                out.append(("decl-contra/latin1-as-ascii", ('<?xml version="1.0" encoding="US-ASCII"?><r a="x">\xe9</r>').encode("latin-1"), ("fatal",)))
    return out


def run_bin(binpath, lines):
    p = subprocess.run([binpath], input=("\n".join(lines) + "\n").encode(), stdout=subprocess.PIPE,
                       stderr=subprocess.PIPE, timeout=3000)
    out = p.stdout.decode("ascii", "replace").splitlines()
    return p.returncode, out, p.stderr.decode("utf-8", "replace")


def parse_units(h, w):
    return [] if h == "-" else [int(h[i:i + w], 16) for i in range(0, len(h), w)]


def ill_formed16(units):
    i = 0
    while i < len(units):
        u = units[i]
        if 0xD800 <= u <= 0xDBFF:
            if i + 1 < len(units) and 0xDC00 <= units[i + 1] <= 0xDFFF:
                i += 2
                continue
            return True
        if 0xDC00 <= u <= 0xDFFF:
            return True
        i += 1
    return False


_DEC = {}


def table_dec(t, xh):
    """the code page as the implementation decodes it: byte -> unit (the definition the Spec of the encode
    direction is read against)"""
    if t not in _DEC:
        rc, out, _ = run_bin(xh, ["tabfrom %s 256 %s" % (t, hx(list(range(256)), 2))])
        us = parse_units(out[0].split()[2], 4) if out and out[0].startswith("ok") else []
        _DEC[t] = us if len(us) == 256 else None
    return _DEC[t]


def tab_spec(req, impl, xh, f24_known=True):
    """Spec of the encode direction of a single-byte code page: a unit some byte decodes to is representable:
    it must be written as a byte that decodes back to it in EVERY UnRepOpts mode and canTranscodeTo must be true;
    a replacement byte / Trans_Unrepresentable / canTranscodeTo false is legal only for the other units.
    U+0000 is left out (the tables use 0 as "no mapping"); IBM1047 U+0085 is finding F24."""
    a = req.split()
    dec = table_dec(a[1], xh)
    if not dec:
        return "unknown", ""
    rng_ = set(dec)
    def repres(u):
        return u in rng_
    def exempt(u):
        return u == 0 or (a[1] == "ibm1047" and u == 0x85 and f24_known)
    if a[0] == "can":
        c = int(a[2])
        if c == 0 or exempt(c):
            return "ok", ""
        want = c <= 0xFFFF and repres(c)
        if impl == "ok 1" and not want:
            return "violates", "canTranscodeTo true for U+%04X, which no byte of %s decodes to" % (c, a[1])
        if impl == "ok 0" and want:
            return "violates", "canTranscodeTo false for U+%04X, which byte %02X of %s decodes to" % (c, dec.index(c), a[1])
        return "ok", ""
    if a[0] == "tabto":
        units, maxb, thr = parse_units(a[4], 4), int(a[2]), a[3] == "1"
        todo = units[:min(len(units), maxb)]
        if impl.startswith("err"):
            if thr and any((not repres(u)) or u == 0 for u in todo):
                return "ok", ""
            return "violates", "exception although every unit of the block is representable in %s" % a[1]
        if not impl.startswith("ok"):
            return "violates", "unexpected answer"
        p = impl.split()
        bs = parse_units(p[2], 2) if len(p) > 2 else []
        if len(bs) > len(todo) or int(p[1]) != len(bs):
            return "violates", "bytes written / units eaten out of step"
        for u, b_ in zip(todo, bs):
            if exempt(u):
                continue
            if repres(u):
                if dec[b_] != u:
                    return "violates", ("U+%04X is representable in %s (byte %02X) but was written as %02X, which decodes to U+%04X"
                                        % (u, a[1], dec.index(u), b_, dec[b_]))
            elif thr:
                return "violates", "U+%04X is not representable in %s but was written as %02X under UnRep_Throw" % (u, a[1], b_)
        return "ok", ""
    return "unknown", ""


def spec_check(req, impl, xm, xh=None):
    """decide with the extracted Spec whether the implementation's answer `impl` to request `req` violates the
    property.  returns (verdict, detail): verdict in {'ok','violates','unknown'}"""
    a = req.split()
    op = a[0]
    if op == "u8from":
        rc, out, _ = run_bin(xm, ["spec_dec8 " + a[2]])
        s = out[0].split()
        wf_len, s_units, s_sizes = int(s[1]), parse_units(s[2], 4), parse_units(s[3], 1)
        src = parse_units(a[2], 2)
        if impl.startswith("err"):
            # an error is legitimate only if the input is not entirely well-formed
            return ("violates", "legal input rejected: " + out[0]) if wf_len == len(src) else ("ok", "")
        if impl.startswith("ok"):
            i = impl.split()
            eaten, units = int(i[1]), parse_units(i[2], 4)
            if units != s_units[:len(units)]:
                return "violates", "decoded units differ from Table 3-7 decoding " + out[0]
            if sum(s_sizes[:len(units)]) != eaten or (len(units) < len(s_sizes) and s_sizes[len(units)] == 0):
                return "violates", "bytes eaten do not match decoded characters " + out[0]
            return "ok", ""
        return "violates", "unexpected answer"
    if op in ("u8to", "u4to"):
        units = parse_units(a[-1], 4)
        if ill_formed16(units):
            if impl.startswith("err"):
                return "ok", ""
            return "illformed-accepted", "ill-formed UTF-16 encoded without error"
        rc, out, _ = run_bin(xm, ["spec_enc16 " + a[-1]])
        want = parse_units(out[0].split()[1], 2)
        if impl.startswith("err"):
            return "violates", "well-formed input rejected"
        i = impl.split()
        eaten, got = int(i[1]), parse_units(i[2], 2)
        if op == "u8to":
            if got != want[:len(got)]:
                return "violates", "encoded bytes differ from spec " + out[0]
            return "ok", ""
        # u4to: decode the four-byte groups per the requested order and compare with code points
        be = a[1] == "1"
        cps = []
        j = 0
        while j < len(units):
            if 0xD800 <= units[j] <= 0xDBFF:
                cps.append(0x10000 + ((units[j] - 0xD800) << 10) + (units[j + 1] - 0xDC00)); j += 2
            else:
                cps.append(units[j]); j += 1
        for k in range(0, len(got), 4):
            g = got[k:k + 4]
            v = (g[0] << 24 | g[1] << 16 | g[2] << 8 | g[3]) if be else (g[3] << 24 | g[2] << 16 | g[1] << 8 | g[0])
            if k // 4 >= len(cps) or v != cps[k // 4]:
                return "violates", "UCS-4 bytes %s do not denote U+%X" % (g, cps[min(k // 4, len(cps) - 1)])
        return "ok", ""
    if op == "u4from":
        src = parse_units(a[3], 2)
        be = a[1] == "1"
        vals = []
        for k in range(0, len(src) - 3, 4):
            g = src[k:k + 4]
            vals.append((g[0] << 24 | g[1] << 16 | g[2] << 8 | g[3]) if be else (g[3] << 24 | g[2] << 16 | g[1] << 8 | g[0]))
        if impl.startswith("err"):
            bad = any(v > 0x10FFFF or 0xD800 <= v <= 0xDFFF for v in vals)
            return ("ok", "") if bad else ("violates", "legal UCS-4 rejected")
        i = impl.split()
        eaten, units = int(i[1]), parse_units(i[2], 4)
        want = []
        for v in vals[:eaten // 4]:
            if v > 0x10FFFF or 0xD800 <= v <= 0xDFFF:
                return "violates", "UCS-4 value %X is not a scalar value but was decoded" % v
            want += utf16_of(v)
        return ("ok", "") if units == want else ("violates", "decoded units differ")
    if op in ("asciifrom", "latin1from"):
        # every byte that is reported as eaten must have been decoded to exactly its code point; US-ASCII accepts
        # only bytes below 0x80 (an illegal byte is rejected, never skipped)
        src = parse_units(a[2], 2)
        if impl.startswith("err"):
            return ("ok", "") if op == "asciifrom" and any(x >= 0x80 for x in src) else ("violates", "legal input rejected")
        i = impl.split()
        eaten, units = int(i[1]), parse_units(i[2], 4)
        if units != src[:eaten] or (op == "asciifrom" and any(x >= 0x80 for x in src[:eaten])):
            return "violates", "bytes counted as eaten were not decoded to their code points (illegal byte skipped or altered)"
        return "ok", ""
    if op == "probe":
        # XML 1.0 Appendix F / theorems T05_probe_decl, T05_probe_bom16, T05_probe_bom4, T05_probe_utf8_bom
        b = parse_units(a[1], 2)
        decl = [0x3C, 0x3F, 0x78, 0x6D, 0x6C, 0x20]
        want = None
        fam = [("UTF_8", decl), ("UTF_16B", [x for c in decl for x in (0, c)]), ("UTF_16L", [x for c in decl for x in (c, 0)]),
               ("UCS_4B", [x for c in decl for x in (0, 0, 0, c)]), ("UCS_4L", [x for c in decl for x in (c, 0, 0, 0)])]
        for nm, pre in fam:
            if b[:len(pre)] == pre:
                want = nm
        if b[:6] == [0x4C, 0x6F, 0xA7, 0x94, 0x93, 0x40] and len(b) > 6:
            want = "EBCDIC"
        if len(b) >= 4 and want is None:
            if b[:4] == [0, 0, 0xFE, 0xFF]:
                want = "UCS_4B"
            elif b[:4] == [0xFF, 0xFE, 0, 0]:
                want = "UCS_4L"
            elif b[:2] == [0xFE, 0xFF]:
                want = "UTF_16B"
            elif b[:2] == [0xFF, 0xFE]:
                want = "UTF_16L"
            elif b[:3] == [0xEF, 0xBB, 0xBF]:
                want = "UTF_8"
        rc, out, _ = run_bin(xm, ["spec_probe " + a[1]])
        sd = out[0].split()[1] if out and out[0].startswith("ok") else None
        if want is not None and sd is not None and want != sd:
            return "violates", "python and extracted Appendix F oracles disagree (%s / %s)" % (want, sd)
        want = want or sd
        if want is None:
            return "unknown", ""
        return ("ok", "") if impl == "ok " + want else ("violates", "Appendix F: these bytes start a %s entity" % want)
    if op == "can":
        c = int(a[2])
        if a[1] in TABS and c > 0xFFFF and impl == "ok 1":
            return "violates", "supplementary code point reported representable in a single-byte code page"
        if a[1] in TABS and xh:
            return tab_spec(req, impl, xh)
        return "unknown", ""
    if op == "tabto" and xh:
        return tab_spec(req, impl, xh)
    if op == "setenc":
        return setenc_spec(req, impl, xm)
    return "unknown", ""


FAM_OF_PROBE = {"UTF_8": "byte", "UTF_16L": "16L", "UTF_16B": "16B", "UCS_4L": "32L", "UCS_4B": "32B", "EBCDIC": "ebcdic"}
# XML 1.0 4.3.3 / IANA: what a declared name promises (the python copy of Spec05s.spec_names + byte encodings)
DECL_FAM = {"UTF-8": ["byte"], "UTF8": ["byte"], "US-ASCII": ["byte"], "ASCII": ["byte"], "ISO-8859-1": ["byte"],
            "WINDOWS-1252": ["byte"], "LATIN1": ["byte"], "ISO-8859-2": ["byte"], "KOI8-R": ["byte"], "SHIFT_JIS": ["byte"],
            "WINDOWS-1251": ["byte"],
            "UTF-16": ["16L", "16B"], "UCS-2": ["16L", "16B"], "ISO-10646-UCS-2": ["16L", "16B"], "UTF16": ["16L", "16B"],
            "UTF-16LE": ["16L"], "UTF-16 (LE)": ["16L"], "UTF-16BE": ["16B"], "UTF-16 (BE)": ["16B"],
            "UCS-4": ["32L", "32B"], "UCS4": ["32L", "32B"], "UTF-32": ["32L", "32B"], "ISO-10646-UCS-4": ["32L", "32B"],
            "UCS-4LE": ["32L"], "UCS-4 (LE)": ["32L"], "UCS-4BE": ["32B"], "UCS-4 (BE)": ["32B"],
            "IBM037": ["ebcdic"], "IBM1047": ["ebcdic"], "IBM1140": ["ebcdic"], "EBCDIC-CP-US": ["ebcdic"], "IBM01140": ["ebcdic"]}


def setenc_spec(req, impl, xm):
    """a declaration whose name contradicts the family detected from the entity's bytes must not be accepted
    (the property: "a declaration that contradicts the detected encoding family is reported"); a compatible one
    must not be rejected.  The detected family is computed by the extracted Spec (spec_detect)."""
    a = req.split()
    name = "".join(chr(c) for c in parse_units(a[2], 4)).upper()
    fams = DECL_FAM.get(name)
    if fams is None:
        return "unknown", ""
    rc, out, _ = run_bin(xm, ["spec_probe " + a[1]])
    sensed = FAM_OF_PROBE[out[0].split()[1]]
    compatible = sensed in fams
    if impl.startswith("ok 1") and not compatible:
        return "contradiction-accepted", "declared %s in an entity detected as %s was accepted" % (name, sensed)
    if impl.startswith("ok 0") and compatible:
        return "violates", "declared %s in an entity detected as %s was rejected" % (name, sensed)
    if impl.startswith("err") and compatible and not impl.endswith("Trans_CantCreateCvtrFor"):
        return "violates", "compatible declaration raised " + impl
    return "ok", ""


def run(ctx):
    t0 = time.time()
    ctx.coverage["trusted_base"] = list(V.GLOBAL_TRUSTED_BASE) + [
        "modelled rather than verified: ICU-provided converters (only the intrinsic transcoders are modelled); "
        "the encoding recognizer (XMLRecognizer) is covered by the document-level correspondence of C02/C04 only"]
    ctx.assumptions = ["host is little endian (the UCS-4/UTF-16 'swapped' flag is derived from it)",
                       "exceptions are modelled as an error enum; the XMLExcepts code is compared"]
    ctx.build_lib()
    # 2. translate
    try:
        T.gen_utf8()
        T.gen_tables()
        T.gen_recognizer()
        names = TN.generate()
    except Exception as e:
        ctx.note("translator failed: %r" % (e,))
        ctx.violation("translator", {"what": "translator can no longer read the transcoder tables", "error": repr(e)},
                      no_input=True)
        return
    # 3. prove
    ok, out, failed = ctx.prove(["Base", "Gen", "C05"],
                                ["theories/C05/Properties_C05.vo", "theories/C05/Extract_C05.vo"],
                                props_file="theories/C05/Properties_C05.v")
    proof_broken = not ok
    if proof_broken:
        ctx.note("proof obligations failed: %s" % failed)
        ctx.note(out[-1500:])
    if ok and ctx.tier == "thorough":
        ctx.coqchk(["XV.C05.Properties_C05"])
    # 4. build model + harness
    have_model = os.path.exists(os.path.join(V.VERIF, "ocaml", "C05", "gen_c05.ml"))
    xm = ctx.ocaml("C05", ["gen_c05"]) if have_model else None
    xh = ctx.harness("C05")
    # 5. correspondence
    if ctx.replay:
        import json
        r = json.load(open(ctx.replay))
        cases = [("replay", r["request"])]
    else:
        cases = gen_cases(ctx, T.gen_tables(), names)
    # known-finding witnesses are replayed first
    wit = [("known-F7", "u8to 8 1 DC00"), ("known-F7", "u8to 8 1 D8000041"), ("known-F24", "tabfrom ibm1047 1 15")]
    cases = wit + cases
    F560_WIT = "setenc 3C3F786D6C20 005500540046002D00310036004C0045"     # "<?xml " in bytes, declared UTF-16LE
    F561_WIT = "setenc FFFE3C003F0078006D006C002000 00490053004F002D0038003800350039002D0031"   # UTF-16LE, declared ISO-8859-1
    wit2 = [("known-F560", F560_WIT), ("known-F561", F561_WIT)]
    cases = cases[:3] + wit2 + cases[3:]
    lines = [c[1] for c in cases]
    rc1, impl, err1 = run_bin(xh, lines)
    # the reader with or without the repair fixes/C05-setencoding-family.patch: decided by the witness of F560
    f560_present = len(impl) > 3 and impl[3].startswith("ok 1")
    repaired = "0" if f560_present else "1"
    mlines = [("setenc %s %s" % (repaired, l[7:])) if l.startswith("setenc ") else l for l in lines]
    rc2, model, err2 = run_bin(xm, mlines)
    # names no table of the library knows go to the transcoding service (ICU), which is not modelled: whether it
    # can serve the name is not compared
    for k in range(min(len(impl), len(model))):
        if model[k].endswith(" service") and (impl[k].endswith("Trans_CantCreateCvtrFor") or impl[k] == model[k]):
            impl[k] = model[k]
    if rc1 != 0 or len(impl) != len(lines):
        ctx.violation("harness-crash", {"what": "implementation harness crashed or lost lines", "rc": rc1,
                                        "stderr": err1[-2000:], "answered": len(impl), "asked": len(lines),
                                        "request": lines[len(impl)] if len(impl) < len(lines) else None})
        return
    if rc2 != 0 or len(model) != len(lines):
        ctx.violation("model-crash", {"what": "model driver crashed", "stderr": err2[-2000:]}, no_input=True)
        return
    kinds = {}
    divergences = []
    for (kind, req), i, m in zip(cases, impl, model):
        ctx.count()
        kinds[kind] = kinds.get(kind, 0) + 1
        if not (i.startswith("ok -") or i == "ok 0 - -" or i == "ok 0 -"):
            ctx.distinct(req)
        if i != m:
            divergences.append((kind, req, i, m))
    ctx.coverage["traces_validated_against_impl"] = len(lines)
    ctx.coverage["input_distribution"] = kinds
    ctx.coverage["answers"] = {"ok": sum(1 for x in impl if x.startswith("ok")),
                               "err": sum(1 for x in impl if x.startswith("err"))}
    for s in (cases[5000], cases[200000 % len(cases)], cases[-1]) if len(cases) > 5001 else cases[:3]:
        k = cases.index(s)
        ctx.sample({"kind": s[0], "request": s[1], "impl": impl[k], "model": model[k]})
    # spec oracle on: all divergences, the witnesses, and a seeded sample of agreeing cases
    viol = 0
    unexplained = []
    for kind, req, i, m in divergences[:200]:
        verdict, detail = spec_check(req, i, xm, xh)
        if verdict in ("violates", "illformed-accepted", "contradiction-accepted"):
            viol += 1
            if viol <= 5:
                ctx.violation("divergence", {"request": req, "impl": i, "model": m, "spec": detail, "kind": kind,
                                             "what": "implementation differs from the model and violates the Spec"})
        else:
            unexplained.append((kind, req, i, m))
    if unexplained and not viol:
        k, req, i, m = unexplained[0]
        ctx.violation("correspondence", {"what": "model and implementation differ but the Spec oracle found no failing "
                                         "input: correspondence xh_C05~xm_C05 no longer checks", "request": req,
                                         "impl": i, "model": m, "count": len(unexplained)}, no_input=True)
    # sample of agreeing cases through the Spec oracle (so that a bug shared by model and code cannot hide)
    idx = list(range(len(cases)))
    ctx.rng.shuffle(idx)
    checked = 0
    budget = 3000 if ctx.tier == "quick" else 30000
    batch = []
    for k in idx:
        kind, req = cases[k]
        if req.split()[0] in ("u8from",) and impl[k] == model[k]:
            batch.append(k)
        if len(batch) >= budget:
            break
    if batch:
        rcS, outS, _ = run_bin(xm, ["spec_dec8 " + cases[k][1].split()[2] for k in batch])
        for k, so in zip(batch, outS):
            req, i = cases[k][1], impl[k]
            s = so.split()
            wf_len, s_units, s_sizes = int(s[1]), parse_units(s[2], 4), parse_units(s[3], 1)
            src = parse_units(req.split()[2], 2)
            bad = None
            if i.startswith("err") and wf_len == len(src):
                bad = "legal input rejected"
            elif i.startswith("ok"):
                p = i.split()
                eaten, units = int(p[1]), parse_units(p[2], 4)
                if units != s_units[:len(units)] or sum(s_sizes[:len(units)]) != eaten:
                    bad = "decoded output differs from Table 3-7 decoding"
            checked += 1
            if bad:
                ctx.violation("spec", {"request": req, "impl": i, "spec": so, "what": bad})
                break
    # encoder side: every agreeing u8to/u4to case is classified by the Spec
    f7_seen = 0
    f7_case = None
    enc_checked = 0
    for k in idx[:20000 if ctx.tier == "quick" else 200000] + [0, 1]:
        kind, req = cases[k]
        if req.split()[0] in ("u8to",) and impl[k] == model[k]:
            units = parse_units(req.split()[-1], 4)
            enc_checked += 1
            if impl[k].startswith("ok") and impl[k].split()[2] != "-":
                # consumed an unpaired surrogate without an error (statement of T05_utf8_enc_sound: the eaten
                # prefix is well-formed UTF-16; a leading surrogate left for the next call is fine)
                p = impl[k].split()
                if int(p[1]) > 0 and ill_formed16(units[:int(p[1])]):
                    f7_seen += 1
                    f7_case = (req, impl[k])
    ctx.coverage["spec_oracle_checked"] = checked + enc_checked + len(divergences[:200])
    if f7_seen:
        if ctx.find_known("F7"):
            ctx.known_finding("F7", "UTF-8 encoder accepts ill-formed UTF-16 (unpaired surrogate) and emits bytes "
                              "(witness `u8to 8 1 DC00` -> ED B0 80); %d generated cases of this class" % f7_seen)
        else:
            ctx.violation("F7", {"request": f7_case[0], "impl": f7_case[1], "what": "unpaired surrogate encoded"})
    # F24: IBM1047 byte 0x15
    k = 2
    if impl[k] == "ok 1 000A":
        if ctx.find_known("F24"):
            ctx.known_finding("F24", "IBM1047 decodes byte 0x15 (NEL) to U+000A, yet encodes U+0085 as 0x15 "
                              "(witness `tabfrom ibm1047 1 15`)")
        else:
            ctx.violation("F24", {"request": cases[k][1], "impl": impl[k], "what": "IBM1047 0x15 decodes to LF"})
    # F560 / F561: declaration contradicting the detected family accepted by XMLReader::setEncoding.  Every setenc
    # case (agreeing with the model or not) is judged by the Spec; contradictions accepted are attributed to F560
    # when the declared name is one the recognizer knows (encodingForName != OtherEncoding: impl reports an
    # enumerator < 999), to F561 otherwise
    n560 = n561 = 0
    first560 = first561 = None
    sk = [k for k, (kind, req) in enumerate(cases) if req.startswith("setenc ")]
    if sk:
        rcP, outP, _ = run_bin(xm, ["spec_probe " + cases[k][1].split()[1] for k in sk])
        for k, so in zip(sk, outP):
            a = cases[k][1].split()
            name = "".join(chr(c) for c in parse_units(a[2], 4)).upper()
            fams = DECL_FAM.get(name)
            if fams is None:
                continue
            checked_s = FAM_OF_PROBE[so.split()[1]]
            comp = checked_s in fams
            if impl[k].startswith("ok 1") and not comp:
                code = int(impl[k].split()[2])
                if code != 999:
                    n560 += 1
                    first560 = first560 or (cases[k][1], impl[k], name, checked_s)
                else:
                    n561 += 1
                    first561 = first561 or (cases[k][1], impl[k], name, checked_s)
            elif impl[k].startswith("ok 0") and comp and impl[k] == model[k]:
                ctx.violation("spec", {"request": cases[k][1], "impl": impl[k],
                                       "what": "declaration %s compatible with the detected family %s was rejected" % (name, checked_s)})
                break
    for fid, n, first in (("F560", n560, first560), ("F561", n561, first561)):
        if n:
            if ctx.find_known(fid):
                ctx.known_finding(fid, "XMLReader::setEncoding accepts a declaration that contradicts the detected encoding "
                                  "family (%s declared in an entity detected as %s; witness `%s` -> %s); %d generated cases"
                                  % (first[2], first[3], first[0], first[1], n))
            else:
                ctx.violation(fid, {"request": first[0], "impl": first[1],
                                    "what": "declaration %s contradicts the detected family %s but was accepted" % (first[2], first[3])})
    # Spec on agreeing answers: probe (extracted Appendix F decision) and the encode direction of the tables
    pk = [k for k, (kind, req) in enumerate(cases) if req.startswith("probe ")]
    if pk and not ctx.violations:
        rcP, outP, _ = run_bin(xm, ["spec_probe " + cases[k][1].split()[1] for k in pk])
        for k, so in zip(pk, outP):
            checked += 1
            if impl[k] != so:
                ctx.violation("spec", {"request": cases[k][1], "impl": impl[k], "spec": so,
                                       "what": "recognizer answer differs from XML 1.0 Appendix F (spec_detect)"})
                break
    if not ctx.violations:
        f24k = bool(ctx.find_known("F24"))
        for k, (kind, req) in enumerate(cases):
            if (req.startswith("tabto ") or (req.startswith("can ") and req.split()[1] in TABS)) and impl[k] == model[k]:
                v, d = tab_spec(req, impl[k], xh, f24k)
                checked += 1
                if v == "violates":
                    ctx.violation("spec", {"request": req, "impl": impl[k], "what": d})
                    break
    # single-byte tables, Spec on the implementation's answers (statement of T05_tab_roundtrip read on the real
    # library; this is also the refuter of the table obligations): a unit the table can encode decodes back to
    # itself, and every byte decodes to a unit that encodes to a byte with the same decoding.
    if not ctx.replay:
        for t in TABS:
            dec = {}
            rep = {}
            can = set()
            for k, (kind, req) in enumerate(cases):
                a = req.split()
                if kind == "tabfrom" and a[1] == t and impl[k].startswith("ok"):
                    us = parse_units(impl[k].split()[2], 4)
                    dec = dict(enumerate(us))
                elif kind == "tabto-rep" and a[1] == t and impl[k].startswith("ok"):
                    us = parse_units(a[4], 4)
                    bs = parse_units(impl[k].split()[2], 2) if len(impl[k].split()) > 2 else []
                    if len(bs) == len(us):
                        rep.update(zip(us, bs))
                elif kind == "can-bmp" and a[1] == t and impl[k] == "ok 1":
                    can.add(int(a[2]))
            enc = {u: rep[u] for u in can if u in rep}
            bad = None
            for u, b in sorted(enc.items()):
                if dec.get(b) != u and not (t == "ibm1047" and u == 0x85 and b == 0x15 and ctx.find_known("F24")):
                    bad = {"request": "tabto %s 4 1 %04X" % (t, u), "impl": "ok 1 %02X" % b,
                           "then": "tabfrom %s 1 %02X" % (t, b), "decodes_to": "%04X" % dec.get(b, 0xFFFFFFFF),
                           "what": "a character the %s table encodes without error does not decode back to itself" % t}
                    break
            if not bad:
                for b, u in sorted(dec.items()):
                    if u in enc and dec.get(enc[u]) != u and not (t == "ibm1047" and ctx.find_known("F24") and u in (0x0A, 0x85)):
                        bad = {"request": "tabfrom %s 1 %02X" % (t, b), "impl": "%04X" % u,
                               "what": "byte decodes to a unit whose encoding decodes to a different unit"}
                        break
            checked += len(enc) + len(dec)
            if bad:
                ctx.violation("tab-roundtrip", bad)
    ctx.coverage["spec_oracle_checked"] = checked + enc_checked + len(divergences[:200])
    # document level: same content in every encoding x BOM x declaration (oracle: XML 1.0 4.3.3 / App. F as
    # written in doc_cases; exploration that supports the tie of the recognizer + transcoders at the parser level)
    if not ctx.replay:
        tabs = T.gen_tables()
        dcs = doc_cases(ctx, tabs)
        rcd, dout, derr = run_bin(xh, ["parse " + hx(list(b), 2) for _, b, _ in dcs])
        dk = {}
        if rcd != 0 or len(dout) != len(dcs):
            ctx.violation("harness-crash", {"what": "harness crashed on document-level cases", "stderr": derr[-1500:]})
        else:
            for (label, b, exp), got in zip(dcs, dout):
                ctx.count()
                ctx.distinct(("doc", label, bytes(b)))
                dk[label.split("/")[0]] = dk.get(label.split("/")[0], 0) + 1
                bad = None
                if exp[0] == "ok" and got != exp[1]:
                    bad = "document content differs or was rejected"
                if exp[0] == "fatal" and not (got.startswith("fatal") or got.startswith("reported-error")):
                    bad = "contradictory/illegal encoding declaration was not reported"
                if bad:
                    ctx.violation("doc", {"request": "parse " + hx(list(b), 2), "label": label, "impl": got,
                                          "expected": exp, "what": bad})
                    break
            ctx.coverage["input_distribution"].update({"doc:" + k: v for k, v in dk.items()})
            ctx.sample({"kind": "doc/" + dcs[0][0], "bytes": hx(list(dcs[0][1]), 2), "impl": dout[0]})
    # 6. a failed obligation: run the refuter (here: the sweeps above are the search); report
    if proof_broken and not ctx.violations:
        ctx.violation("obligation", {"what": "Coq obligation no longer checks and no failing input was found by the "
                                     "correspondence sweeps", "failed": failed, "output": out[-3000:]}, no_input=True)
    elif proof_broken:
        ctx.note("proof obligation failed; a concrete failing input was found by the correspondence")
    ctx.coverage["rule"] = ("exhaustive 1/2-byte UTF-8 inputs (bare and padded), 3/4-byte boundary grid, code points "
                            "(edges + seeded sample; all of them in thorough), unit pairs, every block size 1..8, UCS-4 "
                            "values in both orders, all 256 bytes and all 65536 BMP units through each of the 4 generated "
                            "tables, canTranscodeTo on all BMP units + supplementary sample; a case is non-trivial when "
                            "the implementation's answer is not the empty result; distinct by request text")
    ctx.coverage["exhaustive"] = ctx.tier == "thorough"
    ctx.note("correspondence: %d cases, %d divergences, %.1fs" % (len(lines), len(divergences), time.time() - t0))
