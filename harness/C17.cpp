// xh_C17: EXPLORATION part of property C17 (built against the ThreadSanitizer build of the library).
//
//   xh_C17-tsan <mode> <seed> <nthreads> <workmask> <perturb> <iters>
//     mode     conc : N threads released from a barrier right after XMLPlatformUtils::Initialize (fresh process)
//              seq  : the same N workloads run one after the other on the main thread (reference digests)
//     workmask bit0 private parsers (all APIs / validation modes)   bit1 parsers sharing one locked grammar pool
//              bit2 private DOM build/mutate/serialise               bit3 regular expressions with category escapes
//              bit4 transcoding (XMLString::transcode + named)       bit5 parser create/destroy
//              bit6 (flag) preload the shared pool WITHOUT validation  bit7 shared locked pool + per-thread schemas
//              loaded at parse time through xsi:schemaLocation (unique target namespaces, ref=, substitution groups,
//              import) and dozens of never-seen namespace URIs per document: hammers the synchronised URI pool
//              bit8 local-code-page transcoding of CJK/Cyrillic text of varying length in a tight loop (overflow-retry
//              path of ICULCPTranscoder under a UTF-8 locale)
//              bit9 private parsers on the one LOCKED pool with cacheGrammarFromParse + useCachedGrammarInParse, documents
//              with external DTD subsets (per-thread different DTDs under the same and under different system ids) and
//              loadGrammar(DTD, toCache): a locked pool must stay exactly as it was (POOL lines before/after)
//              bit10 scanner error paths that format exception text (unsupported forced/declared encodings, unopenable
//              system ids, unknown URL protocols), every name unique to the thread: each message must carry its own
//              bit11 every category / block escape known to RangeTokenMap, \s \d \w \i \c and complements, with and without
//              option i, compiled / matched / destroyed in a tight loop
//              bit13 (flag) the shared pool is OBTAINED BY DESERIALISATION (loadGrammar -> serializeGrammars ->
//              deserializeGrammars into a fresh pool -> lockPool); bit16 (flag) serialise it from a LOCKED pool
//              bit14 parsers sharing the locked pool validate documents of the "rich" schema (every content-type kind,
//              wildcards, all-group, substitution group, identity constraints) and of a DTD grammar cached in the pool;
//              no new namespace URIs, so the pool must not allocate at all (POOLMEM lines, strict=1)
//              bit15 every public operation that can be directed at a locked shared pool, in a loop: resetCachedGrammarPool
//              on a sharing parser, clear, cacheGrammar, orphanGrammar, getXSModel (stable, non-null), retrieveGrammar,
//              create*Description
//              bit17 \P{X} for the categories whose complement Initialize does not pre-build, requested in a different
//              order by every thread, then \p{X} / \P{X} again; RANGEMAP line = audit of both slots afterwards
//   xh_C17-tsan audit    (single-threaded) lists every RangeToken reachable from RangeTokenMap right after Initialize with
//              its build state: shared state that Initialize should have built but is built lazily is the racy class
//
//   ICU is not built with ThreadSanitizer, so what happens inside a UConverter is invisible to it.  The harness
//   therefore interposes the ucnv_* entry points that take a converter (the executable is linked with -rdynamic, its
//   definitions pre-empt libicuuc's for libxerces-c as well): each call performs an *instrumented* plain write to a
//   shadow word owned by that converter and then forwards to the real function.  A UConverter must not be used by two
//   threads at once (ICU API contract), so two calls on one converter that are not ordered by the converter's mutex
//   show up as a ThreadSanitizer data race on the shadow word, with the library frames of both callers.
//     perturb  0 none; k>0: a wrapper XMLMutexMgr injects seeded yields / short sleeps around lock and unlock
//
//   output: one line "T <i> <digest> <ops>" per workload, then "DONE".  The digest covers only values that the
//   property text promises to be schedule independent (strings, event streams, error texts, match results) -- never
//   addresses, scanner ids or URI *ids* of the shared string pool.
//
//   The harness' own code is race free by construction: threads share (a) the barrier (mutex + condvar), (b) the
//   result array, where thread i writes slot i only and the main thread reads after join(), (c) read-only
//   configuration fixed before the threads are created, (d) the one locked grammar pool under test.
#include "xh_common.hpp"
#include <functional>
#include <thread>
#include <mutex>
#include <condition_variable>
#include <atomic>
#include <map>
#include <algorithm>
// the audit reads the private build state of the shared RangeTokens (fMap, fCompacted, fCaseIToken): the regx headers
// are compiled with private/protected opened up (access only; layout is unchanged); standard headers come first
#define private public
#define protected public
#include <xercesc/util/regx/RangeToken.hpp>
#include <xercesc/util/regx/RangeTokenMap.hpp>
#include <xercesc/util/regx/TokenFactory.hpp>
#undef private
#undef protected
#include <xercesc/util/RefHashTableOf.hpp>
#include <xercesc/framework/LocalFileInputSource.hpp>
#include <xercesc/framework/XMLGrammarDescription.hpp>
#include <xercesc/internal/BinMemOutputStream.hpp>
#include <xercesc/util/BinMemInputStream.hpp>
#include <xercesc/framework/MemoryManager.hpp>
#include <xercesc/framework/psvi/XSModel.hpp>
#include <xercesc/framework/XMLDTDDescription.hpp>
#include <xercesc/framework/XMLSchemaDescription.hpp>
#include <xercesc/validators/DTD/DTDGrammar.hpp>
#include <xercesc/util/TransService.hpp>
#include <xercesc/util/XMLUniDefs.hpp>
#include <xercesc/util/XMLMutexMgr.hpp>
#include <xercesc/util/regx/RegularExpression.hpp>
#include <xercesc/util/regx/Match.hpp>
#include <xercesc/util/XMLUni.hpp>
#include <xercesc/util/OutOfMemoryException.hpp>
#include <xercesc/framework/MemBufInputSource.hpp>
#include <xercesc/framework/MemBufFormatTarget.hpp>
#include <xercesc/framework/XMLGrammarPoolImpl.hpp>
#include <xercesc/framework/Wrapper4InputSource.hpp>
#include <xercesc/parsers/SAXParser.hpp>
#include <xercesc/parsers/XercesDOMParser.hpp>
#include <xercesc/sax/HandlerBase.hpp>
#include <xercesc/sax/SAXParseException.hpp>
#include <xercesc/sax2/SAX2XMLReader.hpp>
#include <xercesc/sax2/XMLReaderFactory.hpp>
#include <xercesc/sax2/DefaultHandler.hpp>
#include <xercesc/sax2/Attributes.hpp>
#include <xercesc/dom/DOM.hpp>
#include <xercesc/validators/common/Grammar.hpp>
#include <functional>
#include <thread>
#include <mutex>
#include <condition_variable>
#include <cstring>
#include <cstdlib>
#include <unistd.h>
#include <sched.h>
#include <dlfcn.h>
#include <execinfo.h>
#include <atomic>
#include <map>
#include <xercesc/sax/EntityResolver.hpp>
#include <unicode/ucnv.h>

using namespace xh;

// ------------------------------------------------------------------------------------------------------------------
// ICU converter sentinel (see the header comment)
// ------------------------------------------------------------------------------------------------------------------
namespace sentinel {
static const unsigned kSlots = 1u << 14;
static std::atomic<const void*> gKey[kSlots];      // open addressing, keys are never removed (converter addresses may be
static unsigned long gShadow[kSlots];              // reused after ucnv_close: then free()/malloc() order the accesses)
static inline void touch(const void* cnv) {
    if (!cnv) return;
    unsigned h = (unsigned)(((uintptr_t)cnv >> 4) * 2654435761u) & (kSlots - 1);
    for (unsigned n = 0; n < kSlots; n++, h = (h + 1) & (kSlots - 1)) {
        const void* k = gKey[h].load(std::memory_order_relaxed);
        if (k == cnv) break;
        if (k == 0) {
            const void* expect = 0;
            if (gKey[h].compare_exchange_strong(expect, cnv, std::memory_order_relaxed) || expect == cnv) break;
        }
    }
    gShadow[h]++;                                  // the instrumented, deliberately non-atomic write
}
template <class F> static F real(const char* name) {
    void* p = dlsym(RTLD_NEXT, name);
    if (!p) { fprintf(stderr, "sentinel: cannot resolve %s\n", name); abort(); }
    return (F)p;
}
}
#define XH_STR2(x) #x
#define XH_STR(x) XH_STR2(x)
extern "C" {
U_CAPI int32_t U_EXPORT2 ucnv_fromUChars(UConverter* cnv, char* dest, int32_t destCapacity, const UChar* src, int32_t srcLength, UErrorCode* pErrorCode) {
    typedef int32_t (*F)(UConverter*, char*, int32_t, const UChar*, int32_t, UErrorCode*);
    static F f = sentinel::real<F>(XH_STR(ucnv_fromUChars));
    sentinel::touch(cnv);
    return f(cnv, dest, destCapacity, src, srcLength, pErrorCode);
}
U_CAPI int32_t U_EXPORT2 ucnv_toUChars(UConverter* cnv, UChar* dest, int32_t destCapacity, const char* src, int32_t srcLength, UErrorCode* pErrorCode) {
    typedef int32_t (*F)(UConverter*, UChar*, int32_t, const char*, int32_t, UErrorCode*);
    static F f = sentinel::real<F>(XH_STR(ucnv_toUChars));
    sentinel::touch(cnv);
    return f(cnv, dest, destCapacity, src, srcLength, pErrorCode);
}
U_CAPI void U_EXPORT2 ucnv_fromUnicode(UConverter* cnv, char** target, const char* targetLimit, const UChar** source, const UChar* sourceLimit, int32_t* offsets, UBool flush, UErrorCode* err) {
    typedef void (*F)(UConverter*, char**, const char*, const UChar**, const UChar*, int32_t*, UBool, UErrorCode*);
    static F f = sentinel::real<F>(XH_STR(ucnv_fromUnicode));
    sentinel::touch(cnv);
    f(cnv, target, targetLimit, source, sourceLimit, offsets, flush, err);
}
U_CAPI void U_EXPORT2 ucnv_toUnicode(UConverter* cnv, UChar** target, const UChar* targetLimit, const char** source, const char* sourceLimit, int32_t* offsets, UBool flush, UErrorCode* err) {
    typedef void (*F)(UConverter*, UChar**, const UChar*, const char**, const char*, int32_t*, UBool, UErrorCode*);
    static F f = sentinel::real<F>(XH_STR(ucnv_toUnicode));
    sentinel::touch(cnv);
    f(cnv, target, targetLimit, source, sourceLimit, offsets, flush, err);
}
U_CAPI void U_EXPORT2 ucnv_setFromUCallBack(UConverter* cnv, UConverterFromUCallback newAction, const void* newContext, UConverterFromUCallback* oldAction, const void** oldContext, UErrorCode* err) {
    typedef void (*F)(UConverter*, UConverterFromUCallback, const void*, UConverterFromUCallback*, const void**, UErrorCode*);
    static F f = sentinel::real<F>(XH_STR(ucnv_setFromUCallBack));
    sentinel::touch(cnv);
    f(cnv, newAction, newContext, oldAction, oldContext, err);
}
}

// ------------------------------------------------------------------------------------------------------------------
// deterministic PRNG + digest
// ------------------------------------------------------------------------------------------------------------------
struct Rng {
    uint64_t s;
    explicit Rng(uint64_t seed) : s(seed * 0x9E3779B97F4A7C15ull + 0x1234567ull) { next(); next(); }
    uint64_t next() { s ^= s << 13; s ^= s >> 7; s ^= s << 17; return s; }
    unsigned below(unsigned n) { return (unsigned)(next() % n); }
    bool coin() { return (next() >> 11) & 1; }
};

struct Digest {
    uint64_t h = 1469598103934665603ull;
    unsigned long ops = 0;
    void add(const std::string& s) {
        static const bool dump = getenv("XH_C17_DUMP") != 0;     // diagnosis aid: what goes into the digests
        if (dump) fprintf(stderr, "DIGEST+ %.6000s\n", s.c_str());
        for (unsigned char c : s) { h ^= c; h *= 1099511628211ull; }
        h ^= 0xFF; h *= 1099511628211ull;
    }
    void addX(const XMLCh* s) { add(narrow(s)); }
};

static std::string excName(const char* kind, const XMLCh* msg) { return std::string("!") + kind + ":" + narrow(msg); }

// ------------------------------------------------------------------------------------------------------------------
// schedule perturbation: a mutex manager that delegates to the library's own and yields around lock/unlock
// ------------------------------------------------------------------------------------------------------------------
static thread_local uint64_t tlsPerturb = 0;     // per-thread PRNG state; 0 = off (main thread outside workloads)
static int gPerturbLevel = 0;                    // written before threads start, read-only afterwards

static inline void perturbPoint() {
    if (!tlsPerturb) return;
    tlsPerturb ^= tlsPerturb << 13; tlsPerturb ^= tlsPerturb >> 7; tlsPerturb ^= tlsPerturb << 17;
    unsigned r = (unsigned)(tlsPerturb >> 20) & 63;
    if (r < 8u * (unsigned)gPerturbLevel) sched_yield();
    else if (r == 63 && gPerturbLevel > 1) usleep(50);
}

class PerturbMutexMgr : public XMLMutexMgr {
public:
    explicit PerturbMutexMgr(XMLMutexMgr* inner) : fInner(inner) {}
    XMLMutexHandle create(MemoryManager* const m) override { return fInner->create(m); }
    void destroy(XMLMutexHandle h, MemoryManager* const m) override { fInner->destroy(h, m); }
    void lock(XMLMutexHandle h) override { perturbPoint(); fInner->lock(h); perturbPoint(); }
    void unlock(XMLMutexHandle h) override { perturbPoint(); fInner->unlock(h); perturbPoint(); }
    XMLMutexMgr* fInner;
};

// ------------------------------------------------------------------------------------------------------------------
// document generators (all content derives from the Rng)
// ------------------------------------------------------------------------------------------------------------------
static const char* kWords[] = {"alpha", "beta", "gamma", "delta", "x1", "y_2", "caf\xC3\xA9", "\xCE\xB1\xCE\xB2", "z"};

static std::string word(Rng& r) { return kWords[r.below(sizeof kWords / sizeof kWords[0])]; }

static const char* kDTD =
    "<!DOCTYPE root [\n"
    "<!ELEMENT root (item|note)*>\n<!ATTLIST root v CDATA #IMPLIED id ID #IMPLIED>\n"
    "<!ELEMENT item (#PCDATA|b)*>\n<!ATTLIST item k NMTOKENS #IMPLIED n (one|two|three) 'one' ref IDREF #IMPLIED>\n"
    "<!ELEMENT b (#PCDATA)>\n<!ELEMENT note EMPTY>\n<!ATTLIST note t CDATA #FIXED 'f'>\n"
    "<!ENTITY e1 'entity-one'>\n<!ENTITY e2 '<b>bold</b>'>\n]>\n";

// kind: 0 well-formed+valid, 1 invalid (validity errors), 2 malformed (fatal error)
static std::string genDtdDoc(Rng& r, int kind) {
    std::string s = "<?xml version=\"1.0\" encoding=\"UTF-8\"?>\n";
    s += kDTD;
    s += "<root v=\"" + word(r) + "\" id=\"i0\">";
    unsigned n = 1 + r.below(6);
    for (unsigned i = 0; i < n; i++) {
        if (r.below(4) == 0) { s += "<note/>"; continue; }
        s += "<item k=\"" + word(r) + "  " + word(r) + "\"";
        if (r.coin()) s += std::string(" n=\"") + (kind == 1 && r.coin() ? "four" : "two") + "\"";
        if (r.coin()) s += std::string(" ref=\"") + (kind == 1 ? "nowhere" : "i0") + "\"";
        s += ">" + word(r) + " &e1; ";
        if (r.coin()) s += "&e2;";
        if (r.coin()) s += "<![CDATA[ <raw> & ]]>";
        if (r.coin()) s += "<b>" + word(r) + "&#x41;&amp;</b>";
        if (kind == 1 && r.below(3) == 0) s += "<root/>";
        s += "</item>";
    }
    if (kind == 2) {
        switch (r.below(4)) {
        case 0: s += "<item></itm>"; break;
        case 1: s += "<item k='a' k='b'/>"; break;
        case 2: s += "&undefined;"; break;
        default: s += "<item"; break;
        }
    }
    s += "</root>\n";
    return s;
}

static const char* kXSD =
    "<?xml version=\"1.0\"?>\n"
    "<xs:schema xmlns:xs=\"http://www.w3.org/2001/XMLSchema\" targetNamespace=\"urn:c17\" xmlns:t=\"urn:c17\" "
    "elementFormDefault=\"qualified\">\n"
    " <xs:simpleType name=\"code\"><xs:restriction base=\"xs:string\"><xs:pattern value=\"\\p{Lu}{2}\\d{1,3}\"/>"
    "</xs:restriction></xs:simpleType>\n"
    " <xs:simpleType name=\"small\"><xs:restriction base=\"xs:integer\"><xs:minInclusive value=\"0\"/>"
    "<xs:maxInclusive value=\"99\"/></xs:restriction></xs:simpleType>\n"
    " <xs:element name=\"root\"><xs:complexType><xs:sequence>\n"
    "  <xs:element name=\"rec\" maxOccurs=\"unbounded\"><xs:complexType><xs:sequence>\n"
    "   <xs:element name=\"code\" type=\"t:code\"/>\n"
    "   <xs:element name=\"n\" type=\"t:small\" minOccurs=\"0\"/>\n"
    "   <xs:element name=\"when\" type=\"xs:date\" minOccurs=\"0\"/>\n"
    "   <xs:element name=\"tok\" type=\"xs:token\" minOccurs=\"0\"/>\n"
    "   <xs:any namespace=\"##other\" processContents=\"lax\" minOccurs=\"0\" maxOccurs=\"unbounded\"/>\n"
    "  </xs:sequence><xs:attribute name=\"id\" type=\"xs:ID\"/><xs:attribute name=\"f\" type=\"xs:boolean\" default=\"true\"/>"
    "<xs:anyAttribute namespace=\"##other\" processContents=\"lax\"/></xs:complexType></xs:element>\n"
    " </xs:sequence></xs:complexType>\n"
    "  <xs:unique name=\"u\"><xs:selector xpath=\"t:rec\"/><xs:field xpath=\"t:code\"/></xs:unique>\n"
    " </xs:element>\n"
    "</xs:schema>\n";

// documents for the schema above; every document introduces namespace URIs nobody has seen before (tag = thread,
// iteration) so that parsers sharing a locked pool must extend the synchronised URI string pool
static std::string genXsdDoc(Rng& r, int kind, const std::string& tag) {
    std::string s = "<?xml version=\"1.0\"?>\n<t:root xmlns:t=\"urn:c17\" xmlns:q=\"urn:new:" + tag + "\">";
    unsigned n = 1 + r.below(5);
    for (unsigned i = 0; i < n; i++) {
        char buf[64];
        snprintf(buf, sizeof buf, "<t:rec id=\"r%u\" q:extra=\"%u\"", i, r.below(100));
        s += buf;
        if (r.coin()) s += " f=\"false\"";
        s += ">";
        const char* good[] = {"AB1", "XY22", "QQ333", "\xC3\x89\xC3\x80" "7"};
        const char* bad[] = {"ab1", "A1", "ABCD", "AB1234"};
        s += std::string("<t:code>") + ((kind == 1 && r.coin()) ? bad[r.below(4)] : good[(i + r.below(2) * 2) % 4]) + "</t:code>";
        if (r.coin()) { snprintf(buf, sizeof buf, "<t:n>%u</t:n>", (kind == 1 && r.coin()) ? 100 + r.below(50) : r.below(100)); s += buf; }
        if (r.coin()) s += std::string("<t:when>") + ((kind == 1 && r.coin()) ? "2023-02-30" : "2024-02-29") + "</t:when>";
        if (r.coin()) s += "<t:tok>  a   b  </t:tok>";
        unsigned m = r.below(3);
        for (unsigned k = 0; k < m; k++) {
            snprintf(buf, sizeof buf, "urn:new:%s:%u:%u", tag.c_str(), i, k);
            s += std::string("<w:other xmlns:w=\"") + buf + "\" w:a=\"1\">" + word(r) + "</w:other>";
        }
        s += "</t:rec>";
    }
    if (kind == 2) s += "<t:rec>";
    s += "</t:root>\n";
    return s;
}

// ------------------------------------------------------------------------------------------------------------------
// event collectors
// ------------------------------------------------------------------------------------------------------------------
struct Sink {
    std::string out;
    void ev(const char* k, const XMLCh* a, const XMLCh* b = 0) {
        out += k; out += '('; out += narrow(a);
        if (b) { out += ','; out += narrow(b); }
        out += ")";
    }
    void err(const char* k, const SAXParseException& e) {
        char buf[64];
        snprintf(buf, sizeof buf, "@%lu:%lu ", (unsigned long)e.getLineNumber(), (unsigned long)e.getColumnNumber());
        out += k; out += buf; out += narrow(e.getMessage()); out += ';';
    }
};

class H2 : public DefaultHandler {
public:
    Sink s;
    void startElement(const XMLCh* const uri, const XMLCh* const local, const XMLCh* const qn, const Attributes& at) override {
        s.ev("S", uri, local); s.ev("q", qn);
        for (XMLSize_t i = 0; i < at.getLength(); i++) {
            s.ev("a", at.getURI(i), at.getQName(i)); s.ev("v", at.getValue(i), at.getType(i));
        }
    }
    void endElement(const XMLCh* const uri, const XMLCh* const local, const XMLCh* const) override { s.ev("E", uri, local); }
    void characters(const XMLCh* const c, const XMLSize_t n) override { std::basic_string<XMLCh> t(c, n); s.ev("C", t.c_str()); }
    void ignorableWhitespace(const XMLCh* const c, const XMLSize_t n) override { std::basic_string<XMLCh> t(c, n); s.ev("W", t.c_str()); }
    void startPrefixMapping(const XMLCh* const p, const XMLCh* const u) override { s.ev("P", p, u); }
    void warning(const SAXParseException& e) override { s.err("w", e); }
    void error(const SAXParseException& e) override { s.err("e", e); }
    void fatalError(const SAXParseException& e) override { s.err("f", e); }
};

class H1 : public HandlerBase {
public:
    Sink s;
    void startElement(const XMLCh* const name, AttributeList& at) override {
        s.ev("S", name);
        for (XMLSize_t i = 0; i < at.getLength(); i++) { s.ev("a", at.getName(i), at.getValue(i)); s.ev("t", at.getType(i)); }
    }
    void endElement(const XMLCh* const name) override { s.ev("E", name); }
    void characters(const XMLCh* const c, const XMLSize_t n) override { std::basic_string<XMLCh> t(c, n); s.ev("C", t.c_str()); }
    void ignorableWhitespace(const XMLCh* const c, const XMLSize_t n) override { std::basic_string<XMLCh> t(c, n); s.ev("W", t.c_str()); }
    void warning(const SAXParseException& e) override { s.err("w", e); }
    void error(const SAXParseException& e) override { s.err("e", e); }
    void fatalError(const SAXParseException& e) override { s.err("f", e); }
};

class DomErr : public DOMErrorHandler {
public:
    Sink* s;
    bool handleError(const DOMError& e) override {
        s->out += "d"; s->out += std::to_string((int)e.getSeverity()); s->out += ':'; s->out += narrow(e.getMessage()); s->out += ';';
        return true;
    }
};

static void dumpDom(const DOMNode* n, std::string& out) {
    if (!n) { out += "<null>"; return; }
    out += "["; out += std::to_string((int)n->getNodeType()); out += ' ';
    out += narrow(n->getNodeName()); out += ' '; out += narrow(n->getNamespaceURI());
    if (n->getNodeType() != DOMNode::ELEMENT_NODE && n->getNodeType() != DOMNode::DOCUMENT_NODE) { out += " ="; out += narrow(n->getNodeValue()); }
    if (DOMNamedNodeMap* m = n->getAttributes()) {
        for (XMLSize_t i = 0; i < m->getLength(); i++) {
            out += " @"; out += narrow(m->item(i)->getNodeName()); out += '='; out += narrow(m->item(i)->getNodeValue());
        }
    }
    for (DOMNode* c = n->getFirstChild(); c; c = c->getNextSibling()) dumpDom(c, out);
    out += "]";
}

static std::string serialise(DOMImplementationLS* ls, DOMNode* n, bool pretty) {
    DOMLSSerializer* w = ls->createLSSerializer();
    if (pretty && w->getDomConfig()->canSetParameter(XMLUni::fgDOMWRTFormatPrettyPrint, true))
        w->getDomConfig()->setParameter(XMLUni::fgDOMWRTFormatPrettyPrint, true);
    DOMLSOutput* o = ls->createLSOutput();
    MemBufFormatTarget tgt;
    o->setByteStream(&tgt);
    static const XMLCh utf8[] = {chLatin_U, chLatin_T, chLatin_F, chDash, chDigit_8, chNull};
    o->setEncoding(utf8);
    std::string res;
    try {
        bool ok = w->write(n, o);
        res.assign((const char*)tgt.getRawBuffer(), tgt.getLen());
        if (!ok) res += "!writefail";
    } catch (const DOMException& e) { res = excName("DOMException", e.getMessage()); }
    o->release();
    w->release();
    return res;
}

// ------------------------------------------------------------------------------------------------------------------
// workloads
// ------------------------------------------------------------------------------------------------------------------
struct Shared {                       // fixed before the threads start
    XMLGrammarPool* pool = 0;         // the one locked grammar pool (workload bit1)
    int iters = 4;
    unsigned mask = 0x3F;
    std::vector<std::string> rangeKeys;   // every keyword of RangeTokenMap (read-only once the threads run)
    std::vector<int> keyFlags;            // bit0: complement token exists after Initialize, bit1: the positive token carries
                                          // a pre-set case-insensitive twin (safe with option i)
    XSModel* xsModel = 0;                 // what pool->getXSModel() returned right after lockPool
    std::vector<std::string> lazyCompl;   // keywords whose complement token does not exist after Initialize
};

// the pool's own memory manager: counts blocks, so that "a locked pool does not allocate" can be observed
class CountingMemMgr : public MemoryManager {
public:
    std::atomic<long> allocs{0}, frees{0};
    MemoryManager* getExceptionMemoryManager() override { return XMLPlatformUtils::fgMemoryManager; }
    // once tracing is on (after lockPool) every block remembers who allocated it, so that what a LOCKED pool still
    // allocates can be classified: growth of the synchronised URI pool (the one documented mutable part), lazily built
    // content models of DTD / schema grammars, anything else
    std::atomic<bool> trace{false};
    struct Bt { void* f[16]; int n; };
    std::mutex tm; std::map<void*, Bt> live;
    void* allocate(XMLSize_t size) override {
        allocs++; void* p = ::operator new(size ? size : 1);
        if (trace.load()) { Bt b; b.n = backtrace(b.f, 16); std::lock_guard<std::mutex> l(tm); live[p] = b; }
        return p;
    }
    void deallocate(void* p) override {
        if (p) { frees++; if (trace.load()) { std::lock_guard<std::mutex> l(tm); live.erase(p); } ::operator delete(p); }
    }
    // (syncpool, dtdcm, xsdcm, other, fmt) of the blocks allocated since tracing began and still alive
    void classify(long out[5], std::string* detail) {
        out[0] = out[1] = out[2] = out[3] = out[4] = 0;
        std::lock_guard<std::mutex> l(tm);
        for (auto& kv : live) {
            char** sy = backtrace_symbols(kv.second.f, kv.second.n);
            std::string t;
            for (int i = 1; i < kv.second.n; i++) { t += sy[i]; t += "\n"; }
            free(sy);
            int c = t.find("XMLSynchronizedStringPool") != std::string::npos ? 0
                  : t.find("ormatContentModel") != std::string::npos ? 4          // cached text of a content model (error messages)
                  : t.find("DTDElementDecl") != std::string::npos ? 1
                  : t.find("ComplexTypeInfo") != std::string::npos ? 2 : 3;
            out[c]++;
            if (detail && (c == 2 || c == 3) && detail->size() < 6000) *detail += t + "--\n";
        }
    }
};

static void wrapExceptions(Digest& d, const std::function<void()>& f) {
    try { f(); }
    catch (const OutOfMemoryException&) { d.add("!OOM"); }
    catch (const XMLException& e) { d.add(excName("XMLException", e.getMessage())); }
    catch (const DOMException& e) { d.add(excName("DOMException", e.getMessage())); }
    catch (const SAXException& e) { d.add(excName("SAXException", e.getMessage())); }
    catch (...) { d.add("!unknown"); }
}

// bit0 / bit1: parse with one of four APIs; pool == 0 -> private parser with its own grammars
static void wParse(Digest& d, Rng& r, XMLGrammarPool* pool, const std::string& tag) {
    int api = r.below(4);
    bool schema = pool ? true : r.coin();
    int kind = r.below(5) < 3 ? 0 : (r.below(3) == 0 ? 2 : 1);
    int val = r.below(3);                       // never / auto / always
    bool ns = schema ? true : r.coin();
    std::string doc = schema ? genXsdDoc(r, kind, tag) : genDtdDoc(r, kind);
    MemBufInputSource src((const XMLByte*)doc.data(), doc.size(), "c17-doc", false);
    MemBufInputSource xsd((const XMLByte*)kXSD, strlen(kXSD), "c17-xsd", false);
    char hdr[64];
    snprintf(hdr, sizeof hdr, "parse api%d s%d k%d v%d n%d", api, (int)schema, kind, val, (int)ns);
    d.add(hdr);
    d.ops++;
    wrapExceptions(d, [&]() {
        if (api == 0) {
            SAXParser* p = pool ? new SAXParser(0, XMLPlatformUtils::fgMemoryManager, pool) : new SAXParser();
            H1 h;
            p->setDocumentHandler(&h); p->setErrorHandler(&h);
            p->setValidationScheme(val == 0 ? SAXParser::Val_Never : val == 1 ? SAXParser::Val_Auto : SAXParser::Val_Always);
            p->setDoNamespaces(ns); p->setDoSchema(schema);
            if (schema) {
                p->setIdentityConstraintChecking(true);
                if (!pool) p->loadGrammar(xsd, Grammar::SchemaGrammarType, true);
                p->useCachedGrammarInParse(true);
            }
            try { p->parse(src); } catch (const SAXParseException& e) { h.s.err("X", e); }
            d.add(h.s.out);
            d.add(std::to_string((int)p->getErrorCount()));
            delete p;
        } else if (api == 1) {
            SAX2XMLReader* p = XMLReaderFactory::createXMLReader(XMLPlatformUtils::fgMemoryManager, pool);
            H2 h;
            p->setContentHandler(&h); p->setErrorHandler(&h);
            p->setFeature(XMLUni::fgSAX2CoreValidation, val != 0);
            p->setFeature(XMLUni::fgXercesDynamic, val == 1);
            p->setFeature(XMLUni::fgSAX2CoreNameSpaces, ns);
            p->setFeature(XMLUni::fgSAX2CoreNameSpacePrefixes, r.coin());
            p->setFeature(XMLUni::fgXercesSchema, schema);
            if (schema) {
                p->setFeature(XMLUni::fgXercesSchemaFullChecking, r.coin());
                if (!pool) p->loadGrammar(xsd, Grammar::SchemaGrammarType, true);
                p->setFeature(XMLUni::fgXercesUseCachedGrammarInParse, true);
            }
            try { p->parse(src); } catch (const SAXParseException& e) { h.s.err("X", e); }
            d.add(h.s.out);
            d.add(std::to_string((int)p->getErrorCount()));
            delete p;
        } else if (api == 2) {
            XercesDOMParser* p = pool ? new XercesDOMParser(0, XMLPlatformUtils::fgMemoryManager, pool) : new XercesDOMParser();
            H1 h;
            p->setErrorHandler(&h);
            p->setValidationScheme(val == 0 ? XercesDOMParser::Val_Never : val == 1 ? XercesDOMParser::Val_Auto : XercesDOMParser::Val_Always);
            p->setDoNamespaces(ns); p->setDoSchema(schema);
            p->setCreateEntityReferenceNodes(r.coin());
            if (schema) {
                if (!pool) p->loadGrammar(xsd, Grammar::SchemaGrammarType, true);
                p->useCachedGrammarInParse(true);
                p->setCreateSchemaInfo(r.coin());
            }
            try { p->parse(src); } catch (const SAXParseException& e) { h.s.err("X", e); }
            d.add(h.s.out);
            std::string dump;
            dumpDom(p->getDocument(), dump);
            d.add(dump);
            delete p;
        } else {
            static const XMLCh LS[] = {chLatin_L, chLatin_S, chNull};
            DOMImplementationLS* ls = (DOMImplementationLS*)DOMImplementationRegistry::getDOMImplementation(LS);
            DOMLSParser* p = ls->createLSParser(DOMImplementationLS::MODE_SYNCHRONOUS, 0, XMLPlatformUtils::fgMemoryManager, pool);
            Sink s; DomErr eh; eh.s = &s;
            DOMConfiguration* c = p->getDomConfig();
            c->setParameter(XMLUni::fgDOMErrorHandler, &eh);
            c->setParameter(XMLUni::fgDOMValidate, val == 2);
            c->setParameter(XMLUni::fgDOMValidateIfSchema, val == 1);
            c->setParameter(XMLUni::fgDOMNamespaces, ns);
            c->setParameter(XMLUni::fgXercesSchema, schema);
            c->setParameter(XMLUni::fgDOMEntities, r.coin());
            if (schema) {
                if (!pool) {
                    Wrapper4InputSource wx(&xsd, false);
                    p->loadGrammar(&wx, Grammar::SchemaGrammarType, true);
                }
                c->setParameter(XMLUni::fgXercesUseCachedGrammarInParse, true);
            }
            Wrapper4InputSource ws(&src, false);
            DOMDocument* doc2 = 0;
            try { doc2 = p->parse(&ws); } catch (const DOMLSException& e) { s.out += excName("DOMLSException", e.getMessage()); }
            d.add(s.out);
            std::string dump;
            dumpDom(doc2, dump);
            d.add(dump);
            if (doc2) d.add(serialise(ls, doc2, false));
            p->release();
        }
    });
}

static std::basic_string<XMLCh> X(const std::string& utf8ascii) {   // ASCII only helper
    std::basic_string<XMLCh> o;
    for (unsigned char c : utf8ascii) o.push_back((XMLCh)c);
    return o;
}

// bit2: private DOM build / mutate / serialise (touches DOMImplementationRegistry and the owner-less doctype document)
static void wDom(Digest& d, Rng& r) {
    d.ops++;
    wrapExceptions(d, [&]() {
        static const XMLCh LS[] = {chLatin_L, chLatin_S, chNull};
        static const XMLCh CORE[] = {chLatin_C, chLatin_o, chLatin_r, chLatin_e, chNull};
        DOMImplementation* impl = DOMImplementationRegistry::getDOMImplementation(r.coin() ? LS : CORE);
        if (!impl) { d.add("!noimpl"); return; }
        // an owner-less document type node: allocated from the library's shared sDocument under sDocumentMutex
        // fresh names every call: a name that is already in sDocument's string pool would only be looked up
        DOMDocumentType* dt = impl->createDocumentType(X("root_" + std::to_string(r.below(1000000000)) + "_" + std::to_string(r.below(1000000000))).c_str(),
                                                       X("-//C17//" + word(r) + std::to_string(r.below(1000000000))).c_str(),
                                                       X("c17_" + std::to_string(r.below(1000000000)) + ".dtd").c_str());
        d.addX(dt->getPublicId());
        DOMDocument* doc = impl->createDocument(X("urn:dom:" + std::to_string(r.below(1000))).c_str(), X("p:root").c_str(), dt);
        DOMElement* root = doc->getDocumentElement();
        std::vector<DOMElement*> els(1, root);
        unsigned n = 5 + r.below(25);
        for (unsigned i = 0; i < n; i++) {
            DOMElement* parent = els[r.below((unsigned)els.size())];
            switch (r.below(8)) {
            case 0: case 1: {
                DOMElement* e = r.coin() ? doc->createElement(X("e" + std::to_string(i)).c_str())
                                         : doc->createElementNS(X("urn:x" + std::to_string(r.below(3))).c_str(), X("x:e" + std::to_string(i)).c_str());
                parent->appendChild(e); els.push_back(e); break; }
            case 2: parent->appendChild(doc->createTextNode(X("text " + std::to_string(r.below(100)) + " <&>").c_str())); break;
            case 3: parent->appendChild(doc->createCDATASection(X(r.coin() ? "plain" : "a]]>b").c_str())); break;
            case 4: parent->setAttribute(X("a" + std::to_string(r.below(4))).c_str(), X("v\"" + std::to_string(i)).c_str()); break;
            case 5: parent->appendChild(doc->createComment(X("c" + std::to_string(i)).c_str())); break;
            case 6: if (parent->getFirstChild()) parent->removeChild(parent->getFirstChild())->release();
                    els.assign(1, root);
                    { DOMNodeList* l = root->getElementsByTagName(X("*").c_str()); for (XMLSize_t k = 0; k < l->getLength(); k++) els.push_back((DOMElement*)l->item(k)); }
                    break;
            default: {
                try { parent->appendChild(doc->createAttribute(X("bad").c_str())); }      // HIERARCHY_REQUEST_ERR: DOM message loading
                catch (const DOMException& e) { d.add(excName("DOMException", e.getMessage())); }
                break; }
            }
        }
        if (r.coin()) doc->normalizeDocument();
        std::string dump; dumpDom(doc, dump); d.add(dump);
        DOMNode* clone = doc->cloneNode(true);
        d.add(clone->isEqualNode(doc) ? "eq" : "neq");
        clone->release();
        static const XMLCh LS2[] = {chLatin_L, chLatin_S, chNull};
        DOMImplementationLS* ls = (DOMImplementationLS*)DOMImplementationRegistry::getDOMImplementation(LS2);
        d.add(serialise(ls, doc, r.coin()));
        // a second owner-less doctype that is never adopted by a document (create + release under sDocumentMutex).  NOTE: cloneNode() of an owner-less doctype dereferences a null owner document in
        // DOMNamedNodeMapImpl::cloneMap even single-threaded; that is not a concurrency matter and is left out here.
        DOMDocumentType* dt2 = impl->createDocumentType(X("other_" + std::to_string(r.below(1000000000)) + "_" + std::to_string(r.below(1000000000))).c_str(), 0,
                                                        X("o" + std::to_string(r.below(1000000000)) + ".dtd").c_str());
        d.addX(dt2->getPublicId()); d.addX(dt2->getSystemId()); d.addX(dt2->getInternalSubset());
        dt2->release();
        doc->release();
    });
}

// bit3: regular expressions with category escapes
static void wRegex(Digest& d, Rng& r) {
    static const char* pats[] = {"\\p{L}+", "\\p{Lu}\\p{Ll}*\\d{2,3}", "[\\p{Nd}-[5-9]]+x", "\\P{L}*\\p{IsGreek}+", "(\\w+)\\s(\\w+)",
                                 "[\\i-[:]][\\c-[:]]*", "\\p{Sc}\\d+(\\.\\d\\d)?", "\\p{IsBasicLatin}+\\p{Zs}?", "[^\\p{P}]+",
                                 "\\p{Lt}|\\p{Nl}|\\p{Mn}+", "a*(ab)?c", "\\p{IsCyrillic}*\\P{Nd}"};
    static const char* subjects[] = {"Hello", "Ab12", "0123x", "...\xCE\xB1\xCE\xB2", "two words", "nc_name-1", "$12.50", "plain text", "no punct",
                                     "\xC7\x85", "aabc", "\xD0\x96\xD0\xB6z", "", "\xC3\x89\xC3\xA9" "42"};
    d.ops++;
    wrapExceptions(d, [&]() {
        const char* p = pats[r.below(sizeof pats / sizeof pats[0])];
        XMLCh* px = XMLString::transcode(p);        // ASCII pattern
        const XMLCh* opts = r.below(3) == 0 ? (const XMLCh*)u"X" : (const XMLCh*)u"";
        d.add(p);
        {
            RegularExpression re(px, opts);
            for (int i = 0; i < 6; i++) {
                const char* s = subjects[r.below(sizeof subjects / sizeof subjects[0])];
                XMLTransService::Codes rc;
                // decode UTF-8 subject with a private transcoder object
                XMLTranscoder* t = XMLPlatformUtils::fgTransService->makeNewTranscoderFor("UTF-8", rc, 256);
                XMLCh buf[128]; unsigned char sizes[128]; XMLSize_t eaten = 0;
                XMLSize_t n = t->transcodeFrom((const XMLByte*)s, strlen(s), buf, 127, eaten, sizes);
                buf[n] = 0;
                delete t;
                Match m;
                bool ok = re.matches(buf, &m);
                d.add(ok ? "M" : "-");
                if (ok) d.add(std::to_string(m.getStartPos(0)) + ":" + std::to_string(m.getEndPos(0)));
            }
        }
        XMLString::release(&px);
    });
}

// bit4: local-code-page transcoding (one process-wide converter behind a mutex) and private named transcoders
static void wTranscode(Digest& d, Rng& r) {
    static const char* encs[] = {"ISO-8859-1", "UTF-8", "windows-1252", "UTF-16LE", "Shift_JIS", "IBM037", "US-ASCII", "ISO-8859-7", "KOI8-R"};
    d.ops++;
    wrapExceptions(d, [&]() {
        std::string s;
        unsigned n = 1 + r.below(40);
        for (unsigned i = 0; i < n; i++) s += (char)(0x20 + r.below(0x5F));
        XMLCh* x = XMLString::transcode(s.c_str());
        char* back = XMLString::transcode(x);
        d.add(back);
        d.add(s == back ? "rt" : "!rt");
        XMLString::release(&back);
        // into a caller-provided buffer
        XMLCh fixed[64];
        bool ok = XMLString::transcode(s.c_str(), fixed, 63);
        d.add(ok ? narrow(fixed) : "!fixed");
        XMLString::release(&x);
        const char* enc = encs[r.below(sizeof encs / sizeof encs[0])];
        XMLTransService::Codes rc;
        XMLTranscoder* t = XMLPlatformUtils::fgTransService->makeNewTranscoderFor(enc, rc, 1024);
        d.add(enc);
        if (!t) { d.add("!notrans"); return; }
        std::basic_string<XMLCh> u;
        unsigned m = 1 + r.below(30);
        for (unsigned i = 0; i < m; i++) u.push_back((XMLCh)(r.below(5) == 0 ? 0x391 + r.below(20) : 0x20 + r.below(0x5F)));
        XMLByte out[512]; XMLSize_t eaten = 0;
        XMLSize_t nb = t->transcodeTo(u.c_str(), u.size(), out, 500, eaten, XMLTranscoder::UnRep_RepChar);
        d.add(showHex(out, nb, 2));
        XMLCh in[256]; unsigned char sizes[256]; XMLSize_t eaten2 = 0;
        XMLSize_t nc = t->transcodeFrom(out, nb, in, 255, eaten2, sizes);
        d.add(showHex(in, nc, 4));
        d.add(t->canTranscodeTo(0x3A9) ? "can" : "cannot");
        delete t;
    });
}

// bit5: parser create/destroy (scanner id counter under sScannerMutex, per-parser grammar resolver / pools)
static void wCreateDestroy(Digest& d, Rng& r) {
    d.ops++;
    wrapExceptions(d, [&]() {
        unsigned n = 1 + r.below(4);
        for (unsigned i = 0; i < n; i++) {
            switch (r.below(3)) {
            case 0: { SAX2XMLReader* p = XMLReaderFactory::createXMLReader(); p->setFeature(XMLUni::fgXercesSchema, r.coin()); delete p; break; }
            case 1: { XercesDOMParser* p = new XercesDOMParser(); p->setDoNamespaces(true); delete p; break; }
            default: { SAXParser* p = new SAXParser(); p->setDoSchema(r.coin()); delete p; break; }
            }
        }
        d.add("cd" + std::to_string(n));
    });
}

// bit7: parsers sharing the locked pool; every document pulls in its own schemas AT PARSE TIME through
// xsi:schemaLocation (resolved from memory by an EntityResolver): unique target namespaces that are not in the constant
// part of the pool, children declared by ref= (looked up at top-level scope: XMLSynchronizedStringPool::getId of the
// grammar's target namespace), a substitution group, an import -- and dozens of never-seen namespace URIs per document,
// so that addOrFind / getId / exists / getValueForId run concurrently with growth and rehashing of the shared pool.
class MemResolver : public EntityResolver {
public:
    std::string mainXsd, impXsd;
    InputSource* resolveEntity(const XMLCh* const, const XMLCh* const systemId) override {
        std::string sysid = narrow(systemId);
        const std::string* doc = 0;
        if (sysid.find("main.xsd") != std::string::npos) doc = &mainXsd;
        else if (sysid.find("imp.xsd") != std::string::npos) doc = &impXsd;
        if (!doc) return 0;
        return new MemBufInputSource((const XMLByte*)doc->data(), doc->size(), systemId, false);
    }
};

static void wPoolGrow(Digest& d, Rng& r, XMLGrammarPool* pool, const std::string& tag0) {
    d.ops++;
    std::string tag = tag0;
    for (char& c : tag) if (c == ':') c = '.';
    const std::string M = "urn:u:" + tag + ":main", I = "urn:u:" + tag + ":imp";
    MemResolver res;
    res.mainXsd =
        "<xs:schema xmlns:xs=\"http://www.w3.org/2001/XMLSchema\" targetNamespace=\"" + M + "\" xmlns:m=\"" + M + "\" xmlns:i=\"" + I +
        "\" elementFormDefault=\"qualified\">\n"
        " <xs:import namespace=\"" + I + "\" schemaLocation=\"mem." + tag + ".imp.xsd\"/>\n"
        " <xs:element name=\"root\"><xs:complexType><xs:sequence>\n"
        "  <xs:element ref=\"m:item\" maxOccurs=\"unbounded\"/>\n"
        "  <xs:element ref=\"i:ext\" minOccurs=\"0\" maxOccurs=\"unbounded\"/>\n"
        " </xs:sequence><xs:attribute name=\"a\" type=\"xs:string\"/></xs:complexType></xs:element>\n"
        " <xs:element name=\"item\" type=\"m:itemT\"/>\n"
        " <xs:element name=\"special\" substitutionGroup=\"m:item\" type=\"m:specialT\"/>\n"
        " <xs:complexType name=\"itemT\"><xs:sequence><xs:element ref=\"m:leaf\" minOccurs=\"0\" maxOccurs=\"3\"/></xs:sequence>"
        "<xs:attribute name=\"k\" type=\"xs:NMTOKEN\"/></xs:complexType>\n"
        " <xs:complexType name=\"specialT\"><xs:complexContent><xs:extension base=\"m:itemT\"><xs:attribute name=\"s\" type=\"xs:int\"/>"
        "</xs:extension></xs:complexContent></xs:complexType>\n"
        " <xs:element name=\"leaf\" type=\"xs:token\"/>\n"
        "</xs:schema>\n";
    res.impXsd =
        "<xs:schema xmlns:xs=\"http://www.w3.org/2001/XMLSchema\" targetNamespace=\"" + I + "\" elementFormDefault=\"qualified\">\n"
        " <xs:element name=\"ext\" type=\"xs:string\"/>\n</xs:schema>\n";
    int kind = r.below(4) == 0 ? 1 : 0;
    std::string doc = "<m:root xmlns:m=\"" + M + "\" xmlns:i=\"" + I + "\" xmlns:xsi=\"http://www.w3.org/2001/XMLSchema-instance\" "
                      "xsi:schemaLocation=\"" + M + " mem." + tag + ".main.xsd\" a=\"" + word(r) + "\">";
    unsigned n = 2 + r.below(4), uri = 0;
    for (unsigned i = 0; i < n; i++) {
        bool special = r.coin();
        doc += special ? "<m:special s=\"" + std::string(kind == 1 && r.coin() ? "x" : "3") + "\"" : std::string("<m:item");
        doc += " k=\"t" + std::to_string(i) + "\"";
        unsigned nd = 8 + r.below(16);
        for (unsigned k = 0; k < nd; k++, uri++) doc += " xmlns:n" + std::to_string(k) + "=\"urn:u:" + tag + ":x:" + std::to_string(uri) + "\"";
        doc += ">";
        unsigned nl = r.below(kind == 1 ? 6 : 4);
        for (unsigned k = 0; k < nl; k++) doc += "<m:leaf>  " + word(r) + "   " + word(r) + " </m:leaf>";
        doc += special ? "</m:special>" : "</m:item>";
    }
    if (r.coin()) doc += "<i:ext>" + word(r) + "</i:ext>";
    if (kind == 1 && r.coin()) doc += "<m:leaf>misplaced</m:leaf>";
    doc += "</m:root>\n";
    MemBufInputSource src((const XMLByte*)doc.data(), doc.size(), "c17-grow-doc", false);
    bool sg = r.coin();
    d.add(sg ? "grow-sg" : "grow-ig");
    wrapExceptions(d, [&]() {
        SAX2XMLReader* p = XMLReaderFactory::createXMLReader(XMLPlatformUtils::fgMemoryManager, pool);
        H2 h;
        p->setContentHandler(&h); p->setErrorHandler(&h); p->setEntityResolver(&res);
        if (sg) p->setProperty(XMLUni::fgXercesScannerName, (void*)XMLUni::fgSGXMLScanner);
        p->setFeature(XMLUni::fgSAX2CoreValidation, true);
        p->setFeature(XMLUni::fgXercesDynamic, false);
        p->setFeature(XMLUni::fgSAX2CoreNameSpaces, true);
        p->setFeature(XMLUni::fgXercesSchema, true);
        p->setFeature(XMLUni::fgXercesSchemaFullChecking, true);
        p->setFeature(XMLUni::fgXercesUseCachedGrammarInParse, true);
        try { p->parse(src); } catch (const SAXParseException& e) { h.s.err("X", e); }
        d.add(h.s.out);
        d.add(std::to_string((int)p->getErrorCount()));
        delete p;
    });
}

// bit8: XMLString::transcode both ways on text whose local-code-page form is much longer than its UTF-16 form (CJK,
// Cyrillic, supplementary characters; under a UTF-8 locale 3-4 bytes per character): the first conversion into the
// 1.25 x buffer overflows and the retry path of ICULCPTranscoder::transcode is taken, on the one process-wide converter
static void wLcp(Digest& d, Rng& r) {
    static const unsigned lens[] = {1, 2, 3, 4, 5, 8, 13, 21, 40, 100, 333, 1500};
    d.ops++;
    wrapExceptions(d, [&]() {
        for (int it = 0; it < 40; it++) {
            unsigned L = lens[r.below(sizeof lens / sizeof lens[0])];
            unsigned style = r.below(4);
            std::basic_string<XMLCh> u;
            for (unsigned i = 0; i < L; i++) {
                switch (style == 3 ? r.below(4) : style) {
                case 0: u.push_back((XMLCh)(0x4E00 + r.below(0x5000))); break;                 // CJK: 3 bytes in UTF-8
                case 1: u.push_back((XMLCh)(0x0410 + r.below(0x40))); break;                   // Cyrillic: 2 bytes
                case 2: { unsigned c = 0x20000 + r.below(0xA000) - 0x10000;                    // supplementary: 4 bytes
                          u.push_back((XMLCh)(0xD800 + (c >> 10))); u.push_back((XMLCh)(0xDC00 + (c & 0x3FF))); break; }
                default: u.push_back((XMLCh)(0x21 + r.below(0x5E))); break;
                }
            }
            char* c = XMLString::transcode(u.c_str());
            if (!c) { d.add("!null8"); continue; }
            size_t n = strlen(c);
            d.add(std::to_string(n));
            d.add(showHex((const unsigned char*)c, n, 2));
            XMLCh* back = XMLString::transcode(c);
            if (!back) d.add("!null16");
            else {
                d.add(showHex(back, XMLString::stringLen(back), 4));
                XMLString::release(&back);
            }
            XMLCh fixed[64];
            bool ok = XMLString::transcode(c, fixed, 63);
            d.add(ok ? showHex(fixed, XMLString::stringLen(fixed), 4) : "!fixed");
            XMLString::release(&c);
        }
    });
}

// ------------------------------------------------------------------------------------------------------------------
// audit of the shared range tokens (single-threaded, main thread only)
// ------------------------------------------------------------------------------------------------------------------
struct TokInfo { std::string key; int compl_; bool present, map, compacted, sorted, casei; };
static std::vector<TokInfo> auditTokens() {
    std::vector<TokInfo> out;
    RangeTokenMap* tm = RangeTokenMap::instance();
    RefHashTableOf<RangeTokenElemMap>* reg = tm->getTokenRegistry();
    RefHashTableOfEnumerator<RangeTokenElemMap> en(reg, false, XMLPlatformUtils::fgMemoryManager);
    while (en.hasMoreElements()) {
        const XMLCh* key = (const XMLCh*)en.nextElementKey();
        RangeTokenElemMap* em = reg->get(key);
        for (int c = 0; c < 2; c++) {
            RangeToken* t = em->getRangeToken(c == 1);
            TokInfo ti; ti.key = narrow(key); ti.compl_ = c; ti.present = t != 0;
            ti.map = t && t->fMap != 0; ti.compacted = t && t->fCompacted; ti.sorted = t && t->fSorted; ti.casei = t && t->fCaseIToken != 0;
            out.push_back(ti);
        }
    }
    std::sort(out.begin(), out.end(), [](const TokInfo& a, const TokInfo& b) { return a.key != b.key ? a.key < b.key : a.compl_ < b.compl_; });
    return out;
}


// ------------------------------------------------------------------------------------------------------------------
// the "rich" schema: every content-type kind, wildcards, an all-group, a substitution group, identity constraints
// ------------------------------------------------------------------------------------------------------------------
static const char* kXSDRich =
    "<?xml version=\"1.0\"?>\n"
    "<xs:schema xmlns:xs=\"http://www.w3.org/2001/XMLSchema\" targetNamespace=\"urn:c17rich\" xmlns:r=\"urn:c17rich\" "
    "elementFormDefault=\"qualified\">\n"
    " <xs:element name=\"doc\"><xs:complexType><xs:sequence>\n"
    "  <xs:element name=\"children\" type=\"r:childrenT\" minOccurs=\"0\" maxOccurs=\"unbounded\"/>\n"
    "  <xs:element name=\"mixedc\" type=\"r:mixedComplexT\" minOccurs=\"0\" maxOccurs=\"unbounded\"/>\n"
    "  <xs:element name=\"mixeds\" type=\"r:mixedSimpleT\" minOccurs=\"0\" maxOccurs=\"unbounded\"/>\n"
    "  <xs:element name=\"eoe\" type=\"r:elemOnlyEmptyT\" minOccurs=\"0\" maxOccurs=\"unbounded\"/>\n"
    "  <xs:element name=\"simple\" type=\"r:simpleContentT\" minOccurs=\"0\" maxOccurs=\"unbounded\"/>\n"
    "  <xs:element name=\"empty\" type=\"r:emptyT\" minOccurs=\"0\" maxOccurs=\"unbounded\"/>\n"
    "  <xs:element name=\"anyw\" type=\"r:anyT\" minOccurs=\"0\" maxOccurs=\"unbounded\"/>\n"
    "  <xs:element name=\"allg\" type=\"r:allT\" minOccurs=\"0\" maxOccurs=\"unbounded\"/>\n"
    "  <xs:element ref=\"r:head\" minOccurs=\"0\" maxOccurs=\"unbounded\"/>\n"
    "  <xs:element name=\"ur\" minOccurs=\"0\"/>\n"
    " </xs:sequence></xs:complexType>\n"
    "  <xs:key name=\"k\"><xs:selector xpath=\"r:children\"/><xs:field xpath=\"@id\"/></xs:key>\n"
    "  <xs:keyref name=\"kr\" refer=\"r:k\"><xs:selector xpath=\"r:eoe\"/><xs:field xpath=\"@ref\"/></xs:keyref>\n"
    "  <xs:unique name=\"u\"><xs:selector xpath=\"r:simple\"/><xs:field xpath=\"@unit\"/></xs:unique>\n"
    " </xs:element>\n"
    " <xs:complexType name=\"childrenT\"><xs:sequence><xs:element name=\"a\" type=\"xs:string\"/>"
    "<xs:element name=\"b\" type=\"xs:int\" minOccurs=\"0\"/><xs:choice minOccurs=\"0\" maxOccurs=\"unbounded\">"
    "<xs:element name=\"c\" type=\"xs:token\"/><xs:element name=\"d\" type=\"xs:date\"/></xs:choice></xs:sequence>"
    "<xs:attribute name=\"id\" type=\"xs:string\" use=\"required\"/></xs:complexType>\n"
    " <xs:complexType name=\"mixedComplexT\" mixed=\"true\"><xs:sequence><xs:element name=\"em\" type=\"xs:string\" minOccurs=\"0\" "
    "maxOccurs=\"unbounded\"/><xs:element name=\"strong\" type=\"xs:string\" minOccurs=\"0\"/></xs:sequence></xs:complexType>\n"
    " <xs:complexType name=\"mixedSimpleT\" mixed=\"true\"><xs:attribute name=\"lang\" type=\"xs:language\"/></xs:complexType>\n"
    " <xs:complexType name=\"emptyT\"><xs:attribute name=\"flag\" type=\"xs:boolean\" default=\"false\"/></xs:complexType>\n"
    " <xs:complexType name=\"elemOnlyEmptyT\"><xs:complexContent><xs:extension base=\"r:emptyT\"><xs:sequence/>"
    "<xs:attribute name=\"ref\" type=\"xs:string\"/></xs:extension></xs:complexContent></xs:complexType>\n"
    " <xs:complexType name=\"simpleContentT\"><xs:simpleContent><xs:extension base=\"xs:decimal\"><xs:attribute name=\"unit\" "
    "type=\"xs:NMTOKEN\"/></xs:extension></xs:simpleContent></xs:complexType>\n"
    " <xs:complexType name=\"anyT\"><xs:sequence><xs:any namespace=\"##targetNamespace\" processContents=\"lax\" minOccurs=\"0\" "
    "maxOccurs=\"unbounded\"/></xs:sequence><xs:anyAttribute namespace=\"##local\" processContents=\"skip\"/></xs:complexType>\n"
    " <xs:complexType name=\"allT\"><xs:all><xs:element name=\"x\" type=\"xs:string\"/><xs:element name=\"y\" type=\"xs:string\" "
    "minOccurs=\"0\"/><xs:element name=\"z\" type=\"xs:string\"/></xs:all></xs:complexType>\n"
    " <xs:element name=\"head\" type=\"xs:string\"/>\n"
    " <xs:element name=\"member\" substitutionGroup=\"r:head\" type=\"xs:string\"/>\n"
    "</xs:schema>\n";

static const char* kPoolDtdId = "file:///c17-pool/pool.dtd";
static const char* kPoolDtd =
    "<!ELEMENT proot (pa+, (pb | pc)*, pm?)>\n<!ATTLIST proot v CDATA #IMPLIED>\n"
    "<!ELEMENT pa (#PCDATA)>\n<!ATTLIST pa k NMTOKEN 'k1'>\n<!ELEMENT pb EMPTY>\n<!ELEMENT pc ANY>\n"
    "<!ELEMENT pm (#PCDATA | pa | pb)*>\n<!ENTITY pent 'pool-entity'>\n";

// kind: 0 valid, 1 invalid
static std::string genRichDoc(Rng& r, int kind) {
    std::string s = "<?xml version=\"1.0\"?>\n<r:doc xmlns:r=\"urn:c17rich\">";
    unsigned nk = 1 + r.below(3);
    for (unsigned i = 0; i < nk; i++) {
        s += "<r:children id=\"k" + std::to_string(kind == 1 && r.below(4) == 0 ? 0 : i) + "\"><r:a>" + word(r) + "</r:a>";
        if (r.coin()) s += "<r:b>" + std::string(kind == 1 && r.coin() ? "x1" : "42") + "</r:b>";
        unsigned m = r.below(4);
        for (unsigned j = 0; j < m; j++) s += r.coin() ? "<r:c>  t  " + word(r) + " </r:c>" : std::string("<r:d>2024-02-") + (kind == 1 && r.coin() ? "30" : "29") + "</r:d>";
        s += "</r:children>";
    }
    if (r.coin()) s += "<r:mixedc>text <r:em>" + word(r) + "</r:em> more <r:em>e</r:em>" + (r.coin() ? "<r:strong>s</r:strong>" : "") +
                       (kind == 1 && r.coin() ? "<r:em>late</r:em>" : "") + " tail</r:mixedc>";
    if (r.coin()) s += "<r:mixeds lang=\"en\">only text " + word(r) + (kind == 1 && r.coin() ? "<r:em/>" : "") + "</r:mixeds>";
    if (r.coin()) s += "<r:eoe ref=\"" + std::string(kind == 1 && r.coin() ? "nokey" : "k0") + "\" flag=\"true\"/>";
    unsigned ns = r.below(3);
    for (unsigned i = 0; i < ns; i++) s += "<r:simple unit=\"u" + std::to_string(kind == 1 && r.coin() ? 0 : i) + "\">" + std::to_string(r.below(1000)) + ".5</r:simple>";
    if (r.coin()) s += std::string("<r:empty") + (r.coin() ? " flag=\"1\"" : "") + ">" + (kind == 1 && r.coin() ? "x" : "") + "</r:empty>";
    if (r.coin()) s += "<r:anyw loc=\"1\"><r:head>h</r:head><r:unknown/><r:empty/></r:anyw>";
    if (r.coin()) s += std::string("<r:allg><r:z>z</r:z>") + (r.coin() ? "<r:y>y</r:y>" : "") + (kind == 1 && r.coin() ? "" : "<r:x>x</r:x>") + "</r:allg>";
    unsigned nh = r.below(3);
    for (unsigned i = 0; i < nh; i++) s += r.coin() ? "<r:head>" + word(r) + "</r:head>" : "<r:member>" + word(r) + "</r:member>";
    if (r.coin()) s += "<r:ur a=\"1\">anything <r:x/></r:ur>";
    s += "</r:doc>\n";
    return s;
}

static std::string genPoolDtdDoc(Rng& r, int kind) {
    std::string s = std::string("<?xml version=\"1.0\"?>\n<!DOCTYPE proot SYSTEM \"") + kPoolDtdId + "\">\n<proot v=\"" + word(r) + "\">";
    unsigned n = 1 + r.below(3);
    for (unsigned i = 0; i < n; i++) s += "<pa>" + word(r) + "&pent;</pa>";
    unsigned m = r.below(4);
    for (unsigned i = 0; i < m; i++) s += r.coin() ? std::string("<pb/>") : "<pc><pa>in</pa>text</pc>";
    if (kind == 1) s += "<pa>late</pa>";
    if (r.coin()) s += "<pm>mixed <pa k=\"z9\">a</pa><pb/> end</pm>";
    s += "</proot>\n";
    return s;
}

class PoolDtdResolver : public EntityResolver {
public:
    InputSource* resolveEntity(const XMLCh* const, const XMLCh* const systemId) override {
        if (narrow(systemId).find("pool.dtd") == std::string::npos) return 0;
        return new MemBufInputSource((const XMLByte*)kPoolDtd, strlen(kPoolDtd), systemId, false);
    }
};

// bit14: documents of the rich schema / the pooled DTD through parsers sharing the locked pool; no new namespace URIs
static void wRich(Digest& d, Rng& r, XMLGrammarPool* pool) {
    d.ops++;
    bool dtd = r.below(4) == 0;
    int kind = r.below(3) == 0 ? 1 : 0;
    int api = r.below(3);
    std::string doc = dtd ? genPoolDtdDoc(r, kind) : genRichDoc(r, kind);
    MemBufInputSource src((const XMLByte*)doc.data(), doc.size(), "c17-rich-doc", false);
    PoolDtdResolver res;
    d.add(std::string("rich api") + std::to_string(api) + (dtd ? " dtd" : " xsd") + std::to_string(kind));
    wrapExceptions(d, [&]() {
        if (api == 0) {
            SAXParser* p = new SAXParser(0, XMLPlatformUtils::fgMemoryManager, pool);
            H1 h;
            p->setDocumentHandler(&h); p->setErrorHandler(&h); p->setEntityResolver(&res);
            p->setValidationScheme(SAXParser::Val_Always); p->setDoNamespaces(true); p->setDoSchema(!dtd);
            p->setIdentityConstraintChecking(true); p->setValidationSchemaFullChecking(r.coin());
            p->useCachedGrammarInParse(true);
            try { p->parse(src); } catch (const SAXParseException& e) { h.s.err("X", e); }
            d.add(h.s.out); d.add(std::to_string((int)p->getErrorCount()));
            delete p;
        } else if (api == 1) {
            SAX2XMLReader* p = XMLReaderFactory::createXMLReader(XMLPlatformUtils::fgMemoryManager, pool);
            H2 h;
            p->setContentHandler(&h); p->setErrorHandler(&h); p->setEntityResolver(&res);
            if (r.coin()) p->setProperty(XMLUni::fgXercesScannerName, (void*)(dtd ? XMLUni::fgDGXMLScanner : XMLUni::fgSGXMLScanner));
            p->setFeature(XMLUni::fgSAX2CoreValidation, true);
            p->setFeature(XMLUni::fgXercesDynamic, false);
            p->setFeature(XMLUni::fgXercesSchema, !dtd);
            p->setFeature(XMLUni::fgXercesUseCachedGrammarInParse, true);
            try { p->parse(src); } catch (const SAXParseException& e) { h.s.err("X", e); }
            d.add(h.s.out); d.add(std::to_string((int)p->getErrorCount()));
            delete p;
        } else {
            XercesDOMParser* p = new XercesDOMParser(0, XMLPlatformUtils::fgMemoryManager, pool);
            H1 h;
            p->setErrorHandler(&h); p->setEntityResolver(&res);
            p->setValidationScheme(XercesDOMParser::Val_Always); p->setDoNamespaces(true); p->setDoSchema(!dtd);
            p->setCreateSchemaInfo(r.coin());
            p->useCachedGrammarInParse(true);
            try { p->parse(src); } catch (const SAXParseException& e) { h.s.err("X", e); }
            d.add(h.s.out);
            std::string dump; dumpDom(p->getDocument(), dump); d.add(dump);
            delete p;
        }
    });
}

// bit15: everything a private parser or another thread may legally direct at a locked shared pool must leave it as it is
static void wPoke(Digest& d, Rng& r, const Shared& sh) {
    d.ops++;
    XMLGrammarPool* pool = sh.pool;
    wrapExceptions(d, [&]() {
        for (int it = 0; it < 12; it++) {
            switch (r.below(8)) {
            case 0: { XercesDOMParser* p = new XercesDOMParser(0, XMLPlatformUtils::fgMemoryManager, pool); p->resetCachedGrammarPool(); delete p; d.add("reset-dom"); break; }
            case 1: { SAX2XMLReader* p = XMLReaderFactory::createXMLReader(XMLPlatformUtils::fgMemoryManager, pool); p->resetCachedGrammarPool(); delete p; d.add("reset-sax2"); break; }
            case 2: { SAXParser* p = new SAXParser(0, XMLPlatformUtils::fgMemoryManager, pool); p->resetCachedGrammarPool(); delete p; d.add("reset-sax"); break; }
            case 3: d.add(pool->clear() ? "clear:1" : "clear:0"); break;
            case 4: { DTDGrammar* g = new DTDGrammar(XMLPlatformUtils::fgMemoryManager);
                      XMLDTDDescription* ds = (XMLDTDDescription*)g->getGrammarDescription();
                      ds->setSystemId(X("file:///c17-poke/" + std::to_string(r.below(1000000)) + ".dtd").c_str());
                      bool took = pool->cacheGrammar(g);
                      d.add(took ? "cache:1" : "cache:0");
                      if (!took) delete g;
                      break; }
            case 5: { Grammar* g = pool->orphanGrammar(r.coin() ? X("urn:c17rich").c_str() : X("urn:nothing").c_str()); d.add(g ? "orphan:1" : "orphan:0"); break; }
            case 6: { XMLSchemaDescription* sd = pool->createSchemaDescription(X(r.coin() ? "urn:c17rich" : "urn:c17").c_str());
                      Grammar* g = pool->retrieveGrammar(sd);
                      d.add(g ? "retrieve:" + narrow(g->getTargetNamespace()) : "retrieve:0");
                      delete sd;
                      XMLDTDDescription* dd = pool->createDTDDescription(X(kPoolDtdId).c_str());
                      d.add(pool->retrieveGrammar(dd) ? "retrieve-dtd:1" : "retrieve-dtd:0");
                      delete dd;
                      break; }
            default: { bool changed = true; XSModel* xm = pool->getXSModel(changed);
                       d.add(std::string("xsmodel:") + (xm == 0 ? "NULL" : xm == sh.xsModel ? "same" : "DIFFERENT") + (changed ? ":changed" : ""));
                       if (xm && xm == sh.xsModel) d.add(std::to_string((int)xm->getNamespaces()->size()));
                       break; }
            }
        }
    });
}

// bit17: the complements that Initialize does not pre-build are created on first use inside RangeTokenMap::getRange; whatever
// the order in which threads ask, \p{X} and \P{X} must keep meaning the same
static void wLazyCompl(int idx, Digest& d, Rng& r, const Shared& sh) {
    static const char16_t* probe = u"aZ0 _-$\u00E9\u03B1\u0416\u0660\u20AC\u2028\uFFFF\u0378";
    d.ops++;
    std::vector<std::string> keys = sh.lazyCompl;
    if (keys.empty()) { d.add("no-lazy-complements"); keys = {"L", "Nd"}; }
    // a different order per thread
    for (size_t i = keys.size(); i > 1; i--) std::swap(keys[i - 1], keys[(idx * 7 + r.below((unsigned)i)) % i]);
    std::string all;
    for (int pass = 0; pass < 3; pass++) {
        for (const std::string& k : keys) {
            static const char* forms[] = {"\\P{%s}", "\\p{%s}", "[\\P{%s}]", "[^\\P{%s}]", "[\\P{%s}-[b-y]]", "\\P{%s}+"};
            for (unsigned f = 0; f < sizeof forms / sizeof forms[0]; f++) {
                if (pass == 0 && f != 0 && f != 2) continue;          // first pass: only the requests that create
                char pat[128]; snprintf(pat, sizeof pat, forms[f], k.c_str());
                std::string res = std::string(pat) + "=";
                try {
                    RegularExpression re(X(pat).c_str());
                    for (const char16_t* c = probe; *c; c++) { XMLCh one[2] = {(XMLCh)*c, 0}; res += re.matches(one) ? '1' : '0'; }
                } catch (const XMLException& e) { res += excName("XMLException", e.getMessage()); }
                all += res + ";";
            }
        }
    }
    // order independence: the digest is taken over the sorted list of (pattern, answers)
    std::vector<std::string> items; size_t pos = 0, q;
    while ((q = all.find(';', pos)) != std::string::npos) { items.push_back(all.substr(pos, q - pos)); pos = q + 1; }
    std::sort(items.begin(), items.end());
    items.erase(std::unique(items.begin(), items.end()), items.end());
    for (auto& i : items) d.add(i);
}

// both slots of every keyword: hash of the positive token's ranges; complement token (if any) == complement of the positive
static std::string rangeMapState(bool checkCompl, std::string* bad) {
    std::string out;
    RangeTokenMap* tm = RangeTokenMap::instance();
    RefHashTableOf<RangeTokenElemMap>* reg = tm->getTokenRegistry();
    RefHashTableOfEnumerator<RangeTokenElemMap> en(reg, false, XMLPlatformUtils::fgMemoryManager);
    std::vector<std::string> rows;
    while (en.hasMoreElements()) {
        const XMLCh* key = (const XMLCh*)en.nextElementKey();
        RangeTokenElemMap* em = reg->get(key);
        RangeToken* p = em->getRangeToken(false);
        RangeToken* n = em->getRangeToken(true);
        // hash of the SET the positive token denotes (ranges sorted and merged first: complementRanges() sorts and
        // compacts its argument in place, which changes the representation but must not change the set)
        uint64_t h = 1469598103934665603ull;
        if (p) {
            std::vector<std::pair<XMLInt32, XMLInt32> > rs;
            for (unsigned i = 0; i + 1 < p->fElemCount; i += 2) rs.push_back(std::make_pair(p->fRanges[i], p->fRanges[i + 1]));
            std::sort(rs.begin(), rs.end());
            std::vector<std::pair<XMLInt32, XMLInt32> > mg;
            for (auto& x : rs) { if (!mg.empty() && x.first <= mg.back().second + 1) mg.back().second = std::max(mg.back().second, x.second); else mg.push_back(x); }
            h ^= (uint64_t)p->getTokenType(); h *= 1099511628211ull;
            for (auto& x : mg) { h ^= (uint64_t)(uint32_t)x.first; h *= 1099511628211ull; h ^= (uint64_t)(uint32_t)x.second; h *= 1099511628211ull; }
        }
        char buf[32]; snprintf(buf, sizeof buf, "%016llx", (unsigned long long)h);
        rows.push_back(narrow(key) + "=" + (p ? buf : "none"));
        if (checkCompl && p && n) {
            // complement check on code points around every range boundary of both tokens (+ fixed samples)
            std::vector<XMLInt32> pts = {0, 1, 0x41, 0x7F, 0x80, 0xFF, 0x100, 0x3B1, 0xFFFF, 0x10000, 0x10FFFF};
            for (RangeToken* t : {p, n}) for (unsigned i = 0; i < t->fElemCount; i++) for (int dlt = -1; dlt <= 1; dlt++) {
                XMLInt32 c = t->fRanges[i] + dlt; if (c >= 0 && c <= 0x10FFFF) pts.push_back(c); }
            for (XMLInt32 c : pts) {
                bool inP = false, inN = false;
                for (unsigned i = 0; i + 1 < p->fElemCount; i += 2) if (p->fRanges[i] <= c && c <= p->fRanges[i + 1]) inP = true;
                for (unsigned i = 0; i + 1 < n->fElemCount; i += 2) if (n->fRanges[i] <= c && c <= n->fRanges[i + 1]) inN = true;
                if (p->getTokenType() == Token::T_NRANGE) inP = !inP;
                if (n->getTokenType() == Token::T_NRANGE) inN = !inN;
                if (inP == inN) { if (bad && bad->size() < 200) *bad += narrow(key) + "@" + std::to_string(c) + " "; break; }
            }
        }
    }
    std::sort(rows.begin(), rows.end());
    uint64_t hh = 1469598103934665603ull;
    for (auto& rw : rows) for (unsigned char c : rw) { hh ^= c; hh *= 1099511628211ull; }
    char buf[32]; snprintf(buf, sizeof buf, "%016llx", (unsigned long long)hh);
    return buf;
}

// bit9: DTDs and a locked pool
class DtdResolver : public EntityResolver {
public:
    std::map<std::string, std::string> docs;
    InputSource* resolveEntity(const XMLCh* const, const XMLCh* const systemId) override {
        std::string sysid = narrow(systemId);
        for (auto& kv : docs)
            if (sysid.size() >= kv.first.size() && sysid.compare(sysid.size() - kv.first.size(), kv.first.size(), kv.first) == 0)
                return new MemBufInputSource((const XMLByte*)kv.second.data(), kv.second.size(), systemId, false);
        return 0;
    }
};

static std::string genDtd(Rng& r, std::string& childName) {
    childName = "c" + std::to_string(r.below(5));
    std::string s = "<!ELEMENT root (" + childName + (r.coin() ? "+" : "*") + ")>\n<!ATTLIST root v CDATA #IMPLIED>\n";
    s += "<!ELEMENT " + childName + " (#PCDATA)>\n<!ATTLIST " + childName + " k NMTOKEN '" + word(r).substr(0, 1) + "1'>\n";
    s += "<!ENTITY ent 'E" + std::to_string(r.below(100)) + "'>\n";
    return s;
}

static void wDtdPool(Digest& d, Rng& r, XMLGrammarPool* pool, const std::string& tag0) {
    d.ops++;
    std::string tag = tag0;
    for (char& c : tag) if (c == ':') c = '_';
    DtdResolver res;
    std::string child;
    // the SAME system id names a different DTD in every thread; a second, thread-unique system id as well
    bool shared = r.coin();
    std::string sysid = shared ? "shared-c17.dtd" : "u_" + tag + ".dtd";
    res.docs[sysid] = genDtd(r, child);
    int kind = r.below(4) == 0 ? 1 : 0;
    std::string doc = "<?xml version=\"1.0\"?>\n<!DOCTYPE root SYSTEM \"" + sysid + "\">\n<root v=\"" + word(r) + "\">";
    unsigned n = 1 + r.below(4);
    for (unsigned i = 0; i < n; i++) doc += "<" + child + ">t&ent;" + std::to_string(i) + "</" + child + ">";
    if (kind == 1) doc += "<undeclared/>";
    doc += "</root>\n";
    MemBufInputSource src((const XMLByte*)doc.data(), doc.size(), "c17-dtd-doc", false);
    int api = r.below(3);
    bool preload = r.below(3) == 0;
    d.add("dtdpool api" + std::to_string(api) + (shared ? " shared" : " unique") + (preload ? " preload" : ""));
    wrapExceptions(d, [&]() {
        std::string ldtd = genDtd(r, child);                       // for loadGrammar(DTD, toCache = true)
        MemBufInputSource lsrc((const XMLByte*)ldtd.data(), ldtd.size(), ("load_" + tag + ".dtd").c_str(), false);
        if (api == 0) {
            SAXParser* p = new SAXParser(0, XMLPlatformUtils::fgMemoryManager, pool);
            H1 h;
            p->setDocumentHandler(&h); p->setErrorHandler(&h); p->setEntityResolver(&res);
            p->setValidationScheme(SAXParser::Val_Always);
            p->cacheGrammarFromParse(true); p->useCachedGrammarInParse(true);
            if (preload) { Grammar* g = p->loadGrammar(lsrc, Grammar::DTDGrammarType, true); d.add(g ? "loaded" : "noload"); }
            try { p->parse(src); } catch (const SAXParseException& e) { h.s.err("X", e); }
            d.add(h.s.out); d.add(std::to_string((int)p->getErrorCount()));
            delete p;
        } else if (api == 1) {
            SAX2XMLReader* p = XMLReaderFactory::createXMLReader(XMLPlatformUtils::fgMemoryManager, pool);
            H2 h;
            p->setContentHandler(&h); p->setErrorHandler(&h); p->setEntityResolver(&res);
            p->setFeature(XMLUni::fgSAX2CoreValidation, true);
            p->setFeature(XMLUni::fgXercesDynamic, false);
            p->setFeature(XMLUni::fgXercesCacheGrammarFromParse, true);
            p->setFeature(XMLUni::fgXercesUseCachedGrammarInParse, true);
            if (preload) { Grammar* g = p->loadGrammar(lsrc, Grammar::DTDGrammarType, true); d.add(g ? "loaded" : "noload"); }
            try { p->parse(src); } catch (const SAXParseException& e) { h.s.err("X", e); }
            d.add(h.s.out); d.add(std::to_string((int)p->getErrorCount()));
            delete p;
        } else {
            XercesDOMParser* p = new XercesDOMParser(0, XMLPlatformUtils::fgMemoryManager, pool);
            H1 h;
            p->setErrorHandler(&h); p->setEntityResolver(&res);
            p->setValidationScheme(XercesDOMParser::Val_Always);
            p->cacheGrammarFromParse(true); p->useCachedGrammarInParse(true);
            if (preload) { Grammar* g = p->loadGrammar(lsrc, Grammar::DTDGrammarType, true); d.add(g ? "loaded" : "noload"); }
            try { p->parse(src); } catch (const SAXParseException& e) { h.s.err("X", e); }
            d.add(h.s.out);
            std::string dump; dumpDom(p->getDocument(), dump); d.add(dump);
            delete p;
        }
    });
}

// bit10: error paths whose text is formatted from an exception (XMLScanner::emitError(code, exceptCode, text1..4) and the
// exception constructors): every name below is unique to the thread and iteration, so a message that does not carry its
// own name was formatted by / overwritten for somebody else
static void wErrText(Digest& d, Rng& r, const std::string& tag0) {
    static const XMLCh* scanners[] = {XMLUni::fgIGXMLScanner, XMLUni::fgWFXMLScanner, XMLUni::fgDGXMLScanner, XMLUni::fgSGXMLScanner};
    d.ops++;
    std::string tag = tag0;
    for (char& c : tag) if (c == ':') c = '-';
    for (int it = 0; it < 6; it++) {
        int what = r.below(5);
        std::string name = "n" + tag + "-" + std::to_string(it) + "-" + std::to_string(r.below(100000));
        std::string doc;
        d.add("err" + std::to_string(what));
        wrapExceptions(d, [&]() {
            SAX2XMLReader* p = XMLReaderFactory::createXMLReader();
            H2 h;
            p->setContentHandler(&h); p->setErrorHandler(&h);
            p->setProperty(XMLUni::fgXercesScannerName, (void*)scanners[r.below(4)]);
            p->setFeature(XMLUni::fgXercesLoadExternalDTD, true);
            p->setFeature(XMLUni::fgSAX2CoreValidation, r.coin());
            std::string exc;
            try {
                if (what == 0) {                     // forced encoding nobody supports
                    doc = "<?xml version=\"1.0\"?><r>" + word(r) + "</r>";
                    MemBufInputSource src((const XMLByte*)doc.data(), doc.size(), "c17-err", false);
                    src.setEncoding(X("X-NOPE-" + name).c_str());
                    p->parse(src);
                } else if (what == 1) {              // declared encoding nobody supports
                    doc = "<?xml version=\"1.0\" encoding=\"X-UNK-" + name + "\"?><r>" + word(r) + "</r>";
                    MemBufInputSource src((const XMLByte*)doc.data(), doc.size(), "c17-err", false);
                    p->parse(src);
                } else if (what == 2) {              // primary document that cannot be opened
                    p->parse(X("/nonexistent-c17/" + name + ".xml").c_str());
                } else if (what == 3) {              // external DTD subset that cannot be opened
                    doc = "<?xml version=\"1.0\"?><!DOCTYPE r SYSTEM \"/nonexistent-c17/" + name + ".dtd\"><r/>";
                    MemBufInputSource src((const XMLByte*)doc.data(), doc.size(), "c17-err", false);
                    p->parse(src);
                } else {                             // external entity under an unknown URL protocol (never the network)
                    doc = "<?xml version=\"1.0\"?><!DOCTYPE r [<!ENTITY e SYSTEM \"noproto" + name + "://x/" + name + ".ent\">]><r>&e;</r>";
                    MemBufInputSource src((const XMLByte*)doc.data(), doc.size(), "c17-err", false);
                    p->parse(src);
                }
            }
            catch (const SAXParseException& e) { h.s.err("X", e); }
            catch (const XMLException& e) { exc = excName("XMLException", e.getMessage()); }
            catch (const SAXException& e) { exc = excName("SAXException", e.getMessage()); }
            std::string all = h.s.out + exc;
            d.add(all);
            // the message goes into the digest; "own" records that it carries this thread's unique name (the sequential
            // reference fixes which error kinds do), so a message formatted for another thread changes the digest
            d.add(all.find(name) != std::string::npos ? "own" : "noname");
            delete p;
        });
    }
}

// bit11: every escape the token map knows
static std::basic_string<XMLCh> W(const char16_t* s) { return std::basic_string<XMLCh>((const XMLCh*)s); }
static void wRegexAll(int idx, int iter, const Shared& sh, Digest& d, Rng& r) {
    static const char* simple[] = {"\\s", "\\S", "\\d", "\\D", "\\w", "\\W", "\\i", "\\I", "\\c", "\\C"};
    static const char16_t* subjects[] = {u"Hello", u"$+<=>^`|~", u"\u03B1\u03B2\u0393", u" \t\n", u"0123", u"\u0001\u007F", u"\u0416\u0436z", u"_:a-b.c",
                                         u"\u00C9\u00E9\u01C5\u02B0", u"\u20AC\u00A3\u2211\u00A9", u"\u2028\u00A0", u"", u"\u0660\u2160\u00BD", u"(-)[_]\u00AB\u00BB"};
    d.ops++;
    const size_t nk = sh.rangeKeys.size();
    if (iter == 0) {
        // first-use pass: right after the barrier every thread touches EVERY shared token once (positive and, where it
        // exists, complement), all in the same cyclic order, four start offsets: whatever a token builds lazily on its
        // first match is built by several threads at once
        std::basic_string<XMLCh> subj = W(u"aZ0 $\u03B1\u0416\u20AC\u2028_-");
        std::string acc;
        for (size_t n = 0; n < nk; n++) {
            size_t ki = (n + (size_t)(idx % 4) * (nk / 4)) % nk;
            for (int neg = 0; neg < 2; neg++) {
                if (neg && !(sh.keyFlags[ki] & 1) && !(sh.mask & 0x1000u)) continue;
                std::string pat = std::string(neg ? "\\P{" : "\\p{") + sh.rangeKeys[ki] + "}";
                try {
                    RegularExpression re(X(pat).c_str());
                    Match m;
                    acc += re.matches(subj.c_str(), &m) ? (char)('a' + m.getStartPos(0) % 26) : '-';
                } catch (const XMLException&) { acc += '!'; }
            }
        }
        d.add(acc);
    }
    for (int it = 0; it < 14; it++) {
        std::string pat;
        // thread idx starts at a different key, so that a process covers the key list quickly and every thread's very
        // first expressions are about different shared tokens than its neighbours' AND the same as some other thread's
        size_t ki = (iter == 0 ? (size_t)(idx / 2) * 7 + it : r.below((unsigned)(nk + 10))) % (nk + 10);
        // bit12 clear (default): stay clear of the two lazily built kinds of shared state that the audit lists and that are
        // known finding F17-4 -- option i only on tokens whose case-insensitive twin was pre-set by Initialize (the
        // Unicode category tokens), \\P{} only where the complement token exists.  bit12 set: no such restraint.
        const bool unrestrained = (sh.mask & 0x1000u) != 0;
        std::string esc;
        bool safeI = false;
        if (ki < nk) {
            bool neg = r.coin();
            if (neg && !unrestrained && !(sh.keyFlags[ki] & 1)) neg = false;
            esc = std::string(neg ? "\\P{" : "\\p{") + sh.rangeKeys[ki] + "}";
            safeI = !neg && (sh.keyFlags[ki] & 2);
        }
        else esc = simple[ki - nk];
        unsigned shape = r.below(5);
        if (safeI && shape == 3) shape = 1;
        switch (shape) {
        case 0: pat = esc; break;
        case 1: pat = esc + "+"; break;
        case 2: pat = "[" + esc + "-[a-c]]*x?"; break;
        case 3: pat = "(" + esc + ")|" + simple[r.below(10)]; break;
        default: pat = "[^" + esc + "]"; break;
        }
        static const char* optss[] = {"", "i", "X", "iX", "i", ""};
        const char* opts = optss[r.below(6)];
        if (!unrestrained && !safeI && opts[0] == 'i') opts = opts[1] ? "X" : "";
        d.add(pat + "/" + opts);
        wrapExceptions(d, [&]() {
            RegularExpression re(X(pat).c_str(), X(opts).c_str());
            for (int k = 0; k < 4; k++) {
                std::basic_string<XMLCh> subj = W(subjects[r.below(sizeof subjects / sizeof subjects[0])]);
                Match m;
                bool ok = re.matches(subj.c_str(), &m);
                d.add(ok ? "M" + std::to_string(m.getStartPos(0)) + ":" + std::to_string(m.getEndPos(0)) : "-");
            }
        });
    }
}

static void workload(int idx, uint64_t seed, const Shared& sh, Digest& d) {
    Rng r(seed * 1000003ull + (uint64_t)idx * 7919ull + 17);
    std::vector<int> enabled;
    static const int kWork[] = {0, 1, 2, 3, 4, 5, 7, 8, 9, 10, 11, 14, 15, 17};
    for (int b : kWork) if (sh.mask & (1u << b)) enabled.push_back(b);
    if (enabled.empty()) return;
    // the first operation of thread i is workload (i mod #enabled): all facilities see first-use contention
    for (int it = 0; it < sh.iters; it++) {
        int w = it == 0 ? enabled[idx % enabled.size()] : enabled[r.below((unsigned)enabled.size())];
        std::string tag = std::to_string(idx) + ":" + std::to_string(it) + ":" + std::to_string(r.below(1000000));
        switch (w) {
        case 0: wParse(d, r, 0, tag); break;
        case 1: wParse(d, r, sh.pool, tag); break;
        case 2: wDom(d, r); break;
        case 3: wRegex(d, r); break;
        case 4: wTranscode(d, r); break;
        case 5: wCreateDestroy(d, r); break;
        case 7: wPoolGrow(d, r, sh.pool, tag); break;
        case 8: wLcp(d, r); break;
        case 9: wDtdPool(d, r, sh.pool, tag); break;
        case 10: wErrText(d, r, tag); break;
        case 11: wRegexAll(idx, it, sh, d, r); break;
        case 14: wRich(d, r, sh.pool); break;
        case 15: wPoke(d, r, sh); break;
        default: wLazyCompl(idx, d, r, sh); break;
        }
    }
}

// ------------------------------------------------------------------------------------------------------------------
struct Barrier {
    std::mutex m; std::condition_variable cv; int waiting = 0; int total = 0; bool go = false;
    void arrive() {
        std::unique_lock<std::mutex> l(m);
        if (++waiting == total) { go = true; cv.notify_all(); }
        else cv.wait(l, [this] { return go; });
    }
};

int main(int argc, char** argv) {
    if (argc >= 2 && std::string(argv[1]) == "audit") {
        XMLPlatformUtils::Initialize();
        for (const TokInfo& t : auditTokens())
            printf("TOKEN %s %d present=%d map=%d compacted=%d sorted=%d casei=%d\n", t.key.c_str(), t.compl_, (int)t.present, (int)t.map,
                   (int)t.compacted, (int)t.sorted, (int)t.casei);
        XMLPlatformUtils::Terminate();
        printf("DONE\n");
        return 0;
    }
    if (argc < 7) { fprintf(stderr, "usage: %s conc|seq seed nthreads workmask perturb iters | audit\n", argv[0]); return 2; }
    std::string mode = argv[1];
    uint64_t seed = strtoull(argv[2], 0, 10);
    int nthreads = atoi(argv[3]);
    Shared sh;
    sh.mask = (unsigned)strtoul(argv[4], 0, 0);
    gPerturbLevel = atoi(argv[5]);
    sh.iters = atoi(argv[6]);
    if (nthreads < 1 || nthreads > 64) return 2;

    XMLPlatformUtils::Initialize();
    XMLMutexMgr* origMgr = XMLPlatformUtils::fgMutexMgr;
    PerturbMutexMgr* pm = 0;
    if (gPerturbLevel > 0 && mode == "conc") { pm = new PerturbMutexMgr(origMgr); XMLPlatformUtils::fgMutexMgr = pm; }

    CountingMemMgr* poolMem = 0;
    if (sh.mask & 0xC282u) {
        // the shared pool: schema grammars (plain + rich) and a DTD grammar are cached, then the pool is locked; from then on
        // it is read-only and hands out a synchronised URI string pool.  It has its own (counting) memory manager.
        poolMem = new CountingMemMgr();
        XMLGrammarPool* pool = new XMLGrammarPoolImpl(poolMem);
        {
            SAX2XMLReader* p = XMLReaderFactory::createXMLReader(XMLPlatformUtils::fgMemoryManager, pool);
            MemBufInputSource xsd((const XMLByte*)kXSD, strlen(kXSD), "c17-xsd", false);
            MemBufInputSource xsd2((const XMLByte*)kXSDRich, strlen(kXSDRich), "c17-xsd-rich", false);
            MemBufInputSource dtd((const XMLByte*)kPoolDtd, strlen(kPoolDtd), kPoolDtdId, false);
            p->setFeature(XMLUni::fgXercesSchema, true);
            // bit6 clear: preload with validation + full schema checking (SchemaValidator::preContentValidation then builds
            // every content model before the pool is locked); bit6 set: plain preload, content models are built lazily
            // by whichever sharing parser first needs them
            p->setFeature(XMLUni::fgSAX2CoreValidation, (sh.mask & 64u) == 0);
            p->setFeature(XMLUni::fgXercesSchemaFullChecking, (sh.mask & 64u) == 0);
            p->loadGrammar(xsd, Grammar::SchemaGrammarType, true);
            p->loadGrammar(xsd2, Grammar::SchemaGrammarType, true);
            p->loadGrammar(dtd, Grammar::DTDGrammarType, true);
            delete p;
        }
        if (sh.mask & 0x2000u) {
            // bit13: hand the threads a pool that was obtained by de-serialisation
            if (sh.mask & 0x10000u) pool->lockPool();                 // bit16: serialise a LOCKED pool
            BinMemOutputStream out(64 * 1024);
            pool->serializeGrammars(&out);
            CountingMemMgr* mem2 = new CountingMemMgr();
            XMLGrammarPool* pool2 = new XMLGrammarPoolImpl(mem2);
            BinMemInputStream in(out.getRawBuffer(), out.getSize(), BinMemInputStream::BufOpt_Reference);
            pool2->deserializeGrammars(&in);
            if (sh.mask & 0x10000u) pool->unlockPool();
            delete pool;
            // (poolMem of the first pool is intentionally kept alive until exit: nothing refers to it any more)
            pool = pool2; poolMem = mem2;
        }
        pool->lockPool();
        sh.pool = pool;
        bool changed = false;
        sh.xsModel = pool->getXSModel(changed);
    }
    if (sh.mask & 0x20000u) {
        for (const TokInfo& t : auditTokens()) if (t.compl_ == 1 && !t.present) sh.lazyCompl.push_back(t.key);
    }
    std::string rmBefore = (sh.mask & 0x20800u) ? rangeMapState(false, 0) : "";

    if (sh.mask & 0x800u) {
        for (const TokInfo& t : auditTokens()) {
            if (t.compl_ == 0) { sh.rangeKeys.push_back(t.key); sh.keyFlags.push_back(t.casei ? 2 : 0); }
            else if (t.present) sh.keyFlags.back() |= 1;
        }
    }
    auto poolState = [&]() {          // what a locked pool holds: must be the same before and after the workloads
        std::vector<std::string> keys;
        if (sh.pool) {
            RefHashTableOfEnumerator<Grammar> en = sh.pool->getGrammarEnumerator();
            while (en.hasMoreElements()) {
                Grammar& g = en.nextElement();
                keys.push_back(narrow(g.getGrammarDescription()->getGrammarKey()) + "#" + std::to_string((int)g.getGrammarType()));
            }
        }
        std::sort(keys.begin(), keys.end());
        std::string all;
        for (auto& k : keys) all += k + ";";
        return std::to_string(keys.size()) + " " + (all.empty() ? "-" : all);
    };
    if (sh.pool) printf("POOL before %s\n", poolState().c_str());
    if (poolMem) poolMem->trace = true;
    long memBefore = poolMem ? poolMem->allocs.load() - poolMem->frees.load() : 0, memAllocsBefore = poolMem ? poolMem->allocs.load() : 0;

    std::vector<Digest> res(nthreads);
    if (mode == "seq") {
        for (int i = 0; i < nthreads; i++) workload(i, seed, sh, res[i]);
    } else {
        Barrier bar; bar.total = nthreads;
        std::vector<std::thread> ts;
        for (int i = 0; i < nthreads; i++) {
            ts.emplace_back([i, seed, &sh, &res, &bar]() {
                if (gPerturbLevel > 0) tlsPerturb = (seed + 1) * 0x9E3779B97F4A7C15ull + (uint64_t)(i + 1) * 0xD1B54A32D192ED03ull;
                bar.arrive();
                workload(i, seed, sh, res[i]);
                tlsPerturb = 0;
            });
        }
        for (auto& t : ts) t.join();
    }
    for (int i = 0; i < nthreads; i++) printf("T %d %016llx %lu\n", i, (unsigned long long)res[i].h, res[i].ops);

    if (sh.pool) printf("POOL after %s\n", poolState().c_str());
    if (poolMem) {
        long cls[5]; std::string detail;
        poolMem->classify(cls, &detail);
        poolMem->trace = false;
        printf("POOLMEM outstanding before %ld after %ld allocations %ld new-blocks syncpool=%ld dtdcm=%ld xsdcm=%ld fmt=%ld other=%ld\n", memBefore,
               poolMem->allocs.load() - poolMem->frees.load(), poolMem->allocs.load() - memAllocsBefore, cls[0], cls[1], cls[2], cls[4], cls[3]);
        if (!detail.empty()) fprintf(stderr, "POOLMEM-DETAIL blocks allocated from the LOCKED pool and still alive:\n%s", detail.c_str());
    }
    if (sh.pool) {
        bool changed = true;
        XSModel* xm = sh.pool->getXSModel(changed);
        printf("XSMODEL nonnull=%d same=%d changed=%d\n", (int)(xm != 0), (int)(xm == sh.xsModel), (int)changed);
    }
    if (sh.mask & 0x20800u) {
        std::string bad;
        // one more complement request per lazily built keyword by the main thread: after getRange(key, true) has returned,
        // the complement slot must be filled (a publication into the wrong slot leaves it empty whatever the parity)
        for (const std::string& k : sh.lazyCompl) {
            try { RegularExpression re(X("\\P{" + k + "}").c_str()); } catch (const XMLException&) { }
            RangeTokenElemMap* em = RangeTokenMap::instance()->getTokenRegistry()->get(X(k).c_str());
            if (em && em->getRangeToken(false) && !em->getRangeToken(true)) bad += k + ":complement-slot-empty-after-request ";
        }
        std::string rmAfter = rangeMapState(true, &bad);
        printf("RANGEMAP positive-slots %s complement-slots %s %s\n", rmAfter == rmBefore ? "unchanged" : "CHANGED",
               bad.empty() ? "ok" : "BAD", bad.c_str());
    }
    if (sh.pool) { sh.pool->unlockPool(); delete sh.pool; }
    if (pm) { XMLPlatformUtils::fgMutexMgr = origMgr; delete pm; }
    XMLPlatformUtils::Terminate();
    printf("DONE\n");
    return 0;
}
