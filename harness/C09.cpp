// xh_C09: drives the real datatype machinery of xerces-c with the line protocol of bin/xm_C09 (extracted model).
//
//   strings are groups of 4 hex digits (UTF-16 code units), "-" = empty string
//   type spec  T ::= base | base[f=v;f=v;...] | base[...][...]      (restriction chain; enum=v1|v2; ASCII values)
//
//   xsv <dtname> <hex>          XSValue::validate                         -> 1 | 0
//   xsc <dtname> <hex>          XSValue::getCanonicalRepresentation(toValidate=true) -> ok <hex> | null
//   xsa <dtname> <hex>          XSValue::getActualValue(toValidate=true)   -> ok <dump> | null
//   dv  <T> <hex>               DatatypeValidator::validate               -> 1 | 0 <XMLExcepts name>
//   cmp <T> <hexA> <hexB>       DatatypeValidator::compare                -> <int> | err <name>
//   can <T> <hex>               DatatypeValidator::getCanonicalRepresentation(toValidate=true) -> ok <hex> | null
//   pe  <T> <hex>               parse <e>value</e> against the generated schema  -> valid | invalid
//   pa  <T> <hex>               parse <a v="value"/>                              -> valid | invalid
//   pc  <T> <chunks>            parse <e>..</e> whose content is given as chunks l<hex>,r<hex>,c<hex> (literal text, character
//                               references, CDATA section)   -> valid <schema-normalised text seen by the handler> | invalid
//   pb  <T> <chunks>            same for the attribute value (l and r chunks)
//   T may also be <item>list (e.g. intlist): a list type over the built-in item type
//   b64 <hex> / hex <hex>       Base64::decodeToXMLByte / HexBin::decodeToXMLByte (XMLCh input) -> ok <bytes> | null
#include "xh_common.hpp"
#include <xercesc/framework/psvi/XSValue.hpp>
#include <xercesc/framework/MemBufInputSource.hpp>
#include <xercesc/framework/XMLGrammarPoolImpl.hpp>
#include <xercesc/parsers/SAXParser.hpp>
#include <xercesc/sax/HandlerBase.hpp>
#include <xercesc/sax/AttributeList.hpp>
#include <xercesc/sax/SAXParseException.hpp>
#include <xercesc/validators/datatype/DatatypeValidatorFactory.hpp>
#include <xercesc/validators/datatype/DatatypeValidator.hpp>
#include <xercesc/validators/schema/SchemaGrammar.hpp>
#include <xercesc/validators/schema/SchemaSymbols.hpp>
#include <xercesc/util/Base64.hpp>
#include <xercesc/util/HexBin.hpp>
#include <xercesc/util/XMLUniDefs.hpp>
#include <xercesc/util/RuntimeException.hpp>
#include <map>
#include <memory>
#include <cstring>

using namespace xh;

static std::vector<XMLCh> toX(const std::vector<uint32_t>& v) {
    std::vector<XMLCh> s(v.size() + 1, 0);
    for (size_t i = 0; i < v.size(); i++) s[i] = (XMLCh)v[i];
    return s;
}
static std::vector<XMLCh> asciiX(const std::string& a) {
    std::vector<XMLCh> s(a.size() + 1, 0);
    for (size_t i = 0; i < a.size(); i++) s[i] = (XMLCh)(unsigned char)a[i];
    return s;
}
static std::string hexOf(const XMLCh* s) { return showHex(s, XMLString::stringLen(s), 4); }

static const char* c09Name(int code) {
    switch (code) {
#define C(x) case XMLExcepts::x: return #x;
    C(XMLNUM_emptyString) C(XMLNUM_WSString) C(XMLNUM_2ManyDecPoint) C(XMLNUM_Inv_chars) C(XMLNUM_null_ptr)
    C(VALUE_NotMatch_Pattern) C(VALUE_NotIn_Enumeration) C(VALUE_exceed_fractDigit) C(VALUE_exceed_totalDigit)
    C(VALUE_exceed_maxIncl) C(VALUE_exceed_maxExcl) C(VALUE_exceed_minIncl) C(VALUE_exceed_minExcl)
    C(VALUE_Invalid_NCName) C(VALUE_Invalid_Name) C(VALUE_NE_Len) C(VALUE_GT_maxLen) C(VALUE_LT_minLen)
    C(VALUE_Not_HexBin) C(VALUE_Not_Base64)
    C(DateTime_dt_invalid) C(DateTime_dur_invalid) C(DateTime_dt_missingT) C(DateTime_gDay_invalid) C(DateTime_gMth_invalid)
    C(DateTime_gMthDay_invalid) C(DateTime_dur_Start_dashP) C(DateTime_dur_noP) C(DateTime_dur_DashNotFirst)
    C(DateTime_dur_inv_b4T) C(DateTime_dur_NoTimeAfterT) C(DateTime_dur_NoElementAtAll) C(DateTime_dur_inv_seconds)
    C(DateTime_date_incomplete) C(DateTime_date_invalid) C(DateTime_time_incomplete) C(DateTime_time_invalid)
    C(DateTime_ms_noDigit) C(DateTime_ym_incomplete) C(DateTime_ym_invalid) C(DateTime_year_tooShort)
    C(DateTime_year_leadingZero) C(DateTime_ym_noMonth) C(DateTime_tz_noUTCsign) C(DateTime_tz_stuffAfterZ)
    C(DateTime_tz_invalid) C(DateTime_year_zero) C(DateTime_mth_invalid) C(DateTime_day_invalid)
    C(DateTime_hour_invalid) C(DateTime_min_invalid) C(DateTime_second_invalid) C(DateTime_tz_hh_invalid)
    C(DateTime_year_invalid)
#undef C
    default: return 0;
    }
}
static std::string excName(const XMLException& e) {
    const char* n = c09Name((int)e.getCode());
    if (n) return n;
    return "X" + std::to_string((int)e.getCode());
}

// ------------------------------------------------------------------------------------------------
// type specs -> schema + validator
// ------------------------------------------------------------------------------------------------
struct ErrCount : public HandlerBase {
    int n = 0;
    std::string first;
    std::vector<XMLCh> text;      // schema-normalised character data / attribute value as delivered to the handler
    int chunks = 0;
    void characters(const XMLCh* const chars, const XMLSize_t length) override {
        text.insert(text.end(), chars, chars + length); chunks++;
    }
    void ignorableWhitespace(const XMLCh* const chars, const XMLSize_t length) override {
        text.insert(text.end(), chars, chars + length); chunks++;
    }
    void startElement(const XMLCh* const, AttributeList& attrs) override {
        for (XMLSize_t i = 0; i < attrs.getLength(); i++) {
            const XMLCh* nm = attrs.getName(i);
            if (nm[0] == 'v' && nm[1] == 0) { const XMLCh* v = attrs.getValue(i); text.insert(text.end(), v, v + XMLString::stringLen(v)); }
        }
    }
    void note(const SAXParseException& e) { if (!n) first = narrow(e.getMessage()); n++; }
    void warning(const SAXParseException&) override {}
    void error(const SAXParseException& e) override { note(e); }
    void fatalError(const SAXParseException& e) override { note(e); }
    void resetErrors() override {}
};

struct TypeInfo {
    int id = 0;
    bool ok = false;
    std::string err;
    DatatypeValidator* dv = 0;
};

static SAXParser* gParser = 0;
static XMLGrammarPool* gPool = 0;
static ErrCount gErr;
static std::map<std::string, TypeInfo> gTypes;
static int gNext = 0;

static void xmlEscape(std::string& out, const std::string& v) {
    for (char c : v) {
        if (c == '<') out += "&lt;"; else if (c == '&') out += "&amp;"; else if (c == '"') out += "&quot;";
        else out += c;
    }
}

// base[f=v;g=w][h=x]  ->  base name + groups
static bool parseSpec(const std::string& spec, std::string& base,
                      std::vector<std::vector<std::pair<std::string, std::string> > >& groups) {
    size_t p = spec.find('[');
    base = spec.substr(0, p);
    while (p != std::string::npos && p < spec.size()) {
        size_t q = spec.find(']', p);
        if (q == std::string::npos) return false;
        std::string body = spec.substr(p + 1, q - p - 1);
        std::vector<std::pair<std::string, std::string> > g;
        size_t i = 0;
        while (i < body.size()) {
            size_t j = body.find(';', i);
            if (j == std::string::npos) j = body.size();
            std::string kv = body.substr(i, j - i);
            size_t e = kv.find('=');
            if (e == std::string::npos) return false;
            g.push_back(std::make_pair(kv.substr(0, e), kv.substr(e + 1)));
            i = j + 1;
        }
        groups.push_back(g);
        p = (q + 1 < spec.size() && spec[q + 1] == '[') ? q + 1 : std::string::npos;
    }
    return !base.empty();
}

// facet children of one restriction step from "f=v;f=v" (enum=v1|v2, '~' = a space inside an enumeration value)
static void addFacets(std::string& s, const std::string& body) {
    size_t i = 0;
    while (i < body.size()) {
        size_t j = body.find(';', i);
        if (j == std::string::npos) j = body.size();
        std::string kv = body.substr(i, j - i);
        i = j + 1;
        size_t e = kv.find('=');
        if (e == std::string::npos) continue;
        std::string k = kv.substr(0, e), v = kv.substr(e + 1);
        if (k == "enum") {
            size_t a = 0;
            while (a <= v.size()) {
                size_t b = v.find('|', a);
                if (b == std::string::npos) b = v.size();
                std::string ev = v.substr(a, b - a);
                for (char& ch : ev) if (ch == '~') ch = ' ';
                s += "<xs:enumeration value=\"";
                xmlEscape(s, ev);
                s += "\"/>";
                a = b + 1;
            }
        } else {
            s += "<xs:" + k + " value=\"";
            xmlEscape(s, v);
            s += "\"/>";
        }
    }
}

// composite base types:  T ::= builtin | L(T) | U(T+T+...) | R(T:facets:...)   -> named simple types c1, c2, ... ; returns the QName to use
static std::string genComposite(const std::string& t, size_t& pos, std::string& defs, int& counter) {
    if (t.compare(pos, 2, "L(") == 0) {
        pos += 2;
        std::string item = genComposite(t, pos, defs, counter);
        if (pos < t.size() && t[pos] == ')') pos++;
        std::string name = "c" + std::to_string(++counter);
        defs += " <xs:simpleType name=\"" + name + "\"><xs:list itemType=\"" + item + "\"/></xs:simpleType>\n";
        return "t:" + name;
    }
    if (t.compare(pos, 2, "U(") == 0) {
        pos += 2;
        std::string members;
        while (pos < t.size() && t[pos] != ')') {
            if (t[pos] == '+') { pos++; continue; }
            if (!members.empty()) members += " ";
            members += genComposite(t, pos, defs, counter);
        }
        if (pos < t.size()) pos++;
        std::string name = "c" + std::to_string(++counter);
        defs += " <xs:simpleType name=\"" + name + "\"><xs:union memberTypes=\"" + members + "\"/></xs:simpleType>\n";
        return "t:" + name;
    }
    if (t.compare(pos, 2, "R(") == 0) {
        // R(T:facets:facets...) = restriction steps of T, one per ':'-introduced group (an empty group = a step that
        // declares no facet at all)
        pos += 2;
        std::string prev = genComposite(t, pos, defs, counter);
        while (pos < t.size() && t[pos] == ':') {
            pos++;
            size_t e = pos;
            while (e < t.size() && t[e] != ':' && t[e] != ')') e++;
            std::string name = "c" + std::to_string(++counter);
            defs += " <xs:simpleType name=\"" + name + "\"><xs:restriction base=\"" + prev + "\">";
            addFacets(defs, t.substr(pos, e - pos));
            defs += "</xs:restriction></xs:simpleType>\n";
            prev = "t:" + name;
            pos = e;
        }
        if (pos < t.size() && t[pos] == ')') pos++;
        return prev;
    }
    size_t e = pos;
    while (e < t.size() && t[e] != '+' && t[e] != ')' && t[e] != ':') e++;
    std::string b = t.substr(pos, e - pos);
    pos = e;
    return "xs:" + b;
}

static TypeInfo& getType(const std::string& spec) {
    auto it = gTypes.find(spec);
    if (it != gTypes.end()) return it->second;
    TypeInfo& ti = gTypes[spec];
    ti.id = ++gNext;
    std::string base;
    std::vector<std::vector<std::pair<std::string, std::string> > > groups;
    if (!parseSpec(spec, base, groups)) { ti.err = "bad-spec"; return ti; }
    std::string ns = "urn:t" + std::to_string(ti.id);
    std::string s = "<?xml version=\"1.0\" encoding=\"UTF-8\"?>\n"
                    "<xs:schema xmlns:xs=\"http://www.w3.org/2001/XMLSchema\" targetNamespace=\"" + ns +
                    "\" xmlns:t=\"" + ns + "\" elementFormDefault=\"qualified\">\n";
    std::string prev = "xs:" + base;
    // "<item>list" = a list type over a built-in item type (e.g. intlist, decimallist)
    if (base.size() > 4 && base.compare(base.size() - 4, 4, "list") == 0) {
        s += " <xs:simpleType name=\"t0\"><xs:list itemType=\"xs:" + base.substr(0, base.size() - 4) + "\"/></xs:simpleType>\n";
        prev = "t:t0";
    }
    if (base.compare(0, 2, "L(") == 0 || base.compare(0, 2, "U(") == 0) {
        size_t pos = 0; int counter = 0; std::string defs;
        prev = genComposite(base, pos, defs, counter);
        s += defs;
    }
    if (groups.empty()) groups.push_back(std::vector<std::pair<std::string, std::string> >());
    for (size_t g = 0; g < groups.size(); g++) {
        std::string name = (g + 1 == groups.size()) ? "t" : "t" + std::to_string(g + 1);
        s += " <xs:simpleType name=\"" + name + "\"><xs:restriction base=\"" + prev + "\">";
        for (auto& kv : groups[g]) {
            if (kv.first == "enum") {
                size_t i = 0;
                while (i <= kv.second.size()) {
                    size_t j = kv.second.find('|', i);
                    if (j == std::string::npos) j = kv.second.size();
                    s += "<xs:enumeration value=\"";
                    std::string ev = kv.second.substr(i, j - i);
                    for (char& ch : ev) if (ch == '~') ch = ' ';       // '~' stands for a space inside an enumeration value
                    xmlEscape(s, ev);
                    s += "\"/>";
                    i = j + 1;
                }
            } else {
                s += "<xs:" + kv.first + " value=\"";
                xmlEscape(s, kv.second);
                s += "\"/>";
            }
        }
        s += "</xs:restriction></xs:simpleType>\n";
        prev = "t:" + name;
    }
    s += " <xs:element name=\"e\" type=\"t:t\"/>\n"
         " <xs:element name=\"a\"><xs:complexType><xs:attribute name=\"v\" type=\"t:t\"/></xs:complexType></xs:element>\n"
         "</xs:schema>\n";
    gErr.n = 0;
    Grammar* gr = 0;
    try {
        MemBufInputSource src((const XMLByte*)s.data(), s.size(), ("mem:" + ns).c_str());
        gr = gParser->loadGrammar(src, Grammar::SchemaGrammarType, true);
    } catch (const XMLException& e) {
        ti.err = "schema-exception " + excName(e);
        return ti;
    } catch (...) {
        ti.err = "schema-exception";
        return ti;
    }
    if (!gr || gErr.n) { ti.err = "schema-error " + gErr.first; return ti; }
    SchemaGrammar* sg = (SchemaGrammar*)gr;
    std::vector<XMLCh> key = asciiX(ns + ",t");
    ti.dv = sg->getDatatypeRegistry()->getDatatypeValidator(key.data());
    if (!ti.dv) { ti.err = "no-validator"; return ti; }
    ti.ok = true;
    return ti;
}

static bool xmlCharOk(uint32_t u) {
    return u == 9 || u == 10 || u == 13 || (u >= 0x20 && u <= 0xD7FF) || (u >= 0xE000 && u <= 0xFFFD);
}

static std::string doParse(TypeInfo& ti, const std::vector<uint32_t>& val, bool attr) {
    std::string ns = "urn:t" + std::to_string(ti.id);
    std::string body;
    for (size_t i = 0; i < val.size(); i++) {
        uint32_t u = val[i];
        if (u >= 0xD800 && u <= 0xDBFF && i + 1 < val.size() && val[i + 1] >= 0xDC00 && val[i + 1] <= 0xDFFF) {
            u = 0x10000 + ((u - 0xD800) << 10) + (val[i + 1] - 0xDC00);
            i++;
        } else if (!xmlCharOk(u)) return "skip";
        if (u >= 0x30 && u < 0x7F && u != '<' && u != '>') body += (char)u;
        else if (u == '.' || u == '-' || u == '+' || u == ':' || u == '/' || u == '=') body += (char)u;
        else { char b[16]; snprintf(b, sizeof b, "&#x%X;", (unsigned)u); body += b; }
    }
    std::string doc = "<?xml version=\"1.0\" encoding=\"UTF-8\"?>";
    if (attr) doc += "<a xmlns=\"" + ns + "\" v=\"" + body + "\"/>";
    else doc += "<e xmlns=\"" + ns + "\">" + body + "</e>";
    gErr.n = 0;
    try {
        MemBufInputSource src((const XMLByte*)doc.data(), doc.size(), "mem:doc");
        gParser->parse(src);
    } catch (const XMLException& e) {
        return "exception " + excName(e);
    } catch (const SAXParseException&) {
        return "invalid";
    }
    return gErr.n ? "invalid" : "valid";
}

// content given as chunks: l<hex> literal characters, r<hex> character references, c<hex> a CDATA section
static std::string doParseChunks(TypeInfo& ti, const std::string& spec, bool attr) {
    std::string ns = "urn:t" + std::to_string(ti.id);
    std::string body;
    size_t i = 0;
    while (i < spec.size()) {
        size_t j = spec.find(',', i);
        if (j == std::string::npos) j = spec.size();
        std::string item = spec.substr(i, j - i);
        i = j + 1;
        if (item.empty()) continue;
        char kind = item[0];
        std::vector<uint32_t> val = parseHex(item.substr(1), 4);
        if (kind == 'c') body += "<![CDATA[";
        for (uint32_t u : val) {
            if (!xmlCharOk(u) || u > 0x7E) return "skip";
            if (kind == 'r') { char b[16]; snprintf(b, sizeof b, "&#x%X;", (unsigned)u); body += b; }
            else if (kind == 'c') body += (char)u;
            else if (u == '<') body += "&lt;"; else if (u == '&') body += "&amp;"; else if (u == '"') body += "&quot;";
            else body += (char)u;
        }
        if (kind == 'c') body += "]]>";
    }
    std::string doc = "<?xml version=\"1.0\" encoding=\"UTF-8\"?>";
    if (attr) doc += "<a xmlns=\"" + ns + "\" v=\"" + body + "\"/>";
    else doc += "<e xmlns=\"" + ns + "\">" + body + "</e>";
    gErr.n = 0; gErr.text.clear(); gErr.chunks = 0;
    try {
        MemBufInputSource src((const XMLByte*)doc.data(), doc.size(), "mem:doc");
        gParser->parse(src);
    } catch (const XMLException& e) {
        return "exception " + excName(e);
    } catch (const SAXParseException&) {
        return "invalid";
    }
    if (gErr.n) return "invalid";
    return "valid " + showHex(gErr.text.data(), gErr.text.size(), 4);
}

// ------------------------------------------------------------------------------------------------
static XSValue::DataType dtOf(const std::string& n) {
    std::vector<XMLCh> x = asciiX(n);
    return XSValue::getDataType(x.data());
}

static std::string dumpActual(XSValue* v) {
    char b[160];
    switch (v->fData.f_datatype) {
    case XSValue::dt_boolean: return v->fData.fValue.f_bool ? "bool 1" : "bool 0";
    case XSValue::dt_integer: case XSValue::dt_long: case XSValue::dt_nonPositiveInteger: case XSValue::dt_negativeInteger:
        snprintf(b, sizeof b, "long %lld", (long long)v->fData.fValue.f_long); return b;
    case XSValue::dt_nonNegativeInteger: case XSValue::dt_positiveInteger: case XSValue::dt_unsignedLong:
        snprintf(b, sizeof b, "ulong %llu", (unsigned long long)v->fData.fValue.f_ulong); return b;
    case XSValue::dt_int: snprintf(b, sizeof b, "int %d", (int)v->fData.fValue.f_int); return b;
    case XSValue::dt_short: snprintf(b, sizeof b, "int %d", (int)v->fData.fValue.f_short); return b;
    case XSValue::dt_byte: snprintf(b, sizeof b, "int %d", (int)v->fData.fValue.f_char); return b;
    case XSValue::dt_unsignedInt: snprintf(b, sizeof b, "uint %u", (unsigned)v->fData.fValue.f_uint); return b;
    case XSValue::dt_unsignedShort: snprintf(b, sizeof b, "uint %u", (unsigned)v->fData.fValue.f_ushort); return b;
    case XSValue::dt_unsignedByte: snprintf(b, sizeof b, "uint %u", (unsigned)v->fData.fValue.f_uchar); return b;
    case XSValue::dt_dateTime: case XSValue::dt_date: case XSValue::dt_time: case XSValue::dt_gYear:
    case XSValue::dt_gYearMonth: case XSValue::dt_gMonth: case XSValue::dt_gMonthDay: case XSValue::dt_gDay:
        snprintf(b, sizeof b, "dt %d %d %d %d %d %d %.6f", v->fData.fValue.f_datetime.f_year, v->fData.fValue.f_datetime.f_month,
                 v->fData.fValue.f_datetime.f_day, v->fData.fValue.f_datetime.f_hour, v->fData.fValue.f_datetime.f_min,
                 v->fData.fValue.f_datetime.f_second, v->fData.fValue.f_datetime.f_milisec);
        return b;
    default: return "other";
    }
}

int main() {
    XMLPlatformUtils::Initialize();
    {
        gPool = new XMLGrammarPoolImpl(XMLPlatformUtils::fgMemoryManager);
        gParser = new SAXParser(0, XMLPlatformUtils::fgMemoryManager, gPool);
        gParser->setDoNamespaces(true);
        gParser->setDoSchema(true);
        gParser->setValidationScheme(SAXParser::Val_Always);
        gParser->setValidationSchemaFullChecking(false);
        gParser->useCachedGrammarInParse(true);
        gParser->cacheGrammarFromParse(false);
        gParser->setErrorHandler(&gErr);
        gParser->setDocumentHandler(&gErr);
        gParser->setExitOnFirstFatalError(true);
        gParser->setLoadExternalDTD(false);
    }
    MemoryManager* mm = XMLPlatformUtils::fgMemoryManager;
    std::string line;
    while (std::getline(std::cin, line)) {
        std::vector<std::string> a = splitWs(line);
        std::string r = "bad-request";
        try {
            if (a.size() == 3 && (a[0] == "xsv" || a[0] == "xsc" || a[0] == "xsa")) {
                XSValue::DataType dt = dtOf(a[1]);
                std::vector<XMLCh> s = toX(parseHex(a[2], 4));
                XSValue::Status st = XSValue::st_Init;
                if (dt == XSValue::dt_MAXCOUNT) r = "bad-type";
                else if (a[0] == "xsv") r = XSValue::validate(s.data(), dt, st, XSValue::ver_10, mm) ? "1" : "0";
                else if (a[0] == "xsc") {
                    XMLCh* c = XSValue::getCanonicalRepresentation(s.data(), dt, st, XSValue::ver_10, true, mm);
                    if (c) { r = "ok " + hexOf(c); XMLString::release(&c, mm); } else r = "null";
                } else {
                    XSValue* v = XSValue::getActualValue(s.data(), dt, st, XSValue::ver_10, true, mm);
                    if (v) { r = "ok " + dumpActual(v); delete v; } else r = "null";
                }
            } else if (a.size() == 3 && (a[0] == "pc" || a[0] == "pb")) {
                TypeInfo& ti = getType(a[1]);
                r = ti.ok ? doParseChunks(ti, a[2], a[0] == "pb") : ti.err;
            } else if (a.size() >= 3 && (a[0] == "dv" || a[0] == "cmp" || a[0] == "can" || a[0] == "pe" || a[0] == "pa")) {
                TypeInfo& ti = getType(a[1]);
                if (!ti.ok) r = ti.err;
                else if (a[0] == "dv" && a.size() == 3) {
                    std::vector<XMLCh> s = toX(parseHex(a[2], 4));
                    try { ti.dv->validate(s.data(), 0, mm); r = "1"; }
                    catch (const XMLException& e) { r = "0 " + excName(e); }
                } else if (a[0] == "cmp" && a.size() == 4) {
                    std::vector<XMLCh> s1 = toX(parseHex(a[2], 4)), s2 = toX(parseHex(a[3], 4));
                    try { r = std::to_string(ti.dv->compare(s1.data(), s2.data(), mm)); }
                    catch (const XMLException& e) { r = "err " + excName(e); }
                } else if (a[0] == "can" && a.size() == 3) {
                    std::vector<XMLCh> s = toX(parseHex(a[2], 4));
                    try {
                        const XMLCh* c = ti.dv->getCanonicalRepresentation(s.data(), mm, true);
                        if (c) { r = "ok " + hexOf(c); mm->deallocate((void*)c); } else r = "null";
                    } catch (const XMLException& e) { r = "err " + excName(e); }
                } else if ((a[0] == "pe" || a[0] == "pa") && a.size() == 3) {
                    r = doParse(ti, parseHex(a[2], 4), a[0] == "pa");
                }
            } else if (a.size() == 3 && a[0] == "set") { r = "ok"; }
            else if (a.size() == 2 && (a[0] == "b64" || a[0] == "hex")) {
                std::vector<XMLCh> s = toX(parseHex(a[1], 4));
                if (a[0] == "b64") {
                    XMLSize_t len = 0;
                    XMLByte* d = Base64::decodeToXMLByte(s.data(), &len, mm, Base64::Conf_Schema);
                    if (d) { r = "ok " + showHex(d, len, 2); mm->deallocate(d); } else r = "null";
                } else {
                    XMLByte* d = HexBin::decodeToXMLByte(s.data(), mm);
                    if (d) { r = "ok " + showHex(d, XMLString::stringLen(s.data()) / 2, 2); mm->deallocate(d); } else r = "null";
                }
            }
        } catch (const OutOfMemoryException&) {
            r = "exception OutOfMemory";
        } catch (const XMLException& e) {
            r = "exception " + excName(e);
        } catch (...) {
            r = "exception unknown";
        }
        std::cout << r << "\n";
    }
    std::cout.flush();
    return 0;
}
