// xh_C08: schema/instance validation against the real library.
// Request line:   <model part> | X <ndocs> <name> <hex> ... <mainname> <ninst> <hexinst> ...
//   docs are schema documents (UTF-8 text, hex encoded) reachable by their name through an entity resolver; the
//   main one is loaded with loadGrammar(..., toCache) into the parser's grammar pool, then every instance is parsed
//   with the cached grammar.  Every (scanner in IG,SG) x (schema-full-checking 0,1) x (API DOM,SAX2) combination is
//   run.  Answer line:
//   s0=<codes|ok> s1=<codes|ok> <inst> <inst> ...
//   where s0/s1 = errors while loading the schema without/with full checking (agreeing over scanners and APIs, else
//   DIS(...)), and each <inst> = ok@attrs  or  <codes>@attrs  when all 8 runs agree, else DIS(r1;r2;...;r8).
//   codes = comma separated  <domainletter><number>  (V = validity domain, E = XML error domain), in report order.
//   attrs = the root element's attributes as reported by the API (specified + defaulted), sorted, name=value joined by ','
#include "xh_common.hpp"
#include <xercesc/parsers/XercesDOMParser.hpp>
#include <xercesc/parsers/SAX2XMLReaderImpl.hpp>
#include <xercesc/framework/MemBufInputSource.hpp>
#include <xercesc/framework/XMLGrammarPoolImpl.hpp>
#include <xercesc/sax/EntityResolver.hpp>
#include <xercesc/sax/ErrorHandler.hpp>
#include <xercesc/sax/SAXParseException.hpp>
#include <xercesc/sax2/DefaultHandler.hpp>
#include <xercesc/sax2/Attributes.hpp>
#include <xercesc/dom/DOM.hpp>
#include <xercesc/util/XMLUni.hpp>
#include <xercesc/validators/common/Grammar.hpp>
#include <xercesc/validators/schema/SchemaGrammar.hpp>
#include <xercesc/validators/schema/SchemaElementDecl.hpp>
#include <xercesc/validators/schema/ComplexTypeInfo.hpp>
#include <xercesc/validators/common/SimpleContentModel.hpp>
#include <xercesc/validators/common/MixedContentModel.hpp>
#include <xercesc/validators/common/AllContentModel.hpp>
#include <xercesc/validators/common/DFAContentModel.hpp>
#include <map>
#include <algorithm>
#include <cstring>

using namespace xh;

static std::map<std::string, std::string> gDocs;   // name -> bytes

static std::string unhex(const std::string& h) {
    std::string out;
    if (h == "-") return out;
    for (size_t i = 0; i + 1 < h.size(); i += 2) out += (char)(hexval(h[i]) * 16 + hexval(h[i + 1]));
    return out;
}

// printable, separator-free rendering of a string
static std::string san(const XMLCh* s) {
    std::string out;
    if (!s) return out;
    for (; *s; ++s) {
        XMLCh c = *s;
        if ((c >= '0' && c <= '9') || (c >= 'a' && c <= 'z') || (c >= 'A' && c <= 'Z') || c == '_' || c == '.' || c == '-' || c == ':')
            out += (char)c;
        else { char b[12]; snprintf(b, sizeof b, "\\u%04X", (unsigned)c); out += b; }
    }
    return out;
}

struct Codes {
    std::vector<std::string> v;
    void add(unsigned int code, const XMLCh* domain) {
        char d = '?';
        if (XMLString::equals(domain, XMLUni::fgValidityDomain)) d = 'V';
        else if (XMLString::equals(domain, XMLUni::fgXMLErrDomain)) d = 'E';
        else if (XMLString::equals(domain, XMLUni::fgExceptDomain)) d = 'X';
        v.push_back(std::string(1, d) + std::to_string(code));
    }
    std::string str() const {
        if (v.empty()) return "ok";
        std::string s;
        for (size_t i = 0; i < v.size(); i++) { if (i) s += ","; s += v[i]; }
        return s;
    }
};

class Resolver : public EntityResolver {
public:
    InputSource* resolveEntity(const XMLCh* const, const XMLCh* const systemId) override {
        std::string s = narrow(systemId);
        size_t p = s.rfind('/');
        if (p != std::string::npos) s = s.substr(p + 1);
        auto it = gDocs.find(s);
        if (it == gDocs.end()) return 0;
        return new MemBufInputSource((const XMLByte*)it->second.data(), it->second.size(), systemId, false);
    }
};

class NullErr : public ErrorHandler {
public:
    void warning(const SAXParseException&) override {}
    void error(const SAXParseException&) override {}
    void fatalError(const SAXParseException&) override {}
    void resetErrors() override {}
};

class DomP : public XercesDOMParser {
public:
    Codes* sink = 0;
    DomP() : XercesDOMParser() {}
    void error(const unsigned int errCode, const XMLCh* const errDomain, const XMLErrorReporter::ErrTypes type,
               const XMLCh* const, const XMLCh* const, const XMLCh* const, const XMLFileLoc, const XMLFileLoc) override {
        if (sink && type != XMLErrorReporter::ErrType_Warning) sink->add(errCode, errDomain);
    }
};

class SaxP : public SAX2XMLReaderImpl {
public:
    Codes* sink = 0;
    SaxP() : SAX2XMLReaderImpl() {}
    void error(const unsigned int errCode, const XMLCh* const errDomain, const XMLErrorReporter::ErrTypes type,
               const XMLCh* const, const XMLCh* const, const XMLCh* const, const XMLFileLoc, const XMLFileLoc) override {
        if (sink && type != XMLErrorReporter::ErrType_Warning) sink->add(errCode, errDomain);
    }
};

class RootAttrs : public DefaultHandler {
public:
    int depth = 0;
    std::vector<std::string> attrs;
    std::vector<std::string> kids;    // child element local names + default/char content of depth-1 children
    std::string curText;
    void startDocument() override { depth = 0; attrs.clear(); kids.clear(); }
    void startElement(const XMLCh* const, const XMLCh* const, const XMLCh* const, const Attributes& a) override {
        if (depth == 0)
            for (XMLSize_t i = 0; i < a.getLength(); i++) {
                if (XMLString::equals(a.getURI(i), XMLUni::fgXMLNSURIName)) continue;
                if (XMLString::equals(a.getURI(i), SchemaSymbols_XSI())) continue;
                attrs.push_back(san(a.getURI(i)) + "|" + san(a.getLocalName(i)) + "=" + san(a.getValue(i)));
            }
        if (depth == 1) curText.clear();
        depth++;
    }
    void characters(const XMLCh* const chars, const XMLSize_t length) override {
        if (depth == 2) { std::vector<XMLCh> b(chars, chars + length); b.push_back(0); curText += san(b.data()); }
    }
    void endElement(const XMLCh* const, const XMLCh* const localname, const XMLCh* const) override {
        depth--;
        if (depth == 1) kids.push_back(san(localname) + "=" + curText);
    }
    static const XMLCh* SchemaSymbols_XSI() {
        static const XMLCh* s = XMLString::transcode("http://www.w3.org/2001/XMLSchema-instance");
        return s;
    }
};

static std::string joinSorted(std::vector<std::string> v) {
    std::sort(v.begin(), v.end());
    std::string s;
    for (size_t i = 0; i < v.size(); i++) { if (i) s += ","; s += v[i]; }
    return s;
}
static std::string joinSeq(const std::vector<std::string>& v) {
    std::string s;
    for (size_t i = 0; i < v.size(); i++) { if (i) s += ","; s += v[i]; }
    return s;
}

static void domRootInfo(DOMDocument* doc, std::string& attrs, std::string& kids) {
    std::vector<std::string> av, kv;
    if (doc && doc->getDocumentElement()) {
        DOMElement* r = doc->getDocumentElement();
        DOMNamedNodeMap* m = r->getAttributes();
        for (XMLSize_t i = 0; m && i < m->getLength(); i++) {
            DOMNode* a = m->item(i);
            if (XMLString::equals(a->getNamespaceURI(), XMLUni::fgXMLNSURIName)) continue;
            if (XMLString::equals(a->getNamespaceURI(), RootAttrs::SchemaSymbols_XSI())) continue;
            av.push_back(san(a->getNamespaceURI()) + "|" + san(a->getLocalName()) + "=" + san(a->getNodeValue()));
        }
        for (DOMNode* c = r->getFirstChild(); c; c = c->getNextSibling())
            if (c->getNodeType() == DOMNode::ELEMENT_NODE) {
                std::string t;
                for (DOMNode* g = c->getFirstChild(); g; g = g->getNextSibling())
                    if (g->getNodeType() == DOMNode::TEXT_NODE || g->getNodeType() == DOMNode::CDATA_SECTION_NODE) {
                        // ignorable white space (element-only content) is not character content for SAX either
                        if (g->getNodeType() == DOMNode::TEXT_NODE && ((DOMText*)g)->isIgnorableWhitespace()) continue;
                        t += san(g->getNodeValue());
                    }
                kv.push_back(san(c->getLocalName()) + "=" + t);
            }
    }
    attrs = joinSorted(av);
    kids = joinSeq(kv);
}

struct Combo {
    bool sax;
    bool sg;
    bool full;
    DomP* dom = 0;
    SaxP* saxp = 0;
    RootAttrs handler;
};

static Resolver gResolver;
static NullErr gNullErr;

static void setup(Combo& c) {
    const XMLCh* scanner = c.sg ? XMLUni::fgSGXMLScanner : XMLUni::fgIGXMLScanner;
    if (c.sax) {
        c.saxp = new SaxP();
        c.saxp->setFeature(XMLUni::fgSAX2CoreNameSpaces, true);
        c.saxp->setFeature(XMLUni::fgSAX2CoreValidation, true);
        c.saxp->setFeature(XMLUni::fgXercesDynamic, false);
        c.saxp->setFeature(XMLUni::fgXercesSchema, true);
        c.saxp->setFeature(XMLUni::fgXercesSchemaFullChecking, c.full);
        c.saxp->setFeature(XMLUni::fgXercesUseCachedGrammarInParse, true);
        c.saxp->setFeature(XMLUni::fgXercesCacheGrammarFromParse, false);
        c.saxp->setFeature(XMLUni::fgXercesLoadExternalDTD, false);
        c.saxp->setFeature(XMLUni::fgXercesIdentityConstraintChecking, true);
        c.saxp->setProperty(XMLUni::fgXercesScannerName, (void*)scanner);
        c.saxp->setEntityResolver(&gResolver);
        c.saxp->setErrorHandler(&gNullErr);
        c.saxp->setContentHandler(&c.handler);
    } else {
        c.dom = new DomP();
        c.dom->useScanner(scanner);
        c.dom->setDoNamespaces(true);
        c.dom->setDoSchema(true);
        c.dom->setValidationScheme(XercesDOMParser::Val_Always);
        c.dom->setValidationSchemaFullChecking(c.full);
        c.dom->useCachedGrammarInParse(true);
        c.dom->cacheGrammarFromParse(false);
        c.dom->setLoadExternalDTD(false);
        c.dom->setEntityResolver(&gResolver);
        c.dom->setErrorHandler(&gNullErr);
    }
}

// which XMLContentModel implementation validates the children of the global element "r" (or "-")
static std::string gCmClass;
static void noteCmClass(Grammar* g) {
    gCmClass = "-";
    if (!g || g->getGrammarType() != Grammar::SchemaGrammarType) return;
    try {
        RefHash3KeysIdPoolEnumerator<SchemaElementDecl> en = ((SchemaGrammar*)g)->getElemEnumerator();
        while (en.hasMoreElements()) {
            SchemaElementDecl& d = en.nextElement();
            if (narrow(d.getBaseName()) != "r") continue;
            ComplexTypeInfo* ti = d.getComplexTypeInfo();
            if (!ti) { gCmClass = "none"; return; }
            XMLContentModel* cm = ti->getContentModel();
            if (!cm) gCmClass = "none";
            else if (dynamic_cast<SimpleContentModel*>(cm)) gCmClass = "Simple";
            else if (dynamic_cast<MixedContentModel*>(cm)) gCmClass = "Mixed";
            else if (dynamic_cast<AllContentModel*>(cm)) gCmClass = "All";
            else if (dynamic_cast<DFAContentModel*>(cm)) gCmClass = "DFA";
            else gCmClass = "other";
            return;
        }
    } catch (...) { gCmClass = "exc"; }
}

static std::string loadSchema(Combo& c, const std::string& name) {
    Codes codes;
    const std::string& txt = gDocs[name];
    XMLCh* sid = XMLString::transcode(("mem:/" + name).c_str());
    MemBufInputSource src((const XMLByte*)txt.data(), txt.size(), sid, false);
    try {
        if (c.sax) {
            c.saxp->resetCachedGrammarPool();
            c.saxp->sink = &codes;
            Grammar* g = c.saxp->loadGrammar(src, Grammar::SchemaGrammarType, true);
            if (!g && codes.v.empty()) codes.v.push_back("nogrammar");
        } else {
            c.dom->resetCachedGrammarPool();
            c.dom->sink = &codes;
            Grammar* g = c.dom->loadGrammar(src, Grammar::SchemaGrammarType, true);
            if (!c.sg && !c.full) noteCmClass(g);
            if (!g && codes.v.empty()) codes.v.push_back("nogrammar");
        }
    } catch (const OutOfMemoryException&) { codes.v.push_back("OOM");
    } catch (const XMLException& e) { codes.v.push_back("XMLException" + std::to_string((int)e.getCode()));
    } catch (const SAXException&) { codes.v.push_back("SAXException");
    } catch (const DOMException& e) { codes.v.push_back("DOMException" + std::to_string((int)e.code));
    } catch (...) { codes.v.push_back("unknown-exception"); }
    XMLString::release(&sid);
    return codes.str();
}

static std::string parseInst(Combo& c, const std::string& txt) {
    Codes codes;
    std::string attrs, kids;
    MemBufInputSource src((const XMLByte*)txt.data(), txt.size(), "mem:/instance.xml", false);
    try {
        if (c.sax) {
            c.saxp->sink = &codes;
            c.saxp->parse(src);
            attrs = joinSorted(c.handler.attrs);
            kids = joinSeq(c.handler.kids);
        } else {
            c.dom->sink = &codes;
            c.dom->parse(src);
            domRootInfo(c.dom->getDocument(), attrs, kids);
        }
    } catch (const OutOfMemoryException&) { codes.v.push_back("OOM");
    } catch (const XMLException& e) { codes.v.push_back("XMLException" + std::to_string((int)e.getCode()));
    } catch (const SAXException&) { codes.v.push_back("SAXException");
    } catch (const DOMException& e) { codes.v.push_back("DOMException" + std::to_string((int)e.code));
    } catch (...) { codes.v.push_back("unknown-exception"); }
    return codes.str() + "@" + attrs + "@" + kids;
}

int main() {
    XMLPlatformUtils::Initialize();
    std::vector<Combo*> combos;
    std::string line;
    while (std::getline(std::cin, line)) {
#ifndef C08_REUSE_PARSERS
        // fresh parsers for every request line: a line is self-contained (replayable on its own) and independent of
        // the parsers' history (history independence is property C15's subject)
        for (Combo* c : combos) { delete c->dom; delete c->saxp; delete c; }
        combos.clear();
#endif
        if (combos.empty())
            for (int full = 0; full < 2; full++)
                for (int sg = 0; sg < 2; sg++)
                    for (int sax = 0; sax < 2; sax++) {
                        Combo* c = new Combo();
                        c->sax = sax; c->sg = sg; c->full = full;
                        setup(*c);
                        combos.push_back(c);
                    }
        size_t bar = line.find(" | X ");
        if (bar == std::string::npos) { std::cout << "bad-request\n"; continue; }
        std::vector<std::string> a = splitWs(line.substr(bar + 3));
        size_t i = 1;
        if (a.size() < 3) { std::cout << "bad-request\n"; continue; }
        gDocs.clear();
        int nd = atoi(a[i++].c_str());
        for (int k = 0; k < nd && i + 1 < a.size(); k++) { gDocs[a[i]] = unhex(a[i + 1]); i += 2; }
        if (i >= a.size()) { std::cout << "bad-request\n"; continue; }
        std::string mainName = a[i++];
        int ni = i < a.size() ? atoi(a[i++].c_str()) : 0;
        std::vector<std::string> insts;
        for (int k = 0; k < ni && i < a.size(); k++) insts.push_back(unhex(a[i++]));
        // load the schema in every combination
        std::vector<std::string> sres;
        for (Combo* c : combos) sres.push_back(loadSchema(*c, mainName));
        std::string out;
        for (int full = 0; full < 2; full++) {
            bool same = true;
            for (int k = 1; k < 4; k++) if (sres[full * 4 + k] != sres[full * 4]) same = false;
            out += std::string(full ? " s1=" : "s0=");
            if (same) out += sres[full * 4];
            else { out += "DIS("; for (int k = 0; k < 4; k++) { if (k) out += ";"; out += sres[full * 4 + k]; } out += ")"; }
        }
        out += " cm=" + gCmClass;
        for (const std::string& txt : insts) {
            std::vector<std::string> r;
            for (Combo* c : combos) r.push_back(parseInst(*c, txt));
            bool same = true;
            for (size_t k = 1; k < r.size(); k++) if (r[k] != r[0]) same = false;
            out += " ";
            if (same) out += r[0];
            else { out += "DIS("; for (size_t k = 0; k < r.size(); k++) { if (k) out += ";"; out += r[k]; } out += ")"; }
        }
        std::cout << out << "\n";
    }
    return 0;
}
