// xh_C18: monitored exploration of MemoryManager discipline and the Initialize/Terminate lifecycle.
//
// Every MemoryManager handed to the library is a LedgerMM: it delegates to malloc/free and writes one line per
// call ("a <mgr> <addr-hex> <size>" / "f <mgr> <addr-hex>") to stdout, in call order.  The harness does NOT judge
// the discipline: the stream is piped into bin/xm_C18, where the *extracted* Coq monitor (ledger_check) judges
// the events between two check points ("chk <label> <mgr>..." = the objects of these managers are destroyed,
// nothing of theirs may be live; "term <label>" = last Terminate returned, nothing of the global manager (id 1)
// may be live).  All other lines ("r ...", "x ...", "st ...") are canonical results compared by checks/C18.py
// with the extracted models (XMemory header, DOM arena, Initialize/Terminate state machine).
//
// Manager ids: 1 = global manager given to XMLPlatformUtils::Initialize, 2 = parser / document, 3 = grammar pool,
// 4.. = further user managers.  Addresses are only used as identities by the monitor and never reach the verdicts.
#include "xh_common.hpp"
#include <xercesc/framework/MemoryManager.hpp>
#include <xercesc/framework/MemBufInputSource.hpp>
#include <xercesc/framework/XMLGrammarPoolImpl.hpp>
#include <xercesc/framework/XMLPScanToken.hpp>
#include <xercesc/parsers/SAXParser.hpp>
#include <xercesc/parsers/XercesDOMParser.hpp>
#include <xercesc/parsers/SAX2XMLReaderImpl.hpp>
#include <xercesc/sax2/XMLReaderFactory.hpp>
#include <xercesc/sax2/DefaultHandler.hpp>
#include <xercesc/sax/HandlerBase.hpp>
#include <xercesc/sax/SAXParseException.hpp>
#include <xercesc/dom/DOM.hpp>
#include <xercesc/dom/impl/DOMDocumentImpl.hpp>
#include <xercesc/util/XMLUni.hpp>
#include <xercesc/util/XMemory.hpp>
#include <xercesc/util/XMLEntityResolver.hpp>
#include <xercesc/validators/common/Grammar.hpp>
#include <xercesc/framework/MemBufFormatTarget.hpp>
#include <xercesc/framework/psvi/XSValue.hpp>
#include <xercesc/framework/psvi/XSModel.hpp>
#include <xercesc/framework/psvi/XSNamedMap.hpp>
#include <xercesc/framework/psvi/XSElementDeclaration.hpp>
#include <xercesc/framework/psvi/XSTypeDefinition.hpp>
#include <xercesc/util/regx/RegularExpression.hpp>
#include <xercesc/util/Base64.hpp>
#include <xercesc/util/XMLUri.hpp>
#include <xercesc/util/XMLURL.hpp>
#include <xercesc/util/TransService.hpp>
#include <xercesc/util/RefArrayVectorOf.hpp>
#include <xercesc/util/XMLMsgLoader.hpp>
#include <xercesc/framework/LocalFileInputSource.hpp>
#include <xercesc/framework/Wrapper4DOMLSInput.hpp>
#include <xercesc/framework/Wrapper4InputSource.hpp>
#include <xercesc/parsers/DOMLSParserImpl.hpp>
#include <xercesc/util/PanicHandler.hpp>
#include <xercesc/util/Janitor.hpp>
#include <xercesc/util/RefVectorOf.hpp>
#include <xercesc/util/XMLBigDecimal.hpp>
#include <xercesc/util/XMLStringTokenizer.hpp>
#include <xercesc/util/QName.hpp>
#include <xercesc/util/ArrayIndexOutOfBoundsException.hpp>
#include <xercesc/util/OutOfMemoryException.hpp>
#include <map>
#include <unordered_map>
#include <stdexcept>
#include <cstring>
#include <cstdlib>
#include <algorithm>
#include <execinfo.h>
#include <csignal>
#include <ucontext.h>
#include <unistd.h>
#include <dlfcn.h>
#include <cxxabi.h>

using namespace xh;

// ------------------------------------------------------------------------------------------------
// output
// ------------------------------------------------------------------------------------------------
static std::string gOut;
static void flushOut() { fwrite(gOut.data(), 1, gOut.size(), stdout); gOut.clear(); }
static void outLine(const std::string& s) { gOut += s; gOut += '\n'; if (gOut.size() > (1u << 20)) flushOut(); }

// ------------------------------------------------------------------------------------------------
// the instrumented manager
// ------------------------------------------------------------------------------------------------
struct BlockInfo { size_t size; unsigned long seq; };
class LedgerMM : public MemoryManager {
public:
    int id;
    bool quiet;                                       // do not print events (still counted)
    std::unordered_map<void*, BlockInfo> live;        // ONLY to keep the harness itself memory safe (never free() twice)
    unsigned long nAlloc, nFree, nNullFree, nBad, seq;
    std::vector<std::pair<void*, size_t> > order;     // blocks in allocation order (for the arena correspondence)
    bool keepOrder;
    explicit LedgerMM(int i) : id(i), quiet(false), nAlloc(0), nFree(0), nNullFree(0), nBad(0), seq(0), keepOrder(false) {}
    MemoryManager* getExceptionMemoryManager() { return this; }
    void* allocate(XMLSize_t size) {
        void* p = malloc(size ? size : 1);
        if (!p) throw OutOfMemoryException();
        live[p] = BlockInfo{(size_t)size, seq++};
        nAlloc++;
        if (keepOrder) order.push_back(std::make_pair(p, (size_t)size));
        if (!quiet) {
            char buf[64];
            snprintf(buf, sizeof buf, "a %d %lx %lu", id, (unsigned long)(uintptr_t)p, (unsigned long)size);
            outLine(buf);
        }
        return p;
    }
    void deallocate(void* p) {
        if (!p) { nNullFree++; return; }              // deallocate(0) is a no-op, as in MemoryManagerImpl
        if (!quiet) {
            char buf[64];
            snprintf(buf, sizeof buf, "f %d %lx", id, (unsigned long)(uintptr_t)p);
            outLine(buf);
        }
        std::unordered_map<void*, BlockInfo>::iterator it = live.find(p);
        if (it == live.end()) {
            // a block that is not outstanding: the monitor reports it; the harness adds the stack of this (second) free
            nBad++;
            printStack();
            return;
        }
        live.erase(it);
        nFree++;
        // QUARANTINE: the memory is kept (contents intact) until the check point of the case.  A second delete of the same
        // object then still finds its vtable and its XMemory header and reaches deallocate() again, where the monitor sees
        // it, instead of killing the process somewhere inside a destructor; addresses are never reused within a case.
        quarantine.push_back(p);
    }
    std::vector<void*> quarantine;
    void printStack() {
        void* fr[24];
        int n = backtrace(fr, 24);
        std::string s = "bt m" + std::to_string(id);
        int shown = 0;
        for (int i = 2; i < n && shown < 9; i++) {
            Dl_info info;
            if (dladdr(fr[i], &info) && info.dli_sname) {
                int st = 0;
                char* dm = abi::__cxa_demangle(info.dli_sname, 0, 0, &st);
                std::string nm = (st == 0 && dm) ? dm : info.dli_sname;
                free(dm);
                size_t par = nm.find('(');
                if (par != std::string::npos) nm = nm.substr(0, par);
                for (size_t k = 0; k < nm.size(); k++) if (nm[k] == ' ') nm[k] = '_';
                if (nm.find("XMemory::operator_delete") != std::string::npos) continue;
                s += " <" + nm;
                shown++;
            }
        }
        outLine(s);
    }
    // forget blocks that were reported as outstanding so that later cases start clean (memory is abandoned);
    // the quarantined blocks really go back to malloc now
    size_t abandon() {
        size_t n = live.size(); live.clear(); order.clear();
        for (size_t i = 0; i < quarantine.size(); i++) free(quarantine[i]);
        quarantine.clear();
        return n;
    }
};

static LedgerMM* gGlobal = 0;     // manager 1 while a session is open
static std::map<int, LedgerMM*> gMgrs;
static LedgerMM* mgr(int id) {
    std::map<int, LedgerMM*>::iterator it = gMgrs.find(id);
    if (it != gMgrs.end()) return it->second;
    LedgerMM* m = new LedgerMM(id);
    gMgrs[id] = m;
    return m;
}

// ------------------------------------------------------------------------------------------------
// request parsing
// ------------------------------------------------------------------------------------------------
typedef std::map<std::string, std::string> KV;
static KV parseKV(const std::vector<std::string>& a, size_t from) {
    KV kv;
    for (size_t i = from; i < a.size(); i++) {
        size_t e = a[i].find('=');
        if (e == std::string::npos) kv[a[i]] = "1"; else kv[a[i].substr(0, e)] = a[i].substr(e + 1);
    }
    return kv;
}
static std::string get(const KV& kv, const char* k, const char* d) {
    KV::const_iterator it = kv.find(k);
    return it == kv.end() ? std::string(d) : it->second;
}
static long geti(const KV& kv, const char* k, long d) {
    KV::const_iterator it = kv.find(k);
    return it == kv.end() ? d : strtol(it->second.c_str(), 0, 0);
}
static std::string unhex(const std::string& h) {
    std::string out;
    if (h == "-") return out;
    for (size_t i = 0; i + 1 < h.size(); i += 2) out += (char)(hexval(h[i]) * 16 + hexval(h[i + 1]));
    return out;
}

// ------------------------------------------------------------------------------------------------
// handlers that count callbacks, build a canonical digest, and throw at the k-th callback
// ------------------------------------------------------------------------------------------------
struct HarnessAbort { int k; };
struct Ctl {
    long count;        // callbacks seen
    long throwAt;      // 0 = never
    int excKind;       // 0 SAXException, 1 foreign C++ exception, 2 SAXParseException, 3 std::runtime_error
    long errors, fatals, warnings;
    uint64_t digest;
    std::map<std::string, std::string>* ext;
    std::map<std::string, std::string>* extenc;
    MemoryManager* mm;
    Ctl() : extenc(0), count(0), throwAt(0), excKind(0), errors(0), fatals(0), warnings(0), digest(1469598103934665603ULL), ext(0), mm(0) {}
    void mix(const char* tag, const XMLCh* s) {
        for (const char* p = tag; *p; ++p) { digest ^= (unsigned char)*p; digest *= 1099511628211ULL; }
        if (s) for (; *s; ++s) { digest ^= (uint64_t)*s; digest *= 1099511628211ULL; }
        digest ^= 0xff; digest *= 1099511628211ULL;
    }
    void tick(const char* tag, const XMLCh* s = 0) {
        mix(tag, s);
        count++;
        if (throwAt && count == throwAt) {
            switch (excKind) {
            case 1: { HarnessAbort h; h.k = (int)count; throw h; }
            case 2: { static const XMLCh m[] = { 's', 't', 'o', 'p', 0 };
                      throw SAXParseException(m, 0, 0, 1, 1, mm ? mm : XMLPlatformUtils::fgMemoryManager); }
            case 3: throw std::runtime_error("stop");
            default: throw SAXException("stop", mm ? mm : XMLPlatformUtils::fgMemoryManager);
            }
        }
    }
    InputSource* resolve(const XMLCh* sysId) {
        if (!ext || !sysId) return 0;
        std::string key = narrow(sysId);
        size_t sl = key.rfind('/');
        if (sl != std::string::npos) key = key.substr(sl + 1);
        std::map<std::string, std::string>::iterator it = ext->find(key);
        if (it == ext->end()) return 0;
        // the source is handed over to the parser, which deletes it
        MemBufInputSource* src = new (mm) MemBufInputSource((const XMLByte*)it->second.data(), it->second.size(), sysId, false, mm);
        if (extenc) {
            std::map<std::string, std::string>::iterator e = extenc->find(key);
            if (e != extenc->end()) { XMLCh* w = XMLString::transcode(e->second.c_str(), mm); src->setEncoding(w); XMLString::release(&w, mm); }
        }
        return src;
    }
};

class H2 : public DefaultHandler {
public:
    Ctl* c;
    explicit H2(Ctl* c_) : c(c_) {}
    void startDocument() { c->tick("sd"); }
    void endDocument() { c->tick("ed"); }
    void startElement(const XMLCh* const uri, const XMLCh* const local, const XMLCh* const q, const Attributes& at) {
        c->mix("u", uri); c->mix("l", local);
        for (XMLSize_t i = 0; i < at.getLength(); i++) { c->mix("an", at.getQName(i)); c->mix("av", at.getValue(i)); }
        c->tick("se", q);
    }
    void endElement(const XMLCh* const, const XMLCh* const, const XMLCh* const q) { c->tick("ee", q); }
    void characters(const XMLCh* const ch, const XMLSize_t) { c->tick("ch", ch); }
    void ignorableWhitespace(const XMLCh* const ch, const XMLSize_t) { c->tick("iw", ch); }
    void processingInstruction(const XMLCh* const t, const XMLCh* const d) { c->mix("pt", t); c->tick("pi", d); }
    void startPrefixMapping(const XMLCh* const p, const XMLCh* const u) { c->mix("pp", p); c->tick("pm", u); }
    void endPrefixMapping(const XMLCh* const p) { c->tick("epm", p); }
    void skippedEntity(const XMLCh* const n) { c->tick("sk", n); }
    void comment(const XMLCh* const ch, const XMLSize_t) { c->tick("co", ch); }
    void startCDATA() { c->tick("sc"); }
    void endCDATA() { c->tick("ec"); }
    void startDTD(const XMLCh* const n, const XMLCh* const, const XMLCh* const) { c->tick("sdtd", n); }
    void endDTD() { c->tick("edtd"); }
    void startEntity(const XMLCh* const n) { c->tick("sen", n); }
    void endEntity(const XMLCh* const n) { c->tick("een", n); }
    void notationDecl(const XMLCh* const n, const XMLCh* const, const XMLCh* const) { c->tick("nd", n); }
    void unparsedEntityDecl(const XMLCh* const n, const XMLCh* const, const XMLCh* const, const XMLCh* const) { c->tick("ued", n); }
    void elementDecl(const XMLCh* const n, const XMLCh* const m) { c->mix("edn", n); c->tick("eld", m); }
    void attributeDecl(const XMLCh* const e, const XMLCh* const a, const XMLCh* const, const XMLCh* const, const XMLCh* const) { c->mix("ade", e); c->tick("atd", a); }
    void internalEntityDecl(const XMLCh* const n, const XMLCh* const v) { c->mix("ien", n); c->tick("ied", v); }
    void externalEntityDecl(const XMLCh* const n, const XMLCh* const, const XMLCh* const) { c->tick("eed", n); }
    void warning(const SAXParseException& e) { c->warnings++; c->tick("w", 0); }
    void error(const SAXParseException& e) { c->errors++; c->tick("e", 0); }
    void fatalError(const SAXParseException& e) { c->fatals++; c->tick("f", 0); }
    InputSource* resolveEntity(const XMLCh* const, const XMLCh* const sysId) { c->tick("re", 0); return c->resolve(sysId); }
};

class H1 : public HandlerBase {
public:
    Ctl* c;
    explicit H1(Ctl* c_) : c(c_) {}
    void startDocument() { c->tick("sd"); }
    void endDocument() { c->tick("ed"); }
    void startElement(const XMLCh* const q, AttributeList& at) {
        for (XMLSize_t i = 0; i < at.getLength(); i++) { c->mix("an", at.getName(i)); c->mix("av", at.getValue(i)); }
        c->tick("se", q);
    }
    void endElement(const XMLCh* const q) { c->tick("ee", q); }
    void characters(const XMLCh* const ch, const XMLSize_t) { c->tick("ch", ch); }
    void ignorableWhitespace(const XMLCh* const ch, const XMLSize_t) { c->tick("iw", ch); }
    void processingInstruction(const XMLCh* const t, const XMLCh* const d) { c->mix("pt", t); c->tick("pi", d); }
    void notationDecl(const XMLCh* const n, const XMLCh* const, const XMLCh* const) { c->tick("nd", n); }
    void unparsedEntityDecl(const XMLCh* const n, const XMLCh* const, const XMLCh* const, const XMLCh* const) { c->tick("ued", n); }
    void warning(const SAXParseException&) { c->warnings++; c->tick("w", 0); }
    void error(const SAXParseException&) { c->errors++; c->tick("e", 0); }
    void fatalError(const SAXParseException&) { c->fatals++; c->tick("f", 0); }
    InputSource* resolveEntity(const XMLCh* const, const XMLCh* const sysId) { c->tick("re", 0); return c->resolve(sysId); }
};

// DOM level 3 error handler + LS parser filter
class HLS : public DOMErrorHandler, public DOMLSParserFilter, public DOMLSResourceResolver {
public:
    Ctl* c;
    int filterMode;     // 0 accept, 1 reject every 3rd element, 2 skip every 3rd, 3 interrupt at throwAt instead of throwing
    explicit HLS(Ctl* c_) : c(c_), filterMode(0) {}
    bool handleError(const DOMError& e) {
        if (e.getSeverity() == DOMError::DOM_SEVERITY_WARNING) c->warnings++;
        else if (e.getSeverity() == DOMError::DOM_SEVERITY_ERROR) c->errors++;
        else c->fatals++;
        c->tick("de", 0);
        return true;
    }
    FilterAction acceptNode(DOMNode* n) {
        long before = c->count;
        if (filterMode == 3) { c->mix("an", n->getNodeName()); c->count++; if (c->throwAt && c->count == c->throwAt) return FILTER_INTERRUPT; }
        else c->tick("an", n->getNodeName());
        if (filterMode == 1 && (before % 3) == 2) return FILTER_REJECT;
        if (filterMode == 2 && (before % 3) == 2) return FILTER_SKIP;
        return FILTER_ACCEPT;
    }
    FilterAction startElement(DOMElement* n) {
        long before = c->count;
        if (filterMode == 3) { c->mix("fs", n->getNodeName()); c->count++; if (c->throwAt && c->count == c->throwAt) return FILTER_INTERRUPT; }
        else c->tick("fs", n->getNodeName());
        if (filterMode == 1 && (before % 5) == 4) return FILTER_REJECT;
        if (filterMode == 2 && (before % 5) == 4) return FILTER_SKIP;
        return FILTER_ACCEPT;
    }
    DOMNodeFilter::ShowType getWhatToShow() const { return DOMNodeFilter::SHOW_ALL; }
    DOMLSInput* resolveResource(const XMLCh* const, const XMLCh* const, const XMLCh* const, const XMLCh* const sysId, const XMLCh* const) {
        c->tick("rr", 0);
        return 0;
    }
};

// ------------------------------------------------------------------------------------------------
// one parse configuration
// ------------------------------------------------------------------------------------------------
struct Cfg {
    std::string api;     // sax | sax2 | dom | ls
    std::string scn;     // IG WF DG SG
    int ns, val, sch, fc, pool, excKind, filter, ents;
    std::string doc;
    std::map<std::string, std::string> ext;
    // InputSource variations: src = mem | memadopt | file | missing | w4dom | w4str  (LS parser: mem | w4is | lsstr | lsuri)
    std::string src, enc, pub, sys, tmp;
    std::map<std::string, std::string> extenc;   // forced encoding on the source the resolver returns for that entity
    int preload;                                    // load the .xsd resources as cached grammars before parsing
    int xff;                                        // setExitOnFirstFatalError (default of the library: true)
    int cache, usec, lock;                          // cacheGrammarFromParse / useCachedGrammarInParse (-1: on iff an application pool
                                                    // is given), lock: the application pool is locked before the parser is created
    Cfg() : ns(1), val(0), sch(0), fc(0), pool(0), excKind(0), filter(0), ents(1), preload(0), xff(1), cache(-1), usec(-1), lock(0) {}
};

static const XMLCh* scannerName(const std::string& s) {
    if (s == "WF") return XMLUni::fgWFXMLScanner;
    if (s == "DG") return XMLUni::fgDGXMLScanner;
    if (s == "SG") return XMLUni::fgSGXMLScanner;
    return XMLUni::fgIGXMLScanner;
}

// the parser object of any of the four APIs behind one interface
struct AnyParser {
    Cfg& cfg;
    LedgerMM* mm;
    XMLGrammarPool* gp;
    Ctl ctl;
    SAXParser* sax; H1* h1;
    SAX2XMLReader* sax2; H2* h2;
    XercesDOMParser* dom;
    DOMLSParser* ls; HLS* hls;
    XMLPScanToken token;
    bool cacheOn() const { return cfg.cache < 0 ? gp != 0 : cfg.cache != 0; }
    bool useOn() const { return cfg.usec < 0 ? gp != 0 : cfg.usec != 0; }
    AnyParser(Cfg& c, LedgerMM* m, XMLGrammarPool* g) : cfg(c), mm(m), gp(g), sax(0), h1(0), sax2(0), h2(0), dom(0), ls(0), hls(0) {
        ctl.ext = &cfg.ext; ctl.extenc = &cfg.extenc; ctl.mm = mm; ctl.excKind = cfg.excKind;
        if (cfg.api == "sax") {
            sax = new (mm) SAXParser(0, mm, gp);
            h1 = new H1(&ctl);
            sax->setDocumentHandler(h1); sax->setErrorHandler(h1); sax->setEntityResolver(h1);
            sax->useScanner(scannerName(cfg.scn));
            sax->setDoNamespaces(cfg.ns); sax->setDoSchema(cfg.sch); sax->setValidationSchemaFullChecking(cfg.fc);
            sax->setValidationScheme(cfg.val == 0 ? SAXParser::Val_Never : cfg.val == 1 ? SAXParser::Val_Always : SAXParser::Val_Auto);
            sax->setExitOnFirstFatalError(cfg.xff != 0);
            // (useCachedGrammarInParse first: cacheGrammarFromParse(true) switches it on by itself)
            sax->cacheGrammarFromParse(cacheOn()); sax->useCachedGrammarInParse(useOn());
        } else if (cfg.api == "sax2") {
            sax2 = XMLReaderFactory::createXMLReader(mm, gp);
            h2 = new H2(&ctl);
            sax2->setContentHandler(h2); sax2->setErrorHandler(h2); sax2->setEntityResolver(h2);
            sax2->setLexicalHandler(h2); sax2->setDeclarationHandler(h2); sax2->setDTDHandler(h2);
            sax2->setProperty(XMLUni::fgXercesScannerName, (void*)scannerName(cfg.scn));
            sax2->setFeature(XMLUni::fgSAX2CoreNameSpaces, cfg.ns != 0);
            sax2->setFeature(XMLUni::fgSAX2CoreNameSpacePrefixes, cfg.ns == 0 || cfg.fc);
            sax2->setFeature(XMLUni::fgXercesSchema, cfg.sch != 0);
            sax2->setFeature(XMLUni::fgXercesSchemaFullChecking, cfg.fc != 0);
            sax2->setFeature(XMLUni::fgSAX2CoreValidation, cfg.val != 0);
            sax2->setFeature(XMLUni::fgXercesDynamic, cfg.val == 2);
            sax2->setFeature(XMLUni::fgXercesContinueAfterFatalError, cfg.xff == 0);
            sax2->setFeature(XMLUni::fgXercesCacheGrammarFromParse, cacheOn());
            try { sax2->setFeature(XMLUni::fgXercesUseCachedGrammarInParse, useOn()); } catch (...) { }
        } else if (cfg.api == "dom") {
            dom = new (mm) XercesDOMParser(0, mm, gp);
            h1 = new H1(&ctl);
            dom->setErrorHandler(h1); dom->setEntityResolver(h1);
            dom->useScanner(scannerName(cfg.scn));
            dom->setDoNamespaces(cfg.ns); dom->setDoSchema(cfg.sch); dom->setValidationSchemaFullChecking(cfg.fc);
            dom->setValidationScheme(cfg.val == 0 ? XercesDOMParser::Val_Never : cfg.val == 1 ? XercesDOMParser::Val_Always : XercesDOMParser::Val_Auto);
            dom->setCreateEntityReferenceNodes(cfg.ents != 0);
            dom->setCreateSchemaInfo(cfg.sch && cfg.fc);
            dom->setExitOnFirstFatalError(cfg.xff != 0);
            dom->cacheGrammarFromParse(cacheOn()); dom->useCachedGrammarInParse(useOn());
        } else {
            static const XMLCh lsFeat[] = { 'L', 'S', 0 };
            DOMImplementation* impl = DOMImplementationRegistry::getDOMImplementation(lsFeat);
            ls = ((DOMImplementationLS*)impl)->createLSParser(DOMImplementationLS::MODE_SYNCHRONOUS, 0, mm, gp);
            hls = new HLS(&ctl);
            hls->filterMode = cfg.filter;
            DOMConfiguration* dc = ls->getDomConfig();
            dc->setParameter(XMLUni::fgDOMErrorHandler, (const void*)static_cast<DOMErrorHandler*>(hls));
            dc->setParameter(XMLUni::fgXercesScannerName, (const void*)scannerName(cfg.scn));
            dc->setParameter(XMLUni::fgDOMNamespaces, cfg.ns != 0);
            dc->setParameter(XMLUni::fgXercesSchema, cfg.sch != 0);
            dc->setParameter(XMLUni::fgXercesSchemaFullChecking, cfg.fc != 0);
            if (cfg.val == 2) dc->setParameter(XMLUni::fgDOMValidateIfSchema, true);
            else dc->setParameter(XMLUni::fgDOMValidate, cfg.val == 1);
            dc->setParameter(XMLUni::fgDOMEntities, cfg.ents != 0);
            dc->setParameter(XMLUni::fgXercesContinueAfterFatalError, cfg.xff == 0);
            dc->setParameter(XMLUni::fgXercesCacheGrammarFromParse, cacheOn());
            try { dc->setParameter(XMLUni::fgXercesUseCachedGrammarInParse, useOn()); } catch (...) { }
            if (cfg.filter) ls->setFilter(hls);
        }
        if (cfg.preload && !ls) {
            for (std::map<std::string, std::string>::iterator it = cfg.ext.begin(); it != cfg.ext.end(); ++it) {
                if (!(it->first.size() > 4 && it->first.substr(it->first.size() - 4) == ".xsd")) continue;
                MemBufInputSource src((const XMLByte*)it->second.data(), it->second.size(), it->first.c_str(), false, mm);
                try {
                    if (sax) { sax->loadGrammar(src, Grammar::SchemaGrammarType, true); sax->useCachedGrammarInParse(true); }
                    else if (sax2) { sax2->loadGrammar(src, Grammar::SchemaGrammarType, true); sax2->setFeature(XMLUni::fgXercesUseCachedGrammarInParse, true); }
                    else { dom->loadGrammar(src, Grammar::SchemaGrammarType, true); dom->useCachedGrammarInParse(true); }
                } catch (...) { }
            }
        }
    }
    void destroy() {
        if (sax) { delete sax; sax = 0; }
        if (sax2) { delete sax2; sax2 = 0; }
        if (dom) { delete dom; dom = 0; }
        if (ls) { ls->release(); ls = 0; }
        delete h1; h1 = 0; delete h2; h2 = 0; delete hls; hls = 0;
        freeKept();
    }
    ~AnyParser() { destroy(); }
    void arm(long throwAt) { ctl.count = 0; ctl.throwAt = throwAt; ctl.errors = ctl.fatals = ctl.warnings = 0; ctl.digest = 1469598103934665603ULL; }
    // full parse; returns canonical outcome
    // ---- InputSource variations ---------------------------------------------------------------------------
    void writeTmp(const std::string& doc) {
        if (cfg.tmp.empty()) return;
        FILE* f = fopen(cfg.tmp.c_str(), "wb");
        if (f) { fwrite(doc.data(), 1, doc.size(), f); fclose(f); }
    }
    void decorate(InputSource* src) {
        if (!cfg.enc.empty()) { XMLCh* w = XMLString::transcode(cfg.enc.c_str(), mm); src->setEncoding(w); XMLString::release(&w, mm); }
        if (!cfg.pub.empty()) { XMLCh* w = XMLString::transcode(cfg.pub.c_str(), mm); src->setPublicId(w); XMLString::release(&w, mm); }
    }
    std::vector<XMLCh*> kept;      // string data handed to a DOMLSInput; released at the next source creation / parser destruction
    void freeKept() { for (size_t i = 0; i < kept.size(); i++) XMLString::release(&kept[i], mm); kept.clear(); }
    DOMLSInput* makeLSInputOver(const std::string& doc, const std::string& kind, InputSource*& keep) {
        keep = 0;
        freeKept();
        static const XMLCh lsFeat[] = { 'L', 'S', 0 };
        DOMImplementationLS* impl = (DOMImplementationLS*)DOMImplementationRegistry::getDOMImplementation(lsFeat);
        const char* sysid = cfg.sys.empty() ? "doc.xml" : cfg.sys.c_str();
        if (kind == "w4is") {
            MemBufInputSource* m = new (mm) MemBufInputSource((const XMLByte*)doc.data(), doc.size(), sysid, false, mm);
            decorate(m);
            return new Wrapper4InputSource(m, true, mm);     // DOMLSInput is not an XMemory class: plain new
        }
        DOMLSInput* in = impl->createLSInput(mm);
        if (kind == "lsstr" || kind == "w4str") {
            XMLCh* w = XMLString::transcode(doc.c_str(), mm);     // (documents with NUL bytes are cut; fine for this purpose)
            in->setStringData(w);                                 // NOT copied by DOMLSInputImpl: must outlive the parse
            kept.push_back(w);
            XMLCh* sw = XMLString::transcode(sysid, mm); in->setSystemId(sw); XMLString::release(&sw, mm);
        } else if (kind == "lsuri") {
            writeTmp(doc);
            XMLCh* sw = XMLString::transcode(cfg.tmp.c_str(), mm); in->setSystemId(sw); XMLString::release(&sw, mm);
        } else {
            MemBufInputSource* m = new (mm) MemBufInputSource((const XMLByte*)doc.data(), doc.size(), sysid, false, mm);
            in->setByteStream(m);
            keep = m;
        }
        if (!cfg.enc.empty()) { XMLCh* w = XMLString::transcode(cfg.enc.c_str(), mm); in->setEncoding(w); XMLString::release(&w, mm); }
        if (!cfg.pub.empty()) { XMLCh* w = XMLString::transcode(cfg.pub.c_str(), mm); in->setPublicId(w); XMLString::release(&w, mm); }
        return in;
    }
    // heap-allocated source for the SAX / DOM parsers; the caller deletes it (keep = inner object to delete afterwards)
    InputSource* makeSource(const std::string& doc, InputSource*& keep) {
        keep = 0;
        const std::string& k = cfg.src;
        const char* sysid = cfg.sys.empty() ? "doc.xml" : cfg.sys.c_str();
        InputSource* src = 0;
        if (k == "memadopt") {
            XMLByte* copy = new XMLByte[doc.size() + 1];      // MemBufInputSource releases an adopted buffer with delete []
            memcpy(copy, doc.data(), doc.size());
            src = new (mm) MemBufInputSource(copy, doc.size(), sysid, true, mm);
        } else if (k == "file" || k == "missing") {
            if (k == "file") writeTmp(doc);
            std::string path = k == "file" ? cfg.tmp : cfg.tmp + ".does-not-exist";
            XMLCh* w = XMLString::transcode(path.c_str(), mm);
            try { src = new (mm) LocalFileInputSource(w, mm); } catch (...) { XMLString::release(&w, mm); throw; }
            XMLString::release(&w, mm);
        } else if (k == "w4dom" || k == "w4str") {
            DOMLSInput* in = makeLSInputOver(doc, k == "w4str" ? "w4str" : "bytes", keep);
            return new (mm) Wrapper4DOMLSInput(in, 0, true, mm);     // adopts the DOMLSInput; decorations were put on it
        } else {
            src = new (mm) MemBufInputSource((const XMLByte*)doc.data(), doc.size(), sysid, false, mm);
        }
        decorate(src);
        return src;
    }
    // full parse; returns canonical outcome
    std::string parse(const std::string& doc) {
        std::string r;
        try {
            if (ls) {
                InputSource* keep = 0;
                DOMLSInput* in = makeLSInputOver(doc, cfg.src.empty() ? "bytes" : cfg.src, keep);
                try {
                    if (cfg.src == "lsuri") { XMLCh* w = XMLString::transcode(cfg.tmp.c_str(), mm); ArrayJanitor<XMLCh> j(w, mm); ls->parseURI(w); }
                    else ls->parse(in);
                } catch (...) { in->release(); delete keep; throw; }
                in->release(); delete keep;
            } else {
                InputSource* keep = 0;
                InputSource* src = makeSource(doc, keep);
                try {
                    if (sax) sax->parse(*src); else if (sax2) sax2->parse(*src); else dom->parse(*src);
                } catch (...) { delete src; delete keep; throw; }
                delete src; delete keep;
            }
            r = ctl.fatals ? "fatal" : (ctl.errors ? "invalid" : "ok");
        } catch (const OutOfMemoryException&) { r = "exc:OutOfMemory";
        } catch (const SAXParseException& e) { r = "exc:SAXParseException";
        } catch (const SAXException& e) { r = "exc:SAXException";
        } catch (const XMLException& e) { r = "exc:XMLException";
        } catch (const DOMLSException& e) { r = "exc:DOMLSException";
        } catch (const DOMException& e) { r = "exc:DOMException";
        } catch (const HarnessAbort&) { r = "exc:HarnessAbort";
        } catch (const std::exception&) { r = "exc:std";
        } catch (...) { r = "exc:unknown"; }
        return r;
    }
    bool canProgressive() const { return !ls; }
    bool first(const InputSource& src) {
        if (sax) return sax->parseFirst(src, token);
        if (sax2) return sax2->parseFirst(src, token);
        return dom->parseFirst(src, token);
    }
    bool next() {
        if (sax) return sax->parseNext(token);
        if (sax2) return sax2->parseNext(token);
        return dom->parseNext(token);
    }
    void reset() {
        if (sax) sax->parseReset(token); else if (sax2) sax2->parseReset(token); else dom->parseReset(token);
    }
};

static std::string hex64(uint64_t v) { char b[24]; snprintf(b, sizeof b, "%016llx", (unsigned long long)v); return b; }

// "chk": the objects of managers ids are gone; nothing of theirs may be live.  own= is the harness' own count,
// printed only as a cross-check of the monitor (it decides nothing).
static void checkpoint(const std::string& label, const std::vector<int>& ids) {
    std::string s = "chk " + label;
    size_t own = 0;
    for (size_t i = 0; i < ids.size(); i++) { s += " " + std::to_string(ids[i]); own += mgr(ids[i])->abandon(); }
    outLine(s);
    outLine("own " + label + " " + std::to_string(own));
}

static XMLGrammarPool* makePool(const Cfg& cfg) {
    if (!cfg.pool) return 0;
    LedgerMM* m3 = mgr(3);
    XMLGrammarPool* gp = new (m3) XMLGrammarPoolImpl(m3);
    if (cfg.lock) gp->lockPool();      // a locked pool refuses cacheGrammar / orphanGrammar: the resolver's own bucket takes over
    return gp;
}

// progressive parse abandoned after j calls of parseNext (j = -1: run to the end); how: 0 parseReset then destroy,
// 1 destroy without parseReset, 2 parseReset then a complete parse() on the same parser
static std::string runProgressive(AnyParser& p, const std::string& doc, long j, int how, long& steps) {
    std::string r;
    steps = 0;
    try {
        InputSource* keep = 0;
        InputSource* srcp = p.makeSource(doc, keep);
        Janitor<InputSource> j1(srcp), j2(keep);
        bool more = p.first(*srcp);
        if (!more) r = "first-failed";
        else {
            while (more && (j < 0 || steps < j)) { more = p.next(); steps++; }
            r = more ? "abandoned" : (p.ctl.fatals ? "fatal" : (p.ctl.errors ? "invalid" : "ok"));
            if (how != 1) p.reset();
        }
    } catch (const OutOfMemoryException&) { r = "exc:OutOfMemory";
    } catch (const SAXException&) { r = "exc:SAXException";
    } catch (const XMLException&) { r = "exc:XMLException";
    } catch (const DOMException&) { r = "exc:DOMException";
    } catch (const HarnessAbort&) { r = "exc:HarnessAbort";
    } catch (...) { r = "exc:unknown"; }
    return r;
}

// "@@REP(x,200000)@@" in a document stands for 200000 times the character x (large text without megabyte request lines)
static std::string expandReps(const std::string& in) {
    std::string out;
    size_t pos = 0;
    while (true) {
        size_t a = in.find("@@REP(", pos);
        if (a == std::string::npos) { out += in.substr(pos); break; }
        size_t b = in.find(")@@", a);
        if (b == std::string::npos || a + 8 > in.size() || in[a + 7] != ',') { out += in.substr(pos); break; }
        out += in.substr(pos, a - pos);
        out.append((size_t)strtoul(in.c_str() + a + 8, 0, 10), in[a + 6]);
        pos = b + 3;
    }
    return out;
}
static Cfg readCfg(const KV& kv) {
    Cfg c;
    c.api = get(kv, "api", "sax2"); c.scn = get(kv, "scn", "IG");
    c.ns = geti(kv, "ns", 1); c.val = geti(kv, "val", 0); c.sch = geti(kv, "sch", 0); c.fc = geti(kv, "fc", 0);
    c.pool = geti(kv, "pool", 0); c.excKind = geti(kv, "exc", 0); c.filter = geti(kv, "filter", 0); c.ents = geti(kv, "ents", 1);
    c.doc = expandReps(unhex(get(kv, "doc", "-")));
    c.src = get(kv, "src", ""); c.enc = get(kv, "enc", ""); c.pub = get(kv, "pub", ""); c.sys = get(kv, "sys", ""); c.tmp = get(kv, "tmp", "");
    c.preload = geti(kv, "preload", 0);
    c.xff = geti(kv, "xff", 1); c.cache = geti(kv, "cache", -1); c.usec = geti(kv, "usec", -1); c.lock = geti(kv, "lock", 0);
    {
        std::string ee = get(kv, "extenc", "");
        size_t pos = 0;
        while (pos < ee.size()) {
            size_t comma = ee.find(',', pos);
            if (comma == std::string::npos) comma = ee.size();
            std::string item = ee.substr(pos, comma - pos);
            size_t col = item.find(':');
            if (col != std::string::npos) c.extenc[item.substr(0, col)] = item.substr(col + 1);
            pos = comma + 1;
        }
    }
    std::string ext = get(kv, "ext", "");
    size_t pos = 0;
    while (pos < ext.size()) {
        size_t comma = ext.find(',', pos);
        if (comma == std::string::npos) comma = ext.size();
        std::string item = ext.substr(pos, comma - pos);
        size_t col = item.find(':');
        if (col != std::string::npos) c.ext[item.substr(0, col)] = expandReps(unhex(item.substr(col + 1)));
        pos = comma + 1;
    }
    return c;
}

// "case": all endings of one document under one configuration.
//   mode=fresh : a new parser (and pool) for every ending, destroyed right after it, check point after each
//   mode=reuse : one parser for all endings, one check point after it is destroyed
//   kmax, jmax : limits on the number of endings explored (0 = all)
static void doCase(const std::string& id, const KV& kv) {
    Cfg cfg = readCfg(kv);
    bool reuse = get(kv, "mode", "fresh") == "reuse";
    long kmax = geti(kv, "kmax", 0), jmax = geti(kv, "jmax", 0);
    int prog = geti(kv, "prog", 1), thr = geti(kv, "thr", 1);
    std::vector<int> ids; ids.push_back(2); if (cfg.pool) ids.push_back(3);
    outLine("begin " + id);
    long total = 0, steps = 0;
    std::string base;
    {   // base run: natural ending, counts the callbacks
        XMLGrammarPool* gp = makePool(cfg);
        {
            AnyParser p(cfg, mgr(2), gp);
            p.arm(0);
            base = p.parse(cfg.doc);
            total = p.ctl.count;
            outLine("r " + id + " base " + base + " cb=" + std::to_string(total) + " e=" + std::to_string(p.ctl.errors) +
                    " f=" + std::to_string(p.ctl.fatals) + " d=" + hex64(p.ctl.digest));
            // second parse on the same parser must report the same (history independence is C15; here only memory)
            p.arm(0);
            std::string again = p.parse(cfg.doc);
            outLine("r " + id + " again " + again + " cb=" + std::to_string(p.ctl.count));
        }
        delete gp;
        checkpoint(id + ".base", ids);
    }
    if (thr) {
        long K = (kmax && total > kmax) ? kmax : total;
        XMLGrammarPool* gp = 0; AnyParser* p = 0;
        for (long k = 1; k <= K; k++) {
            // spread the explored k over the whole run when limited
            long kk = (K == total) ? k : 1 + (k - 1) * (total - 1) / (K > 1 ? K - 1 : 1);
            if (!p) { gp = makePool(cfg); p = new AnyParser(cfg, mgr(2), gp); }
            p->arm(kk);
            std::string r = p->parse(cfg.doc);
            outLine("r " + id + " throw k=" + std::to_string(kk) + " " + r + " cb=" + std::to_string(p->ctl.count));
            if (!reuse) {
                delete p; p = 0; delete gp; gp = 0;
                checkpoint(id + ".k" + std::to_string(kk), ids);
            }
        }
        if (p) {   // reuse: finish with a complete parse, then destroy
            p->arm(0);
            std::string r = p->parse(cfg.doc);
            outLine("r " + id + " after-throws " + r + " cb=" + std::to_string(p->ctl.count) + " d=" + hex64(p->ctl.digest));
            delete p; delete gp;
            checkpoint(id + ".kreuse", ids);
        }
    }
    if (prog && cfg.api != "ls") {
        {   // count the steps
            XMLGrammarPool* gp = makePool(cfg);
            { AnyParser p(cfg, mgr(2), gp); p.arm(0); std::string r = runProgressive(p, cfg.doc, -1, 0, steps);
              outLine("r " + id + " prog-full " + r + " steps=" + std::to_string(steps)); }
            delete gp;
            checkpoint(id + ".pfull", ids);
        }
        long J = (jmax && steps > jmax) ? jmax : steps;
        XMLGrammarPool* gp = 0; AnyParser* p = 0;
        for (long j = 0; j <= J; j++) {
            long jj = (J == steps) ? j : j * steps / (J ? J : 1);
            int how = (int)(jj % 3);
            // how == 1 on a reused parser = leaving a progressive parse without parseReset and starting another parse on
            // the SAME parser (was finding C18-STALE-READERS, fixed by 6295703; also replayed by request "progreuse")
            if (!p) { gp = makePool(cfg); p = new AnyParser(cfg, mgr(2), gp); }
            p->arm(0);
            long st = 0;
            std::string r = runProgressive(*p, cfg.doc, jj, how, st);
            if (how == 2) { p->arm(0); r += "+" + p->parse(cfg.doc); }
            outLine("r " + id + " prog j=" + std::to_string(jj) + " how=" + std::to_string(how) + " " + r);
            if (!reuse) {
                delete p; p = 0; delete gp; gp = 0;
                checkpoint(id + ".j" + std::to_string(jj), ids);
            }
        }
        if (p) { delete p; delete gp; checkpoint(id + ".jreuse", ids); }
    }
    outLine("end " + id + " cb=" + std::to_string(total) + " steps=" + std::to_string(steps));
    flushOut();
}

// "domhist": object-lifetime HISTORIES of the DOM parsers (api=dom: XercesDOMParser, api=ls: DOMLSParser), hist = letters
//   P parse (complete)                 E parse ended by an exception from the first handler callback (if the run has one)
//   F parseFirst + one parseNext, left there (api=dom only)       G parseReset (api=dom only)
//   A adoptDocument()  (the harness takes ownership of a document it does not own yet)
//   R release() the oldest document the application owns           X resetDocumentPool()           S reset() (api=dom)
// end=0: destroy the parser, then release the application's documents;  end=1: the other way round.
// One check point after both: everything the parser / documents took from manager 2 must have been returned exactly once.
static void doDomHist(const std::string& id, const KV& kv) {
    Cfg cfg = readCfg(kv);
    if (cfg.api != "ls") cfg.api = "dom";
    std::string hist = get(kv, "hist", "P");
    int endOrder = geti(kv, "end", 0);
    std::vector<int> ids; ids.push_back(2); if (cfg.pool) ids.push_back(3);
    outLine("begin " + id);
    XMLGrammarPool* gp = makePool(cfg);
    AnyParser* p = new AnyParser(cfg, mgr(2), gp);
    AbstractDOMParser* adp = p->dom ? (AbstractDOMParser*)p->dom : (AbstractDOMParser*)(DOMLSParserImpl*)p->ls;
    std::vector<DOMDocument*> owned;
    bool currentTaken = true;      // does the application already own (or has it released) the parser's current document?
    std::string log;
    for (size_t i = 0; i < hist.size(); i++) {
        char c = hist[i];
        try {
            if (c == 'P' || c == 'E') {
                p->arm(c == 'E' ? 1 : 0);
                std::string r = p->parse(cfg.doc);
                currentTaken = false;
                log += r[0];
            } else if (c == 'F') {
                if (!p->dom) { log += '-'; continue; }
                p->arm(0);
                long st = 0;
                std::string r = runProgressive(*p, cfg.doc, 1, 1, st);
                currentTaken = false;
                log += 'F';
            } else if (c == 'G') {
                if (!p->dom) { log += '-'; continue; }
                p->reset(); log += 'G';
            } else if (c == 'A') {
                DOMDocument* d = adp->adoptDocument();
                if (d && !currentTaken) { owned.push_back(d); log += 'A'; } else log += 'a';
                currentTaken = true;
            } else if (c == 'R') {
                if (!owned.empty()) { owned.front()->release(); owned.erase(owned.begin()); log += 'R'; } else log += 'r';
            } else if (c == 'X') {
                if (p->dom) p->dom->resetDocumentPool(); else p->ls->resetDocumentPool();
                currentTaken = true; log += 'X';
            } else if (c == 'S') {
                if (!p->dom) { log += '-'; continue; }
                p->dom->reset(); currentTaken = true; log += 'S';
            } else log += '?';
        } catch (const XMLException&) { log += '!';
        } catch (const DOMException&) { log += '!';
        } catch (...) { log += '#'; }
    }
    if (endOrder == 0) { delete p; p = 0; }
    for (size_t i = 0; i < owned.size(); i++) owned[i]->release();
    delete p;
    delete gp;
    outLine("r " + id + " domhist " + hist + " " + log);
    checkpoint(id + ".hist", ids);
    outLine("end " + id);
}

// "domlife": object lifetimes of DOM documents: life = sequence of letters
//   P parse (document owned by parser)      A adoptDocument (keeps it in slot)      R release the oldest adopted document
//   X resetDocumentPool                     D destroy the parser                    N create a new parser
//   T parse with a handler exception at callback 1 (if the run has callbacks)      C clone adopted doc into a fresh one
static void doDomLife(const std::string& id, const KV& kv) {
    Cfg cfg = readCfg(kv);
    cfg.api = "dom";
    std::string life = get(kv, "life", "PD");
    std::vector<int> ids; ids.push_back(2); if (cfg.pool) ids.push_back(3);
    outLine("begin " + id);
    XMLGrammarPool* gp = makePool(cfg);
    AnyParser* p = new AnyParser(cfg, mgr(2), gp);
    std::vector<DOMDocument*> docs;
    std::string log;
    bool canAdopt = false;     // adoptDocument is legal once per parse (afterwards the parser's pointer is the user's)
    for (size_t i = 0; i < life.size(); i++) {
        char c = life[i];
        try {
            if (c == 'N') { if (!p) { p = new AnyParser(cfg, mgr(2), gp); canAdopt = false; } }
            else if (c == 'D') { delete p; p = 0; }
            else if (c == 'R') { if (!docs.empty()) { docs.front()->release(); docs.erase(docs.begin()); } }
            else if (c == 'C') {
                if (!docs.empty()) {
                    DOMDocument* d2 = DOMImplementationRegistry::getDOMImplementation(XMLUni::fgZeroLenString)->createDocument(mgr(2));
                    if (docs.front()->getDocumentElement())
                        d2->appendChild(d2->importNode(docs.front()->getDocumentElement(), true));
                    docs.push_back(d2);
                }
            }
            else if (!p) { log += '-'; continue; }
            else if (c == 'P') { p->arm(0); std::string r = p->parse(cfg.doc); log += r[0]; canAdopt = true; continue; }
            else if (c == 'T') { p->arm(1); std::string r = p->parse(cfg.doc); log += r[0]; canAdopt = true; continue; }
            else if (c == 'A') { if (!canAdopt) { log += '-'; continue; } canAdopt = false; DOMDocument* d = p->dom->adoptDocument(); if (d) docs.push_back(d); }
            else if (c == 'X') { p->dom->resetDocumentPool(); canAdopt = false; }
            log += c;
        } catch (...) { log += '!'; }
    }
    delete p;
    for (size_t i = 0; i < docs.size(); i++) docs[i]->release();
    delete gp;
    outLine("r " + id + " domlife " + life + " " + log);
    checkpoint(id + ".life", ids);
    outLine("end " + id);
}

// "poollife": a grammar pool shared by several parsers: load grammars, lock, parse with cached grammars, clear
static void doPoolLife(const std::string& id, const KV& kv) {
    Cfg cfg = readCfg(kv);
    cfg.pool = 1;
    std::string life = get(kv, "life", "LPD");
    std::vector<int> ids; ids.push_back(2); ids.push_back(3);
    outLine("begin " + id);
    XMLGrammarPool* gp = makePool(cfg);
    AnyParser* p = 0;
    std::string log;
    for (size_t i = 0; i < life.size(); i++) {
        char c = life[i];
        try {
            if (c == 'N') { if (!p) p = new AnyParser(cfg, mgr(2), gp); log += c; }
            else if (c == 'D') { delete p; p = 0; log += c; }
            // lockPool/unlockPool replace the pool's URI string pool; a parser created before keeps the old pointer (observed:
            // SIGSEGV in IGXMLScanner::updateNSMap).  Like clear(), they are only exercised while no parser refers to the pool.
            else if (c == 'K') { if (!p) { gp->lockPool(); log += c; } else log += '-'; }
            else if (c == 'U') { if (!p) { gp->unlockPool(); log += c; } else log += '-'; }
            // clear() while a parser that used the pool is alive leaves stale grammar pointers in that parser (observed:
            // SIGSEGV in IGXMLScanner::switchGrammar on its next parse); that is a grammar-caching issue outside C18, so the
            // pool is only cleared when no parser refers to it
            else if (c == 'Z') { if (!p) { gp->clear(); log += c; } else log += '-'; }
            else {
                if (!p) p = new AnyParser(cfg, mgr(2), gp);
                if (c == 'P') { p->arm(0); log += p->parse(cfg.doc)[0]; }
                else if (c == 'T') { p->arm(2); log += p->parse(cfg.doc)[0]; }
                else if (c == 'L') {   // preparse the first external resource as a grammar, cached in the pool
                    p->arm(0);
                    std::map<std::string, std::string>::iterator it = cfg.ext.begin();
                    if (it != cfg.ext.end()) {
                        bool xsd = it->first.size() > 4 && it->first.substr(it->first.size() - 4) == ".xsd";
                        MemBufInputSource src((const XMLByte*)it->second.data(), it->second.size(), it->first.c_str(), false, mgr(2));
                        Grammar* g = 0;
                        Grammar::GrammarType gt = xsd ? Grammar::SchemaGrammarType : Grammar::DTDGrammarType;
                        if (p->sax) g = p->sax->loadGrammar(src, gt, true);
                        else if (p->sax2) g = p->sax2->loadGrammar(src, gt, true);
                        else if (p->dom) g = p->dom->loadGrammar(src, gt, true);
                        log += g ? 'L' : 'l';
                    } else log += '.';
                }
            }
        } catch (...) { log += '!'; }
    }
    delete p;
    delete gp;
    outLine("r " + id + " poollife " + life + " " + log);
    checkpoint(id + ".pool", ids);
    outLine("end " + id);
}

// ------------------------------------------------------------------------------------------------
// XMemory header correspondence:  xmem ops=n2.40,n3.7,d0,g4,N16,d1,...
//   n<m>.<size>  operator new(size, manager m)      N<size>  operator new(size)  (current global manager)
//   d<i>         operator delete of the i-th object  D<i>.<m> operator delete(p, manager m)  (placement form)
// prints per op the manager that was called, the request it received and the payload offset
// ------------------------------------------------------------------------------------------------
struct Probe : public LedgerMM {
    std::string last;
    Probe(int i) : LedgerMM(i) {}
};
static void doXmem(const std::string& id, const KV& kv) {
    std::string ops = get(kv, "ops", "");
    outLine("begin " + id);
    std::vector<void*> objs;
    std::vector<size_t> sizes;
    std::vector<int> used;
    size_t pos = 0;
    std::string line = "x " + id;
    while (pos < ops.size()) {
        size_t comma = ops.find(',', pos);
        if (comma == std::string::npos) comma = ops.size();
        std::string op = ops.substr(pos, comma - pos);
        pos = comma + 1;
        if (op.empty()) continue;
        char c = op[0];
        if (c == 'n' || c == 'N') {
            int m = 1; size_t size;
            if (c == 'n') { size_t dot = op.find('.'); m = atoi(op.substr(1, dot - 1).c_str()); size = strtoul(op.c_str() + dot + 1, 0, 10); }
            else size = strtoul(op.c_str() + 1, 0, 10);
            LedgerMM* mm = (c == 'n') ? mgr(m) : gGlobal;
            bool ko = mm->keepOrder; mm->keepOrder = true; size_t before = mm->order.size();
            void* p = (c == 'n') ? XMemory::operator new(size, mm) : XMemory::operator new(size);
            std::string res = "?";
            if (mm->order.size() == before + 1) {
                void* blk = mm->order.back().first;
                res = "m" + std::to_string(mm->id) + ":" + std::to_string(mm->order.back().second) + "+" +
                      std::to_string((long)((char*)p - (char*)blk));
                // the payload must be usable: fill it, the header must survive (checked at delete through the manager called)
                memset(p, 0xA5, size);
            }
            mm->keepOrder = ko; if (!ko) mm->order.clear();
            objs.push_back(p); sizes.push_back(size);
            for (std::map<int, LedgerMM*>::iterator it = gMgrs.begin(); it != gMgrs.end(); ++it) if (std::find(used.begin(), used.end(), it->first) == used.end() && it->first != 1) used.push_back(it->first);
            line += " " + res;
        } else if (c == 'd' || c == 'D') {
            size_t i = strtoul(op.c_str() + 1, 0, 10);
            if (i < objs.size() && objs[i]) {
                std::map<int, unsigned long> before;
                for (std::map<int, LedgerMM*>::iterator it = gMgrs.begin(); it != gMgrs.end(); ++it) before[it->first] = it->second->nFree + it->second->nBad;
                if (c == 'd') XMemory::operator delete(objs[i]);
                else { size_t dot = op.find('.'); int m = atoi(op.c_str() + dot + 1); XMemory::operator delete(objs[i], (MemoryManager*)mgr(m)); }
                std::string res = "none";
                for (std::map<int, LedgerMM*>::iterator it = gMgrs.begin(); it != gMgrs.end(); ++it)
                    if (it->second->nFree + it->second->nBad != before[it->first]) res = "m" + std::to_string(it->first);
                objs[i] = 0;
                line += " free:" + res;
            } else line += " free:skip";
        }
    }
    outLine(line);
    std::vector<int> ids;
    for (size_t i = 0; i < used.size(); i++) ids.push_back(used[i]);
    // objects not deleted by the request are deleted now so that the trace is complete
    for (size_t i = 0; i < objs.size(); i++) if (objs[i]) XMemory::operator delete(objs[i]);
    checkpoint(id + ".xmem", ids);
    outLine("end " + id);
}

// ------------------------------------------------------------------------------------------------
// DOM arena correspondence:  arena ops=a24,a300,s4096,a256,...   (a = allocate(n), s = setMemoryAllocationBlockSize(n))
// for every allocate prints  <block index>+<offset>:<aligned amount as seen by distance to block end>  or OUT
// block index = position of the block among the blocks the document requested from its manager (after the
// document object itself), so that model and implementation can be compared without addresses
// ------------------------------------------------------------------------------------------------
static void doArena(const std::string& id, const KV& kv) {
    std::string ops = get(kv, "ops", "");
    outLine("begin " + id);
    LedgerMM* mm = mgr(2);
    mm->keepOrder = true; mm->order.clear();
    DOMDocument* doc = DOMImplementationRegistry::getDOMImplementation(XMLUni::fgZeroLenString)->createDocument(mm);
    DOMDocumentImpl* di = (DOMDocumentImpl*)doc;
    size_t skip = mm->order.size();     // blocks requested by the constructor (document object, pools, ...)
    std::string pre = "x " + id + " ctor";
    for (size_t i = 0; i < skip; i++) pre += " " + std::to_string(mm->order[i].second);
    // what the constructor already took from the arena: ask for the state through a zero-cost observation
    outLine(pre);
    std::string line = "x " + id + " ops";
    size_t pos = 0;
    while (pos < ops.size()) {
        size_t comma = ops.find(',', pos);
        if (comma == std::string::npos) comma = ops.size();
        std::string op = ops.substr(pos, comma - pos);
        pos = comma + 1;
        if (op.empty()) continue;
        size_t n = strtoul(op.c_str() + 1, 0, 10);
        if (op[0] == 's') { di->setMemoryAllocationBlockSize(n); line += " s"; continue; }
        size_t nb = mm->order.size();
        char* p = (char*)di->allocate(n);
        std::string res;
        if (mm->order.size() > nb) res += "new" + std::to_string(mm->order.back().second) + ":";
        // locate the region
        long found = -1; long off = 0; bool inside = false;
        size_t amount = XMLPlatformUtils::alignPointerForNewBlockAllocation(n);
        for (size_t i = 0; i < mm->order.size(); i++) {
            char* b = (char*)mm->order[i].first;
            if (mm->live.find(b) == mm->live.end()) continue;
            if (p >= b && p < b + mm->order[i].second) { found = (long)i; off = p - b; inside = (size_t)off + amount <= mm->order[i].second; }
        }
        if (found < 0) {
            // not inside any live block: report relative to the block whose base is the closest below
            long best = -1;
            for (size_t i = 0; i < mm->order.size(); i++) {
                char* b = (char*)mm->order[i].first;
                if (mm->live.find(b) == mm->live.end()) continue;
                if (p >= b && (best < 0 || b > (char*)mm->order[best].first)) best = (long)i;
            }
            if (best >= 0) { found = best; off = p - (char*)mm->order[best].first; }
        }
        if (amount == 0 && mm->order.size() == nb) res += "z";      // zero-byte request served without a block
        else res += std::to_string(found - (long)skip) + "+" + std::to_string(off) + (inside ? "" : ":OUT");
        line += " " + res;
    }
    outLine(line);
    size_t nblocks = mm->order.size();
    doc->release();
    mm->keepOrder = false; mm->order.clear();
    std::vector<int> ids; ids.push_back(2);
    checkpoint(id + ".arena", ids);
    outLine("end " + id + " blocks=" + std::to_string(nblocks));
}

// ------------------------------------------------------------------------------------------------
// sessions:  init [g=1|0] [dom=<initial>,<max>,<maxsub>] [user=<id>]    /   term    /  state
// ------------------------------------------------------------------------------------------------
static int gDepth = 0;
static std::string mgrName() {
    MemoryManager* m = XMLPlatformUtils::fgMemoryManager;
    if (!m) return "none";
    for (std::map<int, LedgerMM*>::iterator it = gMgrs.begin(); it != gMgrs.end(); ++it) if (it->second == m) return "u" + std::to_string(it->first);
    return "own";
}
static void printState(const std::string& id) {
    outLine("st " + id + " live=" + std::string(XMLPlatformUtils::fgTransService ? "1" : "0") + " mgr=" + mgrName() +
            " loc=" + (XMLMsgLoader::getLocale() ? "1" : "0") + " nls=" + (XMLMsgLoader::getNLSHome() ? "1" : "0"));
}
// an application panic handler (never expected to be called)
class HarnessPanic : public PanicHandler {
public:
    void panic(const PanicHandler::PanicReasons reason) { outLine("panic " + std::to_string((int)reason)); flushOut(); abort(); }
};
static HarnessPanic gPanic;
static void doInit(const std::string& id, const KV& kv) {
    int user = geti(kv, "user", 1);
    MemoryManager* m = user ? mgr(user) : 0;
    if (user == 1) gGlobal = mgr(1);
    std::string dom = get(kv, "dom", "");
    // every argument of Initialize varies: loc=<string>|0 (default en_US), nls=<string>|0 (default 0), ph=1 (application panic handler)
    std::string loc = get(kv, "loc", XMLUni::fgXercescDefaultLocale);
    std::string nls = get(kv, "nls", "0");
    const char* locp = loc == "0" ? 0 : loc.c_str();
    const char* nlsp = nls == "0" ? 0 : nls.c_str();
    PanicHandler* ph = geti(kv, "ph", 0) ? &gPanic : 0;
    if (!dom.empty()) {
        size_t a = 0, b = 0, c = 0;
        sscanf(dom.c_str(), "%zu,%zu,%zu", &a, &b, &c);
        XMLPlatformUtils::Initialize(a, b, c, locp, nlsp, ph, m);
    } else XMLPlatformUtils::Initialize(locp, nlsp, ph, m);
    gDepth++;
    if (XMLPlatformUtils::fgMemoryManager && mgrName() != "own") gGlobal = (LedgerMM*)XMLPlatformUtils::fgMemoryManager;
    printState(id);
}
static void doTerm(const std::string& id) {
    XMLPlatformUtils::Terminate();
    if (gDepth > 0) gDepth--;
    printState(id);
    if (!XMLPlatformUtils::fgMemoryManager) {
        // last Terminate returned: every user manager that served as global manager must be clean
        std::string s = "term " + id;
        size_t own = 0;
        for (std::map<int, LedgerMM*>::iterator it = gMgrs.begin(); it != gMgrs.end(); ++it) { own += it->second->abandon(); }
        outLine(s);
        outLine("own " + id + " " + std::to_string(own));
        gGlobal = 0;
    }
}

// "progreuse": parseFirst + j x parseNext, NO parseReset, then a complete parse of doc2 on the same parser; the result
// must equal that of a fresh parser (printed by the same request as "fresh").  SAXParser.hpp documents that "the next
// parse operation will cause these open files and such to be closed".
static void doProgReuse(const std::string& id, const KV& kv) {
    Cfg cfg = readCfg(kv);
    long j = geti(kv, "j", 1);
    std::string doc2 = unhex(get(kv, "doc2", "-"));
    if (doc2.empty()) doc2 = cfg.doc;
    outLine("begin " + id);
    std::string fresh, reused;
    {
        AnyParser p(cfg, mgr(2), 0);
        p.arm(0);
        fresh = p.parse(doc2);
        fresh += " cb=" + std::to_string(p.ctl.count) + " d=" + hex64(p.ctl.digest);
    }
    {
        AnyParser p(cfg, mgr(2), 0);
        p.arm(0);
        long st = 0;
        std::string r = runProgressive(p, cfg.doc, j, 1, st);
        p.arm(0);
        reused = p.parse(doc2);
        reused += " cb=" + std::to_string(p.ctl.count) + " d=" + hex64(p.ctl.digest);
        outLine("r " + id + " progreuse-first " + r + " steps=" + std::to_string(st));
    }
    outLine("r " + id + " progreuse " + std::string(fresh == reused ? "same" : "DIFFERENT") + " fresh=" + fresh + " reused=" + reused);
    std::vector<int> ids; ids.push_back(2);
    checkpoint(id + ".progreuse", ids);
    outLine("end " + id);
}

// "misc": other objects that take a MemoryManager: serializer, XPath, regular expressions, XSValue, URIs, Base64,
// transcoding helpers, XSModel of a grammar pool, DOM editing.  strs = hex strings separated by ',' used as inputs.
static void doMisc(const std::string& id, const KV& kv) {
    Cfg cfg = readCfg(kv);
    std::string ops = get(kv, "ops", "SXRUTVBN");
    std::vector<std::string> strs;
    {
        std::string all = get(kv, "strs", "");
        size_t pos = 0;
        while (pos < all.size()) {
            size_t comma = all.find(',', pos);
            if (comma == std::string::npos) comma = all.size();
            strs.push_back(unhex(all.substr(pos, comma - pos)));
            pos = comma + 1;
        }
        if (strs.empty()) strs.push_back("a+b*");
    }
    LedgerMM* mm = mgr(2);
    outLine("begin " + id);
    std::string log;
    for (size_t i = 0; i < ops.size(); i++) {
        char c = ops[i];
        const std::string& sarg = strs[i % strs.size()];
        try {
            if (c == 'S' || c == 'X' || c == 'N') {
                cfg.api = "dom";
                AnyParser p(cfg, mm, 0);
                p.arm(0);
                std::string r = p.parse(cfg.doc);
                DOMDocument* doc = p.dom->getDocument();
                if (!doc) { log += '0'; continue; }
                if (c == 'S') {
                    static const XMLCh lsFeat[] = { 'L', 'S', 0 };
                    DOMImplementationLS* impl = (DOMImplementationLS*)DOMImplementationRegistry::getDOMImplementation(lsFeat);
                    DOMLSSerializer* ser = impl->createLSSerializer(mm);
                    ser->getDomConfig()->setParameter(XMLUni::fgDOMWRTFormatPrettyPrint, (i % 2) == 0);
                    XMLCh* out = ser->writeToString(doc, mm);
                    if (out) XMLString::release(&out, mm);
                    DOMLSOutput* lo = impl->createLSOutput(mm);
                    MemBufFormatTarget* tgt = new (mm) MemBufFormatTarget(64, mm);
                    lo->setByteStream(tgt);
                    XMLCh* enc = XMLString::transcode(i % 3 ? "UTF-16" : "ISO-8859-1", mm);
                    lo->setEncoding(enc);
                    XMLString::release(&enc, mm);
                    try { ser->write(doc, lo); } catch (...) { log += 'w'; }
                    lo->release();
                    delete tgt;
                    ser->release();
                    log += 'S';
                } else if (c == 'X') {
                    XMLCh* ex = XMLString::transcode(sarg.c_str(), mm);
                    DOMXPathResult* res = 0;
                    DOMElement* root = doc->getDocumentElement();
                    DOMXPathNSResolver* nsr = root ? doc->createNSResolver(root) : 0;
                    try {
                        res = doc->evaluate(ex, root ? (DOMNode*)root : (DOMNode*)doc, nsr, DOMXPathResult::ORDERED_NODE_SNAPSHOT_TYPE, 0);
                        if (res) { log += 'X'; log += std::to_string(res->getSnapshotLength()); res->release(); }
                    } catch (const DOMXPathException&) { log += 'x'; } catch (const DOMException&) { log += 'x'; }
                    if (nsr) nsr->release();     // the resolver owns a prefix map outside the document heap
                    XMLString::release(&ex, mm);
                } else {
                    DOMElement* root = doc->getDocumentElement();
                    if (root) {
                        DOMNode* cl = root->cloneNode(true);
                        root->appendChild(cl);
                        XMLCh* nm = XMLString::transcode("renamed", mm);
                        try { doc->renameNode(cl, 0, nm); } catch (const DOMException&) { log += 'n'; }
                        XMLString::release(&nm, mm);
                        root->normalize();
                        if (root->getFirstChild()) { DOMNode* rm = root->removeChild(root->getFirstChild()); rm->release(); }
                        XMLCh* big = (XMLCh*)mm->allocate(3000 * sizeof(XMLCh));
                        for (int k = 0; k < 2999; k++) big[k] = 'y'; big[2999] = 0;
                        root->setAttribute(big, big);
                        root->appendChild(doc->createTextNode(big));
                        mm->deallocate(big);
                        DOMDocument* d2 = (DOMDocument*)doc->cloneNode(true);
                        d2->release();
                    }
                    log += 'N';
                }
            } else if (c == 'R') {
                XMLCh* pat = XMLString::transcode(sarg.c_str(), mm);
                XMLCh* subj = XMLString::transcode("aab abb 2001-01-01 xyz", mm);
                try {
                    RegularExpression* re = new (mm) RegularExpression(pat, (i % 2) ? XMLUni::fgZeroLenString : (const XMLCh*)0, mm);
                    bool m = re->matches(subj, mm);
                    RefArrayVectorOf<XMLCh>* toks = 0;
                    try { toks = re->tokenize(subj, mm); } catch (const XMLException&) { log += 't'; }
                    delete toks;
                    XMLCh* rep = 0;
                    try { rep = re->replace(subj, pat, mm); } catch (const XMLException&) { log += 'p'; }
                    if (rep) XMLString::release(&rep, mm);
                    delete re;
                    log += m ? 'R' : 'r';
                } catch (const XMLException&) { log += 'e'; }
                XMLString::release(&pat, mm);
                XMLString::release(&subj, mm);
            } else if (c == 'U') {
                XMLCh* rel = XMLString::transcode(sarg.c_str(), mm);
                XMLCh* base = XMLString::transcode("http://example.org/a/b/c?q#f", mm);
                try {
                    XMLUri* b = new (mm) XMLUri(base, mm);
                    try { XMLUri* u = new (mm) XMLUri(b, rel, mm); delete u; log += 'U'; } catch (const XMLException&) { log += 'u'; }
                    delete b;
                    try { XMLURL* url = new (mm) XMLURL(base, rel, mm); delete url; } catch (const XMLException&) { log += 'l'; }
                } catch (const XMLException&) { log += 'e'; }
                XMLString::release(&rel, mm);
                XMLString::release(&base, mm);
            } else if (c == 'T') {
                XMLCh* w = XMLString::transcode(sarg.c_str(), mm);
                char* n = XMLString::transcode(w, mm);
                XMLString::release(&n, mm);
                {
                    TranscodeToStr t8(w, "UTF-8", mm);
                    TranscodeFromStr f8(t8.str(), t8.length(), "UTF-8", mm);
                    XMLCh* ad = f8.adopt();
                    XMLString::release(&ad, mm);
                    try { TranscodeToStr bad(w, "no-such-encoding", mm); } catch (const XMLException&) { log += 'b'; }
                }
                XMLCh* rep = XMLString::replicate(w, mm);
                XMLString::release(&rep, mm);
                XMLString::release(&w, mm);
                log += 'T';
            } else if (c == 'V') {
                XMLCh* w = XMLString::transcode(sarg.c_str(), mm);
                static const XSValue::DataType dts[] = { XSValue::dt_decimal, XSValue::dt_dateTime, XSValue::dt_base64Binary, XSValue::dt_hexBinary,
                                                         XSValue::dt_double, XSValue::dt_anyURI, XSValue::dt_QName, XSValue::dt_integer, XSValue::dt_duration };
                for (size_t k = 0; k < sizeof dts / sizeof dts[0]; k++) {
                    XSValue::Status st;
                    XSValue::validate(w, dts[k], st, XSValue::ver_10, mm);
                    XMLCh* can = XSValue::getCanonicalRepresentation(w, dts[k], st, XSValue::ver_10, true, mm);
                    if (can) XMLString::release(&can, mm);
                    XSValue* v = XSValue::getActualValue(w, dts[k], st, XSValue::ver_10, true, mm);
                    delete v;
                }
                XMLString::release(&w, mm);
                log += 'V';
            } else if (c == 'B') {
                XMLSize_t n1 = 0, n2 = 0;
                XMLByte* e = Base64::encode((const XMLByte*)sarg.data(), sarg.size(), &n1, mm);
                if (e) { XMLByte* d = Base64::decode(e, &n2, mm); if (d) mm->deallocate(d); mm->deallocate(e); }
                XMLByte* bad = Base64::decode((const XMLByte*)sarg.c_str(), &n2, mm);
                if (bad) mm->deallocate(bad);
                log += 'B';
            } else if (c == 'G') {
                LedgerMM* m3 = mgr(3);
                XMLGrammarPool* gp = new (m3) XMLGrammarPoolImpl(m3);
                {
                    Cfg c2 = cfg; c2.api = "sax2"; c2.sch = 1; c2.ns = 1;
                    AnyParser p(c2, mm, gp);
                    p.arm(0);
                    for (std::map<std::string, std::string>::iterator it = cfg.ext.begin(); it != cfg.ext.end(); ++it) {
                        bool xsd = it->first.size() > 4 && it->first.substr(it->first.size() - 4) == ".xsd";
                        MemBufInputSource src((const XMLByte*)it->second.data(), it->second.size(), it->first.c_str(), false, mm);
                        try { p.sax2->loadGrammar(src, xsd ? Grammar::SchemaGrammarType : Grammar::DTDGrammarType, true); } catch (...) { log += 'g'; }
                    }
                    bool changed = false;
                    XSModel* model = gp->getXSModel(changed);
                    if (model) {
                        XSNamedMap<XSObject>* els = model->getComponents(XSConstants::ELEMENT_DECLARATION);
                        if (els) for (XMLSize_t k = 0; k < els->getLength(); k++) {
                            XSElementDeclaration* ed = (XSElementDeclaration*)els->item(k);
                            if (ed->getTypeDefinition()) ed->getTypeDefinition()->getName();
                        }
                        model->getComponents(XSConstants::TYPE_DEFINITION);
                    }
                    p.parse(cfg.doc);
                }
                delete gp;
                log += 'G';
            }
        } catch (const XMLException& e) { log += '!';
        } catch (const DOMException& e) { log += '!';
        } catch (...) { log += '?'; }
    }
    outLine("r " + id + " misc " + ops + " " + log);
    std::vector<int> ids; ids.push_back(2); ids.push_back(3);
    checkpoint(id + ".misc", ids);
    outLine("end " + id);
}

// reference parse used to compare a re-initialised library with the first initialisation
static void doRef(const std::string& id, const KV& kv) {
    Cfg cfg = readCfg(kv);
    outLine("begin " + id);
    {
        AnyParser p(cfg, mgr(2), 0);
        p.arm(0);
        std::string r = p.parse(cfg.doc);
        outLine("r " + id + " ref " + r + " cb=" + std::to_string(p.ctl.count) + " e=" + std::to_string(p.ctl.errors) + " d=" + hex64(p.ctl.digest));
    }
    std::vector<int> ids; ids.push_back(2);
    checkpoint(id + ".ref", ids);
    outLine("end " + id);
}

// ------------------------------------------------------------------------------------------------
// scope guards and adopting containers (models: coq/theories/C18/Model18J.v, Model18V.v)
// ------------------------------------------------------------------------------------------------
// a manager that also writes the order of its events with allocation ordinals instead of addresses
struct SeqMM : public LedgerMM {
    std::map<void*, int> ord; int n; std::string pat; std::vector<size_t> sizes; bool rec;
    explicit SeqMM(int i) : LedgerMM(i), n(0), rec(false) {}
    void* allocate(XMLSize_t s) {
        void* p = LedgerMM::allocate(s);
        ord[p] = n; pat += " A" + std::to_string(n); n++;
        if (rec) sizes.push_back((size_t)s);
        return p;
    }
    void deallocate(void* p) {
        if (p) { std::map<void*, int>::iterator it = ord.find(p); pat += " F" + (it == ord.end() ? std::string("?") : std::to_string(it->second)); }
        LedgerMM::deallocate(p);
    }
    void restart() { ord.clear(); n = 0; pat.clear(); sizes.clear(); rec = false; }
};
static SeqMM* seqMgr(int id) {
    std::map<int, LedgerMM*>::iterator it = gMgrs.find(id);
    if (it != gMgrs.end()) return static_cast<SeqMM*>(it->second);
    SeqMM* m = new SeqMM(id);
    gMgrs[id] = m;
    return m;
}
struct JanThrow { int k; };
struct JObj : public XMemory { long v; JObj() : v(7) {} };
static std::vector<std::string> splitOps(const std::string& ops) {
    std::vector<std::string> r; size_t pos = 0;
    while (pos < ops.size()) { size_t c = ops.find(',', pos); if (c == std::string::npos) c = ops.size(); if (c > pos) r.push_back(ops.substr(pos, c - pos)); pos = c + 1; }
    return r;
}
// the function under test: a temporary under Janitor<T> (kind J) or ArrayJanitor<XMLCh> (kind A); ops c = a call that throws
// when the countdown reaches 0, r = reset(new block), l = release() to a later owner
static void janBody(char kind, SeqMM* mm, const std::vector<std::string>& ops, long k, std::vector<JObj*>& ownedJ, std::vector<XMLCh*>& ownedA) {
    if (kind == 'J') {
        Janitor<JObj> j(new (mm) JObj());
        for (size_t i = 0; i < ops.size(); i++) {
            if (ops[i] == "c") { if (k == 0) throw JanThrow{(int)i}; if (k > 0) k--; }
            else if (ops[i] == "r") j.reset(new (mm) JObj());
            else if (ops[i] == "l") { JObj* p = j.release(); if (p) ownedJ.push_back(p); }
        }
    } else {
        ArrayJanitor<XMLCh> j((XMLCh*)mm->allocate(24), mm);
        for (size_t i = 0; i < ops.size(); i++) {
            if (ops[i] == "c") { if (k == 0) throw JanThrow{(int)i}; if (k > 0) k--; }
            else if (ops[i] == "r") j.reset((XMLCh*)mm->allocate(24), mm);
            else if (ops[i] == "l") { XMLCh* p = j.release(); if (p) ownedA.push_back(p); }
        }
    }
}
static void doJan(const std::string& id, const KV& kv) {
    SeqMM* mm = seqMgr(40);
    mm->restart();
    outLine("begin " + id);
    std::vector<std::string> ops = splitOps(get(kv, "ops", ""));
    long k = geti(kv, "k", -1);
    char kind = get(kv, "kind", "J")[0];
    std::vector<JObj*> ownedJ; std::vector<XMLCh*> ownedA;
    std::string how = "normal";
    try { janBody(kind, mm, ops, k, ownedJ, ownedA); } catch (const JanThrow& t) { how = "threw@" + std::to_string(t.k); }
    // the later owners release what was handed to them (most recently adopted first, as the model does)
    for (size_t i = ownedJ.size(); i-- > 0;) delete ownedJ[i];
    for (size_t i = ownedA.size(); i-- > 0;) mm->deallocate(ownedA[i]);
    outLine("x " + id + " " + how + mm->pat);
    std::vector<int> ids; ids.push_back(40);
    checkpoint(id + ".jan", ids);
    outLine("end " + id);
}

// RefVectorOf<Elem>(max, adopt, manager): rvec adopt=1 max=2 ops=a,s1,i0,o2,r1,l,x   (elements are numbered 1,2,... as they are created)
static std::string gDelLog; static bool gLogDel = false;
struct VElem : public XMemory { int id; explicit VElem(int i) : id(i) {} ~VElem() { if (gLogDel) gDelLog += (gDelLog.empty() ? "" : ",") + std::to_string(id); } };
static void doRvec(const std::string& id, const KV& kv) {
    SeqMM* mm = seqMgr(41);       // the container's manager
    LedgerMM* em = mgr(42);       // the client's manager for the elements
    mm->restart();
    outLine("begin " + id);
    bool adopt = geti(kv, "adopt", 1) != 0;
    std::vector<std::string> ops = splitOps(get(kv, "ops", ""));
    std::map<int, VElem*> client; // elements that are the client's by the contract of the API: all of them when the vector does not
                                  // adopt; else those handed back by orphanElementAt and those refused with an exception
    gDelLog.clear(); gLogDel = true;
    int next = 1;
    std::string exc;
    {
        mm->rec = true;
        RefVectorOf<VElem>* v = new (mm) RefVectorOf<VElem>((XMLSize_t)geti(kv, "max", 2), adopt, mm);
        for (size_t i = 0; i < ops.size(); i++) {
            char c = ops[i][0];
            XMLSize_t ix = ops[i].size() > 1 ? (XMLSize_t)strtoul(ops[i].c_str() + 1, 0, 10) : 0;
            size_t before = mm->sizes.size();
            VElem* e = 0;
            try {
                if (c == 'a' || c == 's' || c == 'i') { e = new (em) VElem(next++); if (!adopt) client[e->id] = e; }
                if (c == 'a') v->addElement(e);
                else if (c == 's') v->setElementAt(e, ix);
                else if (c == 'i') v->insertElementAt(e, ix);
                else if (c == 'o') { VElem* r = v->orphanElementAt(ix); if (r) client[r->id] = r; }
                else if (c == 'r') { v->removeElementAt(ix); }
                else if (c == 'l') { v->removeLastElement(); }
                else if (c == 'x') { v->removeAllElements(); }
            } catch (const ArrayIndexOutOfBoundsException&) {
                // the exception object and its message were allocated through the container's manager: not element arrays
                // (every throwing call throws before it touches the array); a refused element stays the client's
                exc += "."; mm->sizes.resize(before);
                if (e) client[e->id] = e;
            }
        }
        delete v;
        mm->rec = false;
    }
    gLogDel = false;
    std::string del = gDelLog;
    // the client deletes exactly what is its own; what an adopting container failed to delete stays outstanding (monitor), what it
    // deleted although it had handed it back is deleted twice (monitor)
    std::string out;
    for (std::map<int, VElem*>::iterator it = client.begin(); it != client.end(); ++it) { out += (out.empty() ? "" : ",") + std::to_string(it->first); delete it->second; }
    std::string blk;
    // sizes[0] is the vector object itself (new (mm) RefVectorOf); the others are element arrays
    for (size_t i = 1; i < mm->sizes.size(); i++) blk += (blk.empty() ? "" : ",") + std::to_string(mm->sizes[i] / sizeof(void*));
    outLine("x " + id + " del=" + (del.empty() ? "-" : del) + " out=" + (out.empty() ? "-" : out) + " blk=" + (blk.empty() ? "-" : blk));
    std::vector<int> ids; ids.push_back(41); ids.push_back(42);
    checkpoint(id + ".rvec", ids);
    outLine("end " + id);
}

// guarded constructors (CleanupType cleanup(this, &T::cleanUp)) with arguments that make the body throw at different places
static void doCtor(const std::string& id, const KV& kv) {
    LedgerMM* mm = mgr(43);
    outLine("begin " + id);
    std::string cls = get(kv, "cls", "url");
    std::string arg = unhex(get(kv, "arg", ""));
    std::string arg2 = unhex(get(kv, "arg2", ""));
    std::string res = "constructed";
    {
        XMLCh* w = XMLString::transcode(arg.c_str(), mm);
        XMLCh* w2 = XMLString::transcode(arg2.c_str(), mm);
        ArrayJanitor<XMLCh> j1(w, mm), j2(w2, mm);
        try {
            if (cls == "url") { XMLURL* u = new (mm) XMLURL(w, mm); delete u; }
            else if (cls == "urlrel") { XMLURL* u = new (mm) XMLURL(w2, w, mm); delete u; }
            else if (cls == "urlbase") { XMLURL b(w2, mm); XMLURL* u = new (mm) XMLURL(b, w); delete u; }
            else if (cls == "urlset") { XMLURL* u = new (mm) XMLURL(mm); bool ok = u->setURL(w2, w, *u); res = ok ? "constructed" : "rejected"; delete u; }
            else if (cls == "uri") { XMLUri* u = new (mm) XMLUri(w, mm); delete u; }
            else if (cls == "urirel") { XMLUri b(w2, mm); XMLUri* u = new (mm) XMLUri(&b, w, mm); delete u; }
            else if (cls == "regex") { RegularExpression* r = new (mm) RegularExpression(w, w2, mm); delete r; }
            else if (cls == "bigdec") { XMLBigDecimal* d = new (mm) XMLBigDecimal(w, mm); delete d; }
            else if (cls == "tok") { XMLStringTokenizer* t = new (mm) XMLStringTokenizer(w, w2, mm); while (t->hasMoreTokens()) t->nextToken(); delete t; }
            else if (cls == "qname") { QName* q = new (mm) QName(w, 3, mm); q->setName(w2, 4); delete q; }
            else res = "bad-class";
        } catch (const MalformedURLException&) { res = "exc:MalformedURL";
        } catch (const XMLException& e) { res = "exc:" + narrow(e.getType());
        } catch (const OutOfMemoryException&) { res = "exc:OOM";
        } catch (...) { res = "exc:other"; }
    }
    outLine("r " + id + " ctor " + cls + " " + res);
    std::vector<int> ids; ids.push_back(43);
    checkpoint(id + ".ctor", ids);
    outLine("end " + id);
}

// a crash inside the library (typically the second destructor run of a doubly deleted object): print where, flush, leave
static std::string symStack(int skip) {
    void* fr[32];
    int n = backtrace(fr, 32);
    std::string s;
    int shown = 0;
    for (int i = skip; i < n && shown < 12; i++) {
        Dl_info info;
        if (dladdr(fr[i], &info) && info.dli_sname) {
            int st = 0;
            char* dm = abi::__cxa_demangle(info.dli_sname, 0, 0, &st);
            std::string nm = (st == 0 && dm) ? dm : info.dli_sname;
            free(dm);
            size_t par = nm.find('(');
            if (par != std::string::npos) nm = nm.substr(0, par);
            for (size_t k = 0; k < nm.size(); k++) if (nm[k] == ' ') nm[k] = '_';
            s += " <" + nm;
            shown++;
        }
    }
    return s;
}
static std::string symOf(void* a) {
    Dl_info info;
    if (a && dladdr(a, &info) && info.dli_sname) {
        int st = 0;
        char* dm = abi::__cxa_demangle(info.dli_sname, 0, 0, &st);
        std::string nm = (st == 0 && dm) ? dm : info.dli_sname;
        free(dm);
        size_t par = nm.find('(');
        if (par != std::string::npos) nm = nm.substr(0, par);
        for (size_t k = 0; k < nm.size(); k++) if (nm[k] == ' ') nm[k] = '_';
        return nm;
    }
    return "";
}
static void onCrash(int sig, siginfo_t*, void* uctx) {
    signal(sig, SIG_DFL);
    std::string s = "bt crash-signal-" + std::to_string(sig);
#if defined(__x86_64__)
    // a call through a null / stale vtable slot leaves pc = 0: the caller is the return address on top of the stack; after that
    // scan the stack for further return addresses into named functions (imprecise but names the path of the second delete)
    ucontext_t* uc = (ucontext_t*)uctx;
    void* pc = (void*)uc->uc_mcontext.gregs[REG_RIP];
    void** sp = (void**)uc->uc_mcontext.gregs[REG_RSP];
    std::string nm = symOf(pc);
    if (!nm.empty()) s += " <" + nm;
    int shown = 0;
    std::string last;
    for (int i = 0; i < 400 && shown < 10; i++) {
        nm = symOf(sp[i]);
        if (!nm.empty() && nm != last && nm.find("xercesc") != std::string::npos) { s += " <" + nm; last = nm; shown++; }
    }
#else
    s += symStack(2);
#endif
    gOut += s + "\n";
    flushOut();
    fflush(stdout);
    _exit(128 + sig);
}

int main() {
    {
        static char altstack[1 << 16];
        stack_t ss; ss.ss_sp = altstack; ss.ss_size = sizeof altstack; ss.ss_flags = 0;
        sigaltstack(&ss, 0);
        struct sigaction sa; memset(&sa, 0, sizeof sa);
        sa.sa_sigaction = onCrash; sa.sa_flags = SA_SIGINFO | SA_ONSTACK;
        sigaction(SIGSEGV, &sa, 0); sigaction(SIGABRT, &sa, 0); sigaction(SIGBUS, &sa, 0);
    }
    std::string line;
    while (std::getline(std::cin, line)) {
        std::vector<std::string> a = splitWs(line);
        if (a.size() < 2) continue;
        KV kv = parseKV(a, 2);
        const std::string& op = a[0];
        const std::string& id = a[1];
        outLine("req " + id);      // names the request in flight should the library crash
        flushOut();
        bool needLib = !(op == "init" || op == "term" || op == "state" || op == "quiet");
        if (needLib && !XMLPlatformUtils::fgMemoryManager) { outLine("r " + id + " not-initialised"); continue; }
        try {
            if (op == "init") doInit(id, kv);
            else if (op == "term") doTerm(id);
            else if (op == "state") printState(id);
            else if (op == "case") doCase(id, kv);
            else if (op == "domlife") doDomLife(id, kv);
            else if (op == "poollife") doPoolLife(id, kv);
            else if (op == "xmem") doXmem(id, kv);
            else if (op == "arena") doArena(id, kv);
            else if (op == "ref") doRef(id, kv);
            else if (op == "progreuse") doProgReuse(id, kv);
            else if (op == "misc") doMisc(id, kv);
            else if (op == "domhist") doDomHist(id, kv);
            else if (op == "jan") doJan(id, kv);
            else if (op == "rvec") doRvec(id, kv);
            else if (op == "ctor") doCtor(id, kv);
            else outLine("r " + id + " bad-request");
            flushOut();
        } catch (const XMLException& e) { outLine("r " + id + " harness-exc:XMLException:" + narrow(e.getMessage()));
        } catch (const DOMException& e) { outLine("r " + id + " harness-exc:DOMException:" + std::to_string((int)e.code));
        } catch (const SAXException& e) { outLine("r " + id + " harness-exc:SAXException:" + narrow(e.getMessage()));
        } catch (const HarnessAbort&) { outLine("r " + id + " harness-exc:HarnessAbort");
        } catch (...) { outLine("r " + id + " harness-exc:unknown"); }
    }
    flushOut();
    return 0;
}
