// xh_C11: drives the real regular-expression engine (RegularExpression, RangeToken, xs:pattern facet) with the same
// line protocol as bin/xm_C11 (extracted model).
//
//   re    <opts> <pat> <strs>    one compiled RegularExpression(pat, opts), matches(s) for each s in order
//   re1   <opts> <pat> <strs>    a fresh RegularExpression per string
//   reil  <opts> <pat> <strs>    one compiled expression; strings are matched forwards, backwards and forwards again,
//                                interleaved with a decoy string; prints the forward answers and whether all rounds agreed
//   xsd   <pat> <strs>           xs:pattern facet on an xs:string restriction; validity of <r>s</r> for each s
//   rng   <op> <A> <B>           range algebra through RangeToken's internal API
//   prep  <opts> <pat>           what RegularExpression::prepare computed: fMinLength and the ranges of fFirstChar
//                                ("-" = no head-character set)   -> ok <minlen> <ranges as hex6 pairs | - | e>
// <pat>, every string: groups of 6 hex digits (code points), "-" = empty.  <strs>: comma separated, "." = none.
// <A>,<B>: an optional leading 'n' (NRANGE token) then groups of 6 hex digits, pairs (lo hi), added with addRange in order.
#include "xh_common.hpp"
#define private public
#include <xercesc/util/regx/RangeToken.hpp>
#undef private
#include <xercesc/util/regx/RegularExpression.hpp>
#include <xercesc/util/regx/Match.hpp>
#include <xercesc/util/RefArrayVectorOf.hpp>
#include <xercesc/util/regx/TokenFactory.hpp>
#include <xercesc/util/regx/RegxDefs.hpp>
#include <xercesc/util/regx/XMLUniCharacter.hpp>
#include <xercesc/util/ParseException.hpp>
#include <xercesc/framework/XMLErrorCodes.hpp>
#include <xercesc/util/RuntimeException.hpp>
#include <xercesc/util/IllegalArgumentException.hpp>
#include <xercesc/parsers/XercesDOMParser.hpp>
#include <xercesc/framework/MemBufInputSource.hpp>
#include <xercesc/sax/ErrorHandler.hpp>
#include <xercesc/sax/SAXParseException.hpp>
#include <xercesc/validators/common/Grammar.hpp>
#include <memory>
#include <csignal>
#include <csetjmp>
#include <cstdlib>

using namespace xh;

typedef std::vector<XMLCh> U16;

static U16 toU16(const std::vector<uint32_t>& cps) {
    U16 out;
    for (uint32_t c : cps) {
        if (c >= 0x10000) {
            c -= 0x10000;
            out.push_back((XMLCh)(0xD800 + (c >> 10)));
            out.push_back((XMLCh)(0xDC00 + (c & 0x3FF)));
        } else out.push_back((XMLCh)c);
    }
    out.push_back(0);
    return out;
}

static std::vector<std::string> splitComma(const std::string& s) {
    std::vector<std::string> v;
    if (s == ".") return v;
    size_t p = 0;
    while (true) {
        size_t q = s.find(',', p);
        if (q == std::string::npos) { v.push_back(s.substr(p)); break; }
        v.push_back(s.substr(p, q - p));
        p = q + 1;
    }
    return v;
}

static std::string excName(const XMLException& e) {
    return std::string("exc ") + narrow(e.getType());
}

// compile; returns 0 and sets err on failure
// fMinLength / fFirstChar are protected members
struct RePeek : public RegularExpression {
    RePeek(const XMLCh* p, const XMLCh* o) : RegularExpression(p, o) {}
    XMLSize_t minLen() const { return fMinLength; }
    RangeToken* firstChar() const { return fFirstChar; }
};

template <class RE> static RE* compileReT(const U16& pat, const U16& opts, std::string& err) {
    try {
        return new RE(pat.data(), opts.data());
    } catch (const ParseException&) {
        err = "parse-error";
    } catch (const XMLException& e) {
        err = excName(e);
    } catch (const OutOfMemoryException&) {
        err = "exc OutOfMemory";
    } catch (int code) {          // RegxParser::processNext throws a bare XMLErrs code for a broken surrogate pair
        err = "exc int";
    } catch (XMLErrs::Codes) {
        err = "exc XMLErrs";
    } catch (...) {
        err = "exc unknown";
    }
    return 0;
}
static RegularExpression* compileRe(const U16& pat, const U16& opts, std::string& err) {
    return compileReT<RegularExpression>(pat, opts, err);
}

// A runaway recursion of RegularExpression::match ends in a stack overflow (SIGSEGV).  The handler runs on an
// alternate stack and jumps back, so that the case is reported as 'C' and the remaining requests are still answered.
static sigjmp_buf gJmp;
static volatile sig_atomic_t gArmed = 0;
static void onSegv(int sig) {
    if (gArmed) { gArmed = 0; siglongjmp(gJmp, 1); }
    signal(sig, SIG_DFL);
    raise(sig);
}
static void installSegvHandler() {
    static char* alt = (char*)malloc(1 << 16);
    stack_t ss;
    ss.ss_sp = alt; ss.ss_size = 1 << 16; ss.ss_flags = 0;
    sigaltstack(&ss, 0);
    struct sigaction sa;
    sa.sa_handler = onSegv;
    sigemptyset(&sa.sa_mask);
    sa.sa_flags = SA_ONSTACK | SA_NODEFER;
    sigaction(SIGSEGV, &sa, 0);
}

static char matchOne(RegularExpression* re, const U16& s) {
    if (sigsetjmp(gJmp, 1) != 0) return 'C';
    gArmed = 1;
    try {
        bool r = re->matches(s.data());
        gArmed = 0;
        return r ? '1' : '0';
    } catch (const XMLException&) {
        return 'E';
    } catch (...) {
        return 'F';
    }
}

static std::string doRe(const std::string& mode, const std::string& opts, const std::string& pat, const std::string& strs) {
    std::vector<uint32_t> o;
    for (char c : opts) if (c != '-') o.push_back((unsigned char)c);
    U16 uopts = toU16(o), upat = toU16(parseHex(pat, 6));
    std::vector<U16> ss;
    for (auto& h : splitComma(strs)) ss.push_back(toU16(parseHex(h, 6)));
    std::string err;
    std::unique_ptr<RegularExpression> re(compileRe(upat, uopts, err));
    if (!re) return err;
    std::string bits;
    if (mode == "re") {
        for (auto& s : ss) bits += matchOne(re.get(), s);
    } else if (mode == "re1") {
        for (auto& s : ss) {
            std::string e2;
            std::unique_ptr<RegularExpression> r1(compileRe(upat, uopts, e2));
            bits += r1 ? matchOne(r1.get(), s) : 'P';
        }
    } else {   // reil
        U16 decoy = toU16(std::vector<uint32_t>{0x61, 0x62, 0x61, 0x62, 0x61});
        std::string fwd, bwd(ss.size(), '?'), again;
        for (auto& s : ss) { fwd += matchOne(re.get(), s); matchOne(re.get(), decoy); }
        for (size_t i = ss.size(); i > 0; i--) bwd[i - 1] = matchOne(re.get(), ss[i - 1]);
        for (auto& s : ss) { again += matchOne(re.get(), s); again.back() == matchOne(re.get(), s) ? (void)0 : (void)(again.back() = 'D'); }
        bits = fwd;
        if (fwd != bwd || fwd != again) return "ok " + (bits.empty() ? std::string("-") : bits) + " UNSTABLE " + bwd + " " + again;
    }
    return "ok " + (bits.empty() ? std::string("-") : bits);
}

// ---- xs:pattern facet --------------------------------------------------------------------------------------------
struct CountingHandler : public ErrorHandler {
    int errors = 0;
    void warning(const SAXParseException&) override {}
    void error(const SAXParseException&) override { errors++; }
    void fatalError(const SAXParseException&) override { errors += 1000; }
    void resetErrors() override { errors = 0; }
};

static std::string xmlEscape(const std::vector<uint32_t>& cps) {
    std::string out;
    char b[16];
    for (uint32_t c : cps) { snprintf(b, sizeof b, "&#x%X;", c); out += b; }
    return out;
}

struct XsdSession {
    XercesDOMParser parser;
    CountingHandler h;
    bool ok = false;
    std::string err;
    explicit XsdSession(const std::string& xsd) {
        parser.setErrorHandler(&h);
        parser.setDoNamespaces(true);
        parser.setDoSchema(true);
        parser.setValidationScheme(XercesDOMParser::Val_Always);
        parser.setLoadExternalDTD(false);
        parser.cacheGrammarFromParse(false);
        parser.useCachedGrammarInParse(true);
        MemBufInputSource xs((const XMLByte*)xsd.data(), xsd.size(), "c11.xsd");
        Grammar* g = 0;
        try {
            g = parser.loadGrammar(xs, Grammar::SchemaGrammarType, true);
        } catch (const XMLException& e) { err = excName(e); return; } catch (...) { err = "exc unknown"; return; }
        if (!g || h.errors) { err = "parse-error"; return; }
        ok = true;
    }
};

static std::string doXsd(const std::string& pat, const std::string& strs) {
    std::string xsd = "<xs:schema xmlns:xs='http://www.w3.org/2001/XMLSchema'><xs:element name='r'><xs:simpleType>"
                      "<xs:restriction base='xs:string'><xs:pattern value='" + xmlEscape(parseHex(pat, 6)) +
                      "'/></xs:restriction></xs:simpleType></xs:element></xs:schema>";
    XsdSession* ses = new XsdSession(xsd);
    if (!ses->ok) { std::string e = ses->err; delete ses; return e; }
    std::string bits;
    for (auto& hx : splitComma(strs)) {
        std::string doc = "<r>" + xmlEscape(parseHex(hx, 6)) + "</r>";
        MemBufInputSource in((const XMLByte*)doc.data(), doc.size(), "c11.xml");
        if (sigsetjmp(gJmp, 1) != 0) {
            // stack overflow inside the validating parse: the parser object is unusable, leak it and start afresh
            bits += 'C';
            ses = new XsdSession(xsd);
            continue;
        }
        ses->h.errors = 0;
        gArmed = 1;
        try {
            ses->parser.parse(in);
            gArmed = 0;
            bits += ses->h.errors == 0 ? '1' : (ses->h.errors >= 1000 ? 'W' : '0');
        } catch (const XMLException&) { gArmed = 0; bits += 'E'; } catch (...) { gArmed = 0; bits += 'F'; }
    }
    delete ses;
    return "ok " + (bits.empty() ? std::string("-") : bits);
}

// ---- range algebra -----------------------------------------------------------------------------------------------
static RangeToken* buildRange(TokenFactory& tf, const std::string& spec) {
    bool neg = !spec.empty() && spec[0] == 'n';
    std::string h = neg ? spec.substr(1) : spec;
    if (h.empty()) h = "-";
    RangeToken* t = tf.createRange(neg);
    std::vector<uint32_t> v = parseHex(h, 6);
    for (size_t i = 0; i + 1 < v.size(); i += 2) t->addRange((XMLInt32)v[i], (XMLInt32)v[i + 1]);
    return t;
}

static std::string dumpRange(RangeToken* t) {
    std::string r;
    if (t->fRanges && t->fElemCount > t->fMaxCount) return "OVERRUN";
    r += std::to_string(t->fRanges ? t->fMaxCount : 0) + " ";
    std::vector<uint32_t> v;
    if (t->fRanges) for (unsigned i = 0; i < t->fElemCount; i++) v.push_back((uint32_t)t->fRanges[i]);
    r += showHex(v.data(), v.size(), 6);
    return r;
}

static std::string doRng(const std::string& op, const std::string& A, const std::string& B) {
    TokenFactory tf;
    try {
        RangeToken* a = buildRange(tf, A);
        if (op == "add") return "ok " + dumpRange(a);
        if (op == "compact") { a->sortRanges(); a->compactRanges(); return "ok " + dumpRange(a); }
        if (op == "comp") {
            if (!a->fRanges) return "ok skip";       // complementRanges dereferences fRanges unconditionally
            RangeToken* c = RangeToken::complementRanges(a, &tf);
            return "ok " + dumpRange(c);
        }
        if (op == "match") {
            a->sortRanges(); a->compactRanges();
            std::string bits;
            for (uint32_t c : parseHex(B, 6)) bits += a->match((XMLInt32)c) ? '1' : '0';
            return "ok " + (bits.empty() ? std::string("-") : bits);
        }
        RangeToken* b = buildRange(tf, B);
        if (op == "merge") {
            a->mergeRanges(b);
            std::string r = "ok " + dumpRange(a);
            a->compactRanges();
            return r + " | " + dumpRange(a);
        }
        if (op == "sub") { a->subtractRanges(b); return "ok " + dumpRange(a); }
        if (op == "int") { a->intersectRanges(b); return "ok " + dumpRange(a); }
    } catch (const XMLException& e) {
        return excName(e);
    } catch (...) {
        return "exc unknown";
    }
    return "bad-request";
}

// ---- XPath-flavoured (non-schema) API: options i s m x F H, Match objects, windows, tokenize / replace ------------
//   xp <mode> <opts|-> <pats> <strs>      pats: comma separated patterns; strs entries: hex or hex:a:b (window, code-point indices)
//   mode b: matches(s[,a,b])                       -> bits
//        f: matches(s[,a,b], &fresh Match)         -> 1:s0-e0,s1-e1,..  |  0     (UTF-16 unit positions)
//        r: the same with ONE Match object reused for every pattern and subject of the request
//        i: one compiled expression, subjects forwards / backwards / forwards again (fresh Match each) -> as f, or UNSTABLE
//        t: tokenize(s), replace(s,"$0"), replace(s,"[$0|$1]") and their emulation from match positions
struct Subj { U16 s; size_t a, b; bool win; std::vector<uint32_t> cps; };

static std::vector<Subj> parseSubjects(const std::string& strs) {
    std::vector<Subj> out;
    for (auto& e : splitComma(strs)) {
        Subj x;
        size_t c1 = e.find(':');
        std::string h = c1 == std::string::npos ? e : e.substr(0, c1);
        x.cps = parseHex(h, 6);
        x.s = toU16(x.cps);
        x.win = c1 != std::string::npos;
        x.a = 0; x.b = x.s.size() - 1;
        if (x.win) {
            size_t c2 = e.find(':', c1 + 1);
            size_t ca = atoi(e.substr(c1 + 1, c2 - c1 - 1).c_str()), cb = atoi(e.substr(c2 + 1).c_str());
            size_t u = 0;
            for (size_t i = 0; i <= x.cps.size(); i++) {
                if (i == ca) x.a = u;
                if (i == cb) x.b = u;
                if (i < x.cps.size()) u += x.cps[i] >= 0x10000 ? 2 : 1;
            }
        }
        out.push_back(x);
    }
    return out;
}

static std::string showMatch(bool ok, Match& m) {
    if (!ok) return "0";
    std::string r = "1:";
    try {
        int n = m.getNoGroups();
        for (int g = 0; g < n; g++) {
            if (g) r += ",";
            r += std::to_string(m.getStartPos(g)) + "_" + std::to_string(m.getEndPos(g));
        }
    } catch (const XMLException&) { r += "E"; }
    return r;
}

static std::string matchWith(RegularExpression* re, const Subj& x, Match* m) {
    if (sigsetjmp(gJmp, 1) != 0) return "C";
    gArmed = 1;
    try {
        bool ok = m ? re->matches(x.s.data(), x.a, x.b, m) : re->matches(x.s.data(), x.a, x.b);
        gArmed = 0;
        if (!m) return ok ? "1" : "0";
        return showMatch(ok, *m);
    } catch (const XMLException&) { gArmed = 0; return "E"; } catch (...) { gArmed = 0; return "F"; }
}

static std::string hexOf(const XMLCh* p, size_t n) { return showHex(p, n, 4); }

static void subIn(const std::string& rep, const XMLCh* s, Match& m, U16& out) {
    for (size_t i = 0; i < rep.size(); i++) {
        if (rep[i] == '$') {
            int g = rep[++i] - '0';
            if (g < m.getNoGroups()) {
                int a = m.getStartPos(g), b = m.getEndPos(g);
                for (int k = a; k < b; k++) out.push_back(s[k]);
            }
        } else out.push_back((XMLCh)rep[i]);
    }
}

static std::string tokOne(RegularExpression* re, RegularExpression* plain, const Subj& x) {
    if (sigsetjmp(gJmp, 1) != 0) return "C";
    gArmed = 1;
    std::string out;
    try {
        size_t len = x.s.size() - 1;
        // emulation from match positions: leftmost match at or after p inside the window [p, len)
        std::vector<std::pair<int, int> > ms;
        std::vector<U16> emuTok;
        U16 emuRep;
        const std::string rep2 = "[$0|$1]";
        size_t p = 0, guard = 0;
        while (p <= len && guard++ < 4 * len + 8) {
            Match m;
            if (!plain->matches(x.s.data(), p, len, &m)) break;
            int a = m.getStartPos(0), b = m.getEndPos(0);
            emuTok.push_back(U16(x.s.begin() + p, x.s.begin() + a));
            for (int k = (int)p; k < a; k++) emuRep.push_back(x.s[k]);
            subIn(rep2, x.s.data(), m, emuRep);
            if (b == (int)p && a == (int)p) { p = len + 1; out = "Z"; break; }     // empty match: not comparable
            p = b;
        }
        if (out == "Z") { gArmed = 0; return "Z"; }
        if (p <= len) { emuTok.push_back(U16(x.s.begin() + p, x.s.begin() + len)); for (size_t k = p; k < len; k++) emuRep.push_back(x.s[k]); }
        RefArrayVectorOf<XMLCh>* toks = re->tokenize(x.s.data());
        out = "T";
        for (XMLSize_t i = 0; i < toks->size(); i++) out += (i ? "/" : "") + hexOf(toks->elementAt(i), XMLString::stringLen(toks->elementAt(i)));
        delete toks;
        out += "~E";
        for (size_t i = 0; i < emuTok.size(); i++) out += (i ? "/" : "") + hexOf(emuTok[i].data(), emuTok[i].size());
        U16 d0 = toU16(std::vector<uint32_t>{'$', '0'});
        XMLCh* r0 = re->replace(x.s.data(), d0.data());
        out += "~R" + hexOf(r0, XMLString::stringLen(r0)) + "~S" + hexOf(x.s.data(), len);
        XMLPlatformUtils::fgMemoryManager->deallocate(r0);
        std::vector<uint32_t> r2v(rep2.begin(), rep2.end());
        U16 d2 = toU16(r2v);
        XMLCh* r2 = re->replace(x.s.data(), d2.data());
        out += "~Q" + hexOf(r2, XMLString::stringLen(r2)) + "~P" + hexOf(emuRep.data(), emuRep.size());
        XMLPlatformUtils::fgMemoryManager->deallocate(r2);
        gArmed = 0;
        return out;
    } catch (const XMLException& e) { gArmed = 0; return "X" + narrow(e.getType()); } catch (...) { gArmed = 0; return "F"; }
}

static std::string doXp(const std::string& mode, const std::string& opts, const std::string& pats, const std::string& strs) {
    std::vector<uint32_t> o;
    for (char c : opts) if (c != '-') o.push_back((unsigned char)c);
    U16 uopts = toU16(o);
    std::vector<Subj> subj = parseSubjects(strs);
    Match shared;
    std::string out;
    bool firstPat = true;
    for (auto& ph : splitComma(pats)) {
        if (!firstPat) out += "|";
        firstPat = false;
        std::string err;
        std::unique_ptr<RegularExpression> re(compileRe(toU16(parseHex(ph, 6)), uopts, err));
        if (!re) { out += err; continue; }
        std::vector<std::string> res;
        std::unique_ptr<RegularExpression> plain;
        if (mode == "t") {
            // the emulation of tokenize/replace from match positions uses the expression without pre-filters (F, H)
            std::vector<uint32_t> o2(o); o2.push_back('F'); o2.push_back('H');
            std::string e2;
            plain.reset(compileRe(toU16(parseHex(ph, 6)), toU16(o2), e2));
            if (!plain) { out += e2; continue; }
        }
        if (mode == "i") {
            std::vector<std::string> fwd, bwd(subj.size()), again;
            for (auto& x : subj) { Match m; fwd.push_back(matchWith(re.get(), x, &m)); }
            for (size_t k = subj.size(); k > 0; k--) { Match m; bwd[k - 1] = matchWith(re.get(), subj[k - 1], &m); }
            for (auto& x : subj) { Match m; again.push_back(matchWith(re.get(), x, &m)); Match m2; matchWith(re.get(), x, &m2); }
            res = fwd;
            if (fwd != bwd || fwd != again) res.push_back("UNSTABLE");
        } else {
            for (auto& x : subj) {
                if (mode == "b") res.push_back(matchWith(re.get(), x, 0));
                else if (mode == "f") { Match m; res.push_back(matchWith(re.get(), x, &m)); }
                else if (mode == "r") res.push_back(matchWith(re.get(), x, &shared));
                else if (mode == "t") res.push_back(tokOne(re.get(), plain.get(), x));
            }
        }
        for (size_t k = 0; k < res.size(); k++) out += (k ? ";" : "") + res[k];
        if (res.empty()) out += "-";
    }
    return "ok " + out;
}

// cats: run-length encoding of XMLUniCharacter::getType over all 65536 code units:  start,end,category;...
static std::string doCats() {
    std::string out = "ok ";
    unsigned start = 0;
    unsigned short cur = XMLUniCharacter::getType((XMLCh)0);
    char b[48];
    for (unsigned c = 1; c <= 0x10000; c++) {
        unsigned short t = c < 0x10000 ? XMLUniCharacter::getType((XMLCh)c) : 0xFFFF;
        if (t != cur) {
            snprintf(b, sizeof b, "%X,%X,%u;", start, c - 1, (unsigned)cur);
            out += b;
            start = c; cur = t;
        }
    }
    return out;
}
// tok <keyword as hex6> <0|1>: the shared range token registered under a keyword (category / block / xml: names)
static std::string doTok(const std::string& nameHex, const std::string& comp) {
    U16 name = toU16(parseHex(nameHex, 6));
    RangeToken* t = 0;
    try { t = TokenFactory::staticGetRange(name.data(), comp == "1"); } catch (const XMLException& e) { return excName(e); }
    if (!t) return "none";
    return "ok " + std::string(t->getTokenType() == Token::T_NRANGE ? "n" : "r") + " " + dumpRange(t);
}

static std::string doNamed(const std::string& k) {
    const XMLCh* key = 0;
    bool comp = false;
    switch (k[0]) {
    case 'S': comp = true; case 's': key = fgXMLSpace; break;
    case 'D': comp = true; case 'd': key = fgUniDecimalDigit; break;
    case 'W': comp = true; case 'w': key = fgXMLWord; break;
    case 'C': comp = true; case 'c': key = fgXMLNameChar; break;
    case 'I': comp = true; case 'i': key = fgXMLInitialNameChar; break;
    default: return "bad-request";
    }
    RangeToken* t = TokenFactory::staticGetRange(key, comp);
    if (!t) return "none";
    return "ok " + std::string(t->fSorted ? "1" : "0") + (t->fCompacted ? "1 " : "0 ") + dumpRange(t);
}

// prep <opts> <pat>: the pre-filter data of a compiled expression (private members fMinLength, fFirstChar)
static std::string doPrep(const std::string& opts, const std::string& pat) {
    std::vector<uint32_t> o;
    for (char c : opts) if (c != '-') o.push_back((unsigned char)c);
    std::string err;
    std::unique_ptr<RePeek> re(compileReT<RePeek>(toU16(parseHex(pat, 6)), toU16(o), err));
    if (!re) return err;
    std::string r = "ok " + std::to_string((unsigned long)re->minLen()) + " ";
    RangeToken* fc = re->firstChar();
    if (!fc) return r + "-";
    if (!fc->fRanges || fc->fElemCount == 0) return r + "e";
    std::vector<uint32_t> v;
    for (unsigned i = 0; i < fc->fElemCount; i++) v.push_back((uint32_t)fc->fRanges[i]);
    return r + showHex(v.data(), v.size(), 6);
}

int main() {
    XMLPlatformUtils::Initialize();
    installSegvHandler();
    std::string line;
    while (std::getline(std::cin, line)) {
        std::vector<std::string> a = splitWs(line);
        std::string r = "bad-request";
        if (a.size() == 4 && (a[0] == "re" || a[0] == "re1" || a[0] == "reil")) r = doRe(a[0], a[1], a[2], a[3]);
        else if (a.size() == 3 && a[0] == "xsd") r = doXsd(a[1], a[2]);
        else if (a.size() == 5 && a[0] == "xp") r = doXp(a[1], a[2], a[3], a[4]);
        else if (a.size() == 1 && a[0] == "cats") r = doCats();
        else if (a.size() == 3 && a[0] == "tok") r = doTok(a[1], a[2]);
        else if (a.size() == 2 && a[0] == "named") r = doNamed(a[1]);
        else if (a.size() == 4 && a[0] == "rng") r = doRng(a[1], a[2], a[3]);
        else if (a.size() == 3 && a[0] == "prep") r = doPrep(a[1], a[2]);
        std::cout << r << "\n";
    }
    std::cout.flush();
    return 0;
}
