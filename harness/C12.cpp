// xh_C12: drives XMLFormatter and DOMLSSerializer of the real library with the line protocol of bin/xm_C12.
//
//   fmt <enc> <mode 0..3> <unrep 0 fail|1 charref|2 replace> <10|11> <hex16>
//        -> ok <hexbytes> | err <exception>
//   tab <mode 0..3> <10|11> <cp>           XMLFormatter::inEscapeList is private: observed through fmt
//   can <enc> <cp>                         -> ok 0|1       (fXCoder->canTranscodeTo)
//   doc <enc> <feats> <10|11> <tree...>    build the tree through the DOM API, serialise, re-parse, compare,
//        serialise again; answer: one canonical line (see docCase)
//   seq <step> | <step> ...                one DOMLSSerializer instance writes several documents (see seqCase)
//   fseq <enc> <unrep> <ver> (<mode> <hex16>)+  one XMLFormatter formats several buffers (see doFseq)
//   encsel <LSOutput.encoding|-> <inputEncoding|-> <xmlEncoding|-> <xmlVersion|-> <0 write | 1 writeToString>
//        document <r/> with these properties; answer: ok <version written> <encoding written> <hexbytes>
//        (names as hex16; the XML declaration of the output is the observation)
//   src <enc> <feats> <hexbytes>           same, but the first tree is parsed from the given document bytes
//
// feats: letters followed by 0/1: x xml-declaration, s split-cdata-sections, d discard-default-content, b BOM,
//        n namespaces (tree built with the NS methods and re-parsed with namespace processing), e entities,
//        z run DOMDocument::normalizeDocument() with "namespaces" on the built tree before serialising
// tree : D <nchild> node*            document
//        E <uri|-> <qname> <nattr> (<uri|-> <qname> <value>)* <nchild> node*
//        T <hex> | C <hex> (CDATA) | M <hex> (comment) | P <target> <data>
//        Y <name> <publicId|-> <systemId|->   DocumentType (createDocumentType) | R <name>  EntityReference
//        all strings are groups of 4 hex digits (UTF-16 units), "-" = empty / null
#include "xh_common.hpp"
#include <xercesc/framework/XMLFormatter.hpp>
#include <xercesc/framework/MemBufFormatTarget.hpp>
#include <xercesc/framework/MemBufInputSource.hpp>
#include <xercesc/util/TransService.hpp>
#include <xercesc/util/TranscodingException.hpp>
#include <xercesc/dom/DOM.hpp>
#include <xercesc/dom/impl/DOMDocumentImpl.hpp>
#include <xercesc/parsers/XercesDOMParser.hpp>
#include <xercesc/sax/ErrorHandler.hpp>
#include <xercesc/sax/SAXParseException.hpp>
#include <xercesc/sax/SAXException.hpp>
#include <csignal>
#include <unistd.h>
#include <map>

using namespace xh;

static const char* encName(const std::string& k) {
    if (k == "utf8") return "UTF-8";
    if (k == "latin1") return "ISO-8859-1";
    if (k == "ascii") return "US-ASCII";
    if (k == "win1252") return "WINDOWS-1252";
    if (k == "utf16") return "UTF-16";
    if (k == "utf16le") return "UTF-16LE";
    if (k == "utf16be") return "UTF-16BE";
    if (k == "ibm037") return "IBM037";
    if (k == "ibm1140") return "IBM1140";
    if (k == "ucs4") return "UCS-4";
    if (k == "koi8r") return "KOI8-R";          // ICU converters
    if (k == "sjis") return "Shift_JIS";
    return 0;
}

static std::vector<XMLCh> toStr(const std::string& hex) {
    std::vector<uint32_t> v = parseHex(hex, 4);
    std::vector<XMLCh> s(v.size() + 1, 0);
    for (size_t i = 0; i < v.size(); i++) s[i] = (XMLCh)v[i];
    return s;
}

static std::string excName(const XMLException& e) {
    if (e.getCode() == XMLExcepts::Trans_Unrepresentable) return "Trans_Unrepresentable";
    return exceptString(e);
}

// ---------------------------------------------------------------------------------------------------
static std::string doFmt(const std::vector<std::string>& a) {
    const char* enc = encName(a[1]);
    if (!enc) return "bad-request";
    int mode = atoi(a[2].c_str()), unrep = atoi(a[3].c_str());
    std::vector<XMLCh> s = toStr(a[5]);
    MemBufFormatTarget tgt;
    try {
        XMLFormatter f(enc, a[4] == "11" ? "1.1" : "1.0", &tgt, (XMLFormatter::EscapeFlags)mode,
                       (XMLFormatter::UnRepFlags)unrep);
        f.formatBuf(s.data(), s.size() - 1);
        return "ok " + showHex(tgt.getRawBuffer(), tgt.getLen(), 2);
    } catch (const XMLException& e) {
        return "err " + excName(e);
    }
}

// sweep <enc> <mode> <unrep> <10|11> <first> <count>: formatBuf of every one-unit string in the range, answers
// separated by ',' (bytes in hex, or !<exception>)
static std::string doSweep(const std::vector<std::string>& a) {
    const char* enc = encName(a[1]);
    if (!enc) return "bad-request";
    int mode = atoi(a[2].c_str()), unrep = atoi(a[3].c_str());
    unsigned first = (unsigned)strtoul(a[5].c_str(), 0, 10), count = (unsigned)strtoul(a[6].c_str(), 0, 10);
    std::string out = "ok ";
    for (unsigned c = first; c < first + count; c++) {
        XMLCh s[2] = { (XMLCh)c, 0 };
        MemBufFormatTarget tgt;
        if (c != first) out += ",";
        try {
            XMLFormatter f(enc, a[4] == "11" ? "1.1" : "1.0", &tgt, (XMLFormatter::EscapeFlags)mode,
                           (XMLFormatter::UnRepFlags)unrep);
            f.formatBuf(s, 1);
            out += showHex(tgt.getRawBuffer(), tgt.getLen(), 2);
        } catch (const XMLException& e) { out += "!" + excName(e); }
    }
    return out;
}

static std::string doCan(const std::vector<std::string>& a) {
    const char* enc = encName(a[1]);
    if (!enc) return "bad-request";
    XMLTransService::Codes rc;
    XMLTranscoder* t = XMLPlatformUtils::fgTransService->makeNewTranscoderFor(enc, rc, 1024);
    if (!t) return "err no-transcoder";
    bool r = t->canTranscodeTo((unsigned int)strtoul(a[2].c_str(), 0, 10));
    delete t;
    return r ? "ok 1" : "ok 0";
}

// ---------------------------------------------------------------------------------------------------
struct Feats { bool x = true, s = true, d = true, b = false, n = true, e = true, z = false, p = false; int l = 0; };
static Feats parseFeats(const std::string& f) {
    Feats r;
    for (size_t i = 0; i + 1 < f.size(); i += 2) {
        bool v = f[i + 1] == '1';
        switch (f[i]) { case 'x': r.x = v; break; case 's': r.s = v; break; case 'd': r.d = v; break;
                        case 'b': r.b = v; break; case 'n': r.n = v; break; case 'e': r.e = v; break; case 'z': r.z = v; break; case 'p': r.p = v; break; case 'l': r.l = f[i + 1] - '0'; break; }
    }
    return r;
}

struct SerErrs : public DOMErrorHandler {
    std::string log;
    bool handleError(const DOMError& e) override {
        log += (e.getSeverity() == DOMError::DOM_SEVERITY_WARNING ? "W" :
                e.getSeverity() == DOMError::DOM_SEVERITY_ERROR ? "E" : "F");
        return true;
    }
};
struct ParseErrs : public ErrorHandler {
    std::string first;
    void warning(const SAXParseException&) override {}
    void error(const SAXParseException& e) override { note("error", e); }
    void fatalError(const SAXParseException& e) override { note("fatal", e); }
    void resetErrors() override {}
    void note(const char* k, const SAXParseException& e) {
        if (first.empty()) { first = std::string(k) + ":"; for (char c : narrow(e.getMessage())) first += (c == ' ' ? '_' : c); }
    }
};

struct Builder {
    const std::vector<std::string>& t; size_t pos; DOMDocument* doc; bool ns; std::string err;
    Builder(const std::vector<std::string>& tt, size_t p, DOMDocument* d, bool n) : t(tt), pos(p), doc(d), ns(n) {}
    std::string next() { return pos < t.size() ? t[pos++] : std::string("-"); }
    DOMNode* node() {
        std::string k = next();
        if (k == "T") { auto s = toStr(next()); return doc->createTextNode(s.data()); }
        if (k == "C") { auto s = toStr(next()); return doc->createCDATASection(s.data()); }
        if (k == "M") { auto s = toStr(next()); return doc->createComment(s.data()); }
        if (k == "P") { auto a = toStr(next()); auto b = toStr(next()); return doc->createProcessingInstruction(a.data(), b.data()); }
        if (k == "Y") {     // Y <name> <publicId|-> <systemId|->  : DocumentType built through the API
            auto nm = toStr(next()); std::string p = next(), q = next(); auto pb = toStr(p), sy = toStr(q);
            return doc->createDocumentType(nm.data(), p == "-" ? 0 : pb.data(), q == "-" ? 0 : sy.data());
        }
        if (k == "R") { auto nm = toStr(next()); return doc->createEntityReference(nm.data()); }
        if (k == "E") {
            std::string u = next(); auto uri = toStr(u); auto qn = toStr(next());
            DOMElement* e = ns ? doc->createElementNS(u == "-" ? 0 : uri.data(), qn.data()) : doc->createElement(qn.data());
            int na = atoi(next().c_str());
            for (int i = 0; i < na; i++) {
                std::string au = next(); auto auri = toStr(au); auto aq = toStr(next()); auto av = toStr(next());
                if (ns) e->setAttributeNS(au == "-" ? 0 : auri.data(), aq.data(), av.data());
                else e->setAttribute(aq.data(), av.data());
            }
            int nc = atoi(next().c_str());
            for (int i = 0; i < nc; i++) { DOMNode* c = node(); if (c) e->appendChild(c); }
            return e;
        }
        err = "bad-tree-token:" + k;
        return 0;
    }
};

// canonical structural dump; merge=true joins adjacent Text/CDATA children into one character-data item
static void hexStr(std::string& o, const XMLCh* s) {
    if (!s) { o += "~"; return; }
    if (!*s) { o += "-"; return; }
    char b[8];
    for (; *s; ++s) { snprintf(b, sizeof b, "%04X", (unsigned)*s); o += b; }
}
static void dump(std::string& o, const DOMNode* n, bool merge, bool dropNs = false) {
    switch (n->getNodeType()) {
    case DOMNode::DOCUMENT_NODE: o += "D("; break;
    case DOMNode::ELEMENT_NODE: {
        o += "E["; hexStr(o, n->getNamespaceURI()); o += ","; hexStr(o, n->getNodeName()); o += "]{";
        DOMNamedNodeMap* am = n->getAttributes();
        std::map<std::string, std::string> as;
        for (XMLSize_t i = 0; i < am->getLength(); i++) {
            DOMNode* a = am->item(i); std::string k, v;
            hexStr(k, a->getNamespaceURI()); k += ","; hexStr(k, a->getNodeName()); hexStr(v, a->getNodeValue());
            if (dropNs) {
                const XMLCh* an = a->getNodeName();
                if (XMLString::equals(an, XMLUni::fgXMLNSString) || XMLString::startsWith(an, XMLUni::fgXMLNSColonString)) continue;
            }
            as[k] = v;
        }
        for (auto& kv : as) { o += kv.first + "=" + kv.second + ";"; }
        o += "}("; break; }
    case DOMNode::COMMENT_NODE: o += "M["; hexStr(o, n->getNodeValue()); o += "]"; return;
    case DOMNode::PROCESSING_INSTRUCTION_NODE: o += "P["; hexStr(o, n->getNodeName()); o += ","; hexStr(o, n->getNodeValue()); o += "]"; return;
    case DOMNode::DOCUMENT_TYPE_NODE: {
        const DOMDocumentType* dt = (const DOMDocumentType*)n;
        o += "Y["; hexStr(o, n->getNodeName()); o += ","; hexStr(o, dt->getPublicId()); o += ","; hexStr(o, dt->getSystemId());
        o += ","; hexStr(o, dt->getInternalSubset()); o += "]"; return; }
    case DOMNode::ENTITY_REFERENCE_NODE: o += "R["; hexStr(o, n->getNodeName()); o += "]"; return;
    default: o += "?"; return;
    }
    bool inText = false;
    for (DOMNode* c = n->getFirstChild(); c; c = c->getNextSibling()) {
        short t = c->getNodeType();
        if (t == DOMNode::TEXT_NODE || t == DOMNode::CDATA_SECTION_NODE) {
            if (merge) {
                const XMLCh* v = c->getNodeValue();
                if (v && *v) { if (!inText) { o += "X["; inText = true; } std::string h; hexStr(h, v); o += h; }
            } else { o += (t == DOMNode::TEXT_NODE ? "T[" : "C["); hexStr(o, c->getNodeValue()); o += "]"; }
            continue;
        }
        if (inText) { o += "]"; inText = false; }
        dump(o, c, merge, dropNs);
    }
    if (inText) o += "]";
    o += ")";
}

// "resolved" dump: every element/attribute as (namespaceURI, localName) -- prefixes and namespace declarations do
// not matter --, adjacent Text/CDATA merged
static const XMLCh* localOf(const DOMNode* n) { return n->getLocalName() ? n->getLocalName() : n->getNodeName(); }
static void dumpResolved(std::string& o, const DOMNode* n) {
    switch (n->getNodeType()) {
    case DOMNode::DOCUMENT_NODE: o += "D("; break;
    case DOMNode::ELEMENT_NODE: {
        o += "E["; hexStr(o, n->getNamespaceURI()); o += ","; hexStr(o, localOf(n)); o += "]{";
        DOMNamedNodeMap* am = n->getAttributes();
        std::map<std::string, std::string> as;
        for (XMLSize_t i = 0; i < am->getLength(); i++) {
            DOMNode* a = am->item(i); std::string k, v;
            const XMLCh* an = a->getNodeName();
            if (XMLString::equals(an, XMLUni::fgXMLNSString) || XMLString::startsWith(an, XMLUni::fgXMLNSColonString)) continue;
            const XMLCh* u = a->getNamespaceURI();
            hexStr(k, (u && *u) ? u : 0); k += ","; hexStr(k, localOf(a)); hexStr(v, a->getNodeValue());
            as[k] = v;
        }
        for (auto& kv : as) { o += kv.first + "=" + kv.second + ";"; }
        o += "}("; break; }
    case DOMNode::COMMENT_NODE: o += "M["; hexStr(o, n->getNodeValue()); o += "]"; return;
    case DOMNode::PROCESSING_INSTRUCTION_NODE: o += "P["; hexStr(o, n->getNodeName()); o += ","; hexStr(o, n->getNodeValue()); o += "]"; return;
    default: o += "?"; return;
    }
    bool inText = false;
    for (DOMNode* c = n->getFirstChild(); c; c = c->getNextSibling()) {
        short t = c->getNodeType();
        if (t == DOMNode::TEXT_NODE || t == DOMNode::CDATA_SECTION_NODE) {
            const XMLCh* v = c->getNodeValue();
            if (v && *v) { if (!inText) { o += "X["; inText = true; } std::string h; hexStr(h, v); o += h; }
            continue;
        }
        if (inText) { o += "]"; inText = false; }
        dumpResolved(o, c);
    }
    if (inText) o += "]";
    o += ")";
}

struct SerResult { std::string status, errs; std::vector<XMLByte> bytes; };
static SerResult serialise(DOMImplementationLS* impl, DOMNode* n, const char* enc, const Feats& f, DOMLSSerializer* reuse = 0) {
    SerResult r;
    DOMLSSerializer* ser = reuse ? reuse : impl->createLSSerializer();
    DOMLSOutput* out = impl->createLSOutput();
    MemBufFormatTarget tgt;
    SerErrs eh;
    try {
        DOMConfiguration* c = ser->getDomConfig();
        c->setParameter(XMLUni::fgDOMErrorHandler, &eh);
        c->setParameter(XMLUni::fgDOMXMLDeclaration, f.x);
        c->setParameter(XMLUni::fgDOMWRTSplitCdataSections, f.s);
        c->setParameter(XMLUni::fgDOMWRTDiscardDefaultContent, f.d);
        c->setParameter(XMLUni::fgDOMWRTBOM, f.b);
        c->setParameter(XMLUni::fgDOMWRTEntities, f.e);
        c->setParameter(XMLUni::fgDOMWRTFormatPrettyPrint, f.p);
        static const XMLCh crlf[] = { 13, 10, 0 }, cr[] = { 13, 0 };
        ser->setNewLine(f.l == 1 ? crlf : f.l == 2 ? cr : 0);
        XMLCh* e16 = XMLString::transcode(enc);
        out->setEncoding(e16);
        XMLString::release(&e16);
        out->setByteStream(&tgt);
        bool ok = ser->write(n, out);
        r.status = ok ? "ok" : "fail";
    } catch (const DOMLSException& e) { r.status = "exc:DOMLSException:" + std::to_string((int)e.code); }
    catch (const DOMException& e) { r.status = "exc:DOMException:" + std::to_string((int)e.code); }
    catch (const XMLException& e) { r.status = "exc:" + excName(e); }
    catch (const OutOfMemoryException&) { r.status = "exc:OutOfMemory"; }
    catch (...) { r.status = "exc:unknown"; }
    r.errs = eh.log.empty() ? "-" : eh.log;
    r.bytes.assign(tgt.getRawBuffer(), tgt.getRawBuffer() + tgt.getLen());
    out->release();
    if (!reuse) ser->release();
    return r;
}

// re-parse [bytes] and compare with [doc]: " reparse=.. eq=.. res=.."
static std::string evalOutput(DOMDocument* doc, const std::string& resolved0, const std::vector<XMLByte>& bytes, const Feats& f) {
    XercesDOMParser p1; ParseErrs pe1;
    p1.setDoNamespaces(f.n); p1.setErrorHandler(&pe1); p1.setCreateEntityReferenceNodes(f.e); p1.setLoadExternalDTD(false);
    std::string rp = "ok";
    try {
        MemBufInputSource is(bytes.data(), bytes.size(), "serN");
        p1.parse(is);
        if (!pe1.first.empty()) rp = pe1.first;
    } catch (const XMLException& e) { rp = "exc:" + excName(e); }
    catch (const DOMException& e) { rp = "exc:DOMException:" + std::to_string((int)e.code); }
    catch (const SAXException&) { rp = "exc:SAXException"; }
    catch (...) { rp = "exc:unknown"; }
    std::string out = " reparse=" + rp;
    DOMDocument* d2 = p1.getDocument();
    if (rp == "ok" && d2) {
        std::string eq = "0";
        if (doc->isEqualNode(d2)) eq = "1";
        else for (int lvl = 1; lvl <= 3 && eq == "0"; lvl++) {
            std::string da, db; bool mg = (lvl & 1) != 0, dn = (lvl & 2) != 0;
            dump(da, doc, mg, dn); dump(db, d2, mg, dn);
            if (da == db) eq = (lvl == 1 ? "merged" : lvl == 2 ? "nsdecl" : "merged+nsdecl");
        }
        std::string r2; dumpResolved(r2, d2);
        out += " eq=" + eq + " res=" + (r2 == resolved0 ? "1" : "0");
    } else out += " eq=- res=-";
    return out;
}

// seq <step> | <step> | ...   with <step> = <enc> <feats> <10|11> D <nchild> node*
// ONE DOMLSSerializer instance writes the documents one after the other; every step is also written by a fresh
// instance.  Answer per step: ser= errs= bytes= reparse= eq= res= fresh=<1|0> [freshser= freshbytes=], steps joined by " | "
static std::string seqCase(const std::vector<std::string>& a) {
    static const XMLCh ls[] = { 'L', 'S', 0 };
    DOMImplementation* impl = DOMImplementationRegistry::getDOMImplementation(ls);
    DOMImplementationLS* implLS = (DOMImplementationLS*)impl;
    DOMLSSerializer* ser = implLS->createLSSerializer();
    std::string out;
    size_t i = 1;
    while (i < a.size()) {
        std::vector<std::string> st; st.push_back("doc");
        while (i < a.size() && a[i] != "|") st.push_back(a[i++]);
        i++;
        if (!out.empty()) out += " | ";
        if (st.size() < 6) { out += "bad-step"; continue; }
        const char* enc = encName(st[1]);
        if (!enc) { out += "bad-step"; continue; }
        Feats f = parseFeats(st[2]);
        DOMDocument* doc = 0;
        try {
            doc = impl->createDocument();
            if (st[3] == "11") { static const XMLCh v11[] = { '1', '.', '1', 0 }; doc->setXmlVersion(v11); }
            else if (st[3] == "1e") { static const XMLCh v10[] = { '1', '.', '0', 0 }; doc->setXmlVersion(v10); }
            Builder b(st, 4, doc, f.n);
            if (b.next() != "D") { doc->release(); out += "bad-step"; continue; }
            int nc = atoi(b.next().c_str());
            for (int k = 0; k < nc; k++) { DOMNode* c = b.node(); if (c) doc->appendChild(c); }
            if (!b.err.empty()) { doc->release(); out += b.err; continue; }
        } catch (const DOMException& e) {
            if (doc) doc->release();
            out += "build-exc:DOMException:" + std::to_string((int)e.code); continue;
        }
        std::string resolved0; dumpResolved(resolved0, doc);
        SerResult s1 = serialise(implLS, doc, enc, f, ser);
        SerResult s0 = serialise(implLS, doc, enc, f);
        out += "ser=" + s1.status + " errs=" + s1.errs + " bytes=" + showHex(s1.bytes.data(), s1.bytes.size(), 2);
        out += evalOutput(doc, resolved0, s1.bytes, f);
        bool same = s0.status == s1.status && s0.bytes == s1.bytes && s0.errs == s1.errs;
        out += std::string(" fresh=") + (same ? "1" : "0");
        if (!same) out += " freshser=" + s0.status + " fresherrs=" + s0.errs + " freshbytes=" + showHex(s0.bytes.data(), s0.bytes.size(), 2);
        doc->release();
    }
    ser->release();
    return out;
}

// fseq <enc> <unrep> <10|11> (<mode> <hex16>)+ : ONE XMLFormatter formats the buffers one after the other, each
// with its own escape mode (formatBuf's escapeFlags argument); answer: ok <hexbytes of step 1> <hexbytes of step 2> ...
static std::string doFseq(const std::vector<std::string>& a) {
    const char* enc = encName(a[1]);
    if (!enc) return "bad-request";
    int unrep = atoi(a[2].c_str());
    MemBufFormatTarget tgt;
    std::string out = "ok";
    try {
        XMLFormatter f(enc, a[3] == "11" ? "1.1" : "1.0", &tgt, XMLFormatter::NoEscapes, (XMLFormatter::UnRepFlags)unrep);
        for (size_t i = 4; i + 1 < a.size(); i += 2) {
            std::vector<XMLCh> s = toStr(a[i + 1]);
            tgt.reset();
            try {
                f.formatBuf(s.data(), s.size() - 1, (XMLFormatter::EscapeFlags)atoi(a[i].c_str()));
                out += " " + showHex(tgt.getRawBuffer(), tgt.getLen(), 2);
            } catch (const XMLException& e) { out += " !" + excName(e); }
        }
    } catch (const XMLException& e) { return "err " + excName(e); }
    return out;
}

static std::string docCase(const std::vector<std::string>& a, bool fromSource) {
    const char* enc = encName(a[1]);
    if (!enc) return "bad-request";
    Feats f = parseFeats(a[2]);
    static const XMLCh ls[] = { 'L', 'S', 0 };
    DOMImplementation* impl = DOMImplementationRegistry::getDOMImplementation(ls);
    DOMImplementationLS* implLS = (DOMImplementationLS*)impl;
    std::string out;
    DOMDocument* doc = 0;
    XercesDOMParser* p0 = 0;
    ParseErrs pe0;
    std::vector<XMLByte> srcBytes;
    try {
        if (fromSource) {
            std::vector<uint32_t> hb = parseHex(a[3], 2);
            srcBytes.assign(hb.begin(), hb.end());
            p0 = new XercesDOMParser();
            p0->setDoNamespaces(f.n);
            p0->setErrorHandler(&pe0);
            p0->setCreateEntityReferenceNodes(f.e);
            p0->setLoadExternalDTD(false);
            MemBufInputSource is(srcBytes.data(), srcBytes.size(), "src");
            p0->parse(is);
            if (!pe0.first.empty()) { std::string r = "src-rejected " + pe0.first; delete p0; return r; }
            doc = p0->getDocument();
        } else {
            doc = impl->createDocument();
            if (a[3] == "11") { static const XMLCh v11[] = { '1', '.', '1', 0 }; doc->setXmlVersion(v11); }
            else if (a[3] == "1e") { static const XMLCh v10[] = { '1', '.', '0', 0 }; doc->setXmlVersion(v10); }
            Builder b(a, 4, doc, f.n);
            if (b.next() != "D") { doc->release(); return "bad-request"; }
            int nc = atoi(b.next().c_str());
            for (int i = 0; i < nc; i++) { DOMNode* c = b.node(); if (c) doc->appendChild(c); }
            if (!b.err.empty()) { doc->release(); return b.err; }
        }
    } catch (const DOMException& e) {
        if (doc && !fromSource) doc->release();
        delete p0;
        return "build-exc:DOMException:" + std::to_string((int)e.code);
    } catch (const XMLException& e) { delete p0; return "build-exc:" + excName(e); }
    catch (const SAXException&) { delete p0; return "build-exc:SAXException"; }

    // what every element/attribute must still resolve to after any namespace fix-up
    std::string resolved0;
    dumpResolved(resolved0, doc);
    std::string nz = "";
    if (f.z) {
        // route (b): DOMDocument::normalizeDocument() with the "namespaces" parameter does the fix-up in the tree
        try {
            doc->getDOMConfig()->setParameter(XMLUni::fgDOMNamespaces, true);
            doc->normalizeDocument();
            nz = " norm=ok";
        } catch (const DOMException& e) { nz = " norm=exc:DOMException:" + std::to_string((int)e.code); }
        catch (const XMLException& e) { nz = " norm=exc:" + excName(e); }
        catch (...) { nz = " norm=exc:unknown"; }
    }
    SerResult s1 = serialise(implLS, doc, enc, f);
    out = "ser=" + s1.status + nz + " errs=" + s1.errs + " bytes=" + showHex(s1.bytes.data(), s1.bytes.size(), 2);
    // re-parse whatever was emitted (also after a reported failure: emitted ill-formed output is recorded)
    XercesDOMParser p1;
    ParseErrs pe1;
    p1.setDoNamespaces(f.n);
    p1.setErrorHandler(&pe1);
    p1.setCreateEntityReferenceNodes(f.e);
    p1.setLoadExternalDTD(false);
    std::string rp = "ok";
    try {
        MemBufInputSource is(s1.bytes.data(), s1.bytes.size(), "ser1");
        p1.parse(is);
        if (!pe1.first.empty()) rp = pe1.first;
    } catch (const XMLException& e) { rp = "exc:" + excName(e); }
    catch (const DOMException& e) { rp = "exc:DOMException:" + std::to_string((int)e.code); }
    catch (const SAXException&) { rp = "exc:SAXException"; }
    catch (...) { rp = "exc:unknown"; }
    out += " reparse=" + rp;
    DOMDocument* d2 = p1.getDocument();
    if (rp == "ok" && d2) {
        std::string eq = "0";
        if (doc->isEqualNode(d2)) eq = "1";
        else {
            // weaker equalities: adjacent Text/CDATA merged; namespace declarations ignored; both
            for (int lvl = 1; lvl <= 3 && eq == "0"; lvl++) {
                std::string da, db;
                bool mg = (lvl & 1) != 0, dn = (lvl & 2) != 0;
                dump(da, doc, mg, dn); dump(db, d2, mg, dn);
                if (da == db) eq = (lvl == 1 ? "merged" : lvl == 2 ? "nsdecl" : "merged+nsdecl");
            }
        }
        out += " eq=" + eq;
        { std::string r2; dumpResolved(r2, d2); out += std::string(" res=") + (r2 == resolved0 ? "1" : "0"); }
        SerResult s2 = serialise(implLS, d2, enc, f);
        std::string idem = (s2.status == s1.status && s2.bytes == s1.bytes) ? "1" : "0";
        if (idem == "0" && s2.status == "ok" && s2.bytes.size() == s1.bytes.size()) {
            // same length, different bytes: is the second serialisation a fixed point (attributes merely written in
            // another order because the first tree's attribute map was not in sorted order)?
            XercesDOMParser p2; ParseErrs pe2;
            p2.setDoNamespaces(f.n); p2.setErrorHandler(&pe2); p2.setCreateEntityReferenceNodes(f.e); p2.setLoadExternalDTD(false);
            try {
                MemBufInputSource is2(s2.bytes.data(), s2.bytes.size(), "ser2");
                p2.parse(is2);
                DOMDocument* d3 = p2.getDocument();
                if (pe2.first.empty() && d3 && d2->isEqualNode(d3)) {
                    SerResult s3 = serialise(implLS, d3, enc, f);
                    if (s3.status == "ok" && s3.bytes == s2.bytes) idem = "reordered";
                }
            } catch (...) {}
        }
        out += " idem=" + idem;
        if (eq == "0") { std::string da, db; dump(da, doc, false); dump(db, d2, false); out += " orig=" + da + " got=" + db; }
    } else out += " eq=- res=- idem=-";
    if (!fromSource) doc->release();
    delete p0;
    return out;
}

// encsel: which encoding / version DOMLSSerializerImpl::write and writeToString pick
static std::string encSel(const std::vector<std::string>& a) {
    static const XMLCh ls[] = { 'L', 'S', 0 };
    DOMImplementation* impl = DOMImplementationRegistry::getDOMImplementation(ls);
    DOMImplementationLS* implLS = (DOMImplementationLS*)impl;
    DOMDocument* doc = impl->createDocument();
    static const XMLCh r[] = { 'r', 0 };
    doc->appendChild(doc->createElement(r));
    auto oe = toStr(a[1]), ie = toStr(a[2]), xe = toStr(a[3]), xv = toStr(a[4]);
    DOMDocumentImpl* di = (DOMDocumentImpl*)doc;
    if (a[2] != "-") di->setInputEncoding(ie.data());
    if (a[3] != "-") di->setXmlEncoding(xe.data());
    std::string out;
    try {
        if (a[4] != "-") doc->setXmlVersion(xv.data());
    } catch (const DOMException& e) { doc->release(); return "build-exc:DOMException:" + std::to_string((int)e.code); }
    DOMLSSerializer* ser = implLS->createLSSerializer();
    try {
        std::vector<XMLCh> text;
        std::string raw;
        if (a[5] == "1") {
            XMLCh* s = ser->writeToString(doc);
            if (!s) out = "fail";
            else { for (XMLCh* p = s; *p; ++p) text.push_back(*p); raw = "-"; XMLString::release(&s); }
        } else {
            DOMLSOutput* o = implLS->createLSOutput();
            MemBufFormatTarget tgt;
            if (a[1] != "-") o->setEncoding(oe.data());
            o->setByteStream(&tgt);
            bool ok = ser->write(doc, o);
            if (!ok) out = "fail";
            raw = showHex(tgt.getRawBuffer(), tgt.getLen(), 2);
            // the declaration is ASCII in every encoding used here, or UTF-16 (BOM-less, native order)
            const XMLByte* b = tgt.getRawBuffer(); XMLSize_t n = tgt.getLen();
            bool wide = n >= 2 && b[1] == 0;
            for (XMLSize_t i = 0; i + (wide ? 1 : 0) < n; i += (wide ? 2 : 1)) text.push_back((XMLCh)(wide ? (b[i] | (b[i + 1] << 8)) : b[i]));
            o->release();
        }
        if (out.empty()) {
            // <?xml version="V" encoding="E" standalone=...
            std::string h; std::vector<XMLCh> ver, enc; int q = 0;
            for (size_t i = 0; i < text.size(); i++) {
                if (text[i] == '"') { q++; continue; }
                if (q == 1) ver.push_back(text[i]);
                if (q == 3) enc.push_back(text[i]);
                if (q >= 4) break;
            }
            ver.push_back(0); enc.push_back(0);
            std::string hv, he; hexStr(hv, ver.data()); hexStr(he, enc.data());
            out = "ok " + hv + " " + he + " " + raw;
        }
    } catch (const DOMLSException& e) { out = "exc:DOMLSException:" + std::to_string((int)e.code); }
    catch (const DOMException& e) { out = "exc:DOMException:" + std::to_string((int)e.code); }
    catch (const XMLException& e) { out = "exc:" + excName(e); }
    catch (...) { out = "exc:unknown"; }
    ser->release();
    doc->release();
    return out;
}

static volatile const char* gCur = 0;
static void onAlarm(int) {
    // the library did not return: answer for the current request and give up (the driver restarts us)
    const char m[] = "hang\n";
    (void)!write(1, m, sizeof m - 1);
    _exit(3);
}

int main() {
    XMLPlatformUtils::Initialize();
    signal(SIGALRM, onAlarm);
    std::string line;
    std::ios::sync_with_stdio(false);
    while (std::getline(std::cin, line)) {
        std::vector<std::string> a = splitWs(line);
        std::string r = "bad-request";
        std::cout.flush();
        alarm(a.size() && a[0] == "fmt" ? 3 : 10);
        try {
            if (a.size() == 6 && a[0] == "fmt") r = doFmt(a);
            else if (a.size() == 3 && a[0] == "can") r = doCan(a);
            else if (a.size() == 7 && a[0] == "sweep") r = doSweep(a);
            else if (a.size() >= 6 && a[0] == "doc") r = docCase(a, false);
            else if (a.size() >= 6 && a[0] == "seq") r = seqCase(a);
            else if (a.size() >= 6 && a[0] == "fseq") r = doFseq(a);
            else if (a.size() == 4 && a[0] == "src") r = docCase(a, true);
            else if (a.size() == 6 && a[0] == "encsel") r = encSel(a);
        } catch (const XMLException& e) { r = "uncaught:" + excName(e); }
        catch (const DOMException& e) { r = "uncaught:DOMException:" + std::to_string((int)e.code); }
        catch (const OutOfMemoryException&) { r = "uncaught:OutOfMemory"; }
        catch (...) { r = "uncaught:unknown"; }
        alarm(0);
        std::cout << r << "\n";
    }
    std::cout.flush();
    return 0;
}
