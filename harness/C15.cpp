// xh_C15: history-vs-fresh oracle for parser objects, grammar pool / resolver traces, string pool probe.
// Line protocol (one request per line, one answer per line):
//   D <id> <hex>                      define document <id> (UTF-8 bytes)                      -> ok
//   X <name> <hex>                    define external resource (DTD / schema) by file name     -> ok
//   H <api> <scanner> <op>... F:<doc>[:r]   run the history on ONE parser, then parse <doc>; do the same final parse on a
//                                     FRESH parser that received only the configuration operations
//                                     -> same <events> <errors> <hash> | diff # <hist> || <fresh> | poolchanged ... | adoptchanged ...
//   T <api> <scanner> <mode> <gram> <type> <doc> <cfg-ops...>   cached-grammar transparency (mode lg | cp)   -> same/diff as above
//   G <op>...                         trace of XMLGrammarPoolImpl + GrammarResolver operations  -> model-comparable trace
//   S <op>...                         XMLStringPool / XMLSynchronizedStringPool probe           -> trace
// api: sax | sax2 | dom | ls          scanner: IG | WF | DG | SG
#include "xh_common.hpp"
#include <xercesc/parsers/SAXParser.hpp>
#include <xercesc/parsers/XercesDOMParser.hpp>
#include <xercesc/parsers/DOMLSParserImpl.hpp>
#include <xercesc/sax/DocumentHandler.hpp>
#include <xercesc/sax/AttributeList.hpp>
#include <xercesc/sax/SAXParseException.hpp>
#include <xercesc/sax2/SAX2XMLReader.hpp>
#include <xercesc/sax2/XMLReaderFactory.hpp>
#include <xercesc/sax2/DefaultHandler.hpp>
#include <xercesc/sax2/Attributes.hpp>
#include <xercesc/framework/MemBufInputSource.hpp>
#include <xercesc/framework/Wrapper4InputSource.hpp>
#include <xercesc/framework/XMLGrammarPoolImpl.hpp>
#include <xercesc/framework/XMLPScanToken.hpp>
#include <xercesc/framework/XMLGrammarDescription.hpp>
#include <xercesc/validators/common/Grammar.hpp>
#include <xercesc/validators/common/GrammarResolver.hpp>
#include <xercesc/validators/schema/SchemaGrammar.hpp>
#include <xercesc/validators/DTD/DTDGrammar.hpp>
#include <xercesc/dom/DOM.hpp>
#include <xercesc/dom/DOMLSParserFilter.hpp>
#include <xercesc/dom/impl/DOMDocumentImpl.hpp>
#include <xercesc/util/XMLUni.hpp>
#include <xercesc/util/StringPool.hpp>
#include <xercesc/util/SynchronizedStringPool.hpp>
#include <xercesc/util/RefHashTableOf.hpp>
#include <map>
#include <set>
#include <algorithm>
#include <memory>
#include <cstring>

using namespace xh;

static std::map<std::string, std::string> gDocs;   // id -> bytes
static std::map<std::string, std::string> gExt;    // file name -> bytes
static std::string gDir = "/c15";           // W <dir>: directory holding the external DTDs / schemas as files
static std::string baseUri() { return "file://" + gDir + "/doc.xml"; }
static std::string extUri(const std::string& f) { return "file://" + gDir + "/" + f; }

static std::string unhex(const std::string& h) {
    std::string out;
    if (h == "-") return out;
    for (size_t i = 0; i + 1 < h.size(); i += 2) out += (char)(hexval(h[i]) * 16 + hexval(h[i + 1]));
    return out;
}
static std::string esc(const XMLCh* s, XMLSize_t n) {
    std::string out;
    for (XMLSize_t i = 0; i < n; i++) {
        XMLCh c = s[i];
        if (c >= 0x21 && c < 0x7F && c != '\\' && c != '|') out += (char)c;
        else { char b[12]; snprintf(b, sizeof b, "\\%X;", (unsigned)c); out += b; }
    }
    return out;
}
static std::string esc(const XMLCh* s) { return s ? esc(s, XMLString::stringLen(s)) : std::string("(null)"); }
struct XS {   // XMLCh string from ascii
    XMLCh* p;
    XS(const std::string& s) { p = XMLString::transcode(s.c_str()); }
    ~XS() { XMLString::release(&p); }
    operator const XMLCh*() const { return p; }
};

// ---------------------------------------------------------------------------------------------------------------
// recording: one canonical string per parse; a global callback counter drives exception injection
// ---------------------------------------------------------------------------------------------------------------
struct Boom {};
struct Rec {
    std::string ev;        // events
    std::string errs;      // errors
    int nEv = 0, nErr = 0;
    long cb = 0;           // callbacks seen in the current parse
    long throwAt = -1;     // throw at this callback index (1-based), -1 = never
    std::string text;
    void flush() { if (!text.empty()) { ev += "\"" + text + "\" "; text.clear(); nEv++; } }
    void tick() {
        cb++;
        if (throwAt > 0 && cb == throwAt) {
            if (throwAt % 2) throw Boom();
            throw SAXException("injected");
        }
    }
    void event(const std::string& s) { flush(); ev += s; ev += ' '; nEv++; }
    void clear() { ev.clear(); errs.clear(); nEv = nErr = 0; cb = 0; throwAt = -1; text.clear(); }
    std::string canon() { flush(); return "E[" + ev + "] R[" + errs + "]"; }
};

static std::string fileOf(const XMLCh* sysId) {
    std::string s = narrow(sysId);
    size_t k = s.find_last_of('/');
    return k == std::string::npos ? s : s.substr(k + 1);
}

struct Handlers : public DocumentHandler, public DefaultHandler, public DOMErrorHandler, public DOMLSResourceResolver {
    Rec* r;
    explicit Handlers(Rec* rec) : r(rec) {}
    // ---- SAX1 DocumentHandler
    void startDocument() override { r->tick(); r->event("SD"); }
    void endDocument() override { r->tick(); r->event("ED"); }
    void resetDocument() override {}
    void startElement(const XMLCh* const name, AttributeList& a) override {
        r->tick();
        std::string s = "<" + esc(name);
        for (XMLSize_t i = 0; i < a.getLength(); i++) s += "|" + esc(a.getName(i)) + "=" + esc(a.getValue(i)) + ":" + esc(a.getType(i));
        r->event(s);
    }
    void endElement(const XMLCh* const name) override { r->tick(); r->event("/" + esc(name)); }
    void characters(const XMLCh* const c, const XMLSize_t n) override { r->tick(); r->text += esc(c, n); }
    void ignorableWhitespace(const XMLCh* const c, const XMLSize_t n) override { r->tick(); r->event("~" + std::to_string(n)); }
    void processingInstruction(const XMLCh* const t, const XMLCh* const d) override { r->tick(); r->event("?" + esc(t) + "|" + esc(d)); }
    void setDocumentLocator(const Locator* const) override {}
    // ---- SAX2 ContentHandler
    void startElement(const XMLCh* const uri, const XMLCh* const local, const XMLCh* const qname, const Attributes& a) override {
        r->tick();
        std::string s = "<{" + esc(uri) + "}" + esc(local) + "|" + esc(qname);
        for (XMLSize_t i = 0; i < a.getLength(); i++)
            s += "|{" + esc(a.getURI(i)) + "}" + esc(a.getQName(i)) + "=" + esc(a.getValue(i)) + ":" + esc(a.getType(i));
        r->event(s);
    }
    void endElement(const XMLCh* const uri, const XMLCh* const local, const XMLCh* const qname) override {
        r->tick(); r->event("/{" + esc(uri) + "}" + esc(qname));
    }
    void startPrefixMapping(const XMLCh* const p, const XMLCh* const u) override { r->tick(); r->event("+" + esc(p) + "=" + esc(u)); }
    void endPrefixMapping(const XMLCh* const p) override { r->tick(); r->event("-" + esc(p)); }
    void skippedEntity(const XMLCh* const n) override { r->tick(); r->event("&skip;" + esc(n)); }
    // ---- DTDHandler
    void notationDecl(const XMLCh* const name, const XMLCh* const pub, const XMLCh* const sys) override {
        r->event("N!" + esc(name) + "|" + esc(pub) + "|" + fileOf(sys));
    }
    void unparsedEntityDecl(const XMLCh* const name, const XMLCh* const pub, const XMLCh* const sys, const XMLCh* const nota) override {
        r->event("U!" + esc(name) + "|" + esc(pub) + "|" + fileOf(sys) + "|" + esc(nota));
    }
    void resetDocType() override {}
    // ---- ErrorHandler
    void report(const char* sev, const SAXParseException& e) {
        r->errs += std::string(sev) + "@" + std::to_string((long)e.getLineNumber()) + ":" + std::to_string((long)e.getColumnNumber()) +
                   "@" + fileOf(e.getSystemId()) + "@" + esc(e.getMessage()) + " ";
        r->nErr++;
        r->tick();
    }
    void warning(const SAXParseException& e) override { report("W", e); }
    void error(const SAXParseException& e) override { report("E", e); }
    void fatalError(const SAXParseException& e) override { report("F", e); }
    void resetErrors() override {}
    // ---- DOMErrorHandler
    bool handleError(const DOMError& e) override {
        const char* sev = e.getSeverity() == DOMError::DOM_SEVERITY_WARNING ? "W" : e.getSeverity() == DOMError::DOM_SEVERITY_ERROR ? "E" : "F";
        DOMLocator* l = e.getLocation();
        r->errs += std::string(sev) + "@" + std::to_string(l ? (long)l->getLineNumber() : -1) + ":" +
                   std::to_string(l ? (long)l->getColumnNumber() : -1) + "@" + (l ? fileOf(l->getURI()) : std::string()) + "@" +
                   esc(e.getMessage()) + " ";
        r->nErr++;
        r->tick();
        return true;
    }
    // ---- EntityResolver (SAX) : everything is served from memory, nothing is ever opened
    InputSource* resolveEntity(const XMLCh* const pub, const XMLCh* const sys) override {
        r->tick();
        std::string f = fileOf(sys);
        auto it = gExt.find(f);
        const std::string& body = it == gExt.end() ? gEmpty() : it->second;
        r->event("RES:" + f + (it == gExt.end() ? "(none)" : ""));
        return new MemBufInputSource((const XMLByte*)body.data(), body.size(), sys, false);
    }
    // ---- DOMLSResourceResolver
    DOMLSInput* resolveResource(const XMLCh* const, const XMLCh* const, const XMLCh* const pub, const XMLCh* const sys,
                                const XMLCh* const base) override {
        r->tick();
        std::string f = fileOf(sys);
        auto it = gExt.find(f);
        const std::string& body = it == gExt.end() ? gEmpty() : it->second;
        r->event("RES:" + f + (it == gExt.end() ? "(none)" : ""));
        std::string full = extUri(f);
        XS id(full);
        return new Wrapper4InputSource(new MemBufInputSource((const XMLByte*)body.data(), body.size(), id, false), true);
    }
    static const std::string& gEmpty() { static std::string e; return e; }
};

// ---------------------------------------------------------------------------------------------------------------
// DOM dump
// ---------------------------------------------------------------------------------------------------------------
static void dumpNode(const DOMNode* n, std::string& out, int depth) {
    if (depth > 200) { out += "(deep)"; return; }
    switch (n->getNodeType()) {
    case DOMNode::ELEMENT_NODE: {
        const DOMElement* e = (const DOMElement*)n;
        out += "<" + esc(e->getNodeName());
        const DOMTypeInfo* ti = e->getSchemaTypeInfo();
        if (ti && ti->getTypeName()) out += "{" + esc(ti->getTypeNamespace()) + "#" + esc(ti->getTypeName()) + "}";
        DOMNamedNodeMap* am = e->getAttributes();
        std::vector<std::string> as;
        for (XMLSize_t i = 0; am && i < am->getLength(); i++) {
            const DOMAttr* a = (const DOMAttr*)am->item(i);
            std::string s = esc(a->getNodeName()) + "=" + esc(a->getNodeValue()) + (a->getSpecified() ? "" : "!dflt") + (a->isId() ? "!id" : "");
            const DOMTypeInfo* at = a->getSchemaTypeInfo();
            if (at && at->getTypeName()) s += "{" + esc(at->getTypeName()) + "}";
            as.push_back(s);
        }
        std::sort(as.begin(), as.end());
        for (auto& s : as) out += "|" + s;
        out += " ";
        for (DOMNode* c = n->getFirstChild(); c; c = c->getNextSibling()) dumpNode(c, out, depth + 1);
        out += "/> ";
        break;
    }
    case DOMNode::TEXT_NODE: out += "\"" + esc(n->getNodeValue()) + "\"" + (((const DOMText*)n)->isIgnorableWhitespace() ? "~ " : " "); break;
    case DOMNode::CDATA_SECTION_NODE: out += "[[" + esc(n->getNodeValue()) + "]] "; break;
    case DOMNode::COMMENT_NODE: out += "<!--" + esc(n->getNodeValue()) + "--> "; break;
    case DOMNode::PROCESSING_INSTRUCTION_NODE: out += "?" + esc(n->getNodeName()) + "|" + esc(n->getNodeValue()) + " "; break;
    case DOMNode::ENTITY_REFERENCE_NODE:
        out += "&" + esc(n->getNodeName()) + "; ";
        break;
    case DOMNode::DOCUMENT_TYPE_NODE: {
        const DOMDocumentType* dt = (const DOMDocumentType*)n;
        out += "!DT:" + esc(dt->getName()) + "|" + esc(dt->getPublicId()) + "|" + fileOf(dt->getSystemId());
        std::vector<std::string> es;
        DOMNamedNodeMap* em = dt->getEntities();
        for (XMLSize_t i = 0; em && i < em->getLength(); i++) es.push_back("e:" + esc(em->item(i)->getNodeName()));
        DOMNamedNodeMap* nm = dt->getNotations();
        for (XMLSize_t i = 0; nm && i < nm->getLength(); i++) es.push_back("n:" + esc(nm->item(i)->getNodeName()));
        std::sort(es.begin(), es.end());
        for (auto& s : es) out += "|" + s;
        out += " ";
        break;
    }
    default: out += "(node" + std::to_string((int)n->getNodeType()) + ") ";
    }
}
static std::string dumpDoc(const DOMDocument* d) {
    if (!d) return "(nodoc)";
    std::string out = "DOC:" + esc(d->getXmlVersion()) + (d->getXmlStandalone() ? ":sa " : " ");
    for (DOMNode* c = d->getFirstChild(); c; c = c->getNextSibling()) dumpNode(c, out, 0);
    return out;
}
static std::string poolKeys(XMLGrammarPool* pool) {
    std::vector<std::string> ks;
    RefHashTableOfEnumerator<Grammar> e = pool->getGrammarEnumerator();
    while (e.hasMoreElements()) {
        Grammar& g = e.nextElement();
        XMLGrammarDescription* d = g.getGrammarDescription();
        ks.push_back((g.getGrammarType() == Grammar::DTDGrammarType ? "D:" : "S:") + fileOf(d->getGrammarKey()));
    }
    std::sort(ks.begin(), ks.end());
    std::string out;
    for (auto& k : ks) out += k + ",";
    return out.empty() ? "-" : out;
}

// ---------------------------------------------------------------------------------------------------------------
// the four parser APIs behind one interface
// ---------------------------------------------------------------------------------------------------------------
static const XMLCh* scannerName(const std::string& s) {
    if (s == "WF") return XMLUni::fgWFXMLScanner;
    if (s == "DG") return XMLUni::fgDGXMLScanner;
    if (s == "SG") return XMLUni::fgSGXMLScanner;
    return XMLUni::fgIGXMLScanner;
}

// memory manager that remembers the blocks it handed out so that the harness can tell, without touching the memory,
// whether a block containing a given address (an adopted document) has been given back
struct TrackMM : public MemoryManager {
    std::map<char*, size_t> live;
    std::vector<const void*> watch;     // addresses of adopted documents
    std::vector<bool> freedFlag;
    void* allocate(XMLSize_t n) override { void* p = ::operator new(n ? n : 1); live[(char*)p] = n; return p; }
    void deallocate(void* p) override {
        if (!p) return;
        auto it = live.find((char*)p);
        if (it != live.end()) {
            for (size_t i = 0; i < watch.size(); i++)
                if ((const char*)watch[i] >= it->first && (const char*)watch[i] < it->first + it->second) freedFlag[i] = true;
            live.erase(it);
        }
        ::operator delete(p);
    }
    MemoryManager* getExceptionMemoryManager() override { return XMLPlatformUtils::fgMemoryManager; }
};

struct P {
    Rec rec;
    Handlers h;
    XMLGrammarPoolImpl* pool;
    std::vector<DOMDocument*> adopted;
    std::vector<std::string> adoptedDump;
    XMLPScanToken token;
    P() : h(&rec), pool(new XMLGrammarPoolImpl(XMLPlatformUtils::fgMemoryManager)) {}
    virtual ~P() {}
    virtual void set(const std::string& f, int v) = 0;
    virtual void use(const std::string& sc) = 0;
    virtual void parse(const InputSource& src) = 0;
    virtual bool first(const InputSource& src) { return false; }
    virtual bool next() { return false; }
    virtual void preset() {}
    virtual bool progressive() { return false; }
    virtual void loadGrammar(const InputSource& src, Grammar::GrammarType t, bool cache) = 0;
    virtual void resetGrammarPool() = 0;
    virtual void resetDocPool() {}
    virtual std::string cfgDump() { return ""; }                 // every setting read back through the public getters
    virtual void parseUri(const std::string& uri) { XS u(uri); LocalFileOrUrl(u); }
    virtual void LocalFileOrUrl(const XMLCh*) {}
    virtual void parseFiltered(const InputSource& src, int) { parse(src); }
    virtual void parseCtx(const std::string&, int, int) {}       // DOMLSParser::parseWithContext
    virtual void parseAbort(const InputSource& src) { parse(src); } // DOMLSParser: abort() called from the installed filter
    virtual bool adopt() { return false; }
    virtual bool adoptedFreed(size_t) { return false; }
    virtual std::string result() { return rec.canon(); }
    void cleanup() { for (size_t i = 0; i < adopted.size(); i++) if (!adoptedFreed(i)) adopted[i]->release(); adopted.clear(); }
};

template <class T> static void setCommon(T* p, const std::string& f, int v) {
    bool b = v != 0;
    if (f == "ns") p->setDoNamespaces(b);
    else if (f == "schema") p->setDoSchema(b);
    else if (f == "val") p->setValidationScheme(v == 0 ? T::Val_Never : v == 1 ? T::Val_Always : T::Val_Auto);
    else if (f == "skipdtd") p->setSkipDTDValidation(b);
    else if (f == "loaddtd") p->setLoadExternalDTD(b);
    else if (f == "exitfatal") p->setExitOnFirstFatalError(b);
    else if (f == "vcfatal") p->setValidationConstraintFatal(b);
    else if (f == "fullcheck") p->setValidationSchemaFullChecking(b);
    else if (f == "ic") p->setIdentityConstraintChecking(b);
    else if (f == "cache") p->cacheGrammarFromParse(b);
    else if (f == "usecache") p->useCachedGrammarInParse(b);
    else if (f == "disallowdtd") p->setDisallowDoctype(b);
    else if (f == "igncached") p->setIgnoreCachedDTD(b);
    else if (f == "loadschema") p->setLoadSchema(b);
    else if (f == "multimport") p->setHandleMultipleImports(b);
    else if (f == "srcofs") p->setCalculateSrcOfs(b);
}

template <class T> static std::string dumpCommon(T* p) {
    std::string o;
    auto b = [&](const char* n, bool v) { o += std::string(n) + "=" + (v ? "1" : "0") + ","; };
    b("ns", p->getDoNamespaces()); b("schema", p->getDoSchema());
    o += "val=" + std::to_string(p->getValidationScheme() == T::Val_Never ? 0 : p->getValidationScheme() == T::Val_Always ? 1 : 2) + ",";
    b("skipdtd", p->getSkipDTDValidation()); b("loaddtd", p->getLoadExternalDTD()); b("exitfatal", p->getExitOnFirstFatalError());
    b("vcfatal", p->getValidationConstraintFatal()); b("fullcheck", p->getValidationSchemaFullChecking());
    b("ic", p->getIdentityConstraintChecking()); b("cache", p->isCachingGrammarFromParse());
    b("usecache", p->isUsingCachedGrammarInParse()); b("disallowdtd", p->getDisallowDoctype());
    b("igncached", p->getIgnoreCachedDTD()); b("loadschema", p->getLoadSchema()); b("multimport", p->getHandleMultipleImports());
    b("srcofs", p->getCalculateSrcOfs());
    return o;
}

struct PSax : P {
    SAXParser* p;
    PSax() { p = new SAXParser(0, XMLPlatformUtils::fgMemoryManager, pool); p->setDocumentHandler(&h); p->setErrorHandler(&h);
             p->setDTDHandler(&h); p->setEntityResolver(&h); }
    ~PSax() { delete p; delete pool; }
    void set(const std::string& f, int v) override { if (f == "resolver") p->setEntityResolver(v ? &h : 0); else setCommon(p, f, v); }
    void use(const std::string& sc) override { p->useScanner(scannerName(sc)); }
    void parse(const InputSource& s) override { p->parse(s); }
    bool first(const InputSource& s) override { return p->parseFirst(s, token); }
    bool next() override { return p->parseNext(token); }
    void preset() override { p->parseReset(token); }
    bool progressive() override { return true; }
    void loadGrammar(const InputSource& s, Grammar::GrammarType t, bool c) override { p->loadGrammar(s, t, c); }
    void resetGrammarPool() override { p->resetCachedGrammarPool(); }
    std::string cfgDump() override { return dumpCommon(p); }
    void LocalFileOrUrl(const XMLCh* u) override { p->parse(u); }
};
struct PDom : P {
    XercesDOMParser* p;
    TrackMM* mm;
    PDom() { mm = new TrackMM(); p = new XercesDOMParser(0, mm, pool); p->setErrorHandler(&h); p->setEntityResolver(&h);
             p->setCreateSchemaInfo(true); }
    ~PDom() { cleanup(); delete p; delete pool; delete mm; }
    bool adoptedFreed(size_t i) override { return mm->freedFlag[i]; }
    void set(const std::string& f, int v) override {
        if (f == "resolver") p->setEntityResolver(v ? &h : 0);
        else if (f == "entrefs") p->setCreateEntityReferenceNodes(v != 0);
        else if (f == "ignws") p->setIncludeIgnorableWhitespace(v == 0);
        else setCommon(p, f, v);
    }
    // NOTE: XercesDOMParser + SGXMLScanner + setCreateSchemaInfo(true) dereferences a null fModel in
    // SGXMLScanner::buildAttList for a namespaced attribute when no schema was loaded (also on a fresh parser, so
    // it is not a C15 matter): schema info is requested for the other scanners only.
    void use(const std::string& sc) override { p->useScanner(scannerName(sc)); p->setCreateSchemaInfo(sc != "SG"); }
    void parse(const InputSource& s) override { p->parse(s); }
    bool first(const InputSource& s) override { return p->parseFirst(s, token); }
    bool next() override { return p->parseNext(token); }
    void preset() override { p->parseReset(token); }
    bool progressive() override { return true; }
    void loadGrammar(const InputSource& s, Grammar::GrammarType t, bool c) override { p->loadGrammar(s, t, c); }
    void resetGrammarPool() override { p->resetCachedGrammarPool(); }
    void resetDocPool() override { p->resetDocumentPool(); }
    bool adopt() override {
        DOMDocument* d = p->adoptDocument();
        if (!d) return false;
        adopted.push_back(d); adoptedDump.push_back(dumpDoc(d));
        mm->watch.push_back((const void*)dynamic_cast<DOMDocumentImpl*>(d)); mm->freedFlag.push_back(false);
        return true;
    }
    std::string result() override { return rec.canon() + " D[" + dumpDoc(p->getDocument()) + "]"; }
    std::string cfgDump() override {
        return dumpCommon(p) + "entrefs=" + (p->getCreateEntityReferenceNodes() ? "1" : "0") + ",ignws=" +
               (p->getIncludeIgnorableWhitespace() ? "0" : "1") + ",";
    }
    void LocalFileOrUrl(const XMLCh* u) override { p->parse(u); }
};
struct PSax2 : P {
    SAX2XMLReader* p;
    bool validation = false, dynamic = false;
    PSax2() { p = XMLReaderFactory::createXMLReader(XMLPlatformUtils::fgMemoryManager, pool); p->setContentHandler(&h);
              p->setErrorHandler(&h); p->setDTDHandler(&h); p->setEntityResolver(&h); }
    ~PSax2() { delete p; delete pool; }
    void set(const std::string& f, int v) override {
        bool b = v != 0;
        if (f == "resolver") p->setEntityResolver(b ? &h : 0);
        else if (f == "ns") p->setFeature(XMLUni::fgSAX2CoreNameSpaces, b);
        else if (f == "nsprefixes") p->setFeature(XMLUni::fgSAX2CoreNameSpacePrefixes, b);
        else if (f == "schema") p->setFeature(XMLUni::fgXercesSchema, b);
        else if (f == "val") { p->setFeature(XMLUni::fgXercesDynamic, v == 2); p->setFeature(XMLUni::fgSAX2CoreValidation, v != 0); }
        else if (f == "validation") p->setFeature(XMLUni::fgSAX2CoreValidation, b);      // the two raw features behind "val"
        else if (f == "dynamic") p->setFeature(XMLUni::fgXercesDynamic, b);
        else if (f == "skipdtd") p->setFeature(XMLUni::fgXercesSkipDTDValidation, b);
        else if (f == "loaddtd") p->setFeature(XMLUni::fgXercesLoadExternalDTD, b);
        else if (f == "exitfatal") p->setFeature(XMLUni::fgXercesContinueAfterFatalError, !b);
        else if (f == "vcfatal") p->setFeature(XMLUni::fgXercesValidationErrorAsFatal, b);
        else if (f == "fullcheck") p->setFeature(XMLUni::fgXercesSchemaFullChecking, b);
        else if (f == "ic") p->setFeature(XMLUni::fgXercesIdentityConstraintChecking, b);
        else if (f == "cache") p->setFeature(XMLUni::fgXercesCacheGrammarFromParse, b);
        else if (f == "usecache") p->setFeature(XMLUni::fgXercesUseCachedGrammarInParse, b);
        else if (f == "disallowdtd") p->setFeature(XMLUni::fgXercesDisallowDoctype, b);
        else if (f == "igncached") p->setFeature(XMLUni::fgXercesIgnoreCachedDTD, b);
        else if (f == "loadschema") p->setFeature(XMLUni::fgXercesLoadSchema, b);
        else if (f == "multimport") p->setFeature(XMLUni::fgXercesHandleMultipleImports, b);
        else if (f == "srcofs") p->setFeature(XMLUni::fgXercesCalculateSrcOfs, b);
    }
    void use(const std::string& sc) override { p->setProperty(XMLUni::fgXercesScannerName, (void*)scannerName(sc)); }
    void parse(const InputSource& s) override { p->parse(s); }
    bool first(const InputSource& s) override { return p->parseFirst(s, token); }
    bool next() override { return p->parseNext(token); }
    void preset() override { p->parseReset(token); }
    bool progressive() override { return true; }
    void loadGrammar(const InputSource& s, Grammar::GrammarType t, bool c) override { p->loadGrammar(s, t, c); }
    void resetGrammarPool() override { p->resetCachedGrammarPool(); }
    void LocalFileOrUrl(const XMLCh* u) override { p->parse(u); }
    std::string cfgDump() override {
        std::string o;
        auto b = [&](const char* n, const XMLCh* f, bool inv) { bool v = p->getFeature(f); o += std::string(n) + "=" + ((v != inv) ? "1" : "0") + ","; };
        b("ns", XMLUni::fgSAX2CoreNameSpaces, false); b("nsprefixes", XMLUni::fgSAX2CoreNameSpacePrefixes, false);
        b("schema", XMLUni::fgXercesSchema, false); b("validation", XMLUni::fgSAX2CoreValidation, false);
        b("dynamic", XMLUni::fgXercesDynamic, false); b("skipdtd", XMLUni::fgXercesSkipDTDValidation, false);
        b("loaddtd", XMLUni::fgXercesLoadExternalDTD, false); b("exitfatal", XMLUni::fgXercesContinueAfterFatalError, true);
        b("vcfatal", XMLUni::fgXercesValidationErrorAsFatal, false); b("fullcheck", XMLUni::fgXercesSchemaFullChecking, false);
        b("ic", XMLUni::fgXercesIdentityConstraintChecking, false); b("cache", XMLUni::fgXercesCacheGrammarFromParse, false);
        b("usecache", XMLUni::fgXercesUseCachedGrammarInParse, false); b("disallowdtd", XMLUni::fgXercesDisallowDoctype, false);
        b("igncached", XMLUni::fgXercesIgnoreCachedDTD, false); b("loadschema", XMLUni::fgXercesLoadSchema, false);
        b("multimport", XMLUni::fgXercesHandleMultipleImports, false); b("srcofs", XMLUni::fgXercesCalculateSrcOfs, false);
        return o;
    }
};

// DOMLSParserFilter with a few fixed behaviours
struct LsFilter : public DOMLSParserFilter {
    int mode;   // 0 accept everything, 1 reject elements named b, 2 skip elements named c, 3 interrupt at element b
    DOMLSParser* parser = 0; bool armed = false;     // armed: call parser->abort() at the next startElement
    explicit LsFilter(int m) : mode(m) {}
    static bool named(const DOMNode* n, char c) { const XMLCh* s = n->getNodeName(); return s && s[0] == (XMLCh)c && s[1] == 0; }
    FilterAction acceptNode(DOMNode* n) override {
        if (n->getNodeType() == DOMNode::ELEMENT_NODE && mode == 2 && named(n, 'c')) return FILTER_SKIP;
        return FILTER_ACCEPT;
    }
    FilterAction startElement(DOMElement* e) override {
        if (armed && parser) { armed = false; parser->abort(); }
        if (mode == 1 && named(e, 'b')) return FILTER_REJECT;
        if (mode == 3 && named(e, 'b')) return FILTER_INTERRUPT;
        return FILTER_ACCEPT;
    }
    DOMNodeFilter::ShowType getWhatToShow() const override { return DOMNodeFilter::SHOW_ALL; }
};
struct PLs : P {
    DOMLSParser* p;
    DOMDocument* last = 0;
    LsFilter* userFilter = 0;      // installed by the configuration operation s:filter:<mode+1> (0 removes it)
    PLs() {
        static const XMLCh ls[] = {chLatin_L, chLatin_S, chNull};
        DOMImplementationLS* impl = (DOMImplementationLS*)DOMImplementationRegistry::getDOMImplementation(ls);
        p = impl->createLSParser(DOMImplementationLS::MODE_SYNCHRONOUS, 0, XMLPlatformUtils::fgMemoryManager, pool);
        DOMConfiguration* c = p->getDomConfig();
        c->setParameter(XMLUni::fgDOMErrorHandler, (const void*)(DOMErrorHandler*)&h);
        c->setParameter(XMLUni::fgDOMResourceResolver, (const void*)(DOMLSResourceResolver*)&h);
        c->setParameter(XMLUni::fgXercesDOMHasPSVIInfo, false);
    }
    ~PLs() { if (ctxDoc) ctxDoc->release(); p->release(); delete pool; delete userFilter; }
    void parseAbort(const InputSource& s) override {
        if (userFilter) { userFilter->parser = p; userFilter->armed = true; }
        try { parse(s); } catch (...) { if (userFilter) userFilter->armed = false; throw; }
        if (userFilter) userFilter->armed = false;
    }
    void sp(const XMLCh* n, bool b) { DOMConfiguration* c = p->getDomConfig(); if (c->canSetParameter(n, b)) c->setParameter(n, b); }
    void set(const std::string& f, int v) override {
        bool b = v != 0;
        if (f == "resolver") p->getDomConfig()->setParameter(XMLUni::fgDOMResourceResolver, (const void*)(b ? (DOMLSResourceResolver*)&h : 0));
        else if (f == "filter") {
            LsFilter* old = userFilter;
            userFilter = v > 0 ? new LsFilter(v - 1) : 0;
            p->setFilter(userFilter);
            delete old;
        }
        else if (f == "ns") sp(XMLUni::fgDOMNamespaces, b);
        else if (f == "schema") sp(XMLUni::fgXercesSchema, b);
        else if (f == "val") { sp(XMLUni::fgDOMValidateIfSchema, v == 2); sp(XMLUni::fgDOMValidate, v == 1); }
        else if (f == "validate") sp(XMLUni::fgDOMValidate, b);
        else if (f == "validate-if-schema") sp(XMLUni::fgDOMValidateIfSchema, b);
        else if (f == "comments") sp(XMLUni::fgDOMComments, b);
        else if (f == "cdata-sections") sp(XMLUni::fgDOMCDATASections, b);
        else if (f == "datatype-normalization") sp(XMLUni::fgDOMDatatypeNormalization, b);
        else if (f == "skipdtd") sp(XMLUni::fgXercesSkipDTDValidation, b);
        else if (f == "loaddtd") sp(XMLUni::fgXercesLoadExternalDTD, b);
        else if (f == "exitfatal") sp(XMLUni::fgXercesContinueAfterFatalError, !b);
        else if (f == "vcfatal") sp(XMLUni::fgXercesValidationErrorAsFatal, b);
        else if (f == "fullcheck") sp(XMLUni::fgXercesSchemaFullChecking, b);
        else if (f == "ic") sp(XMLUni::fgXercesIdentityConstraintChecking, b);
        else if (f == "cache") sp(XMLUni::fgXercesCacheGrammarFromParse, b);
        else if (f == "usecache") sp(XMLUni::fgXercesUseCachedGrammarInParse, b);
        else if (f == "disallowdtd") sp(XMLUni::fgDOMDisallowDoctype, b);
        else if (f == "igncached") sp(XMLUni::fgXercesIgnoreCachedDTD, b);
        else if (f == "loadschema") sp(XMLUni::fgXercesLoadSchema, b);
        else if (f == "multimport") sp(XMLUni::fgXercesHandleMultipleImports, b);
        else if (f == "entrefs") sp(XMLUni::fgDOMEntities, b);
        else if (f == "ignws") sp(XMLUni::fgDOMElementContentWhitespace, !b);
    }
    void use(const std::string& sc) override { p->getDomConfig()->setParameter(XMLUni::fgXercesScannerName, (const void*)scannerName(sc)); }
    void parse(const InputSource& s) override {
        last = 0;
        const MemBufInputSource& m = (const MemBufInputSource&)s;
        Wrapper4InputSource w((InputSource*)&s, false);
        last = p->parse(&w);
    }
    void loadGrammar(const InputSource& s, Grammar::GrammarType t, bool c) override {
        Wrapper4InputSource w((InputSource*)&s, false);
        p->loadGrammar(&w, t, c);
    }
    void resetGrammarPool() override { p->resetCachedGrammarPool(); }
    void resetDocPool() override { p->resetDocumentPool(); last = 0; }
    std::string result() override { return rec.canon() + " D[" + dumpDoc(last) + "]"; }
    void parseUri(const std::string& uri) override { last = 0; XS u(uri); last = p->parseURI(u); }
    void parseFiltered(const InputSource& s, int mode) override {
        LsFilter f(mode);
        p->setFilter(&f);
        try { parse(s); } catch (...) { p->setFilter(userFilter); throw; }
        p->setFilter(userFilter);
    }
    // a context document owned by the harness: <ctx><k1>t</k1><k2/></ctx>
    DOMDocument* ctxDoc = 0;
    void parseCtx(const std::string& frag, int action, int kind) override {
        static const XMLCh ls[] = {chLatin_L, chLatin_S, chNull};
        if (ctxDoc) { ctxDoc->release(); ctxDoc = 0; }
        DOMImplementation* impl = DOMImplementationRegistry::getDOMImplementation(ls);
        XS nCtx("ctx"), nK1("k1"), nK2("k2"), nT("t");
        ctxDoc = impl->createDocument(0, nCtx, 0);
        DOMElement* root = ctxDoc->getDocumentElement();
        DOMElement* k1 = ctxDoc->createElement(nK1); root->appendChild(k1);
        DOMText* tx = ctxDoc->createTextNode(nT); k1->appendChild(tx);
        DOMElement* k2 = ctxDoc->createElement(nK2); root->appendChild(k2);
        DOMNode* ctx = kind == 0 ? (DOMNode*)root : kind == 1 ? (DOMNode*)k1 : kind == 2 ? (DOMNode*)tx : (DOMNode*)k2;
        std::string full = extUri("frag.xml");
        XS id(full);
        MemBufInputSource src((const XMLByte*)frag.data(), frag.size(), id, false);
        Wrapper4InputSource w(&src, false);
        std::string how;
        try { p->parseWithContext(&w, ctx, (DOMLSParser::ActionType)action); how = "ok"; }
        catch (...) { rec.event("CTX:" + dumpDocSafe()); throw; }
        rec.event("CTX:" + dumpDocSafe());
    }
    std::string dumpDocSafe() { return ctxDoc ? dumpDoc(ctxDoc) : std::string("-"); }
    std::string cfgDump() override {
        std::string o;
        DOMConfiguration* c = p->getDomConfig();
        auto b = [&](const char* n, const XMLCh* f, bool inv) {
            bool v = c->getParameter(f) != 0;
            o += std::string(n) + "=" + ((v != inv) ? "1" : "0") + ",";
        };
        b("ns", XMLUni::fgDOMNamespaces, false); b("schema", XMLUni::fgXercesSchema, false);
        b("validate", XMLUni::fgDOMValidate, false); b("validate-if-schema", XMLUni::fgDOMValidateIfSchema, false);
        b("skipdtd", XMLUni::fgXercesSkipDTDValidation, false); b("loaddtd", XMLUni::fgXercesLoadExternalDTD, false);
        b("exitfatal", XMLUni::fgXercesContinueAfterFatalError, true); b("vcfatal", XMLUni::fgXercesValidationErrorAsFatal, false);
        b("fullcheck", XMLUni::fgXercesSchemaFullChecking, false); b("ic", XMLUni::fgXercesIdentityConstraintChecking, false);
        b("cache", XMLUni::fgXercesCacheGrammarFromParse, false); b("usecache", XMLUni::fgXercesUseCachedGrammarInParse, false);
        b("disallowdtd", XMLUni::fgDOMDisallowDoctype, false); b("igncached", XMLUni::fgXercesIgnoreCachedDTD, false);
        b("loadschema", XMLUni::fgXercesLoadSchema, false); b("multimport", XMLUni::fgXercesHandleMultipleImports, false);
        b("entrefs", XMLUni::fgDOMEntities, false); b("ignws", XMLUni::fgDOMElementContentWhitespace, true);
        b("comments", XMLUni::fgDOMComments, false); b("cdata-sections", XMLUni::fgDOMCDATASections, false);
        b("datatype-normalization", XMLUni::fgDOMDatatypeNormalization, false);
        // getFilter(): the filter the application installed (or none), never anything else
        o += std::string("filter=") + (p->getFilter() == (DOMLSParserFilter*)userFilter ? (userFilter ? "1" : "0") : "2") + ",";
        return o;
    }
};

static P* mk(const std::string& api, const std::string& sc) {
    P* p = api == "sax" ? (P*)new PSax() : api == "dom" ? (P*)new PDom() : api == "sax2" ? (P*)new PSax2() : (P*)new PLs();
    if (sc != "IG") p->use(sc);
    return p;
}

static std::vector<std::string> splitc(const std::string& s, char c) {
    std::vector<std::string> v; std::string cur;
    for (char ch : s) { if (ch == c) { v.push_back(cur); cur.clear(); } else cur += ch; }
    v.push_back(cur);
    return v;
}

// one guarded call; returns a tag describing how it ended (part of the canonical result of a parse)
template <class F> static std::string guarded(F f) {
    try { f(); return "ok"; }
    catch (const Boom&) { return "x:Boom"; }
    catch (const OutOfMemoryException&) { return "x:OOM"; }
    catch (const SAXParseException& e) { return "x:SAXParse:" + esc(e.getMessage()); }
    catch (const SAXException& e) { return "x:SAX:" + esc(e.getMessage()); }
    catch (const XMLException& e) { return "x:XML:" + narrow(e.getType()) + ":" + std::to_string((int)e.getCode()); }
    catch (const DOMLSException& e) { return "x:DOMLS:" + std::to_string((int)e.code); }
    catch (const DOMException& e) { return "x:DOM:" + std::to_string((int)e.code); }
    catch (...) { return "x:unknown"; }
}

static const std::string* docOf(const std::string& id) {
    auto it = gDocs.find(id);
    return it == gDocs.end() ? 0 : &it->second;
}

struct HistState { bool locked = false; std::string lockedKeys; std::string poolViolation; std::string adoptViolation;
                   std::string cfgExpected; std::string cfgViolation; };

// applies one operation; config = true when the operation is one a fresh parser also receives
static void applyOp(P* p, const std::string& op, HistState& hs, bool freshSide) {
    std::vector<std::string> a = splitc(op, ':');
    const std::string& k = a[0];
    bool isCfg = (k == "s" || k == "us");
    if (freshSide && !isCfg) return;
    XS base(baseUri());
    if (k == "s" && a.size() >= 3) { guarded([&] { p->set(a[1], atoi(a[2].c_str())); }); }
    else if (k == "us" && a.size() >= 2) { guarded([&] { p->use(a[1]); }); }
    else if ((k == "p" || k == "px") && a.size() >= 2) {
        const std::string* d = docOf(a[1]); if (!d) return;
        p->rec.clear();
        if (k == "px" && a.size() >= 3) p->rec.throwAt = atol(a[2].c_str());
        MemBufInputSource src((const XMLByte*)d->data(), d->size(), base, false);
        guarded([&] { p->parse(src); });
        p->rec.throwAt = -1;
    }
    else if ((k == "pn" || k == "pa") && a.size() >= 3) {
        const std::string* d = docOf(a[1]); if (!d) return;
        p->rec.clear();
        MemBufInputSource src((const XMLByte*)d->data(), d->size(), base, false);
        if (!p->progressive()) { guarded([&] { p->parse(src); }); return; }
        long n = atol(a[2].c_str());
        bool more = false;
        guarded([&] { more = p->first(src); });
        for (long i = 0; more && i < n; i++) guarded([&] { more = p->next(); });
        if (k == "pn") guarded([&] { p->preset(); });
    }
    else if (k == "lg" && a.size() >= 4) {
        auto it = gExt.find(a[1]); if (it == gExt.end()) return;
        std::string full = extUri(a[1]);
        XS id(full);
        p->rec.clear();
        MemBufInputSource src((const XMLByte*)it->second.data(), it->second.size(), id, false);
        guarded([&] { p->loadGrammar(src, a[2] == "d" ? Grammar::DTDGrammarType : Grammar::SchemaGrammarType, a[3] == "1"); });
    }
    else if (k == "pu" && a.size() >= 2) {       // parse by URI: the document as a file in the work directory
        p->rec.clear();
        guarded([&] { p->parseUri(extUri("d_" + a[1] + ".xml")); });
    }
    else if (k == "pf" && a.size() >= 3) {       // DOMLSParser: parse with a DOMLSParserFilter installed
        const std::string* d = docOf(a[1]); if (!d) return;
        p->rec.clear();
        MemBufInputSource src((const XMLByte*)d->data(), d->size(), base, false);
        guarded([&] { p->parseFiltered(src, atoi(a[2].c_str())); });
    }
    else if ((k == "pc" || k == "pcx") && a.size() >= 4) {   // DOMLSParser::parseWithContext(fragment, context node kind, action)
        const std::string* d = docOf(a[1]); if (!d) return;  // pcx: an exception leaves the error handler / resolver at callback k
        p->rec.clear();
        if (k == "pcx" && a.size() >= 5) p->rec.throwAt = atol(a[4].c_str());
        guarded([&] { p->parseCtx(*d, atoi(a[2].c_str()), atoi(a[3].c_str())); });
        p->rec.throwAt = -1;
    }
    else if (k == "pab" && a.size() >= 2) {      // DOMLSParser: the installed filter calls abort() at the first element
        const std::string* d = docOf(a[1]); if (!d) return;
        p->rec.clear();
        MemBufInputSource src((const XMLByte*)d->data(), d->size(), base, false);
        guarded([&] { p->parseAbort(src); });
    }
    else if (k == "rd") guarded([&] { p->resetDocPool(); });
    else if (k == "rg") guarded([&] { p->resetGrammarPool(); });
    else if (k == "ad") guarded([&] { p->adopt(); });
    else if (k == "lk") { p->pool->lockPool(); hs.locked = true; hs.lockedKeys = poolKeys(p->pool); }
    else if (k == "ul") { p->pool->unlockPool(); hs.locked = false; }
    // configuration read back through the public getters: set by configuration calls only, never by a parse
    if (isCfg) hs.cfgExpected = p->cfgDump();
    else if (!freshSide && hs.cfgViolation.empty()) {
        if (hs.cfgExpected.empty()) hs.cfgExpected = p->cfgDump();      // (first operation: nothing to compare with yet)
        else {
            std::string now = p->cfgDump();
            if (now != hs.cfgExpected) {
                // name the first differing parameter
                std::vector<std::string> x = splitc(hs.cfgExpected, ','), y = splitc(now, ',');
                std::string which;
                for (size_t i = 0; i < x.size() && i < y.size(); i++) if (x[i] != y[i]) { which = x[i] + "->" + y[i]; break; }
                hs.cfgViolation = which + " after " + op;
            }
        }
    }
    for (size_t i = 0; i < p->adopted.size(); i++)
        if (p->adoptedFreed(i) && hs.adoptViolation.empty()) hs.adoptViolation = "after " + op;
    if (hs.locked && hs.poolViolation.empty()) {
        std::string now = poolKeys(p->pool);
        if (now != hs.lockedKeys) hs.poolViolation = "after " + op + ": " + hs.lockedKeys + " -> " + now;
    }
}

static unsigned long fnv(const std::string& s) {
    unsigned long h = 1469598103934665603UL;
    for (unsigned char c : s) { h ^= c; h *= 1099511628211UL; }
    return h;
}
static std::string clip(const std::string& s, size_t n = 1500) { return s.size() <= n ? s : s.substr(0, n) + "...(" + std::to_string(s.size()) + ")"; }

static std::string finalParse(P* p, const std::string& docId) {
    const std::string* d = docOf(docId);
    if (!d) return "(nodoc)";
    XS base(baseUri());
    p->rec.clear();
    MemBufInputSource src((const XMLByte*)d->data(), d->size(), base, false);
    std::string how = guarded([&] { p->parse(src); });
    return how + " " + p->result();
}

static std::string compare(const std::string& A, const std::string& B, int nEv, int nErr) {
    if (A == B) { char b[64]; snprintf(b, sizeof b, "%016lx", fnv(A)); return "same " + std::to_string(nEv) + " " + std::to_string(nErr) + " " + b; }
    // position of the first difference helps reading
    size_t i = 0; while (i < A.size() && i < B.size() && A[i] == B[i]) i++;
    size_t st = i > 80 ? i - 80 : 0;
    return "diff # at " + std::to_string(i) + " # HIST " + clip(A.substr(st)) + " || FRESH " + clip(B.substr(st));
}

// what a cached grammar legitimately changes: entity-resolution events, DTDHandler notation / unparsed-entity events and
// the doctype node's entity / notation maps (no DocTypeHandler callbacks when the DTD comes from the cache)
static std::string stripRes(std::string s) {
    size_t k;
    for (const char* pre : {"RES:", "N!", "U!"}) {
        size_t from = 0;
        while ((k = s.find(pre, from)) != std::string::npos) {
            if (k > 0 && s[k - 1] != ' ' && s[k - 1] != '[') { from = k + 1; continue; }
            size_t e = s.find(' ', k); s.erase(k, e == std::string::npos ? std::string::npos : e - k + 1);
        }
    }
    if ((k = s.find("!DT:")) != std::string::npos) {
        size_t e = s.find(' ', k);
        std::string dt = s.substr(k, e == std::string::npos ? std::string::npos : e - k), kept;
        size_t i = 0;
        while (i < dt.size()) {
            size_t j = dt.find('|', i + 1);
            std::string part = dt.substr(i, j == std::string::npos ? std::string::npos : j - i);
            if (!(part.rfind("|e:", 0) == 0 || part.rfind("|n:", 0) == 0)) kept += part;
            if (j == std::string::npos) break;
            i = j;
        }
        s.replace(k, dt.size(), kept);
    }
    return s;
}

static std::string doHistory(const std::vector<std::string>& t) {
    if (t.size() < 4) return "bad-request";
    const std::string& api = t[1]; const std::string& sc = t[2];
    std::vector<std::string> fin = splitc(t.back(), ':');
    if (fin[0] != "F" || fin.size() < 2) return "bad-request";
    std::unique_ptr<P> ph(mk(api, sc)), pf(mk(api, sc));
    HistState hs, hf;
    hs.cfgExpected = ph->cfgDump();
    for (size_t i = 3; i + 1 < t.size(); i++) { applyOp(ph.get(), t[i], hs, false); applyOp(pf.get(), t[i], hf, true); }
    bool transparent = fin.size() >= 3 && fin[2] == "t";    // cached grammars may be in play: entity-resolution events not compared
    if (fin.size() >= 3 && fin[2] == "r") { if (hs.locked) { ph->pool->unlockPool(); hs.locked = false; } guarded([&] { ph->resetGrammarPool(); }); }
    std::string A = finalParse(ph.get(), fin[1]);
    int nEv = ph->rec.nEv, nErr = ph->rec.nErr;
    std::string B = finalParse(pf.get(), fin[1]);
    if (hs.locked) { std::string now = poolKeys(ph->pool); if (now != hs.lockedKeys && hs.poolViolation.empty()) hs.poolViolation = "after final parse: " + hs.lockedKeys + " -> " + now; }
    // the parser gives its own documents back now; an adopted one must not be among them
    if (!ph->adopted.empty()) {
        guarded([&] { ph->resetDocPool(); });
        for (size_t i = 0; i < ph->adopted.size(); i++)
            if (ph->adoptedFreed(i) && hs.adoptViolation.empty()) hs.adoptViolation = "at resetDocumentPool after the final parse";
    }
    if (!hs.adoptViolation.empty())
        return "adoptchanged # the parser released the memory of a document it had handed out by adoptDocument (" + hs.adoptViolation + ")";
    if (hs.cfgViolation.empty()) {           // ... nor by the final parse
        std::string now = ph->cfgDump();
        if (!hs.cfgExpected.empty() && now != hs.cfgExpected) {
            std::vector<std::string> x = splitc(hs.cfgExpected, ','), y = splitc(now, ',');
            for (size_t i = 0; i < x.size() && i < y.size(); i++) if (x[i] != y[i]) { hs.cfgViolation = x[i] + "->" + y[i] + " after the final parse"; break; }
        }
    }
    if (!hs.cfgViolation.empty()) return "configchanged " + hs.cfgViolation.substr(0, hs.cfgViolation.find('=')) + " # " + hs.cfgViolation;
    if (!hs.poolViolation.empty()) return "poolchanged # " + hs.poolViolation;
    for (size_t i = 0; i < ph->adopted.size(); i++) {
        if (ph->adoptedFreed(i)) return "adoptchanged # the parser released the memory of a document it had handed out by adoptDocument";
        std::string now = dumpDoc(ph->adopted[i]);
        if (now != ph->adoptedDump[i]) return "adoptchanged # " + clip(ph->adoptedDump[i], 400) + " || " + clip(now, 400);
    }
    if (transparent) { A = stripRes(A); B = stripRes(B); }
    return compare(A, B, nEv, nErr);
}

// Q <api> <scanner> <order> <op>... F:<doc>
// feature SEQUENCES: parser A receives the whole sequence of configuration calls (parses may be interleaved); parser B is
// fresh and receives ONLY the final values A reports through its getters, in dump order (order = f) or reversed (order = r).
// B's read-back must equal A's, and the final parse must give the same result on both.
static std::string doFeatureSeq(const std::vector<std::string>& t) {
    if (t.size() < 5) return "bad-request";
    const std::string& api = t[1]; const std::string& sc = t[2]; bool rev = t[3] == "r";
    std::vector<std::string> fin = splitc(t.back(), ':');
    if (fin[0] != "F" || fin.size() < 2) return "bad-request";
    std::unique_ptr<P> pa(mk(api, sc)), pb(mk(api, sc));
    HistState ha;
    for (size_t i = 4; i + 1 < t.size(); i++) applyOp(pa.get(), t[i], ha, false);
    std::string dumpA = pa->cfgDump();
    std::vector<std::string> kv = splitc(dumpA, ',');
    if (!kv.empty() && kv.back().empty()) kv.pop_back();
    if (api == "ls") {      // DOM L3: validate-if-schema=false switches validation off, so it has to be set before validate
        std::stable_sort(kv.begin(), kv.end(), [](const std::string& a, const std::string& b) {
            return a.rfind("validate-if-schema", 0) == 0 && b.rfind("validate-if-schema", 0) != 0; });
    } else if (rev) std::reverse(kv.begin(), kv.end());
    for (auto& e : kv) {
        size_t q = e.find('=');
        if (q == std::string::npos) continue;
        std::string k = e.substr(0, q); int v = atoi(e.substr(q + 1).c_str());
        guarded([&] { pb->set(k, v); });
    }
    std::string dumpB = pb->cfgDump();
    if (dumpA != dumpB) {
        std::vector<std::string> x = splitc(dumpA, ','), y = splitc(dumpB, ',');
        for (size_t i = 0; i < x.size() && i < y.size(); i++)
            if (x[i] != y[i]) return "configmismatch " + x[i].substr(0, x[i].find('=')) + " # sequence gives " + x[i] + ", a fresh parser given the final values reports " + y[i];
        return "configmismatch ? # " + dumpA + " || " + dumpB;
    }
    std::string A = finalParse(pa.get(), fin[1]);
    int nEv = pa->rec.nEv, nErr = pa->rec.nErr;
    std::string B = finalParse(pb.get(), fin[1]);
    if (pa->cfgDump() != dumpA) return "configchanged ? # the final parse changed a setting: " + dumpA + " -> " + pa->cfgDump();
    return compare(A, B, nEv, nErr);
}

// T <api> <scanner> <mode> <gram> <type> <doc> <cfg-ops...>
static std::string doTransparent(const std::vector<std::string>& t) {
    if (t.size() < 7) return "bad-request";
    const std::string& api = t[1]; const std::string& sc = t[2]; const std::string& mode = t[3];
    std::unique_ptr<P> pc(mk(api, sc)), pf(mk(api, sc));
    HistState hs, hf;
    for (size_t i = 7; i < t.size(); i++) { applyOp(pc.get(), t[i], hs, false); applyOp(pf.get(), t[i], hf, false); }
    if (mode == "nh") {
        // preloaded grammar, document WITHOUT a schema location hint (t[6] = "<doc-without-hint>,<doc-with-hint>") against
        // a fresh parser reading the hinted twin with the grammar inline: only the verdicts (severity + message) are compared
        std::vector<std::string> dd = splitc(t[6], ',');
        if (dd.size() != 2) return "bad-request";
        applyOp(pc.get(), "lg:" + t[4] + ":" + t[5] + ":1", hs, false);
        pc->set("usecache", 1);
        auto verdicts = [](const std::string& errs) {
            std::vector<std::string> v; std::string cur;
            for (char ch : errs + " ") {
                if (ch == ' ') {
                    if (!cur.empty()) { size_t a = cur.find('@'), b = cur.rfind('@'); v.push_back(cur.substr(0, a) + cur.substr(b)); }
                    cur.clear();
                } else cur += ch;
            }
            std::sort(v.begin(), v.end());
            std::string out; for (auto& x : v) out += x + " "; return out;
        };
        std::string h1 = finalParse(pc.get(), dd[0]).substr(0, 2);
        std::string A = h1 + " R[" + verdicts(pc->rec.errs) + "]";
        int nEv = pc->rec.nEv, nErr = pc->rec.nErr;
        std::string h2 = finalParse(pf.get(), dd[1]).substr(0, 2);
        std::string B = h2 + " R[" + verdicts(pf->rec.errs) + "]";
        return compare(A, B, nEv, nErr) + " # pool " + poolKeys(pc->pool);
    }
    if (mode == "lg") {
        applyOp(pc.get(), "lg:" + t[4] + ":" + t[5] + ":1", hs, false);
        pc->set("usecache", 1);
    } else {    // cp: cache from a first parse of the same document, then use the cache
        pc->set("cache", 1);
        applyOp(pc.get(), "p:" + t[6], hs, false);
        pc->set("cache", 0);
        pc->set("usecache", 1);
    }
    std::string keys = poolKeys(pc->pool);
    std::string A = finalParse(pc.get(), t[6]);
    int nEv = pc->rec.nEv, nErr = pc->rec.nErr;
    std::string B = finalParse(pf.get(), t[6]);
    // the entity-resolution trace legitimately differs (that is the point of caching): compare without RES: events
    auto strip = [](std::string s) {
        size_t k;
        while ((k = s.find("RES:")) != std::string::npos) { size_t e = s.find(' ', k); s.erase(k, e == std::string::npos ? std::string::npos : e - k + 1); }
        // the doctype node's entity / notation maps are not filled when the DTD comes from the cache (no DocTypeHandler
        // callbacks); the property speaks of verdicts, defaults and type information, so they are not compared here
        if ((k = s.find("!DT:")) != std::string::npos) {
            size_t e = s.find(' ', k);
            std::string dt = s.substr(k, e == std::string::npos ? std::string::npos : e - k), kept;
            size_t i = 0;
            while (i < dt.size()) {
                size_t j = dt.find('|', i + 1);
                std::string part = dt.substr(i, j == std::string::npos ? std::string::npos : j - i);
                if (!(part.rfind("|e:", 0) == 0 || part.rfind("|n:", 0) == 0)) kept += part;
                if (j == std::string::npos) break;
                i = j;
            }
            s.replace(k, dt.size(), kept);
        }
        return s;
    };
    std::string r = compare(strip(A), strip(B), nEv, nErr);
    return r + " # pool " + keys;
}

// ---------------------------------------------------------------------------------------------------------------
// G: direct trace of XMLGrammarPoolImpl + GrammarResolver.  Grammars are empty SchemaGrammars whose target
//    namespace is the key; every grammar object gets a serial number so that "which grammar was found" is visible.
// ---------------------------------------------------------------------------------------------------------------
static std::string doPoolTrace(const std::vector<std::string>& t) {
    MemoryManager* mm = XMLPlatformUtils::fgMemoryManager;
    XMLGrammarPoolImpl* pool = new XMLGrammarPoolImpl(mm);
    GrammarResolver* res = new GrammarResolver(pool, mm);
    std::map<const Grammar*, int> serial;
    int nextSerial = 1;
    std::string out;
    auto mkG = [&](const std::string& key) {
        SchemaGrammar* g = new (mm) SchemaGrammar(mm);
        XS k(key);
        g->setTargetNamespace(k);
        ((XMLSchemaDescription*)g->getGrammarDescription())->setTargetNamespace(k);   // the description carries the key
        serial[g] = nextSerial++;
        return g;
    };
    auto nameOf = [&](const Grammar* g) { return g ? std::string("g") + std::to_string(serial[g]) : std::string("none"); };
    auto keysOfPool = [&]() {
        std::vector<std::string> ks;
        RefHashTableOfEnumerator<Grammar> e = pool->getGrammarEnumerator();
        while (e.hasMoreElements()) { Grammar& g = e.nextElement(); ks.push_back(narrow(g.getTargetNamespace()) + "=" + nameOf(&g)); }
        std::sort(ks.begin(), ks.end());
        std::string s; for (auto& k : ks) s += k + ","; return s.empty() ? std::string("-") : s;
    };
    std::vector<Grammar*> orphans;
    for (size_t i = 1; i < t.size(); i++) {
        std::vector<std::string> a = splitc(t[i], ':');
        const std::string& k = a[0];
        std::string r;
        std::string how = guarded([&] {
            if (k == "pcache" && a.size() >= 2) {           // pool->cacheGrammar
                Grammar* g = mkG(a[1]);
                bool ok = pool->cacheGrammar(g);
                if (!ok) { orphans.push_back(g); }
                r = ok ? "1" : "0";
            } else if (k == "porphan" && a.size() >= 2) {   // pool->orphanGrammar
                XS key(a[1]);
                Grammar* g = pool->orphanGrammar(key);
                if (g) orphans.push_back(g);
                r = nameOf(g);
            } else if (k == "pget" && a.size() >= 2) {      // pool->retrieveGrammar(key)
                XS key(a[1]);
                XMLSchemaDescription* d = pool->createSchemaDescription(key);
                r = nameOf(pool->retrieveGrammar(d));
                delete d;
            } else if (k == "pclear") { r = pool->clear() ? "1" : "0"; }
            else if (k == "lock") { pool->lockPool(); r = "-"; }
            else if (k == "unlock") { pool->unlockPool(); r = "-"; }
            else if (k == "rput" && a.size() >= 2) {        // resolver->putGrammar
                Grammar* g = mkG(a[1]);
                res->putGrammar(g);
                r = nameOf(g);
            } else if (k == "rget" && a.size() >= 2) {      // resolver->getGrammar(key)
                XS key(a[1]);
                r = nameOf(res->getGrammar(key));
            } else if (k == "rcacheall") { res->cacheGrammars(); r = "-"; }
            else if (k == "rorphan" && a.size() >= 2) {
                XS key(a[1]);
                Grammar* g = res->orphanGrammar(key);
                if (g) orphans.push_back(g);
                r = nameOf(g);
            } else if (k == "rreset") { res->reset(); r = "-"; }
            else if (k == "rresetcached") { res->resetCachedGrammar(); r = "-"; }
            else if (k == "cachefromparse" && a.size() >= 2) { res->cacheGrammarFromParse(a[1] == "1"); r = "-"; }
            else if (k == "usecached" && a.size() >= 2) { res->useCachedGrammarInParse(a[1] == "1"); r = "-"; }
            else r = "?";
        });
        if (how.rfind("x:XML:NoSuchElementException", 0) == 0) how = "exc";     // RefHashTableOf::orphanKey on an absent key
        out += (how == "ok" ? r : how) + "[" + keysOfPool() + "] ";
    }
    delete res;
    pool->unlockPool();
    delete pool;
    // grammars handed back to the caller are not released here: the resolver's bucket may or may not have adopted
    // them depending on the path taken, and the trace is what is compared (process is short-lived)
    return out.empty() ? "-" : out;
}

// S: string pools
static std::string doStringPool(const std::vector<std::string>& t) {
    MemoryManager* mm = XMLPlatformUtils::fgMemoryManager;
    XMLStringPool constPool(109, mm);
    std::unique_ptr<XMLStringPool> sync;
    std::string out;
    XMLStringPool* cur = &constPool;
    for (size_t i = 1; i < t.size(); i++) {
        std::vector<std::string> a = splitc(t[i], ':');
        const std::string& k = a[0];
        std::string r = guarded([&] {
            if (k == "sync") { sync.reset(new XMLSynchronizedStringPool(&constPool, 109, mm)); cur = sync.get(); out += "- "; }
            else if (k == "plain") { cur = &constPool; out += "- "; }
            else if (k == "add" && a.size() >= 2) { XS s(a[1]); out += std::to_string(cur->addOrFind(s)) + " "; }
            else if (k == "id" && a.size() >= 2) { XS s(a[1]); out += std::to_string(cur->getId(s)) + " "; }
            else if (k == "exists" && a.size() >= 2) { XS s(a[1]); out += std::string(cur->exists(s) ? "1" : "0") + " "; }
            else if (k == "val" && a.size() >= 2) { unsigned id = (unsigned)atoi(a[1].c_str()); out += (cur->exists(id) ? esc(cur->getValueForId(id)) : std::string("(none)")) + " "; }
            else if (k == "count") { out += std::to_string(cur->getStringCount()) + " "; }
            else out += "? ";
        });
        if (r != "ok") out += r + " ";
    }
    return out.empty() ? "-" : out;
}

int main() {
    XMLPlatformUtils::Initialize();
    std::ios::sync_with_stdio(false);
    std::string line;
    while (std::getline(std::cin, line)) {
        std::vector<std::string> t = splitWs(line);
        std::string ans;
        if (t.empty()) ans = "bad-request";
        else if (t[0] == "D" && t.size() >= 3) { gDocs[t[1]] = unhex(t[2]); ans = "ok"; }
        else if (t[0] == "X" && t.size() >= 3) { gExt[t[1]] = unhex(t[2]); ans = "ok"; }
        else if (t[0] == "W" && t.size() >= 2) { gDir = t[1]; ans = "ok"; }
        else {
            std::string how = guarded([&] {
                if (t[0] == "H") ans = doHistory(t);
                else if (t[0] == "T") ans = doTransparent(t);
                else if (t[0] == "Q") ans = doFeatureSeq(t);
                else if (t[0] == "G") ans = doPoolTrace(t);
                else if (t[0] == "S") ans = doStringPool(t);
                else ans = "bad-request";
            });
            if (how != "ok") ans = "harness-exception " + how;
        }
        std::cout << ans << "\n" << std::flush;
    }
    XMLPlatformUtils::Terminate();
    return 0;
}
