// xh_C07: drives the real DTD validation with the same line protocol as bin/xm_C07 (extracted model).
//   cm <fuel> <declared csv|-> <model> <cmtext> <emptytag 0|1> <children csv|->
// builds   <!DOCTYPE r [ <!ELEMENT r cmtext> <!ELEMENT n<d> EMPTY>... ]> <r><n1/><n2/>...</r>
// parses it with validation always under IGXMLScanner and DGXMLScanner, collects (domain, type, code) of every
// reported error, dumps the ContentSpecNode tree the DTD scanner built for r (t=), and calls the content model
// object of r directly on the child names (v= verdict and *indexFailingChild).
//   answer: t=<model> v=<ok|fail:N|-> e=<codes csv|->
#include "xh_common.hpp"
#include <xercesc/parsers/SAXParser.hpp>
#include <xercesc/framework/MemBufInputSource.hpp>
#include <xercesc/framework/XMLValidityCodes.hpp>
#include <xercesc/framework/XMLContentModel.hpp>
#include <xercesc/validators/DTD/DTDGrammar.hpp>
#include <xercesc/validators/DTD/DTDElementDecl.hpp>
#include <xercesc/validators/common/ContentSpecNode.hpp>
#include <xercesc/validators/common/Grammar.hpp>
#include <xercesc/util/QName.hpp>
#include <xercesc/util/XMLUni.hpp>
#include <xercesc/util/RuntimeException.hpp>
#include <xercesc/sax/SAXParseException.hpp>
#include <xercesc/sax/SAXException.hpp>
#include <xercesc/sax/HandlerBase.hpp>
#include <xercesc/sax/AttributeList.hpp>
#include <memory>
#include <map>
#include <algorithm>
#include <cstring>

using namespace xh;

struct Rec {
    std::vector<std::string> codes;
    std::vector<std::string> attrs;   // attribute reports of the root element (name=value)
};

class CodeParser : public SAXParser {
public:
    Rec* rec = 0;
    void error(const unsigned int errCode, const XMLCh* const msgDomain, const XMLErrorReporter::ErrTypes errType,
               const XMLCh* const, const XMLCh* const, const XMLCh* const, const XMLFileLoc, const XMLFileLoc) override {
        std::string s;
        bool val = XMLString::equals(msgDomain, XMLUni::fgValidityDomain);
        s += val ? "V" : "X";
        if (errType == XMLErrorReporter::ErrType_Warning) s += "W";
        else if (errType == XMLErrorReporter::ErrType_Fatal) s += "F";
        else if (errType != XMLErrorReporter::ErrType_Error) s += "?";
        s += std::to_string(errCode);
        if (rec) rec->codes.push_back(s);
    }
};

struct AttrHandler : public HandlerBase {
    Rec* rec = 0;
    const std::string* ext = 0;     // if set: the text served for every external entity (the external DTD subset)
    const std::map<std::string, std::string>* files = 0;   // if set: system id (last path segment) -> text
    InputSource* resolveEntity(const XMLCh* const, const XMLCh* const systemId) override {
        if (files) {
            std::string sid = narrow(systemId);
            size_t p = sid.find_last_of('/');
            if (p != std::string::npos) sid = sid.substr(p + 1);
            auto it = files->find(sid);
            if (it == files->end()) return new MemBufInputSource((const XMLByte*)"", 0, systemId, false);
            return new MemBufInputSource((const XMLByte*)it->second.data(), it->second.size(), systemId, false);
        }
        if (!ext) return 0;
        return new MemBufInputSource((const XMLByte*)ext->data(), ext->size(), systemId, false);
    }
    // one entry per element in document order: its attributes as delivered, sorted, "name=value" (space -> '+')
    void startElement(const XMLCh* const, AttributeList& a) override {
        if (!rec) return;
        std::vector<std::string> l;
        for (XMLSize_t i = 0; i < a.getLength(); i++) {
            std::string v = narrow(a.getValue(i));
            for (char& c : v) if (c == ' ') c = '+';
            l.push_back(narrow(a.getName(i)) + "=" + v);
        }
        std::sort(l.begin(), l.end());
        std::string r;
        for (size_t i = 0; i < l.size(); i++) { if (i) r += ","; r += l[i]; }
        rec->attrs.push_back(l.empty() ? "-" : r);
    }
};

static std::vector<int> csv(const std::string& s) {
    std::vector<int> v;
    if (s == "-" || s.empty()) return v;
    std::istringstream is(s);
    std::string t;
    while (std::getline(is, t, ',')) v.push_back(atoi(t.c_str()));
    return v;
}

static std::string join(const std::vector<std::string>& v) {
    if (v.empty()) return "-";
    std::string r;
    for (size_t i = 0; i < v.size(); i++) { if (i) r += ","; r += v[i]; }
    return r;
}

static std::string dumpSpec(const ContentSpecNode* n) {
    if (!n) return "NULL";
    switch (n->getType()) {
    case ContentSpecNode::Leaf: {
        if (n->getElement()->getURI() == XMLElementDecl::fgPCDataElemId) return "PCDATA";
        std::string nm = narrow(n->getElement()->getRawName());
        return "L" + (nm.size() > 1 && nm[0] == 'n' ? nm.substr(1) : "?" + nm);
    }
    case ContentSpecNode::Sequence: return "S." + dumpSpec(n->getFirst()) + "." + dumpSpec(n->getSecond());
    case ContentSpecNode::Choice: return "C." + dumpSpec(n->getFirst()) + "." + dumpSpec(n->getSecond());
    case ContentSpecNode::ZeroOrOne: return "O." + dumpSpec(n->getFirst());
    case ContentSpecNode::ZeroOrMore: return "T." + dumpSpec(n->getFirst());
    case ContentSpecNode::OneOrMore: return "P." + dumpSpec(n->getFirst());
    default: return "?type" + std::to_string((int)n->getType());
    }
}

// leaves of a mixed spec, left to right, without the #PCDATA leaf
static void mixedLeaves(const ContentSpecNode* n, std::vector<std::string>& out, bool& sawPCData) {
    if (!n) return;
    if (n->getType() == ContentSpecNode::Leaf) {
        if (n->getElement()->getURI() == XMLElementDecl::fgPCDataElemId) { sawPCData = true; return; }
        std::string nm = narrow(n->getElement()->getRawName());
        out.push_back(nm.size() > 1 && nm[0] == 'n' ? nm.substr(1) : "?" + nm);
        return;
    }
    mixedLeaves(n->getFirst(), out, sawPCData);
    mixedLeaves(n->getSecond(), out, sawPCData);
}

static std::string runOne(const XMLCh* scanner, const std::string& doc, Rec& rec, bool wantTree,
                          const std::vector<int>& kids, std::string& tree, std::string& verdict,
                          bool validate = true, const std::string* ext = 0, bool ns = false,
                          const std::map<std::string, std::string>* files = 0) {
    CodeParser p;
    AttrHandler ah;
    ah.rec = &rec;
    ah.ext = ext;
    ah.files = files;
    p.rec = &rec;
    p.useScanner(scanner);
    p.setValidationScheme(validate ? SAXParser::Val_Always : SAXParser::Val_Never);
    p.setDoNamespaces(ns);
    p.setDocumentHandler(&ah);
    if (ext || files) p.setEntityResolver(&ah);
    p.setErrorHandler(&ah);   // installs the parser as the scanner's XMLErrorReporter (our override records codes)
    try {
        MemBufInputSource src((const XMLByte*)doc.data(), doc.size(), "mem", false);
        p.parse(src);
    } catch (const OutOfMemoryException&) {
        return "oom";
    } catch (const XMLException& e) {
        return "exc:" + exceptString(e);
    } catch (const SAXParseException&) {
        return "saxparse";
    } catch (const SAXException&) {
        return "sax";
    } catch (...) {
        return "unknown-exception";
    }
    if (!wantTree) return "";
    try {
        Grammar* g = p.getRootGrammar();
        if (!g || g->getGrammarType() != Grammar::DTDGrammarType) { tree = "nogrammar"; verdict = "nogrammar"; return ""; }
        DTDGrammar* dg = (DTDGrammar*)g;
        XMLCh rname[2] = { chLatin_r, 0 };
        unsigned int emptyNs = 0;
        // the empty namespace id of the scanner: element decls of a DTD are all stored under it
        DTDElementDecl* ed = 0;
        NameIdPoolEnumerator<DTDElementDecl> en = dg->getElemEnumerator();
        while (en.hasMoreElements()) {
            DTDElementDecl& d = en.nextElement();
            if (XMLString::equals(d.getFullName(), rname)) { ed = &d; emptyNs = d.getURI(); break; }
        }
        if (!ed) { tree = "noroot"; verdict = "noroot"; return ""; }
        switch (ed->getModelType()) {
        case DTDElementDecl::Empty: tree = "E"; verdict = "-"; return "";
        case DTDElementDecl::Any: tree = "A"; verdict = "-"; return "";
        case DTDElementDecl::Mixed_Simple: {
            std::vector<std::string> l;
            bool pc = false;
            mixedLeaves(ed->getContentSpec(), l, pc);
            tree = std::string(pc ? "M:" : "M?:");
            for (size_t i = 0; i < l.size(); i++) { if (i) tree += ","; tree += l[i]; }
            break;
        }
        case DTDElementDecl::Children: tree = "K:" + dumpSpec(ed->getContentSpec()); break;
        default: tree = "?modeltype"; break;
        }
        XMLContentModel* cm = ed->getContentModel();
        std::vector<std::unique_ptr<QName>> owned;
        std::vector<QName*> arr;
        for (int k : kids) {
            std::string nm = "n" + std::to_string(k);
            XMLCh* x = XMLString::transcode(nm.c_str());
            owned.emplace_back(new QName(XMLUni::fgZeroLenString, x, emptyNs));
            XMLString::release(&x);
            arr.push_back(owned.back().get());
        }
        arr.push_back(0);   // canary slot
        XMLSize_t failing = 987654321;
        bool ok = cm->validateContent(arr.data(), kids.size(), emptyNs, &failing);
        verdict = ok ? "ok" : "fail:" + std::to_string(failing);
    } catch (const XMLException& e) {
        verdict = "exc:" + exceptString(e);
    } catch (...) {
        verdict = "unknown-exception";
    }
    return "";
}

static std::string doCm(const std::vector<std::string>& a) {
    std::vector<int> decl = csv(a[2]);
    const std::string& text = a[4];
    bool emptytag = a[5] == "1";
    std::vector<int> kids = csv(a[6]);
    std::string doc = "<?xml version=\"1.0\"?>\n<!DOCTYPE r [\n<!ELEMENT r " + text + ">\n";
    for (int d : decl) doc += "<!ELEMENT n" + std::to_string(d) + " EMPTY>\n";
    doc += "]>\n";
    if (emptytag && kids.empty()) doc += "<r/>";
    else {
        doc += "<r>";
        for (int k : kids) doc += "<n" + std::to_string(k) + "/>";
        doc += "</r>";
    }
    doc += "\n";
    Rec ig, dgr;
    std::string tree, verdict, t2, v2;
    std::string x1 = runOne(XMLUni::fgIGXMLScanner, doc, ig, true, kids, tree, verdict);
    std::string x2 = runOne(XMLUni::fgDGXMLScanner, doc, dgr, true, kids, t2, v2);
    std::string e;
    if (!x1.empty() || !x2.empty()) e = "IG:" + x1 + "/" + join(ig.codes) + ";DG:" + x2 + "/" + join(dgr.codes);
    else if (ig.codes != dgr.codes || tree != t2 || verdict != v2)
        e = "IG:" + join(ig.codes) + "/" + tree + "/" + verdict + ";DG:" + join(dgr.codes) + "/" + t2 + "/" + v2;
    else e = join(ig.codes);
    return "t=" + tree + " v=" + verdict + " e=" + e;
}

// doc <v|n> <hex of the UTF-8 document> [<hex of the external DTD subset>]: parse under both scanners with validation always (v) or never (n);
// answer: e=<codes> a=<attributes of the root element as delivered: name=value:type>
static std::string doDoc(const std::vector<std::string>& a) {
    std::vector<uint32_t> b = parseHex(a[2], 2);
    std::string doc;
    for (uint32_t c : b) doc += (char)c;
    bool validate = a[1] == "v";
    std::string ext;
    if (a.size() == 4) { std::vector<uint32_t> eb = parseHex(a[3], 2); for (uint32_t c : eb) ext += (char)c; }
    const std::string* extp = a.size() == 4 ? &ext : 0;
    Rec ig, dgr;
    std::string t, v;
    std::vector<int> none;
    std::string x1 = runOne(XMLUni::fgIGXMLScanner, doc, ig, false, none, t, v, validate, extp);
    std::string x2 = runOne(XMLUni::fgDGXMLScanner, doc, dgr, false, none, t, v, validate, extp);
    std::string e;
    if (!x1.empty() || !x2.empty()) e = "IG:" + x1 + "/" + join(ig.codes) + ";DG:" + x2 + "/" + join(dgr.codes);
    else if (ig.codes != dgr.codes || ig.attrs != dgr.attrs)
        e = "IG:" + join(ig.codes) + "/" + join(ig.attrs) + ";DG:" + join(dgr.codes) + "/" + join(dgr.attrs);
    else e = join(ig.codes);
    return "e=" + e + " a=" + join(ig.attrs);
}

// docx <v|n> <hex document> <name>=<hex>,<name>=<hex>,... : like doc, external entities served by system id
static std::string doDocx(const std::vector<std::string>& a) {
    auto unhex = [](const std::string& h) { std::vector<uint32_t> b = parseHex(h, 2); std::string s; for (uint32_t c : b) s += (char)c; return s; };
    std::string doc = unhex(a[2]);
    std::map<std::string, std::string> files;
    std::istringstream is(a[3]);
    std::string item;
    while (std::getline(is, item, ',')) {
        size_t p = item.find('=');
        if (p == std::string::npos) continue;
        std::string h = item.substr(p + 1);
        files[item.substr(0, p)] = h == "-" ? std::string() : unhex(h);
    }
    bool validate = a[1] == "v";
    Rec ig, dgr;
    std::string t, v;
    std::vector<int> none;
    std::string x1 = runOne(XMLUni::fgIGXMLScanner, doc, ig, false, none, t, v, validate, 0, false, &files);
    std::string x2 = runOne(XMLUni::fgDGXMLScanner, doc, dgr, false, none, t, v, validate, 0, false, &files);
    std::string e;
    if (!x1.empty() || !x2.empty()) e = "IG:" + x1 + "/" + join(ig.codes) + ";DG:" + x2 + "/" + join(dgr.codes);
    else if (ig.codes != dgr.codes || ig.attrs != dgr.attrs)
        e = "IG:" + join(ig.codes) + "/" + join(ig.attrs) + ";DG:" + join(dgr.codes) + "/" + join(dgr.attrs);
    else e = join(ig.codes);
    return "e=" + e + " a=" + join(ig.attrs);
}

static std::string joinWith(const std::vector<std::string>& v, const char* sep) {
    std::string r;
    for (size_t i = 0; i < v.size(); i++) { if (i) r += sep; r += v[i]; }
    return r;
}

// attr <sw> <unparsed> <parsed> <defs> <doc> <hex>: the document text is in <hex>; validate under both scanners,
// report the sorted codes and the delivered attributes; additionally parse without validation and require the same
// delivered attributes and no error at all (the documents are well-formed)
static std::string doAttr(const std::vector<std::string>& a) {
    std::vector<uint32_t> b = parseHex(a[6], 2);
    std::string doc;
    for (uint32_t c : b) doc += (char)c;
    Rec ig, dgr, nv, nv2;
    std::string t, v;
    std::vector<int> none;
    std::string x1 = runOne(XMLUni::fgIGXMLScanner, doc, ig, false, none, t, v, true);
    std::string x2 = runOne(XMLUni::fgDGXMLScanner, doc, dgr, false, none, t, v, true);
    std::string x3 = runOne(XMLUni::fgIGXMLScanner, doc, nv, false, none, t, v, false);
    std::string x4 = runOne(XMLUni::fgDGXMLScanner, doc, nv2, false, none, t, v, false);
    // the namespace-aware start-tag paths (scanStartTagNS / buildAttList) must behave the same: no name has a colon
    Rec igns, dgns, nvns;
    std::string x5 = runOne(XMLUni::fgIGXMLScanner, doc, igns, false, none, t, v, true, 0, true);
    std::string x6 = runOne(XMLUni::fgDGXMLScanner, doc, dgns, false, none, t, v, true, 0, true);
    std::string x7 = runOne(XMLUni::fgIGXMLScanner, doc, nvns, false, none, t, v, false, 0, true);
    std::sort(ig.codes.begin(), ig.codes.end());
    std::sort(dgr.codes.begin(), dgr.codes.end());
    std::sort(igns.codes.begin(), igns.codes.end());
    std::sort(dgns.codes.begin(), dgns.codes.end());
    std::string r;
    if (!x1.empty() || !x2.empty() || !x3.empty() || !x4.empty() || !x5.empty() || !x6.empty() || !x7.empty())
        return "exception IG:" + x1 + " DG:" + x2 + " IGnv:" + x3 + " DGnv:" + x4 + " IGns:" + x5 + " DGns:" + x6 + " IGnsnv:" + x7;
    if (ig.codes != dgr.codes || ig.attrs != dgr.attrs)
        return "scanners-differ IG:" + join(ig.codes) + " " + joinWith(ig.attrs, "/") + " DG:" + join(dgr.codes) + " " + joinWith(dgr.attrs, "/");
    if (ig.codes != igns.codes || ig.attrs != igns.attrs || ig.codes != dgns.codes || ig.attrs != dgns.attrs)
        return "scanners-differ (namespaces on) IG:" + join(ig.codes) + " " + joinWith(ig.attrs, "/") + " IGns:" + join(igns.codes) + " "
               + joinWith(igns.attrs, "/") + " DGns:" + join(dgns.codes) + " " + joinWith(dgns.attrs, "/");
    if (nvns.attrs != ig.attrs || !nvns.codes.empty())
        return "e=" + join(ig.codes) + " a=" + joinWith(ig.attrs, "/") + " NONVALIDATING-DIFFERS (namespaces on) a=" + joinWith(nvns.attrs, "/") + " e=" + join(nvns.codes);
    r = "e=" + join(ig.codes) + " a=" + joinWith(ig.attrs, "/");
    if (nv.attrs != ig.attrs || nv2.attrs != ig.attrs || !nv.codes.empty() || !nv2.codes.empty())
        r += " NONVALIDATING-DIFFERS a=" + joinWith(nv.attrs, "/") + " e=" + join(nv.codes) + " DG a=" + joinWith(nv2.attrs, "/") + " e=" + join(nv2.codes);
    return r;
}

// scan <lim> <tokens>: the content spec of <!ELEMENT r ...> given as tokens ( ) , | ? * + _ (space) # (#PCDATA) E A n<k>;
// parsed WITHOUT validation; answer t=<tree the DTD scanner built> or E:<first error code reported>
static std::string doScan(const std::vector<std::string>& a) {
    std::string text;
    for (char c : a[2]) {
        if (c == '_') text += ' ';
        else if (c == '#') text += "#PCDATA";
        else if (c == 'E') text += "EMPTY";
        else if (c == 'A') text += "ANY";
        else text += c;
    }
    std::string doc = "<?xml version=\"1.0\"?>\n<!DOCTYPE r [\n<!ELEMENT r " + text + ">\n]>\n<r/>\n";
    Rec ig, dgr;
    std::string tree, verdict, t2, v2;
    std::vector<int> none;
    std::string x1 = runOne(XMLUni::fgIGXMLScanner, doc, ig, true, none, tree, verdict, false);
    std::string x2 = runOne(XMLUni::fgDGXMLScanner, doc, dgr, true, none, t2, v2, false);
    std::string r1 = !ig.codes.empty() ? "E:" + ig.codes[0] : (!x1.empty() ? "X:" + x1 : "t=" + tree);
    std::string r2 = !dgr.codes.empty() ? "E:" + dgr.codes[0] : (!x2.empty() ? "X:" + x2 : "t=" + t2);
    if (r1 != r2) return "scanners-differ IG:" + r1 + " DG:" + r2;
    return r1;
}

int main() {
    XMLPlatformUtils::Initialize();
    std::string line;
    while (std::getline(std::cin, line)) {
        std::vector<std::string> a = splitWs(line);
        if (a.empty()) continue;
        std::string r = "bad-request";
        try {
            if (a.size() == 7 && a[0] == "cm") r = doCm(a);
            else if ((a.size() == 3 || a.size() == 4) && a[0] == "doc") r = doDoc(a);
            else if (a.size() == 4 && a[0] == "docx") r = doDocx(a);
            else if (a.size() == 3 && a[0] == "scan") r = doScan(a);
            else if ((a.size() == 7 || a.size() == 8) && (a[0] == "attr" || a[0] == "tattr")) r = doAttr(a);
        } catch (...) {
            r = "harness-exception";
        }
        std::cout << r << "\n";
    }
    std::cout.flush();
    return 0;
}
