// xh_C14: history interpreter over a real xerces-c DOM document with simultaneously live NodeIterators, TreeWalkers,
// getElementsByTagName lists and Ranges.  Same line protocol as bin/xm_C14 (extracted model / spec).
//
// request line :  <filter table: 7 digits 1=accept 2=reject 3=skip for names a b c d e #text #comment>  op op op ...
// answer line  :  one token per op (+ "{range dump}" when ranges exist), "CRASH" if the library died (the history is
//                 run in a forked child so that the batch survives).
// Node ids: 0 = the document, 1 = the document element <a>, then one fresh id per created node (ne/nt/nc/split).
#include "xh_common.hpp"
#include <xercesc/dom/DOM.hpp>
#include <xercesc/dom/DOMNodeFilter.hpp>
#include <xercesc/dom/DOMNodeIterator.hpp>
#include <xercesc/dom/DOMTreeWalker.hpp>
#include <xercesc/dom/DOMRange.hpp>
#include <xercesc/dom/DOMRangeException.hpp>
#include <xercesc/dom/DOMDocumentTraversal.hpp>
#include <xercesc/dom/DOMDocumentRange.hpp>
#include <xercesc/dom/DOMDocumentFragment.hpp>
#include <xercesc/parsers/XercesDOMParser.hpp>
#include <xercesc/framework/MemBufInputSource.hpp>
#include <map>
#include <unistd.h>
#include <sys/wait.h>
#include <cstring>

using namespace xh;

struct TableFilter : public DOMNodeFilter {
    int tab[7];
    virtual FilterAction acceptNode(const DOMNode* n) const {
        int k;
        switch (n->getNodeType()) {
        case DOMNode::ELEMENT_NODE: { XMLCh c = n->getNodeName()[0]; k = (c >= 'a' && c <= 'e') ? c - 'a' : 0; break; }
        case DOMNode::TEXT_NODE: k = 5; break;
        case DOMNode::COMMENT_NODE: k = 6; break;
        default: return FILTER_ACCEPT;           // the document node
        }
        return (FilterAction)tab[k];
    }
};

struct Hist {
    DOMDocument* doc;
    std::vector<DOMNode*> nodes;
    std::map<const DOMNode*, int> idOf;
    std::vector<DOMNodeIterator*> its;      // 0 when detached
    std::vector<DOMTreeWalker*> tws;
    std::vector<DOMNodeList*> lists;
    std::vector<DOMRange*> rgs;             // 0 when detached
    TableFilter filter;

    int reg(DOMNode* n) { nodes.push_back(n); idOf[n] = (int)nodes.size() - 1; return (int)nodes.size() - 1; }
    std::string nid(const DOMNode* n) {
        if (!n) return "null";
        auto it = idOf.find(n);
        if (it == idOf.end()) return "n?";
        return "n" + std::to_string(it->second);
    }
    DOMNode* node(const std::string& s) {
        if (s == "-") return 0;
        int i = atoi(s.c_str());
        if (i < 0 || i >= (int)nodes.size()) return 0;
        return nodes[i];
    }
    bool inTree(const DOMNode* n) {
        for (; n; n = n->getParentNode()) if (n == doc) return true;
        return false;
    }
    // ---- independent validity check of a live range, computed on the DOM only ------------------------------
    static size_t lengthOf(const DOMNode* n) {
        short t = n->getNodeType();
        if (t == DOMNode::TEXT_NODE || t == DOMNode::COMMENT_NODE) return XMLString::stringLen(n->getNodeValue());
        size_t k = 0;
        for (DOMNode* c = n->getFirstChild(); c; c = c->getNextSibling()) k++;
        return k;
    }
    std::vector<size_t> pathOf(const DOMNode* n, size_t off) {
        std::vector<size_t> rev;
        rev.push_back(off);
        for (; n && n != doc; n = n->getParentNode()) {
            size_t i = 0;
            for (DOMNode* p = n->getPreviousSibling(); p; p = p->getPreviousSibling()) i++;
            rev.push_back(i);
        }
        return std::vector<size_t>(rev.rbegin(), rev.rend());
    }
    bool rangeValid(DOMRange* r) {
        DOMNode* sc = r->getStartContainer(); DOMNode* ec = r->getEndContainer();
        if (!sc || !ec) return false;
        if (!inTree(sc) || !inTree(ec)) return false;
        if (r->getStartOffset() > lengthOf(sc) || r->getEndOffset() > lengthOf(ec)) return false;
        std::vector<size_t> a = pathOf(sc, r->getStartOffset()), b = pathOf(ec, r->getEndOffset());
        return !(b < a);                     // lexicographic: start not after end
    }
    // ---- a DocumentFragment in the notation of the model: kind, #id of a moved document node or * for a new node,
    //      value, children
    std::string showFrag(const DOMNode* n) {
        std::string s;
        switch (n->getNodeType()) {
        case DOMNode::ELEMENT_NODE: s = "e"; break;
        case DOMNode::TEXT_NODE: s = "t"; break;
        case DOMNode::COMMENT_NODE: s = "c"; break;
        case DOMNode::DOCUMENT_NODE: s = "d"; break;
        default: s = "?"; break;
        }
        auto it = idOf.find(n);
        s += (it == idOf.end()) ? std::string("*") : "#" + std::to_string(it->second);
        std::string v = narrow(n->getNodeType() == DOMNode::ELEMENT_NODE ? n->getNodeName() : n->getNodeValue());
        s += "=" + (v.empty() ? std::string("-") : v) + "(";
        for (DOMNode* c = n->getFirstChild(); c; c = c->getNextSibling()) s += showFrag(c);
        return s + ")";
    }
    void movedTops(DOMNode* n, std::vector<DOMNode*>& out) {
        for (DOMNode* c = n->getFirstChild(); c; c = c->getNextSibling()) {
            if (idOf.find(c) != idOf.end()) out.push_back(c);      // a moved node: its subtree is all moved nodes
            else movedTops(c, out);
        }
    }
    std::string dumpRanges() {
        if (rgs.empty()) return "";
        std::string s = "{";
        for (size_t i = 0; i < rgs.size(); i++) {
            if (i) s += "|";
            DOMRange* r = rgs[i];
            if (!r) { s += "x"; continue; }
            s += nid(r->getStartContainer()).substr(1) + "." + std::to_string(r->getStartOffset()) + "." +
                 nid(r->getEndContainer()).substr(1) + "." + std::to_string(r->getEndOffset()) + "." +
                 (r->getCollapsed() ? "1" : "0");
            if (!rangeValid(r)) s += "!INV";
        }
        return s + "}";
    }
};

static std::vector<std::string> splitColon(const std::string& s) {
    std::vector<std::string> v; std::string cur;
    for (char c : s) { if (c == ':') { v.push_back(cur); cur.clear(); } else cur += c; }
    v.push_back(cur);
    return v;
}
static std::vector<XMLCh> wide(const std::string& s) {
    std::vector<XMLCh> v;
    if (s != "-") for (char c : s) v.push_back((XMLCh)(unsigned char)c);
    v.push_back(0);
    return v;
}

static std::string doOp(Hist& h, const std::string& tok) {
    std::vector<std::string> a = splitColon(tok);
    const std::string& op = a[0];
    auto A = [&](size_t i) -> std::string { return i < a.size() ? a[i] : std::string("-"); };
    auto I = [&](size_t i) -> long { return atol(A(i).c_str()); };
    try {
        // ---- node creation ----
        if (op == "ne") { std::vector<XMLCh> w = wide(A(1)); return "n" + std::to_string(h.reg(h.doc->createElement(w.data()))); }
        if (op == "nt") { std::vector<XMLCh> w = wide(A(1)); return "n" + std::to_string(h.reg(h.doc->createTextNode(w.data()))); }
        if (op == "nc") { std::vector<XMLCh> w = wide(A(1)); return "n" + std::to_string(h.reg(h.doc->createComment(w.data()))); }
        // ---- tree mutation ----
        if (op == "ins") {
            DOMNode* p = h.node(A(1)); DOMNode* n = h.node(A(2)); DOMNode* r = h.node(A(3));
            if (!p || !n || p == h.doc || n == h.doc || n == h.nodes[1] || p == n || (A(3) != "-" && !r)) return "guard";
            p->insertBefore(n, r);
            return "ok";
        }
        if (op == "rm") {
            DOMNode* x = h.node(A(1));
            if (!x || x == h.doc || x == h.nodes[1] || !x->getParentNode()) return "guard";
            x->getParentNode()->removeChild(x);
            return "ok";
        }
        if (op == "idata" || op == "ddata" || op == "rdata" || op == "sdata" || op == "adata" || op == "split") {
            DOMNode* x = h.node(A(1));
            if (!x || (x->getNodeType() != DOMNode::TEXT_NODE && x->getNodeType() != DOMNode::COMMENT_NODE)) return "guard";
            DOMCharacterData* cd = (DOMCharacterData*)x;
            if (op == "idata") { std::vector<XMLCh> w = wide(A(3)); cd->insertData(I(2), w.data()); }
            else if (op == "ddata") cd->deleteData(I(2), I(3));
            else if (op == "rdata") { std::vector<XMLCh> w = wide(A(4)); cd->replaceData(I(2), I(3), w.data()); }
            else if (op == "sdata") { std::vector<XMLCh> w = wide(A(2)); cd->setData(w.data()); }
            else if (op == "adata") { std::vector<XMLCh> w = wide(A(2)); cd->appendData(w.data()); }
            else {
                if (x->getNodeType() != DOMNode::TEXT_NODE) return "guard";
                DOMText* nt = ((DOMText*)x)->splitText(I(2));
                return "n" + std::to_string(h.reg(nt));
            }
            return "ok";
        }
        if (op == "val") {                    // observe a node: value / child ids
            DOMNode* x = h.node(A(1));
            if (!x) return "guard";
            if (x->getNodeType() == DOMNode::TEXT_NODE || x->getNodeType() == DOMNode::COMMENT_NODE) {
                std::string s = narrow(x->getNodeValue());
                return "v=" + (s.empty() ? std::string("-") : s);
            }
            std::string s = "k=";
            for (DOMNode* c = x->getFirstChild(); c; c = c->getNextSibling()) s += h.nid(c).substr(1) + ".";
            return s;
        }
        // ---- NodeIterator ----
        if (op == "it") {
            DOMNode* r = h.node(A(1));
            if (!r || !h.inTree(r)) return "guard";
            h.its.push_back(h.doc->createNodeIterator(r, (DOMNodeFilter::ShowType)I(2), I(3) ? &h.filter : 0, true));
            return "I" + std::to_string(h.its.size() - 1);
        }
        if (op == "in" || op == "ip" || op == "id") {
            long k = I(1);
            if (k < 0 || k >= (long)h.its.size() || !h.its[k]) return "guard";
            if (op == "in") return h.nid(h.its[k]->nextNode());
            if (op == "ip") return h.nid(h.its[k]->previousNode());
            h.its[k]->detach(); h.its[k] = 0; return "ok";
        }
        // ---- TreeWalker ----
        if (op == "tw") {
            DOMNode* r = h.node(A(1));
            if (!r || !h.inTree(r)) return "guard";
            h.tws.push_back(h.doc->createTreeWalker(r, (DOMNodeFilter::ShowType)I(2), I(3) ? &h.filter : 0, true));
            return "W" + std::to_string(h.tws.size() - 1);
        }
        if (op[0] == 'w') {
            long k = I(1);
            if (k < 0 || k >= (long)h.tws.size()) return "guard";
            DOMTreeWalker* w = h.tws[k];
            if (op == "wp") return h.nid(w->parentNode());
            if (op == "wf") return h.nid(w->firstChild());
            if (op == "wl") return h.nid(w->lastChild());
            if (op == "wps") return h.nid(w->previousSibling());
            if (op == "wns") return h.nid(w->nextSibling());
            if (op == "wn") return h.nid(w->nextNode());
            if (op == "wpn") return h.nid(w->previousNode());
            if (op == "wg") return h.nid(w->getCurrentNode());
            if (op == "wc") { DOMNode* x = h.node(A(2)); if (!x) return "guard"; w->setCurrentNode(x); return "ok"; }
            return "badop";
        }
        // ---- getElementsByTagName ----
        if (op == "dl") {
            DOMNode* r = h.node(A(1));
            if (!r || (r != h.doc && r->getNodeType() != DOMNode::ELEMENT_NODE)) return "guard";
            std::vector<XMLCh> w = wide(A(2));
            DOMNodeList* l = (r == h.doc) ? h.doc->getElementsByTagName(w.data()) : ((DOMElement*)r)->getElementsByTagName(w.data());
            for (size_t i = 0; i < h.lists.size(); i++) if (h.lists[i] == l) return "L" + std::to_string(i);
            h.lists.push_back(l);
            return "L" + std::to_string(h.lists.size() - 1);
        }
        if (op == "dn" || op == "di") {
            long k = I(1);
            if (k < 0 || k >= (long)h.lists.size()) return "guard";
            if (op == "dn") return "len" + std::to_string(h.lists[k]->getLength());
            return h.nid(h.lists[k]->item(I(2)));
        }
        // ---- Range ----
        if (op == "rg") { h.rgs.push_back(h.doc->createRange()); return "R" + std::to_string(h.rgs.size() - 1); }
        if (op[0] == 'r') {
            long k = I(1);
            if (k < 0 || k >= (long)h.rgs.size() || !h.rgs[k]) { if (op == "rinsn") h.nodes.push_back(0); return "guard"; }
            DOMRange* r = h.rgs[k];
            if (op == "rd") { r->detach(); h.rgs[k] = 0; return "ok"; }
            if (op == "rc") { r->collapse(I(2) != 0); return "ok"; }
            if (op == "rcmp") {
                long k2 = I(3);
                if (k2 < 0 || k2 >= (long)h.rgs.size() || !h.rgs[k2]) return "guard";
                return "c" + std::to_string((int)r->compareBoundaryPoints((DOMRange::CompareHow)I(2), h.rgs[k2]));
            }
            if (op == "rstr") { std::string t = narrow(r->toString()); return "s=" + (t.empty() ? std::string("-") : t); }
            if (op == "rdel") { r->deleteContents(); return "ok"; }
            if (op == "rclone" || op == "rext") {
                DOMDocumentFragment* fr = (op == "rclone") ? r->cloneContents() : r->extractContents();
                std::string out = "f=";
                if (!fr || !fr->getFirstChild()) out += "-";
                else for (DOMNode* c = fr->getFirstChild(); c; c = c->getNextSibling()) out += h.showFrag(c);
                if (fr && op == "rext") {
                    // dissolve the fragment: every moved document node whose parent is a new node (the fragment or a
                    // clone) is detached again, in document order -- the history language has no ids for new nodes
                    std::vector<DOMNode*> tops;
                    h.movedTops(fr, tops);
                    for (DOMNode* t : tops) t->getParentNode()->removeChild(t);
                }
                return out;
            }
            if (op == "rinsn") {
                // every insertNode uses up exactly one node id: the node created by the split, or a burnt one
                DOMNode* n = h.node(A(2));
                DOMNode* sc = r->getStartContainer();
                bool cd = sc && (sc->getNodeType() == DOMNode::TEXT_NODE || sc->getNodeType() == DOMNode::COMMENT_NODE);
                DOMNode* par = cd ? sc->getParentNode() : sc;
                if (!par || !n || n == h.doc || n == h.nodes[1] || par == h.doc || par == n) { h.nodes.push_back(0); return "guard"; }
                std::string res = "ok";
                try { r->insertNode(n); }
                catch (const DOMRangeException& e) { res = "rerr" + std::to_string((int)e.code); }
                catch (const DOMException& e) { res = "err" + std::to_string((int)e.code); }
                DOMNode* created = 0;
                for (DOMNode* c = par->getFirstChild(); c; c = c->getNextSibling()) if (h.idOf.find(c) == h.idOf.end()) created = c;
                if (created) res += "+n" + std::to_string(h.reg(created)); else h.nodes.push_back(0);
                return res;
            }
            DOMNode* x = h.node(A(2));
            if (!x || !h.inTree(x)) return "guard";
            if (op == "rs") { r->setStart(x, I(3)); return "ok"; }
            if (op == "re") { r->setEnd(x, I(3)); return "ok"; }
            if (op == "rselc") { r->selectNodeContents(x); return "ok"; }
            if (x == h.doc) return "guard";
            if (op == "rsb") { r->setStartBefore(x); return "ok"; }
            if (op == "rsa") { r->setStartAfter(x); return "ok"; }
            if (op == "reb") { r->setEndBefore(x); return "ok"; }
            if (op == "rea") { r->setEndAfter(x); return "ok"; }
            if (op == "rsel") { r->selectNode(x); return "ok"; }
            return "badop";
        }
        return "badop";
    } catch (const DOMRangeException& e) {
        return "rerr" + std::to_string((int)e.code);
    } catch (const DOMException& e) {
        return "err" + std::to_string((int)e.code);
    } catch (const XMLException& e) {
        return "xmlexc";
    } catch (...) {
        return "exc";
    }
}

// ---- getElementById histories (request lines starting with IDMAP) ---------------------------------------------
// elements only; at most one attribute "id" per element.  get:<value> prints getElementById's answer and, when it
// differs, what a linear scan of the document tree for an element carrying that ID says ("!SCAN=").
struct IdHist {
    DOMDocument* doc;
    std::vector<DOMElement*> els;      // index = id; 0 = placeholder for the document
    std::map<const DOMNode*, int> idOf;
    std::string nid(const DOMNode* n) {
        if (!n) return "null";
        auto it = idOf.find(n);
        return it == idOf.end() ? std::string("n?") : "n" + std::to_string(it->second);
    }
    DOMElement* scan(DOMNode* n, const XMLCh* attrName, const XMLCh* v) {
        for (DOMNode* c = n->getFirstChild(); c; c = c->getNextSibling()) {
            if (c->getNodeType() != DOMNode::ELEMENT_NODE) continue;
            DOMAttr* a = ((DOMElement*)c)->getAttributeNode(attrName);
            if (a && a->isId() && XMLString::equals(a->getValue(), v)) return (DOMElement*)c;
            DOMElement* r = scan(c, attrName, v);
            if (r) return r;
        }
        return 0;
    }
};
static std::string doIdOp(IdHist& h, const std::string& tok) {
    static const XMLCh kId[] = { 'i', 'd', 0 };
    static const XMLCh kE[] = { 'e', 0 };
    std::vector<std::string> a = splitColon(tok);
    auto E = [&](size_t i) -> DOMElement* {
        if (i >= a.size()) return 0;
        long k = atol(a[i].c_str());
        return (k >= 1 && k < (long)h.els.size()) ? h.els[k] : 0;
    };
    try {
        const std::string& op = a[0];
        if (op == "parse") {
            // a parsed document whose DTD declares the attribute "id" of <e> as ID: <a><e id="v1"/><e id="v2"/>...</a>;
            // the parser registers the ID attributes; the elements get the ids 2, 3, ... in document order
            if (h.els.size() != 2 || a.size() < 2) return "guard";
            std::string xml = "<!DOCTYPE a [<!ELEMENT a (e*)><!ELEMENT e (e*)><!ATTLIST e id ID #IMPLIED>]><a>";
            std::string cur;
            for (char c : a[1] + ",") { if (c == ',') { if (!cur.empty()) xml += "<e id=\"" + cur + "\"/>"; cur.clear(); } else cur += c; }
            xml += "</a>";
            XercesDOMParser* parser = new XercesDOMParser();
            parser->setValidationScheme(XercesDOMParser::Val_Never);
            MemBufInputSource src((const XMLByte*)xml.data(), xml.size(), "c14-idmap");
            parser->parse(src);
            DOMDocument* d = parser->adoptDocument();
            if (!d || !d->getDocumentElement()) return "parsefail";
            h.doc = d;
            h.idOf.clear();
            h.els[1] = d->getDocumentElement();
            h.idOf[h.els[1]] = 1;
            for (DOMNode* c = h.els[1]->getFirstChild(); c; c = c->getNextSibling())
                if (c->getNodeType() == DOMNode::ELEMENT_NODE) { h.els.push_back((DOMElement*)c); h.idOf[c] = (int)h.els.size() - 1; }
            return "ok";
        }
        if (op == "ne") { DOMElement* e = h.doc->createElement(kE); h.els.push_back(e); h.idOf[e] = (int)h.els.size() - 1; return h.nid(e); }
        if (op == "app") {
            DOMElement* p = E(1); DOMElement* n = E(2);
            if (!p || !n || n == h.els[1]) return "guard";
            for (DOMNode* x = p; x; x = x->getParentNode()) if (x == n) return "guard";
            p->appendChild(n); return "ok";
        }
        if (op == "rm") {
            DOMElement* x = E(1);
            if (!x || x == h.els[1] || !x->getParentNode()) return "guard";
            x->getParentNode()->removeChild(x); return "ok";
        }
        if (op == "sa") { DOMElement* e = E(1); if (!e) return "guard"; std::vector<XMLCh> w = wide(a.size() > 2 ? a[2] : "-"); e->setAttribute(kId, w.data()); return "ok"; }
        if (op == "sid") { DOMElement* e = E(1); if (!e) return "guard"; e->setIdAttribute(kId, a.size() > 2 && a[2] != "0"); return "ok"; }
        if (op == "ra") { DOMElement* e = E(1); if (!e) return "guard"; e->removeAttribute(kId); return "ok"; }
        if (op == "get") {
            std::vector<XMLCh> w = wide(a.size() > 1 ? a[1] : "-");
            DOMElement* r = h.doc->getElementById(w.data());
            DOMElement* s = h.scan(h.doc, kId, w.data());
            return r == s ? h.nid(r) : h.nid(r) + "!SCAN=" + h.nid(s);
        }
        return "badop";
    } catch (const DOMException& e) {
        return "err" + std::to_string((int)e.code);
    } catch (const XMLException& e) {
        return "xmlexc";
    } catch (...) {
        return "exc";
    }
}

static std::string gOut;
static void emit(const std::string& r, int fd) {
    if (fd >= 0) { if (write(fd, r.data(), r.size()) < 0) _exit(3); }
    else gOut += r;
}
static void runHistory(const std::string& line, int fd) {
    std::vector<std::string> toks = splitWs(line);
    XMLCh ls[] = { 'L', 'S', 0 };
    DOMImplementation* impl = DOMImplementationRegistry::getDOMImplementation(ls);
    XMLCh rootName[] = { 'a', 0 };
    if (!toks.empty() && toks[0] == "IDMAP") {
        IdHist ih;
        ih.doc = impl->createDocument(0, rootName, 0);
        ih.els.push_back(0);
        ih.els.push_back(ih.doc->getDocumentElement());
        ih.idOf[ih.doc->getDocumentElement()] = 1;
        alarm(30);
        for (size_t i = 1; i < toks.size(); i++) emit((i > 1 ? " " : "") + doIdOp(ih, toks[i]), fd);
        alarm(0);
        return;
    }
    Hist h;
    h.doc = impl->createDocument(0, rootName, 0);
    h.reg(h.doc);
    h.reg(h.doc->getDocumentElement());
    for (int i = 0; i < 7; i++) h.filter.tab[i] = 1;
    if (!toks.empty()) for (size_t i = 0; i < 7 && i < toks[0].size(); i++) h.filter.tab[i] = toks[0][i] - '0';
    for (size_t i = 1; i < toks.size(); i++) {
        std::string r = doOp(h, toks[i]);
        r += h.dumpRanges();
        if (i > 1) r = " " + r;
        emit(r, fd);
    }
}

#include <csetjmp>
#include <csignal>
static sigjmp_buf gJmp;
static void onSegv(int) { siglongjmp(gJmp, 1); }

// default: every history in-process, a SIGSEGV/SIGBUS/SIGFPE of the library is caught and the history abandoned
// (the document of the history is simply leaked); "--fork": every history in a forked child (used by the check when
// the in-process run itself dies)
int main(int argc, char** argv) {
    XMLPlatformUtils::Initialize();
    bool useFork = argc > 1 && std::string(argv[1]) == "--fork";
    std::string line;
    if (!useFork) {
        struct sigaction sa; memset(&sa, 0, sizeof sa);
        sa.sa_handler = onSegv; sa.sa_flags = SA_NODEFER;
        sigaction(SIGSEGV, &sa, 0); sigaction(SIGBUS, &sa, 0); sigaction(SIGFPE, &sa, 0); sigaction(SIGALRM, &sa, 0);
        while (std::getline(std::cin, line)) {
            gOut.clear();
            if (sigsetjmp(gJmp, 1) == 0) runHistory(line, -1);
            else gOut += (gOut.empty() ? "CRASH" : " CRASH");
            std::cout << gOut << "\n";
        }
        std::cout.flush();
        return 0;
    }
    while (std::getline(std::cin, line)) {
        int fds[2];
        if (pipe(fds) != 0) return 2;
        fflush(stdout);
        pid_t pid = fork();
        if (pid == 0) {
            close(fds[0]);
            alarm(20);
            runHistory(line, fds[1]);
            close(fds[1]);
            _exit(0);
        }
        close(fds[1]);
        std::string out; char buf[4096]; ssize_t n;
        while ((n = read(fds[0], buf, sizeof buf)) > 0) out.append(buf, n);
        close(fds[0]);
        int st = 0;
        waitpid(pid, &st, 0);
        if (!(WIFEXITED(st) && WEXITSTATUS(st) == 0)) out += (out.empty() ? "CRASH" : " CRASH");
        std::cout << out << "\n";
    }
    std::cout.flush();
    return 0;
}
