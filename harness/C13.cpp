// xh_C13: operation-sequence interpreter over real xerces-c DOM documents, speaking the line protocol of
// bin/xm_C13 (extracted model / reference DOM).
//   request:  <ndocs> <k> ; op ; op ; ...      operands are indices into the pool of live nodes (creation order)
//   answer:   one token per op (ok | n<idx> | s<hex> | e<DOMException code> | skip), and after every k-th op and
//             at the end " | " + structural dump of every pool node through PUBLIC getters only + verdict of the
//             model-free consistency check (the property's first clause).
// When the consistency check fails the dump is printed at once and the rest of the line is not executed ("halt"),
// because operating on a corrupted tree may recurse or loop for ever.
#include "xh_common.hpp"
#include <xercesc/dom/DOM.hpp>
#include <xercesc/dom/impl/DOMAttrMapImpl.hpp>
#include <algorithm>
#include <map>
#include <csignal>
#include <unistd.h>

using namespace xh;

static std::vector<DOMNode*> pool;
static std::map<const DOMNode*, int> idx;
static std::vector<DOMDocument*> docs;

static void reg(DOMNode* n) {
    if (!n || idx.count(n)) return;
    idx[n] = (int)pool.size();
    pool.push_back(n);
}
// register a freshly created subtree in document order (= creation order of cloneNode(true))
static void regTree(DOMNode* n, size_t bound) {
    if (!n || bound == 0) return;
    reg(n);
    size_t c = 0;
    for (DOMNode* k = n->getFirstChild(); k && c < 100000; k = k->getNextSibling(), ++c) regTree(k, bound - 1);
    if (n->getNodeType() == DOMNode::ELEMENT_NODE) {           // the attributes are cloned after the children
        DOMNamedNodeMap* am = n->getAttributes();
        for (XMLSize_t a = 0; am && a < am->getLength(); a++) regTree(am->item(a), bound - 1);
    }
}
// release()d nodes: their memory is recycled by the document, they must never be touched again
static void collectTree(DOMNode* n, std::vector<DOMNode*>& out, size_t bound) {
    if (!n || bound == 0) return;
    out.push_back(n);
    for (DOMNode* k = n->getFirstChild(); k; k = k->getNextSibling()) collectTree(k, out, bound - 1);
    if (n->getNodeType() == DOMNode::ELEMENT_NODE) {
        DOMNamedNodeMap* am = n->getAttributes();
        for (XMLSize_t a = 0; am && a < am->getLength(); a++) collectTree(am->item(a), out, bound - 1);
    }
}
class NopHandler : public DOMUserDataHandler {
public:
    void handle(DOMOperationType, const XMLCh* const, void*, const DOMNode*, DOMNode*) {}
};
static NopHandler gHandler;
static const XMLCh gK1[] = {'k', '1', 0}, gK2[] = {'k', '2', 0}, gK3[] = {'k', '3', 0};
static void markDead(const std::vector<DOMNode*>& v) {
    for (DOMNode* n : v) {
        auto it = idx.find(n);
        if (it != idx.end()) { pool[it->second] = 0; idx.erase(it); }
    }
}
static std::string ix(const DOMNode* n) {
    if (!n) return "-";
    auto it = idx.find(n);
    return it == idx.end() ? "?" : std::to_string(it->second);
}
static std::string hx(const XMLCh* s) {
    if (!s || !*s) return "-";
    std::string out;
    char b[12];
    for (; *s; ++s) { snprintf(b, sizeof b, "%02X", (unsigned)*s); out += b; }
    return out;
}
static std::vector<XMLCh> unhex(const std::string& s) {
    std::vector<XMLCh> v;
    for (uint32_t u : parseHex(s, 2)) v.push_back((XMLCh)u);
    v.push_back(0);
    return v;
}
// children by walking firstChild / nextSibling, bounded
static bool kidsOf(const DOMNode* n, std::vector<DOMNode*>& out) {
    size_t bound = pool.size() + 1;
    for (DOMNode* k = n->getFirstChild(); k; k = k->getNextSibling()) {
        if (out.size() >= bound) return false;
        out.push_back(k);
    }
    return true;
}

// model-free consistency: every node has at most one parent and is listed by it, child/sibling links agree in
// both directions, childNodes agrees with the sibling walk, no node is its own ancestor, ownerDocument is uniform
static std::string consistency() {
    for (size_t i = 0; i < pool.size(); i++) {
        DOMNode* n = pool[i];
        if (!n) continue;
        std::string at = ":" + std::to_string(i);
        std::vector<DOMNode*> ks;
        if (!kidsOf(n, ks)) return "INCONSISTENT:sibling-chain-does-not-end" + at;
        for (size_t a = 0; a < ks.size(); a++)
            for (size_t b2 = a + 1; b2 < ks.size(); b2++)
                if (ks[a] == ks[b2]) return "INCONSISTENT:child-listed-twice" + at;
        DOMNodeList* cl = n->getChildNodes();
        if (cl) {
            if (cl->getLength() != ks.size()) return "INCONSISTENT:childNodes-length" + at;
            for (size_t a = 0; a < ks.size(); a++) if (cl->item(a) != ks[a]) return "INCONSISTENT:childNodes-item" + at;
        }
        if (n->hasChildNodes() != !ks.empty()) return "INCONSISTENT:hasChildNodes" + at;
        if (n->getLastChild() != (ks.empty() ? 0 : ks.back())) return "INCONSISTENT:lastChild" + at;
        for (size_t a = 0; a < ks.size(); a++) {
            if (!idx.count(ks[a])) return "INCONSISTENT:unknown-child" + at;
            if (ks[a]->getParentNode() != n) return "INCONSISTENT:child-parent" + at;
            if (ks[a]->getPreviousSibling() != (a ? ks[a - 1] : 0)) return "INCONSISTENT:previousSibling" + at;
        }
        DOMNode* p = n->getParentNode();
        if (p) {
            std::vector<DOMNode*> ps;
            if (!kidsOf(p, ps)) return "INCONSISTENT:sibling-chain-does-not-end" + at;
            if (std::find(ps.begin(), ps.end(), n) == ps.end()) return "INCONSISTENT:not-listed-by-parent" + at;
            DOMDocument* want = p->getNodeType() == DOMNode::DOCUMENT_NODE ? (DOMDocument*)p : p->getOwnerDocument();
            if (n->getOwnerDocument() != want) return "INCONSISTENT:ownerDocument" + at;
        } else {
            if (n->getNextSibling() || n->getPreviousSibling()) return "INCONSISTENT:sibling-without-parent" + at;
        }
        if (n->getNextSibling() && n->getNextSibling()->getPreviousSibling() != n) return "INCONSISTENT:next-prev" + at;
        if (n->getPreviousSibling() && n->getPreviousSibling()->getNextSibling() != n) return "INCONSISTENT:prev-next" + at;
        size_t steps = 0;
        for (DOMNode* a = n->getParentNode(); a; a = a->getParentNode()) {
            if (a == n || ++steps > pool.size()) return "INCONSISTENT:own-ancestor" + at;
        }
        if (n->getNodeType() != DOMNode::DOCUMENT_NODE && !n->getOwnerDocument()) return "INCONSISTENT:no-ownerDocument" + at;
        // attributes: every Attr in the map names this element as owner, and an owned Attr is in its owner's map
        if (n->getNodeType() == DOMNode::ELEMENT_NODE) {
            DOMNamedNodeMap* am = n->getAttributes();
            for (XMLSize_t a = 0; am && a < am->getLength(); a++) {
                DOMNode* at2 = am->item(a);
                if (!idx.count(at2)) return "INCONSISTENT:unknown-attribute" + at;
                if (((DOMAttr*)at2)->getOwnerElement() != n) return "INCONSISTENT:attribute-ownerElement" + at;
                for (XMLSize_t b2 = a + 1; b2 < am->getLength(); b2++)
                    if (am->item(b2) == at2) return "INCONSISTENT:attribute-listed-twice" + at;
            }
        }
        if (n->getNodeType() == DOMNode::ATTRIBUTE_NODE) {
            DOMElement* oe = ((DOMAttr*)n)->getOwnerElement();
            if (oe) {
                DOMNamedNodeMap* am = oe->getAttributes();
                bool found = false;
                for (XMLSize_t a = 0; am && a < am->getLength(); a++) if (am->item(a) == n) found = true;
                if (!found) return "INCONSISTENT:ownerElement-does-not-list-attribute" + at;
            }
        }
    }
    return "consistent";
}

static std::string dump(const std::string& verdict) {
    std::string out;
    for (size_t i = 0; i < pool.size(); i++) {
        DOMNode* n = pool[i];
        if (i) out += ' ';
        if (!n) { out += std::to_string(i) + ":dead"; continue; }
        int t = n->getNodeType();
        bool named = t == DOMNode::ELEMENT_NODE || t == DOMNode::PROCESSING_INSTRUCTION_NODE || t == DOMNode::ENTITY_REFERENCE_NODE ||
                     t == DOMNode::ATTRIBUTE_NODE;
        bool nsd = t == DOMNode::ELEMENT_NODE || t == DOMNode::ATTRIBUTE_NODE;
        bool leaf = t == DOMNode::TEXT_NODE || t == DOMNode::CDATA_SECTION_NODE || t == DOMNode::COMMENT_NODE ||
                    t == DOMNode::PROCESSING_INSTRUCTION_NODE;
        out += std::to_string(i) + ":" + std::to_string(t) + ":" + (named ? hx(n->getNodeName()) : "-") + "/" + (nsd ? hx(n->getNamespaceURI()) : "-") + ":" +
               ((leaf || t == DOMNode::ATTRIBUTE_NODE) ? hx(n->getNodeValue()) : "-") + ":" + ix(n->getOwnerDocument()) + ":" + ix(n->getParentNode()) + ":" +
               ix(n->getFirstChild()) + ":" + ix(n->getLastChild()) + ":" + ix(n->getPreviousSibling()) + ":" +
               ix(n->getNextSibling()) + ":[";
        std::vector<DOMNode*> ks;
        kidsOf(n, ks);
        for (size_t a = 0; a < ks.size(); a++) { if (a) out += ','; out += ix(ks[a]); }
        out += "]:{";
        DOMNamedNodeMap* am = t == DOMNode::ELEMENT_NODE ? n->getAttributes() : 0;
        for (XMLSize_t a = 0; am && a < am->getLength(); a++) { if (a) out += ','; out += ix(am->item(a)); }
        out += "}:" + (t == DOMNode::ATTRIBUTE_NODE ? ix(((DOMAttr*)n)->getOwnerElement()) : std::string("-"));
        out += ":" + std::to_string((long)(intptr_t)n->getUserData(gK1)) + "," + std::to_string((long)(intptr_t)n->getUserData(gK2)) + "," +
               std::to_string((long)(intptr_t)n->getUserData(gK3));
        out += t == DOMNode::ATTRIBUTE_NODE ? (((DOMAttr*)n)->isId() ? ":id" : ":noid") : ":-";
    }
    return out + " " + verdict;
}

static int nat(const std::string& s) { return atoi(s.c_str()); }
static XMLSize_t big(const std::string& s) { return (XMLSize_t)strtoull(s.c_str(), 0, 10); }
static DOMNode* node(const std::string& s) {
    if (s == "-") return 0;
    int i = s[0] == '%' ? (int)((unsigned)atoi(s.c_str() + 1) % pool.size()) : nat(s);
    return (i >= 0 && (size_t)i < pool.size()) ? pool[i] : 0;
}
static bool live(const std::string& s) { return node(s) != 0; }

static std::string doOp(const std::vector<std::string>& a) {
    const std::string& o = a[0];
    try {
        if (o == "cr" && a.size() == 5) {
            DOMNode* d = node(a[1]);
            if (!d || d->getNodeType() != DOMNode::DOCUMENT_NODE || a[2] == "d") return "skip";
            DOMDocument* doc = (DOMDocument*)d;
            std::vector<XMLCh> nm = unhex(a[3]), v = unhex(a[4]);
            DOMNode* n = 0;
            switch (a[2][0]) {
            case 'e': n = doc->createElement(nm.data()); break;
            case 't': n = doc->createTextNode(v.data()); break;
            case 's': n = doc->createCDATASection(v.data()); break;
            case 'r': n = doc->createEntityReference(nm.data()); break;
            case 'p': n = doc->createProcessingInstruction(nm.data(), v.data()); break;
            case 'c': n = doc->createComment(v.data()); break;
            case 'f': n = doc->createDocumentFragment(); break;
            case 'a': n = doc->createAttribute(nm.data()); break;
            default: return "bad-op";
            }
            reg(n);
            return "n" + ix(n);
        }
        if (o == "ib" && a.size() == 4) {
            if (!live(a[1]) || !live(a[2]) || (a[3] != "-" && !live(a[3]))) return "skip";
            return "n" + ix(node(a[1])->insertBefore(node(a[2]), node(a[3])));
        }
        if (o == "ac" && a.size() == 3) {
            if (!live(a[1]) || !live(a[2])) return "skip";
            return "n" + ix(node(a[1])->appendChild(node(a[2])));
        }
        if (o == "rm" && a.size() == 3) {
            if (!live(a[1]) || !live(a[2])) return "skip";
            return "n" + ix(node(a[1])->removeChild(node(a[2])));
        }
        if (o == "rp" && a.size() == 4) {
            if (!live(a[1]) || !live(a[2]) || !live(a[3])) return "skip";
            return "n" + ix(node(a[1])->replaceChild(node(a[2]), node(a[3])));
        }
        if (o == "cl" && a.size() == 3) {
            DOMNode* n = node(a[1]);
            if (!n || n->getNodeType() == DOMNode::DOCUMENT_NODE) return "skip";
            DOMNode* c = n->cloneNode(a[2] == "1");
            regTree(c, pool.size() + 2);
            return "n" + ix(c);
        }
        if (o == "rn" && a.size() == 5) {
            DOMNode* d = node(a[1]);
            DOMNode* n = node(a[2]);
            if (!d || !n || d->getNodeType() != DOMNode::DOCUMENT_NODE) return "skip";
            std::vector<XMLCh> ns = unhex(a[3]), nm = unhex(a[4]);
            // NOT MODELLED (skipped on both sides, same predicate in ocaml/C13/driver.ml.in `rn_unmodelled`): an attribute that is
            // on an element is renamed into a namespace-aware attribute while the element holds ANOTHER attribute that has the
            // new nodeName under a different (namespaceURI, localName) key, or the same key under a different nodeName.
            // renameNode puts the attribute back with setAttributeNodeNS, which keys on (namespaceURI, localName): the two then
            // coexist / the other one is replaced -- DOM Level 2 behaviour that model and reference DOM (keyed by nodeName) lack.
            if (n->getNodeType() == DOMNode::ATTRIBUTE_NODE && ((DOMAttr*)n)->getOwnerElement() &&
                (a[3] != "-" || n->getLocalName() != 0)) {
                DOMElement* el = ((DOMAttr*)n)->getOwnerElement();
                const XMLCh* nsp = a[3] == "-" ? 0 : ns.data();
                size_t len = 0, ncol = 0, cpos = 0;
                for (; nm[len]; ++len) if (nm[len] == ':') { ++ncol; cpos = len; }
                const XMLCh* loc = (ncol == 1 && cpos > 0 && cpos + 1 < len) ? nm.data() + cpos + 1 : nm.data();
                DOMAttr* b = el->getAttributeNode(nm.data());
                if (b && b != n && (b->getLocalName() == 0 || !XMLString::equals(b->getNamespaceURI(), nsp))) return "skip";
                DOMAttr* b2 = el->getAttributeNodeNS(nsp, loc);
                if (b2 && b2 != n && b2->getLocalName() != 0 && !XMLString::equals(b2->getNodeName(), nm.data())) return "skip";
            }
            DOMNode* r = ((DOMDocument*)d)->renameNode(n, a[3] == "-" ? 0 : ns.data(), nm.data());
            reg(r);
            return "n" + ix(r);
        }
        if (o == "su" && a.size() == 5) {
            DOMNode* n0 = node(a[1]);
            if (!n0) return "skip";
            void* old = n0->setUserData(unhex(a[2]).data(), (void*)(intptr_t)atol(a[3].c_str()), a[4] == "1" ? &gHandler : 0);
            return "d" + std::to_string((long)(intptr_t)old);
        }
        if (o == "gu" && a.size() == 3) {
            DOMNode* n0 = node(a[1]);
            if (!n0) return "skip";
            return "d" + std::to_string((long)(intptr_t)n0->getUserData(unhex(a[2]).data()));
        }
        if ((o == "rl" || o == "rlx") && a.size() == 2) {
            DOMNode* n0 = node(a[1]);
            if (!n0 || n0->getNodeType() == DOMNode::DOCUMENT_NODE) return "skip";
            std::vector<DOMNode*> sub;
            collectTree(n0, sub, pool.size() + 2);
            bool owned = n0->getParentNode() != 0 ||
                         (n0->getNodeType() == DOMNode::ATTRIBUTE_NODE && ((DOMAttr*)n0)->getOwnerElement() != 0);
            if (!owned && o == "rl")            // F35: releasing a registered ID attribute leaves a dangling ID map entry
                for (DOMNode* x : sub)
                    if (x->getNodeType() == DOMNode::ATTRIBUTE_NODE && ((DOMAttr*)x)->isId()) return "skip";
            n0->release();
            markDead(sub);
            return "ok";
        }
        if (o == "si" && a.size() == 4) {
            DOMNode* n0 = node(a[1]);
            if (!n0 || n0->getNodeType() != DOMNode::ELEMENT_NODE) return "skip";
            ((DOMElement*)n0)->setIdAttribute(unhex(a[2]).data(), a[3] == "1");
            return "ok";
        }
        if (o == "sin" && a.size() == 4) {
            DOMNode* n0 = node(a[1]);
            DOMNode* an = node(a[2]);
            if (!n0 || !an || n0->getNodeType() != DOMNode::ELEMENT_NODE || an->getNodeType() != DOMNode::ATTRIBUTE_NODE) return "skip";
            ((DOMElement*)n0)->setIdAttributeNode((DOMAttr*)an, a[3] == "1");
            return "ok";
        }
        if (o == "fp" && a.size() == 3) {
            // DOMAttrMapImpl::findNamePoint(name) itself: p<index> when found, q<insertion point> otherwise
            DOMNode* n0 = node(a[1]);
            if (!n0 || n0->getNodeType() != DOMNode::ELEMENT_NODE) return "skip";
            DOMAttrMapImpl* am = (DOMAttrMapImpl*)n0->getAttributes();
            if (!am) return "q0";
            int i = am->findNamePoint(unhex(a[2]).data());
            return (i >= 0 ? "p" : "q") + std::to_string(i >= 0 ? i : -1 - i);
        }
        if (o == "gi" && a.size() == 3) {
            DOMNode* d = node(a[1]);
            if (!d || d->getNodeType() != DOMNode::DOCUMENT_NODE) return "skip";
            DOMElement* r = ((DOMDocument*)d)->getElementById(unhex(a[2]).data());
            return r ? "n" + ix(r) : std::string("ok");
        }
        if (o == "nz" && a.size() == 2) {
            if (!live(a[1])) return "skip";
            node(a[1])->normalize();
            return "ok";
        }
        DOMNode* n = a.size() > 1 ? node(a[1]) : 0;
        int t = n ? n->getNodeType() : 0;
        bool leaf = t == DOMNode::TEXT_NODE || t == DOMNode::CDATA_SECTION_NODE || t == DOMNode::COMMENT_NODE ||
                    t == DOMNode::PROCESSING_INSTRUCTION_NODE;
        bool cd = t == DOMNode::TEXT_NODE || t == DOMNode::CDATA_SECTION_NODE || t == DOMNode::COMMENT_NODE;
        if (o == "sd" && a.size() == 3 && t == DOMNode::ATTRIBUTE_NODE) {
            std::vector<DOMNode*> dead;
            for (DOMNode* k = n->getFirstChild(); k; k = k->getNextSibling()) collectTree(k, dead, pool.size() + 2);
            n->setNodeValue(unhex(a[2]).data());
            markDead(dead);
            reg(n->getFirstChild());
            return "ok";
        }
        if (o == "sd" && a.size() == 3) {
            if (!leaf) return "skip";
            n->setNodeValue(unhex(a[2]).data());
            return "ok";
        }
        if (o == "ad" || o == "id" || o == "dd" || o == "rd" || o == "ss") {
            if (!cd) return "skip";
            DOMCharacterData* c = (DOMCharacterData*)n;
            if (o == "ad" && a.size() == 3) { c->appendData(unhex(a[2]).data()); return "ok"; }
            if (o == "id" && a.size() == 4) { c->insertData(big(a[2]), unhex(a[3]).data()); return "ok"; }
            if (o == "dd" && a.size() == 4) { c->deleteData(big(a[2]), big(a[3])); return "ok"; }
            if (o == "rd" && a.size() == 5) { c->replaceData(big(a[2]), big(a[3]), unhex(a[4]).data()); return "ok"; }
            if (o == "ss" && a.size() == 4) {
                const XMLCh* s = c->substringData(big(a[2]), big(a[3]));
                return "s" + hx(s);
            }
            return "bad-op";
        }
        if (o == "sp" && a.size() == 3) {
            if (t != DOMNode::TEXT_NODE && t != DOMNode::CDATA_SECTION_NODE) return "skip";
            DOMText* nt = ((DOMText*)n)->splitText(big(a[2]));
            reg(nt);
            return "n" + ix(nt);
        }
        if (o == "sn" || o == "xn") {
            DOMNode* an = a.size() == 3 ? node(a[2]) : 0;
            if (t != DOMNode::ELEMENT_NODE || !an || an->getNodeType() != DOMNode::ATTRIBUTE_NODE) return "skip";
            DOMAttr* r = o == "sn" ? ((DOMElement*)n)->setAttributeNode((DOMAttr*)an) : ((DOMElement*)n)->removeAttributeNode((DOMAttr*)an);
            return r ? "n" + ix(r) : std::string("ok");
        }
        if (o == "gn" && a.size() == 3) {
            if (t != DOMNode::ELEMENT_NODE) return "skip";
            DOMAttr* r = ((DOMElement*)n)->getAttributeNode(unhex(a[2]).data());
            return r ? "n" + ix(r) : std::string("ok");
        }
        if (o == "sa" || o == "ra" || o == "ga") {
            if (t != DOMNode::ELEMENT_NODE) return "skip";
            DOMElement* e = (DOMElement*)n;
            if (o == "sa" && a.size() == 4) {
                std::vector<XMLCh> nm = unhex(a[2]);
                DOMAttr* at = e->getAttributeNode(nm.data());
                std::vector<DOMNode*> dead;
                if (at) for (DOMNode* k = at->getFirstChild(); k; k = k->getNextSibling()) collectTree(k, dead, pool.size() + 2);
                e->setAttribute(nm.data(), unhex(a[3]).data());
                markDead(dead);
                at = e->getAttributeNode(nm.data());
                reg(at);
                if (at) reg(at->getFirstChild());
                return "ok";
            }
            if (o == "ra" && a.size() == 3) {
                std::vector<XMLCh> nm = unhex(a[2]);
                DOMAttr* at = e->getAttributeNode(nm.data());
                std::vector<DOMNode*> dead;
                collectTree(at, dead, pool.size() + 2);
                e->removeAttribute(nm.data());
                if (at && e->getAttributeNode(nm.data()) != at) markDead(dead);
                return "ok";
            }
            if (o == "ga" && a.size() == 3) return "s" + hx(e->getAttribute(unhex(a[2]).data()));
            return "bad-op";
        }
        return "bad-op";
    } catch (const DOMException& e) {
        return "e" + std::to_string((int)e.code);
    } catch (const OutOfMemoryException&) {
        return "x-oom";
    } catch (const XMLException& e) {
        return "x-xml";
    } catch (...) {
        return "x-unknown";
    }
}

static void onAlarm(int) {
    const char m[] = " HANG\n";
    ssize_t r = write(1, m, sizeof m - 1);
    (void)r;
    _exit(3);
}

int main() {
    XMLPlatformUtils::Initialize();
    signal(SIGALRM, onAlarm);
    static const XMLCh core[] = {'C', 'o', 'r', 'e', 0};
    DOMImplementation* impl = DOMImplementationRegistry::getDOMImplementation(core);
    std::string line;
    while (std::getline(std::cin, line)) {
        alarm(6);
        std::vector<std::vector<std::string> > ops;
        {
            std::string cur;
            std::istringstream is(line);
            while (std::getline(is, cur, ';')) ops.push_back(splitWs(cur));
        }
        if (ops.empty() || ops[0].size() != 2) { std::cout << "bad-request\n" << std::flush; continue; }
        int ndocs = nat(ops[0][0]), k = nat(ops[0][1]);
        pool.clear(); idx.clear(); docs.clear();
        for (int i = 0; i < ndocs; i++) { DOMDocument* d = impl->createDocument(); docs.push_back(d); reg(d); }
        std::string out;
        bool broken = false;
        size_t nops = ops.size() - 1;
        for (size_t i = 0; i < nops; i++) {
            if (i) out += ' ';
            if (broken) { out += "halt"; continue; }
            out += ops[i + 1].empty() ? std::string("bad-op") : doOp(ops[i + 1]);
            std::string v = consistency();
            broken = v != "consistent";
            if (broken || (k > 0 && (i + 1) % k == 0) || i + 1 == nops) out += " | " + dump(v);
        }
        if (nops == 0) out += "| " + dump(consistency());
        std::cout << out << "\n" << std::flush;
        if (!broken) for (DOMDocument* d : docs) d->release();
        alarm(0);
    }
    XMLPlatformUtils::Terminate();
    return 0;
}
