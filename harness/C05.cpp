// xh_C05: drives the real transcoders with the same line protocol as bin/xm_C05 (extracted model)
#include "xh_common.hpp"
#include <xercesc/util/TransService.hpp>
#include <xercesc/util/XMLUniDefs.hpp>
#include <xercesc/framework/XMLRecognizer.hpp>
#include <xercesc/framework/MemBufInputSource.hpp>
#include <xercesc/sax2/SAX2XMLReader.hpp>
#include <xercesc/sax2/XMLReaderFactory.hpp>
#include <xercesc/sax2/DefaultHandler.hpp>
#include <xercesc/sax2/Attributes.hpp>
#include <xercesc/sax/SAXParseException.hpp>
#include <map>
#include <memory>
#include <cstring>

using namespace xh;

static std::map<std::string, XMLTranscoder*> gTrans;

static XMLTranscoder* trans(const std::string& key) {
    auto it = gTrans.find(key);
    if (it != gTrans.end()) return it->second;
    const char* enc = 0;
    if (key == "utf8") enc = "UTF-8";
    else if (key == "ucs4_0") enc = "UCS-4 (LE)";     // host is little endian: LE = not swapped
    else if (key == "ucs4_1") enc = "UCS-4 (BE)";
    else if (key == "utf16_0") enc = "UTF-16 (LE)";
    else if (key == "utf16_1") enc = "UTF-16 (BE)";
    else if (key == "win1252") enc = "WINDOWS-1252";
    else if (key == "ibm037") enc = "IBM037";
    else if (key == "ibm1047") enc = "IBM1047";
    else if (key == "ibm1140") enc = "IBM1140";
    else if (key == "latin1") enc = "ISO8859-1";
    else if (key == "ascii") enc = "US-ASCII";
    else return 0;
    XMLTransService::Codes rc;
    XMLTranscoder* t = XMLPlatformUtils::fgTransService->makeNewTranscoderFor(enc, rc, 16 * 1024);
    gTrans[key] = t;
    return t;
}

static std::string doFrom(XMLTranscoder* t, const std::vector<uint32_t>& src, size_t maxChars, bool withSizes) {
    std::vector<XMLByte> in(src.size() + 8, 0);
    for (size_t i = 0; i < src.size(); i++) in[i] = (XMLByte)src[i];
    std::vector<XMLCh> out(maxChars + 8, 0xEEEE);
    std::vector<unsigned char> sizes(maxChars + 8, 0xEE);
    XMLSize_t eaten = 0;
    try {
        XMLSize_t n = t->transcodeFrom(in.data(), src.size(), out.data(), maxChars, eaten, sizes.data());
        // canaries: nothing may be written beyond maxChars
        for (size_t i = maxChars; i < maxChars + 8; i++)
            if (out[i] != 0xEEEE || sizes[i] != 0xEE) return "overrun";
        if (n > maxChars) return "overrun";
        std::string r = "ok " + std::to_string(eaten) + " " + showHex(out.data(), n, 4);
        if (withSizes) r += " " + showHex(sizes.data(), n, 1);
        return r;
    } catch (const XMLException& e) {
        return "err " + exceptString(e);
    }
}

static std::string doTo(XMLTranscoder* t, const std::vector<uint32_t>& src, size_t maxBytes, bool thr) {
    std::vector<XMLCh> in(src.size() + 8, 0);
    for (size_t i = 0; i < src.size(); i++) in[i] = (XMLCh)src[i];
    std::vector<XMLByte> out(maxBytes + 16, 0xEE);
    XMLSize_t eaten = 0;
    try {
        XMLSize_t n = t->transcodeTo(in.data(), src.size(), out.data(), maxBytes, eaten,
                                     thr ? XMLTranscoder::UnRep_Throw : XMLTranscoder::UnRep_RepChar);
        for (size_t i = maxBytes; i < maxBytes + 16; i++)
            if (out[i] != 0xEE) return "overrun";
        if (n > maxBytes) return "overrun";
        return "ok " + std::to_string(eaten) + " " + showHex(out.data(), n, 2);
    } catch (const XMLException& e) {
        return "err " + exceptString(e);
    }
}

// document level: parse the bytes, return the root's name, attribute values and text as UTF-16 hex, or the
// first fatal error
struct DocHandler : public DefaultHandler {
    std::vector<XMLCh> text;
    std::string fatal;
    void put(const XMLCh* s, XMLSize_t n) { for (XMLSize_t i = 0; i < n; i++) text.push_back(s[i]); }
    void startElement(const XMLCh* const, const XMLCh* const, const XMLCh* const qname, const Attributes& a) override {
        put(qname, XMLString::stringLen(qname)); text.push_back(0x7C);
        for (XMLSize_t i = 0; i < a.getLength(); i++) { put(a.getValue(i), XMLString::stringLen(a.getValue(i))); text.push_back(0x7C); }
    }
    void characters(const XMLCh* const c, const XMLSize_t n) override { put(c, n); }
    void fatalError(const SAXParseException& e) override {
        if (fatal.empty()) fatal = narrow(e.getMessage());
        throw e;
    }
    bool sawError = false;
    void error(const SAXParseException&) override { sawError = true; }
    void warning(const SAXParseException&) override { sawError = true; }
};

static std::string doParse(const std::vector<uint32_t>& bytes) {
    std::vector<XMLByte> in(bytes.size() + 1, 0);
    for (size_t i = 0; i < bytes.size(); i++) in[i] = (XMLByte)bytes[i];
    DocHandler h;
    std::unique_ptr<SAX2XMLReader> p(XMLReaderFactory::createXMLReader());
    p->setContentHandler(&h);
    p->setErrorHandler(&h);
    try {
        MemBufInputSource src(in.data(), bytes.size(), "mem", false);
        p->parse(src);
    } catch (const SAXParseException&) {
        return "fatal";
    } catch (const XMLException& e) {
        return "fatal";
    } catch (...) {
        return "exception";
    }
    if (!h.fatal.empty()) return "fatal";
    if (h.sawError) return "reported-error " + showHex(h.text.data(), h.text.size(), 4);
    return "ok " + showHex(h.text.data(), h.text.size(), 4);
}

static const char* encName(XMLRecognizer::Encodings e) {
    switch (e) {
    case XMLRecognizer::EBCDIC: return "EBCDIC"; case XMLRecognizer::UCS_4B: return "UCS_4B";
    case XMLRecognizer::UCS_4L: return "UCS_4L"; case XMLRecognizer::UTF_8: return "UTF_8";
    case XMLRecognizer::UTF_16B: return "UTF_16B"; case XMLRecognizer::UTF_16L: return "UTF_16L";
    default: return "OTHER";
    }
}

int main() {
    XMLPlatformUtils::Initialize();
    std::string line;
    while (std::getline(std::cin, line)) {
        std::vector<std::string> a = splitWs(line);
        std::string r = "bad-request";
        if (a.size() == 3 && a[0] == "u8from")
            r = doFrom(trans("utf8"), parseHex(a[2], 2), atoi(a[1].c_str()), true);
        else if (a.size() == 4 && a[0] == "u8to")
            r = doTo(trans("utf8"), parseHex(a[3], 4), atoi(a[1].c_str()), a[2] == "1");
        else if (a.size() == 4 && a[0] == "u4from")
            r = doFrom(trans("ucs4_" + a[1]), parseHex(a[3], 2), atoi(a[2].c_str()), true);
        else if (a.size() == 4 && a[0] == "u4to")
            r = doTo(trans("ucs4_" + a[1]), parseHex(a[3], 4), atoi(a[2].c_str()), true);
        else if (a.size() == 4 && a[0] == "u16from") {
            r = doFrom(trans("utf16_" + a[1]), parseHex(a[3], 2), atoi(a[2].c_str()), false);
        } else if (a.size() == 4 && a[0] == "u16to") {
            // the model's bound is in units; the API's in bytes
            r = doTo(trans("utf16_" + a[1]), parseHex(a[3], 4), 2 * atoi(a[2].c_str()), true);
            if (r.compare(0, 3, "ok ") == 0) { size_t p = r.find(' ', 3); r = "ok " + r.substr(p + 1); }
        } else if (a.size() == 4 && a[0] == "tabfrom")
            r = doFrom(trans(a[1]), parseHex(a[3], 2), atoi(a[2].c_str()), false);
        else if (a.size() == 5 && a[0] == "tabto")
            r = doTo(trans(a[1]), parseHex(a[4], 4), atoi(a[2].c_str()), a[3] == "1");
        else if (a.size() == 3 && a[0] == "can") {
            std::string k = a[1];
            if (k == "ucs4") k = "ucs4_0";
            if (k == "utf16") k = "utf16_0";
            XMLTranscoder* t = trans(k);
            r = t ? (t->canTranscodeTo((unsigned int)strtoul(a[2].c_str(), 0, 10)) ? "ok 1" : "ok 0") : "bad-request";
        } else if (a.size() == 3 && a[0] == "asciifrom") {
            r = doFrom(trans("ascii"), parseHex(a[2], 2), atoi(a[1].c_str()), false);
        } else if (a.size() == 3 && a[0] == "latin1from") {
            r = doFrom(trans("latin1"), parseHex(a[2], 2), atoi(a[1].c_str()), false);
        }
        else if (a.size() == 2 && a[0] == "probe") {
            std::vector<uint32_t> b = parseHex(a[1], 2);
            std::vector<XMLByte> in(b.size() + 1, 0);
            for (size_t i = 0; i < b.size(); i++) in[i] = (XMLByte)b[i];
            r = std::string("ok ") + encName(XMLRecognizer::basicEncodingProbe(in.data(), b.size()));
        } else if (a.size() == 2 && a[0] == "parse")
            r = doParse(parseHex(a[1], 2));
        std::cout << r << "\n";
    }
    return 0;
}
