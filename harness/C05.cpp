// xh_C05: drives the real transcoders with the same line protocol as bin/xm_C05 (extracted model)
#include "xh_common.hpp"
#include <xercesc/util/TransService.hpp>
#include <xercesc/util/XMLUniDefs.hpp>
#include <xercesc/framework/XMLRecognizer.hpp>
#include <xercesc/framework/MemBufInputSource.hpp>
#include <xercesc/util/BinMemInputStream.hpp>
#include <xercesc/util/XMLUTF8Transcoder.hpp>
#include <xercesc/util/XMLUTF16Transcoder.hpp>
#include <xercesc/util/XMLUCS4Transcoder.hpp>
#include <xercesc/util/XML88591Transcoder.hpp>
#include <xercesc/util/XMLASCIITranscoder.hpp>
#include <xercesc/util/XMLChTranscoder.hpp>
#include <xercesc/util/XMLEBCDICTranscoder.hpp>
#include <xercesc/util/XMLIBM1047Transcoder.hpp>
#include <xercesc/util/XMLIBM1140Transcoder.hpp>
#include <xercesc/util/XMLWin1252Transcoder.hpp>
#include <sstream>
#include <map>
#include <memory>
// the reader's members fEncoding / fTranscoder are what the model of setEncoding speaks about; they have no
// getters, so this translation unit (only) reads them directly
#define private public
#define protected public
#include <xercesc/internal/XMLReader.hpp>
#undef private
#undef protected
#include <xercesc/sax2/SAX2XMLReader.hpp>
#include <xercesc/sax2/XMLReaderFactory.hpp>
#include <xercesc/sax2/DefaultHandler.hpp>
#include <xercesc/sax2/Attributes.hpp>
#include <xercesc/sax/SAXParseException.hpp>
#include <map>
#include <memory>
#include <cstring>

using namespace xh;

static std::map<std::string, XMLTranscoder*> gTrans;

static XMLTranscoder* trans(const std::string& key) {
    auto it = gTrans.find(key);
    if (it != gTrans.end()) return it->second;
    const char* enc = 0;
    if (key == "utf8") enc = "UTF-8";
    else if (key == "ucs4_0") enc = "UCS-4 (LE)";     // host is little endian: LE = not swapped
    else if (key == "ucs4_1") enc = "UCS-4 (BE)";
    else if (key == "utf16_0") enc = "UTF-16 (LE)";
    else if (key == "utf16_1") enc = "UTF-16 (BE)";
    else if (key == "win1252") enc = "WINDOWS-1252";
    else if (key == "ibm037") enc = "IBM037";
    else if (key == "ibm1047") enc = "IBM1047";
    else if (key == "ibm1140") enc = "IBM1140";
    else if (key == "latin1") enc = "ISO8859-1";
    else if (key == "ascii") enc = "US-ASCII";
    else return 0;
    XMLTransService::Codes rc;
    XMLTranscoder* t = XMLPlatformUtils::fgTransService->makeNewTranscoderFor(enc, rc, 16 * 1024);
    gTrans[key] = t;
    return t;
}

static std::string doFrom(XMLTranscoder* t, const std::vector<uint32_t>& src, size_t maxChars, bool withSizes) {
    std::vector<XMLByte> in(src.size() + 8, 0);
    for (size_t i = 0; i < src.size(); i++) in[i] = (XMLByte)src[i];
    std::vector<XMLCh> out(maxChars + 8, 0xEEEE);
    std::vector<unsigned char> sizes(maxChars + 8, 0xEE);
    XMLSize_t eaten = 0;
    try {
        XMLSize_t n = t->transcodeFrom(in.data(), src.size(), out.data(), maxChars, eaten, sizes.data());
        // canaries: nothing may be written beyond maxChars
        for (size_t i = maxChars; i < maxChars + 8; i++)
            if (out[i] != 0xEEEE || sizes[i] != 0xEE) return "overrun";
        if (n > maxChars) return "overrun";
        std::string r = "ok " + std::to_string(eaten) + " " + showHex(out.data(), n, 4);
        if (withSizes) r += " " + showHex(sizes.data(), n, 1);
        return r;
    } catch (const XMLException& e) {
        return "err " + exceptString(e);
    }
}

static std::string doTo(XMLTranscoder* t, const std::vector<uint32_t>& src, size_t maxBytes, bool thr) {
    std::vector<XMLCh> in(src.size() + 8, 0);
    for (size_t i = 0; i < src.size(); i++) in[i] = (XMLCh)src[i];
    std::vector<XMLByte> out(maxBytes + 16, 0xEE);
    XMLSize_t eaten = 0;
    try {
        XMLSize_t n = t->transcodeTo(in.data(), src.size(), out.data(), maxBytes, eaten,
                                     thr ? XMLTranscoder::UnRep_Throw : XMLTranscoder::UnRep_RepChar);
        for (size_t i = maxBytes; i < maxBytes + 16; i++)
            if (out[i] != 0xEE) return "overrun";
        if (n > maxBytes) return "overrun";
        return "ok " + std::to_string(eaten) + " " + showHex(out.data(), n, 2);
    } catch (const XMLException& e) {
        return "err " + exceptString(e);
    }
}

// document level: parse the bytes, return the root's name, attribute values and text as UTF-16 hex, or the
// first fatal error
struct DocHandler : public DefaultHandler {
    std::vector<XMLCh> text;
    std::string fatal;
    void put(const XMLCh* s, XMLSize_t n) { for (XMLSize_t i = 0; i < n; i++) text.push_back(s[i]); }
    void startElement(const XMLCh* const, const XMLCh* const, const XMLCh* const qname, const Attributes& a) override {
        put(qname, XMLString::stringLen(qname)); text.push_back(0x7C);
        for (XMLSize_t i = 0; i < a.getLength(); i++) { put(a.getValue(i), XMLString::stringLen(a.getValue(i))); text.push_back(0x7C); }
    }
    void characters(const XMLCh* const c, const XMLSize_t n) override { put(c, n); }
    void fatalError(const SAXParseException& e) override {
        if (fatal.empty()) fatal = narrow(e.getMessage());
        throw e;
    }
    bool sawError = false;
    void error(const SAXParseException&) override { sawError = true; }
    void warning(const SAXParseException&) override { sawError = true; }
};

static std::string doParse(const std::vector<uint32_t>& bytes) {
    std::vector<XMLByte> in(bytes.size() + 1, 0);
    for (size_t i = 0; i < bytes.size(); i++) in[i] = (XMLByte)bytes[i];
    DocHandler h;
    std::unique_ptr<SAX2XMLReader> p(XMLReaderFactory::createXMLReader());
    p->setContentHandler(&h);
    p->setErrorHandler(&h);
    try {
        MemBufInputSource src(in.data(), bytes.size(), "mem", false);
        p->parse(src);
    } catch (const SAXParseException&) {
        return "fatal";
    } catch (const XMLException& e) {
        return "fatal";
    } catch (...) {
        return "exception";
    }
    if (!h.fatal.empty()) return "fatal";
    if (h.sawError) return "reported-error " + showHex(h.text.data(), h.text.size(), 4);
    return "ok " + showHex(h.text.data(), h.text.size(), 4);
}

// which transcoder is this: class number as in Gen/GenEncNames.v + byte swapping observed on two/four bytes;
// anything else (a converter of the transcoding service, or none at all) is "service"
static std::string describe(XMLTranscoder* t) {
    if (!t) return "service";
    int cls = -1;
    if (dynamic_cast<XMLChTranscoder*>(t)) cls = 0;
    else if (dynamic_cast<XMLASCIITranscoder*>(t)) cls = 1;
    else if (dynamic_cast<XMLUTF8Transcoder*>(t)) cls = 2;
    else if (dynamic_cast<XML88591Transcoder*>(t)) cls = 3;
    else if (dynamic_cast<XMLUTF16Transcoder*>(t)) cls = 4;
    else if (dynamic_cast<XMLUCS4Transcoder*>(t)) cls = 5;
    else if (dynamic_cast<XMLEBCDICTranscoder*>(t)) cls = 6;
    else if (dynamic_cast<XMLIBM1047Transcoder*>(t)) cls = 7;
    else if (dynamic_cast<XMLIBM1140Transcoder*>(t)) cls = 8;
    else if (dynamic_cast<XMLWin1252Transcoder*>(t)) cls = 9;
    if (cls < 0) return "service";
    int sw = 0;
    if (cls == 4 || cls == 5) {
        XMLByte in[8] = {0, 0, 0, 0x41, 0, 0, 0, 0};
        XMLCh out[8] = {0};
        unsigned char sizes[8];
        XMLSize_t eaten = 0;
        try {
            XMLSize_t n = (cls == 4) ? t->transcodeFrom(in + 2, 2, out, 4, eaten, sizes) : t->transcodeFrom(in, 4, out, 4, eaten, sizes);
            sw = (n == 1 && out[0] == 0x41) ? 1 : 0;       // read as big endian on this little-endian host
        } catch (...) { sw = 0; }                            // 0x41000000 is not a code point: not swapped
    }
    return std::to_string(cls) + " " + std::to_string(sw);
}

static std::string xstr(const std::vector<uint32_t>& u, std::vector<XMLCh>& buf) {
    buf.assign(u.size() + 1, 0);
    for (size_t i = 0; i < u.size(); i++) buf[i] = (XMLCh)u[i];
    return "";
}

static std::string exName(const XMLException& e) {
    if (e.getCode() == XMLExcepts::Trans_CantCreateCvtrFor) return "Trans_CantCreateCvtrFor";
    if (e.getCode() == XMLExcepts::XMLRec_UnknownEncoding) return "XMLRec_UnknownEncoding";
    return exceptString(e);
}

static std::string doMkTrans(const std::vector<uint32_t>& name) {
    std::vector<XMLCh> nm; xstr(name, nm);
    XMLTransService::Codes rc;
    try {
        std::unique_ptr<XMLTranscoder> t(XMLPlatformUtils::fgTransService->makeNewTranscoderFor(nm.data(), rc, 4096));
        return "ok " + describe(t.get());
    } catch (const XMLException& e) { return "err " + exName(e); }
    catch (...) { return "err exception"; }
}

static std::string doMkEnum(int e) {
    XMLTransService::Codes rc;
    try {
        std::unique_ptr<XMLTranscoder> t(XMLPlatformUtils::fgTransService->makeNewTranscoderFor((XMLRecognizer::Encodings)e, rc, 4096));
        if (!t) return "ok none";
        return "ok " + describe(t.get());
    } catch (const XMLException& e2) { return "err " + exName(e2); }
    catch (...) { return "err exception"; }
}

// an entity whose first bytes are `raw`: what the reader detected, then setEncoding(name)
static std::string doSetEnc(const std::vector<uint32_t>& raw, const std::vector<uint32_t>& name) {
    std::vector<XMLByte> in(raw.size() + 8, 0);
    for (size_t i = 0; i < raw.size(); i++) in[i] = (XMLByte)raw[i];
    std::vector<XMLCh> nm; xstr(name, nm);
    static const XMLCh sysId[] = { 'm', 'e', 'm', 0 };
    try {
        BinMemInputStream* strm = new BinMemInputStream(in.data(), raw.size(), BinMemInputStream::BufOpt_Reference);
        XMLReader rd(0, sysId, strm, XMLReader::RefFrom_NonLiteral, XMLReader::Type_General, XMLReader::Source_External);
        int before = (int)rd.fEncoding;
        bool ok = rd.setEncoding(nm.data());
        if (!ok) {
            // a rejected declaration must leave the reader as it was
            if ((int)rd.fEncoding != before) return "ok 0 changed";
            return "ok 0";
        }
        const XMLCh* es = rd.getEncodingStr();
        return "ok 1 " + std::to_string((int)rd.fEncoding) + " " + showHex(es, XMLString::stringLen(es), 4) + " " + describe(rd.fTranscoder);
    } catch (const XMLException& e) { return "err " + exName(e); }
    catch (...) { return "err exception"; }
}

static const char* encName(XMLRecognizer::Encodings e) {
    switch (e) {
    case XMLRecognizer::EBCDIC: return "EBCDIC"; case XMLRecognizer::UCS_4B: return "UCS_4B";
    case XMLRecognizer::UCS_4L: return "UCS_4L"; case XMLRecognizer::UTF_8: return "UTF_8";
    case XMLRecognizer::UTF_16B: return "UTF_16B"; case XMLRecognizer::UTF_16L: return "UTF_16L";
    default: return "OTHER";
    }
}

int main() {
    XMLPlatformUtils::Initialize();
    std::string line;
    while (std::getline(std::cin, line)) {
        std::vector<std::string> a = splitWs(line);
        std::string r = "bad-request";
        if (a.size() == 3 && a[0] == "u8from")
            r = doFrom(trans("utf8"), parseHex(a[2], 2), atoi(a[1].c_str()), true);
        else if (a.size() == 4 && a[0] == "u8to")
            r = doTo(trans("utf8"), parseHex(a[3], 4), atoi(a[1].c_str()), a[2] == "1");
        else if (a.size() == 4 && a[0] == "u4from")
            r = doFrom(trans("ucs4_" + a[1]), parseHex(a[3], 2), atoi(a[2].c_str()), true);
        else if (a.size() == 4 && a[0] == "u4to")
            r = doTo(trans("ucs4_" + a[1]), parseHex(a[3], 4), atoi(a[2].c_str()), true);
        else if (a.size() == 4 && a[0] == "u16from") {
            r = doFrom(trans("utf16_" + a[1]), parseHex(a[3], 2), atoi(a[2].c_str()), false);
        } else if (a.size() == 4 && a[0] == "u16to") {
            // the model's bound is in units; the API's in bytes
            r = doTo(trans("utf16_" + a[1]), parseHex(a[3], 4), 2 * atoi(a[2].c_str()), true);
            if (r.compare(0, 3, "ok ") == 0) { size_t p = r.find(' ', 3); r = "ok " + r.substr(p + 1); }
        } else if (a.size() == 4 && a[0] == "tabfrom")
            r = doFrom(trans(a[1]), parseHex(a[3], 2), atoi(a[2].c_str()), false);
        else if (a.size() == 5 && a[0] == "tabto")
            r = doTo(trans(a[1]), parseHex(a[4], 4), atoi(a[2].c_str()), a[3] == "1");
        else if (a.size() == 3 && a[0] == "can") {
            std::string k = a[1];
            if (k == "ucs4") k = "ucs4_0";
            if (k == "utf16") k = "utf16_0";
            XMLTranscoder* t = trans(k);
            r = t ? (t->canTranscodeTo((unsigned int)strtoul(a[2].c_str(), 0, 10)) ? "ok 1" : "ok 0") : "bad-request";
        } else if (a.size() == 3 && a[0] == "asciifrom") {
            r = doFrom(trans("ascii"), parseHex(a[2], 2), atoi(a[1].c_str()), false);
        } else if (a.size() == 3 && a[0] == "latin1from") {
            r = doFrom(trans("latin1"), parseHex(a[2], 2), atoi(a[1].c_str()), false);
        }
        else if (a.size() == 2 && a[0] == "probe") {
            std::vector<uint32_t> b = parseHex(a[1], 2);
            std::vector<XMLByte> in(b.size() + 1, 0);
            for (size_t i = 0; i < b.size(); i++) in[i] = (XMLByte)b[i];
            r = std::string("ok ") + encName(XMLRecognizer::basicEncodingProbe(in.data(), b.size()));
        } else if (a.size() == 2 && a[0] == "encfor") {
            std::vector<XMLCh> nm; xstr(parseHex(a[1], 4), nm);
            r = "ok " + std::to_string((int)XMLRecognizer::encodingForName(nm.data()));
        } else if (a.size() == 2 && a[0] == "namefor") {
            try {
                const XMLCh* n = XMLRecognizer::nameForEncoding((XMLRecognizer::Encodings)atoi(a[1].c_str()), XMLPlatformUtils::fgMemoryManager);
                r = "ok " + showHex(n, XMLString::stringLen(n), 4);
            } catch (const XMLException& e) { r = "err " + exName(e); }
        } else if (a.size() == 2 && a[0] == "mktrans")
            r = doMkTrans(parseHex(a[1], 4));
        else if (a.size() == 2 && a[0] == "mkenum")
            r = doMkEnum(atoi(a[1].c_str()));
        else if (a.size() == 3 && a[0] == "setenc")
            r = doSetEnc(parseHex(a[1], 2), parseHex(a[2], 4));
        else if (a.size() == 2 && a[0] == "parse")
            r = doParse(parseHex(a[1], 2));
        std::cout << r << "\n";
    }
    return 0;
}
