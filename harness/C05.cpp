// xh_C05: drives the real transcoders with the same line protocol as bin/xm_C05 (extracted model)
#include "xh_common.hpp"
#include <xercesc/util/TransService.hpp>
#include <xercesc/util/XMLUniDefs.hpp>
#include <map>
#include <memory>
#include <cstring>

using namespace xh;

static std::map<std::string, XMLTranscoder*> gTrans;

static XMLTranscoder* trans(const std::string& key) {
    auto it = gTrans.find(key);
    if (it != gTrans.end()) return it->second;
    const char* enc = 0;
    if (key == "utf8") enc = "UTF-8";
    else if (key == "ucs4_0") enc = "UCS-4 (LE)";     // host is little endian: LE = not swapped
    else if (key == "ucs4_1") enc = "UCS-4 (BE)";
    else if (key == "utf16_0") enc = "UTF-16 (LE)";
    else if (key == "utf16_1") enc = "UTF-16 (BE)";
    else if (key == "win1252") enc = "WINDOWS-1252";
    else if (key == "ibm037") enc = "IBM037";
    else if (key == "ibm1047") enc = "IBM1047";
    else if (key == "ibm1140") enc = "IBM1140";
    else if (key == "latin1") enc = "ISO8859-1";
    else if (key == "ascii") enc = "US-ASCII";
    else return 0;
    XMLTransService::Codes rc;
    XMLTranscoder* t = XMLPlatformUtils::fgTransService->makeNewTranscoderFor(enc, rc, 16 * 1024);
    gTrans[key] = t;
    return t;
}

static std::string doFrom(XMLTranscoder* t, const std::vector<uint32_t>& src, size_t maxChars, bool withSizes) {
    std::vector<XMLByte> in(src.size() + 8, 0);
    for (size_t i = 0; i < src.size(); i++) in[i] = (XMLByte)src[i];
    std::vector<XMLCh> out(maxChars + 8, 0xEEEE);
    std::vector<unsigned char> sizes(maxChars + 8, 0xEE);
    XMLSize_t eaten = 0;
    try {
        XMLSize_t n = t->transcodeFrom(in.data(), src.size(), out.data(), maxChars, eaten, sizes.data());
        // canaries: nothing may be written beyond maxChars
        for (size_t i = maxChars; i < maxChars + 8; i++)
            if (out[i] != 0xEEEE || sizes[i] != 0xEE) return "overrun";
        if (n > maxChars) return "overrun";
        std::string r = "ok " + std::to_string(eaten) + " " + showHex(out.data(), n, 4);
        if (withSizes) r += " " + showHex(sizes.data(), n, 1);
        return r;
    } catch (const XMLException& e) {
        return "err " + exceptString(e);
    }
}

static std::string doTo(XMLTranscoder* t, const std::vector<uint32_t>& src, size_t maxBytes, bool thr) {
    std::vector<XMLCh> in(src.size() + 8, 0);
    for (size_t i = 0; i < src.size(); i++) in[i] = (XMLCh)src[i];
    std::vector<XMLByte> out(maxBytes + 16, 0xEE);
    XMLSize_t eaten = 0;
    try {
        XMLSize_t n = t->transcodeTo(in.data(), src.size(), out.data(), maxBytes, eaten,
                                     thr ? XMLTranscoder::UnRep_Throw : XMLTranscoder::UnRep_RepChar);
        for (size_t i = maxBytes; i < maxBytes + 16; i++)
            if (out[i] != 0xEE) return "overrun";
        if (n > maxBytes) return "overrun";
        return "ok " + std::to_string(eaten) + " " + showHex(out.data(), n, 2);
    } catch (const XMLException& e) {
        return "err " + exceptString(e);
    }
}

int main() {
    XMLPlatformUtils::Initialize();
    std::string line;
    while (std::getline(std::cin, line)) {
        std::vector<std::string> a = splitWs(line);
        std::string r = "bad-request";
        if (a.size() == 3 && a[0] == "u8from")
            r = doFrom(trans("utf8"), parseHex(a[2], 2), atoi(a[1].c_str()), true);
        else if (a.size() == 4 && a[0] == "u8to")
            r = doTo(trans("utf8"), parseHex(a[3], 4), atoi(a[1].c_str()), a[2] == "1");
        else if (a.size() == 4 && a[0] == "u4from")
            r = doFrom(trans("ucs4_" + a[1]), parseHex(a[3], 2), atoi(a[2].c_str()), true);
        else if (a.size() == 4 && a[0] == "u4to")
            r = doTo(trans("ucs4_" + a[1]), parseHex(a[3], 4), atoi(a[2].c_str()), true);
        else if (a.size() == 4 && a[0] == "u16from") {
            r = doFrom(trans("utf16_" + a[1]), parseHex(a[3], 2), atoi(a[2].c_str()), false);
            if (r.compare(0, 3, "ok ") == 0) { size_t p = r.find(' ', 3); r = "ok " + r.substr(p + 1); }
        } else if (a.size() == 4 && a[0] == "u16to") {
            // the model's bound is in units; the API's in bytes
            r = doTo(trans("utf16_" + a[1]), parseHex(a[3], 4), 2 * atoi(a[2].c_str()), true);
            if (r.compare(0, 3, "ok ") == 0) { size_t p = r.find(' ', 3); r = "ok " + r.substr(p + 1); }
        } else if (a.size() == 4 && a[0] == "tabfrom")
            r = doFrom(trans(a[1]), parseHex(a[3], 2), atoi(a[2].c_str()), false);
        else if (a.size() == 5 && a[0] == "tabto")
            r = doTo(trans(a[1]), parseHex(a[4], 4), atoi(a[2].c_str()), a[3] == "1");
        else if (a.size() == 3 && a[0] == "can") {
            std::string k = a[1];
            if (k == "ucs4") k = "ucs4_0";
            if (k == "utf16") k = "utf16_0";
            XMLTranscoder* t = trans(k);
            r = t ? (t->canTranscodeTo((unsigned int)strtoul(a[2].c_str(), 0, 10)) ? "ok 1" : "ok 0") : "bad-request";
        } else if (a.size() == 3 && a[0] == "asciifrom") {
            r = doFrom(trans("ascii"), parseHex(a[2], 2), atoi(a[1].c_str()), false);
            if (r.compare(0, 3, "ok ") == 0) { size_t p = r.find(' ', 3); r = "ok " + r.substr(p + 1); }
        } else if (a.size() == 3 && a[0] == "latin1from") {
            r = doFrom(trans("latin1"), parseHex(a[2], 2), atoi(a[1].c_str()), false);
            if (r.compare(0, 3, "ok ") == 0) { size_t p = r.find(' ', 3); r = "ok " + r.substr(p + 1); }
        }
        std::cout << r << "\n";
    }
    return 0;
}
