// shared helpers for the correspondence harnesses (line protocol, hex, exception naming)
#pragma once
#include <xercesc/util/PlatformUtils.hpp>
#include <xercesc/util/XMLString.hpp>
#include <xercesc/util/XMLException.hpp>
#include <xercesc/util/XMLExceptMsgs.hpp>
#include <xercesc/util/OutOfMemoryException.hpp>
#include <string>
#include <vector>
#include <sstream>
#include <iostream>
#include <cstdio>
#include <cstdint>

using namespace XERCES_CPP_NAMESPACE;

namespace xh {

inline int hexval(char c) {
    if (c >= '0' && c <= '9') return c - '0';
    if (c >= 'a' && c <= 'f') return c - 'a' + 10;
    if (c >= 'A' && c <= 'F') return c - 'A' + 10;
    return 0;
}
// "-" is the empty list; otherwise groups of w hex digits
inline std::vector<uint32_t> parseHex(const std::string& s, int w) {
    std::vector<uint32_t> out;
    if (s == "-") return out;
    for (size_t i = 0; i + w <= s.size(); i += w) {
        uint32_t v = 0;
        for (int k = 0; k < w; k++) v = v * 16 + hexval(s[i + k]);
        out.push_back(v);
    }
    return out;
}
template <class T> inline std::string showHex(const T* p, size_t n, int w) {
    if (n == 0) return "-";
    std::string out;
    char buf[16];
    for (size_t i = 0; i < n; i++) {
        snprintf(buf, sizeof buf, "%0*X", w, (unsigned)p[i]);
        out += buf;
    }
    return out;
}
inline std::vector<std::string> splitWs(const std::string& line) {
    std::vector<std::string> v;
    std::istringstream is(line);
    std::string t;
    while (is >> t) v.push_back(t);
    return v;
}
inline std::string narrow(const XMLCh* s) {
    std::string out;
    if (!s) return out;
    for (; *s; ++s) {
        if (*s < 0x80 && *s >= 0x20) out += (char)*s;
        else { char b[12]; snprintf(b, sizeof b, "\\u%04X", (unsigned)*s); out += b; }
    }
    return out;
}
// name of an XMLExcepts code that the models distinguish
inline const char* exceptName(int code) {
    switch (code) {
    case XMLExcepts::UTF8_FormatError: return "UTF8_FormatError";
    case XMLExcepts::UTF8_Invalid_3BytesSeq: return "UTF8_Invalid_3BytesSeq";
    case XMLExcepts::UTF8_Irregular_3BytesSeq: return "UTF8_Irregular_3BytesSeq";
    case XMLExcepts::UTF8_Invalid_4BytesSeq: return "UTF8_Invalid_4BytesSeq";
    case XMLExcepts::UTF8_Exceeds_BytesLimit: return "UTF8_Exceeds_BytesLimit";
    case XMLExcepts::Trans_BadSrcSeq: return "Trans_BadSrcSeq";
    case XMLExcepts::Trans_Unrepresentable: return "Trans_Unrepresentable";
    case XMLExcepts::Trans_BadTrailingSurrogate: return "Trans_BadTrailingSurrogate";
    default: return 0;
    }
}
inline std::string exceptString(const XMLException& e) {
    const char* n = exceptName((int)e.getCode());
    if (n) return n;
    return std::string("XMLException:") + narrow(e.getType()) + ":" + std::to_string((int)e.getCode());
}

} // namespace xh
