// xh_C02: drives the four public parser APIs (SAXParser, SAX2XMLReaderImpl, XercesDOMParser,
// DOMLSParserImpl) over the four scanners and dumps a canonical event stream + the error codes
// reported through XMLErrorReporter::error, so that the APIs/scanners can be compared with each
// other and with the extracted model.  Also dumps the XMLChar tables and the XMLErrs severity map.
//
//   parse <api> <scanner> <ns> <hexbytes> [<flags> [<sysid>=<hexbytes>]...]
//     api sax|sax2|dom|ls, scanner WF|IG|DG|SG, ns 0|1; response `<events> | <errors> | fh=<n>`
//     flags: letters, or `-` for none (the 5-token request = no flags, no entities)
//       p  progressive parse (parseFirst / parseNext / parseReset); `ls` answers `unsupported | - | fh=0`
//       r  entity reference boundaries R<name> ... r<name> (DOM builders create EntityReference nodes)
//       w  ignorable whitespace dropped (DOM: include-ignorable-whitespace off)
//       l  `@<line>:<col>` appended to S tokens (sax, sax2 only)
//       d  D<name> token for the DOCTYPE
//     <sysid>=<hexbytes>: external entities / external subset served from memory, looked up by the
//       system id literal (or its last path component); ids not listed fall back to the library
//   chartab | chartab11 | errsev
#include "xh_common.hpp"
#include <xercesc/util/XMLUni.hpp>
#include <xercesc/util/XMLUniDefs.hpp>
#include <xercesc/util/XMLChar.hpp>
#include <xercesc/util/RefVectorOf.hpp>
#include <xercesc/framework/XMLErrorCodes.hpp>
#include <xercesc/framework/XMLErrorReporter.hpp>
#include <xercesc/framework/XMLDocumentHandler.hpp>
#include <xercesc/framework/XMLElementDecl.hpp>
#include <xercesc/framework/XMLAttr.hpp>
#include <xercesc/framework/MemBufInputSource.hpp>
#include <xercesc/framework/Wrapper4InputSource.hpp>
#include <xercesc/framework/XMLPScanToken.hpp>
#include <xercesc/framework/XMLEntityDecl.hpp>
#include <xercesc/util/XMLEntityResolver.hpp>
#include <xercesc/util/XMLResourceIdentifier.hpp>
#include <xercesc/validators/DTD/DTDElementDecl.hpp>
#include <xercesc/sax/Locator.hpp>
#include <xercesc/parsers/SAXParser.hpp>
#include <xercesc/parsers/SAX2XMLReaderImpl.hpp>
#include <xercesc/parsers/XercesDOMParser.hpp>
#include <xercesc/parsers/DOMLSParserImpl.hpp>
#include <xercesc/sax/HandlerBase.hpp>
#include <xercesc/sax/SAXException.hpp>
#include <xercesc/sax/SAXParseException.hpp>
#include <xercesc/sax2/DefaultHandler.hpp>
#include <xercesc/sax2/Attributes.hpp>
#include <xercesc/dom/DOM.hpp>
#include <map>
#include <algorithm>
#include <cstring>
#include <unistd.h>

using namespace xh;

typedef std::basic_string<XMLCh> U16;

// ------------------------------------------------------------------------------------------------
//  per-parse recording state (one parse at a time)
// ------------------------------------------------------------------------------------------------
struct ErrRec {
    int type;
    char dom;
    unsigned int code;
    unsigned long long line, col;
};

static std::vector<ErrRec> gErrs;
static int gFatalHandlerCalls = 0;

static std::string gEvents;     // finished tokens, space separated
static U16 gPendingText;        // merged character data not yet emitted
static long gDepth = 0;         // open elements (SAX style APIs)
static bool gInCData = false;   // SAX2: between startCDATA/endCDATA
static U16 gCDataBuf;

// optional request flags (all false for the old 5-token request)
static bool gFlagP = false;     // progressive parse (parseFirst / parseNext)
static bool gFlagR = false;     // entity reference boundaries: R<name> ... r<name>
static bool gFlagW = false;     // drop ignorable whitespace
static bool gFlagL = false;     // @line:col on S tokens (sax, sax2)
static bool gFlagD = false;     // D<name> token for the DOCTYPE
static bool gFlagT = false;     // DTD-level events: m<comment> p<target>,<data> (sax, sax2), I<internal subset> (dom, ls)
static bool gInDTD = false;     // SAX2: between startDTD and endDTD
static bool gFlagN = false;     // namespace info: qName built from prefix:local (sax), #uri#local on S tokens (sax2, dom, ls)
static bool gNsOn = false;
static const Locator* gLocator = 0;    // given to setDocumentLocator during the current parse

// external entities served from memory: sysid -> bytes (per request)
static std::map<std::string, std::vector<XMLByte> > gEntTable;

static void resetRecording() {
    gLocator = 0;
    gErrs.clear();
    gFatalHandlerCalls = 0;
    gEvents.clear();
    gPendingText.clear();
    gDepth = 0;
    gInCData = false;
    gCDataBuf.clear();
}

static void hex4(std::string& out, const XMLCh* p, size_t n) {
    static const char* D = "0123456789ABCDEF";
    if (n > 64 && out.capacity() < out.size() + 4 * n)
        out.reserve(std::max(out.size() + 4 * n, 2 * out.capacity()));
    for (size_t i = 0; i < n; i++) {
        unsigned v = (unsigned)p[i] & 0xFFFF;
        out += D[(v >> 12) & 15];
        out += D[(v >> 8) & 15];
        out += D[(v >> 4) & 15];
        out += D[v & 15];
    }
}
static void hex4z(std::string& out, const XMLCh* p) {
    if (p) hex4(out, p, XMLString::stringLen(p));
}
static U16 u16(const XMLCh* p) { return p ? U16(p) : U16(); }

static void beginToken(char kind) {
    if (!gEvents.empty()) gEvents += ' ';
    gEvents += kind;
}
static void flushText() {
    if (gPendingText.empty()) return;
    beginToken('T');
    hex4(gEvents, gPendingText.data(), gPendingText.size());
    gPendingText.clear();
}
static void evText(const XMLCh* p, size_t n) {
    if (p && n) gPendingText.append(p, n);
}
static void evCData(const XMLCh* p, size_t n) {
    flushText();
    beginToken('C');
    if (p) hex4(gEvents, p, n);
}
static void evComment(const XMLCh* p, size_t n) {
    flushText();
    beginToken('M');
    if (p) hex4(gEvents, p, n);
}
static void evPI(const XMLCh* target, const XMLCh* data) {
    flushText();
    beginToken('P');
    hex4z(gEvents, target);
    gEvents += ',';
    hex4z(gEvents, data);
}
static void evStart(const XMLCh* name, std::vector<std::pair<U16, U16> >& attrs) {
    flushText();
    beginToken('S');
    hex4z(gEvents, name);
    std::stable_sort(attrs.begin(), attrs.end(),
                     [](const std::pair<U16, U16>& a, const std::pair<U16, U16>& b) {
                         // lexicographic on UTF-16 code units (char_traits<char16_t> compares unsigned)
                         return std::lexicographical_compare(a.first.begin(), a.first.end(),
                                                             b.first.begin(), b.first.end(),
                                                             [](XMLCh x, XMLCh y) { return (unsigned)x < (unsigned)y; });
                     });
    for (size_t i = 0; i < attrs.size(); i++) {
        gEvents += ',';
        hex4(gEvents, attrs[i].first.data(), attrs[i].first.size());
        gEvents += '=';
        hex4(gEvents, attrs[i].second.data(), attrs[i].second.size());
    }
}
// appended to the S token that was just written (flag n)
static void evNsInfo(const XMLCh* uri, const XMLCh* local) {
    if (!gFlagN) return;
    gEvents += '#';
    hex4z(gEvents, uri ? uri : (const XMLCh*)u"");
    gEvents += '#';
    hex4z(gEvents, local ? local : (const XMLCh*)u"");
}
// the qualified name as SAXParser::startElement builds it for the SAX1 DocumentHandler
static U16 advQName(const XMLElementDecl& elemDecl, const XMLCh* prefix) {
    if (!gFlagN) return u16(elemDecl.getFullName());
    if (!gNsOn) return u16(elemDecl.getFullName());
    if (prefix && *prefix) { U16 q(prefix); q += (XMLCh)':'; q += u16(elemDecl.getBaseName()); return q; }
    return u16(elemDecl.getBaseName());
}
static void evEnd(const XMLCh* name) {
    flushText();
    beginToken('E');
    hex4z(gEvents, name);
}
// appended to the S token that was just written (flag l)
static void evLoc() {
    if (!gFlagL) return;
    unsigned long long l = 0, c = 0;
    if (gLocator) {
        l = (unsigned long long)gLocator->getLineNumber();
        c = (unsigned long long)gLocator->getColumnNumber();
    }
    gEvents += '@';
    gEvents += std::to_string(l);
    gEvents += ':';
    gEvents += std::to_string(c);
}
static void evEntStart(const XMLCh* name) {
    flushText();
    beginToken('R');
    hex4z(gEvents, name);
}
static void evEntEnd(const XMLCh* name) {
    flushText();
    beginToken('r');
    hex4z(gEvents, name);
}
static void evDoctype(const XMLCh* name) {
    flushText();
    beginToken('D');
    hex4z(gEvents, name);
}
static void evDtdComment(const XMLCh* text) {
    flushText();
    beginToken('m');
    hex4z(gEvents, text);
}
static void evDtdPI(const XMLCh* target, const XMLCh* data) {
    flushText();
    beginToken('p');
    hex4z(gEvents, target);
    gEvents += ',';
    hex4z(gEvents, data);
}
static void evIntSubset(const XMLCh* text) {
    flushText();
    beginToken('I');
    hex4z(gEvents, text);
}

static void recordError(unsigned int code, const XMLCh* domain, XMLErrorReporter::ErrTypes type,
                        XMLFileLoc line, XMLFileLoc col) {
    ErrRec r;
    r.type = (int)type;
    r.code = code;
    r.line = (unsigned long long)line;
    r.col = (unsigned long long)col;
    if (domain && XMLString::equals(domain, XMLUni::fgXMLErrDomain)) r.dom = 'X';
    else if (domain && XMLString::equals(domain, XMLUni::fgValidityDomain)) r.dom = 'V';
    else if (domain && XMLString::equals(domain, XMLUni::fgExceptDomain)) r.dom = 'E';
    else r.dom = '?';
    gErrs.push_back(r);
}

// ------------------------------------------------------------------------------------------------
//  parser subclasses that intercept XMLErrorReporter::error to learn the codes
// ------------------------------------------------------------------------------------------------
#define XH_ERROR_OVERRIDE(BASE)                                                                         \
    virtual void error(const unsigned int errCode, const XMLCh* const errDomain,                        \
                       const XMLErrorReporter::ErrTypes type, const XMLCh* const errorText,             \
                       const XMLCh* const systemId, const XMLCh* const publicId,                        \
                       const XMLFileLoc lineNum, const XMLFileLoc colNum) {                             \
        recordError(errCode, errDomain, type, lineNum, colNum);                                         \
        BASE::error(errCode, errDomain, type, errorText, systemId, publicId, lineNum, colNum);          \
    }

class RecSAXParser : public SAXParser {
public:
    RecSAXParser() : SAXParser() {}
    // only reached while a DTDHandler is installed (flag d): SAXParser registers itself as the
    // scanner's DocTypeHandler only then
    virtual void doctypeDecl(const DTDElementDecl& elemDecl, const XMLCh* const publicId,
                             const XMLCh* const systemId, const bool hasIntSubset,
                             const bool hasExtSubset = false) {
        SAXParser::doctypeDecl(elemDecl, publicId, systemId, hasIntSubset, hasExtSubset);
        if (gFlagD) evDoctype(elemDecl.getFullName());
    }
    virtual void doctypeComment(const XMLCh* const comment) {
        SAXParser::doctypeComment(comment);
        if (gFlagT) evDtdComment(comment);
    }
    virtual void doctypePI(const XMLCh* const target, const XMLCh* const data) {
        SAXParser::doctypePI(target, data);
        if (gFlagT) evDtdPI(target, data);
    }
    XH_ERROR_OVERRIDE(SAXParser)
};
class RecSAX2Reader : public SAX2XMLReaderImpl {
public:
    RecSAX2Reader() : SAX2XMLReaderImpl() {}
    // SAX2XMLReaderImpl forwards comments inside the DTD to LexicalHandler::comment as well; the
    // other APIs do not surface them as document events, so keep them out of the dump
    // (with flag t they are let through and printed as m tokens by the LexicalHandler)
    virtual void doctypeComment(const XMLCh* const comment) {
        if (gFlagT) SAX2XMLReaderImpl::doctypeComment(comment);
    }
    virtual void doctypePI(const XMLCh* const target, const XMLCh* const data) {
        SAX2XMLReaderImpl::doctypePI(target, data);
        if (gFlagT) evDtdPI(target, data);
    }
    XH_ERROR_OVERRIDE(SAX2XMLReaderImpl)
};
class RecDOMParser : public XercesDOMParser {
public:
    RecDOMParser() : XercesDOMParser() {}
    // innermost element still open when the parse stopped (the document node after a complete parse);
    // only ever compared by address, never dereferenced
    const DOMNode* openParent() const { return fCurrentParent; }
    XH_ERROR_OVERRIDE(XercesDOMParser)
};
class RecLSParser : public DOMLSParserImpl {
public:
    RecLSParser() : DOMLSParserImpl() {}
    const DOMNode* openParent() const { return fCurrentParent; }
    XH_ERROR_OVERRIDE(DOMLSParserImpl)
};

// ------------------------------------------------------------------------------------------------
//  public handlers
// ------------------------------------------------------------------------------------------------
class CountingErrorHandler : public ErrorHandler {
public:
    virtual void warning(const SAXParseException&) {}
    virtual void error(const SAXParseException&) {}
    virtual void fatalError(const SAXParseException&) { gFatalHandlerCalls++; }
    virtual void resetErrors() {}
};

class CountingDOMErrorHandler : public DOMErrorHandler {
public:
    virtual bool handleError(const DOMError& e) {
        if (e.getSeverity() == DOMError::DOM_SEVERITY_FATAL_ERROR) gFatalHandlerCalls++;
        return true;
    }
};

// SAX1: advanced document handler
class AdvHandler : public XMLDocumentHandler {
public:
    virtual void docCharacters(const XMLCh* const chars, const XMLSize_t length, const bool cdataSection) {
        // SAXParser itself suppresses characters outside the root for the SAX DocumentHandler
        // (fElemDepth == 0), SAX2XMLReaderImpl and AbstractDOMParser do the same: mirror that.
        if (gDepth <= 0) return;
        if (cdataSection) evCData(chars, length);
        else evText(chars, length);
    }
    virtual void docComment(const XMLCh* const comment) {
        evComment(comment, comment ? XMLString::stringLen(comment) : 0);
    }
    virtual void docPI(const XMLCh* const target, const XMLCh* const data) { evPI(target, data); }
    virtual void endDocument() {}
    virtual void endElement(const XMLElementDecl& elemDecl, const unsigned int, const bool, const XMLCh* const prefix) {
        evEnd(advQName(elemDecl, prefix).c_str());
        if (gDepth > 0) gDepth--;
    }
    virtual void endEntityReference(const XMLEntityDecl& entDecl) {
        if (gFlagR) evEntEnd(entDecl.getName());
    }
    virtual void ignorableWhitespace(const XMLCh* const chars, const XMLSize_t length, const bool) {
        if (gDepth <= 0) return;
        if (gFlagW) return;
        evText(chars, length);
    }
    virtual void resetDocument() {}
    virtual void startDocument() {}
    virtual void startElement(const XMLElementDecl& elemDecl, const unsigned int, const XMLCh* const prefix,
                              const RefVectorOf<XMLAttr>& attrList, const XMLSize_t attrCount,
                              const bool isEmpty, const bool) {
        std::vector<std::pair<U16, U16> > attrs;
        for (XMLSize_t i = 0; i < attrCount; i++) {
            const XMLAttr* a = attrList.elementAt(i);
            attrs.push_back(std::make_pair(u16(a->getQName()), u16(a->getValue())));
        }
        U16 qn = advQName(elemDecl, prefix);
        evStart(qn.c_str(), attrs);
        evLoc();
        if (isEmpty) evEnd(qn.c_str());   // no endElement call for advanced handlers
        else gDepth++;
    }
    virtual void startEntityReference(const XMLEntityDecl& entDecl) {
        if (gFlagR) evEntStart(entDecl.getName());
    }
    virtual void XMLDecl(const XMLCh* const, const XMLCh* const, const XMLCh* const, const XMLCh* const) {}
};

// SAX1: plain handler, installed next to the advanced one only to learn the Locator (flag l) and,
// as DTDHandler, to make SAXParser listen to the scanner's DocTypeHandler events (flag d)
class Sax1Aux : public HandlerBase {
public:
    virtual void setDocumentLocator(const Locator* const locator) { gLocator = locator; }
};

// SAX2: content + lexical handler
class Sax2Handler : public DefaultHandler {
public:
    virtual void setDocumentLocator(const Locator* const locator) { gLocator = locator; }
    static bool reportedEntity(const XMLCh* name) {
        static const XMLCh dtdName[] = { chOpenSquare, chLatin_d, chLatin_t, chLatin_d, chCloseSquare, chNull };
        if (!name) return false;
        if (name[0] == chPercent) return false;              // parameter entity
        if (XMLString::equals(name, dtdName)) return false;   // external subset
        return true;
    }
    virtual void startEntity(const XMLCh* const name) {
        if (gFlagR && reportedEntity(name)) evEntStart(name);
    }
    virtual void endEntity(const XMLCh* const name) {
        if (gFlagR && reportedEntity(name)) evEntEnd(name);
    }
    virtual void startDTD(const XMLCh* const name, const XMLCh* const, const XMLCh* const) {
        gInDTD = true;
        if (gFlagD) evDoctype(name);
    }
    virtual void endDTD() { gInDTD = false; }
    virtual void characters(const XMLCh* const chars, const XMLSize_t length) {
        if (gInCData) { if (chars) gCDataBuf.append(chars, length); }
        else evText(chars, length);
    }
    virtual void ignorableWhitespace(const XMLCh* const chars, const XMLSize_t length) {
        if (gDepth <= 0) return;
        if (gFlagW) return;
        evText(chars, length);
    }
    virtual void startElement(const XMLCh* const uri, const XMLCh* const localname, const XMLCh* const qname,
                              const Attributes& at) {
        std::vector<std::pair<U16, U16> > attrs;
        XMLSize_t n = at.getLength();
        for (XMLSize_t i = 0; i < n; i++)
            attrs.push_back(std::make_pair(u16(at.getQName(i)), u16(at.getValue(i))));
        evStart(qname, attrs);
        evNsInfo(uri, localname);
        evLoc();
        gDepth++;
    }
    virtual void endElement(const XMLCh* const, const XMLCh* const, const XMLCh* const qname) {
        evEnd(qname);
        if (gDepth > 0) gDepth--;
    }
    virtual void processingInstruction(const XMLCh* const target, const XMLCh* const data) { evPI(target, data); }
    virtual void comment(const XMLCh* const chars, const XMLSize_t length) {
        if (gInDTD) { if (gFlagT) { U16 t(chars, length); evDtdComment(t.c_str()); } return; }
        evComment(chars, length);
    }
    virtual void startCDATA() { gInCData = true; gCDataBuf.clear(); }
    virtual void endCDATA() {
        if (gInCData) evCData(gCDataBuf.data(), gCDataBuf.size());
        gInCData = false;
        gCDataBuf.clear();
    }
    virtual void warning(const SAXParseException&) {}
    virtual void error(const SAXParseException&) {}
    virtual void fatalError(const SAXParseException&) { gFatalHandlerCalls++; }
};

// ------------------------------------------------------------------------------------------------
//  DOM walk (iterative on depth would be nicer, recursion depth is bounded by the scanner anyway;
//  to stay safe with very deep documents we use an explicit stack)
// ------------------------------------------------------------------------------------------------
static void walkNodeOpen(DOMNode* n, bool& descend) {
    descend = false;
    switch (n->getNodeType()) {
    case DOMNode::ELEMENT_NODE: {
        std::vector<std::pair<U16, U16> > attrs;
        DOMNamedNodeMap* m = n->getAttributes();
        if (m) {
            XMLSize_t cnt = m->getLength();
            for (XMLSize_t i = 0; i < cnt; i++) {
                DOMNode* a = m->item(i);
                if (a) attrs.push_back(std::make_pair(u16(a->getNodeName()), u16(a->getNodeValue())));
            }
        }
        evStart(n->getNodeName(), attrs);
        evNsInfo(n->getNamespaceURI(), n->getLocalName());
        descend = true;
        break;
    }
    case DOMNode::TEXT_NODE: {
        const XMLCh* v = n->getNodeValue();
        if (v) evText(v, XMLString::stringLen(v));
        break;
    }
    case DOMNode::CDATA_SECTION_NODE: {
        const XMLCh* v = n->getNodeValue();
        evCData(v, v ? XMLString::stringLen(v) : 0);
        break;
    }
    case DOMNode::COMMENT_NODE: {
        const XMLCh* v = n->getNodeValue();
        evComment(v, v ? XMLString::stringLen(v) : 0);
        break;
    }
    case DOMNode::PROCESSING_INSTRUCTION_NODE:
        evPI(n->getNodeName(), n->getNodeValue());
        break;
    case DOMNode::ENTITY_REFERENCE_NODE:
        if (gFlagR) evEntStart(n->getNodeName());
        descend = true;
        break;
    case DOMNode::DOCUMENT_TYPE_NODE:
        if (gFlagD) evDoctype(n->getNodeName());
        if (gFlagT) evIntSubset(((DOMDocumentType*)n)->getInternalSubset());
        break;
    default:
        break;
    }
}
static void walkNodeClose(DOMNode* n) {
    if (n->getNodeType() == DOMNode::ELEMENT_NODE) evEnd(n->getNodeName());
    else if (gFlagR && n->getNodeType() == DOMNode::ENTITY_REFERENCE_NODE) evEntEnd(n->getNodeName());
}
// openParent: the parser's current parent node when the parse stopped.  After a fatal error the
// elements on the path document -> openParent were never closed by the scanner (no endElement
// event); the tree cannot show that, so the E tokens of exactly those elements are suppressed to
// make the dump the event stream that was really delivered (as the SAX style APIs show it).
static void walkDocument(DOMDocument* doc, const DOMNode* openParent) {
    if (!doc) return;
    // explicit-stack preorder traversal over first-child / next-sibling links
    struct Open { DOMNode* n; bool unclosed; };
    std::vector<Open> stack;       // nodes that were opened with descend == true
    DOMNode* cur = doc->getFirstChild();
    while (cur) {
        bool descend = false;
        walkNodeOpen(cur, descend);
        bool unclosed = false;
        if (cur == openParent) {
            unclosed = true;
            for (size_t i = 0; i < stack.size(); i++) stack[i].unclosed = true;
        }
        if (descend) {
            DOMNode* c = cur->getFirstChild();
            if (c) { Open o; o.n = cur; o.unclosed = unclosed; stack.push_back(o); cur = c; continue; }
            if (!unclosed) walkNodeClose(cur);
        }
        // advance: next sibling, or climb
        DOMNode* next = cur->getNextSibling();
        while (!next && !stack.empty()) {
            Open p = stack.back();
            stack.pop_back();
            if (!p.unclosed) walkNodeClose(p.n);
            next = p.n->getNextSibling();
        }
        cur = next;
    }
    flushText();
}

// ------------------------------------------------------------------------------------------------
//  parser cache
// ------------------------------------------------------------------------------------------------
// ------------------------------------------------------------------------------------------------
//  external entities from memory.  The scanner hands over the system id literal as written in the
//  document; an id that is not in the request's table gives 0 = the library's default resolution
//  (which is also what happens when no resolver is installed at all).
// ------------------------------------------------------------------------------------------------
class MemEntityResolver : public XMLEntityResolver {
public:
    virtual InputSource* resolveEntity(XMLResourceIdentifier* resourceIdentifier) {
        if (!resourceIdentifier || gEntTable.empty()) return 0;
        const XMLCh* sys = resourceIdentifier->getSystemId();
        if (!sys) return 0;
        std::string id = narrow(sys);
        std::map<std::string, std::vector<XMLByte> >::const_iterator it = gEntTable.find(id);
        if (it == gEntTable.end()) {
            size_t slash = id.rfind('/');
            if (slash == std::string::npos) return 0;
            it = gEntTable.find(id.substr(slash + 1));
            if (it == gEntTable.end()) return 0;
        }
        static const XMLByte dummy = 0;
        const std::vector<XMLByte>& b = it->second;
        // the table owns the bytes and outlives the parse; the reader manager adopts the source
        return new MemBufInputSource(b.empty() ? &dummy : b.data(), b.size(), it->first.c_str(), false);
    }
};

static CountingErrorHandler gSaxErrHandler;
static CountingDOMErrorHandler gDomErrHandler;
static AdvHandler gAdvHandler;
static Sax1Aux gSax1Aux;
static Sax2Handler gSax2Handler;
static MemEntityResolver gEntResolver;

static std::map<std::string, RecSAXParser*> gSax;
static std::map<std::string, RecSAX2Reader*> gSax2;
static std::map<std::string, RecDOMParser*> gDom;
static std::map<std::string, RecLSParser*> gLs;

static const XMLCh* scannerName(const std::string& s) {
    if (s == "WF") return XMLUni::fgWFXMLScanner;
    if (s == "IG") return XMLUni::fgIGXMLScanner;
    if (s == "DG") return XMLUni::fgDGXMLScanner;
    if (s == "SG") return XMLUni::fgSGXMLScanner;
    return 0;
}

static RecSAXParser* getSax(const std::string& key, const XMLCh* scanner, bool ns) {
    std::map<std::string, RecSAXParser*>::iterator it = gSax.find(key);
    if (it != gSax.end()) return it->second;
    RecSAXParser* p = new RecSAXParser();
    p->useScanner(scanner);
    p->setDoNamespaces(ns);
    p->setDoSchema(false);
    p->setValidationScheme(SAXParser::Val_Never);
    p->setErrorHandler(&gSaxErrHandler);
    p->installAdvDocHandler(&gAdvHandler);
    p->setXMLEntityResolver(&gEntResolver);
    gSax[key] = p;
    return p;
}
static RecSAX2Reader* getSax2(const std::string& key, const XMLCh* scanner, bool ns) {
    std::map<std::string, RecSAX2Reader*>::iterator it = gSax2.find(key);
    if (it != gSax2.end()) return it->second;
    RecSAX2Reader* p = new RecSAX2Reader();
    p->setProperty(XMLUni::fgXercesScannerName, (void*)scanner);
    p->setFeature(XMLUni::fgSAX2CoreNameSpaces, ns);
    p->setFeature(XMLUni::fgSAX2CoreNameSpacePrefixes, true);   // report xmlns attributes too
    p->setFeature(XMLUni::fgXercesSchema, false);
    p->setFeature(XMLUni::fgXercesDynamic, false);
    p->setFeature(XMLUni::fgSAX2CoreValidation, false);
    p->setContentHandler(&gSax2Handler);
    p->setLexicalHandler(&gSax2Handler);
    p->setErrorHandler(&gSax2Handler);
    p->setXMLEntityResolver(&gEntResolver);
    gSax2[key] = p;
    return p;
}
static RecDOMParser* getDom(const std::string& key, const XMLCh* scanner, bool ns) {
    std::map<std::string, RecDOMParser*>::iterator it = gDom.find(key);
    if (it != gDom.end()) return it->second;
    RecDOMParser* p = new RecDOMParser();
    p->useScanner(scanner);
    p->setDoNamespaces(ns);
    p->setDoSchema(false);
    p->setValidationScheme(XercesDOMParser::Val_Never);
    p->setCreateEntityReferenceNodes(false);
    p->setErrorHandler(&gSaxErrHandler);
    p->setXMLEntityResolver(&gEntResolver);
    gDom[key] = p;
    return p;
}
static RecLSParser* getLs(const std::string& key, const XMLCh* scanner, bool ns) {
    std::map<std::string, RecLSParser*>::iterator it = gLs.find(key);
    if (it != gLs.end()) return it->second;
    RecLSParser* p = new RecLSParser();
    DOMConfiguration* c = p->getDomConfig();
    c->setParameter(XMLUni::fgXercesScannerName, (const void*)scanner);
    c->setParameter(XMLUni::fgDOMNamespaces, ns);
    c->setParameter(XMLUni::fgXercesSchema, false);
    c->setParameter(XMLUni::fgDOMValidate, false);
    c->setParameter(XMLUni::fgDOMValidateIfSchema, false);
    c->setParameter(XMLUni::fgDOMEntities, false);
    c->setParameter(XMLUni::fgDOMErrorHandler, (const void*)&gDomErrHandler);
    c->setParameter(XMLUni::fgXercesEntityResolver, (const void*)&gEntResolver);
    gLs[key] = p;
    return p;
}

// ------------------------------------------------------------------------------------------------
//  the parse request
// ------------------------------------------------------------------------------------------------
static std::string gExcToken;

template <class F> static void guarded(F f) {
    try {
        f();
    } catch (const OutOfMemoryException&) {
        gExcToken = "EXC:OutOfMemoryException:0";
    } catch (const XMLException& e) {
        gExcToken = "EXC:" + narrow(e.getType()) + ":" + std::to_string((int)e.getCode());
    } catch (const SAXParseException&) {
        gExcToken = "EXC:SAXException:0";
    } catch (const SAXException&) {
        gExcToken = "EXC:SAXException:0";
    } catch (const DOMLSException& e) {
        gExcToken = "EXC:DOMLSException:" + std::to_string((int)e.code);
    } catch (const DOMException& e) {
        gExcToken = "EXC:DOMException:" + std::to_string((int)e.code);
    } catch (...) {
        gExcToken = "EXC:unknown:0";
    }
}

static bool validHexDoc(const std::string& hex) {
    if (hex == "-") return true;
    if (hex.size() % 2) return false;
    for (size_t i = 0; i < hex.size(); i++)
        if (!isxdigit((unsigned char)hex[i])) return false;
    return true;
}
static void unhex(const std::string& hex, std::vector<XMLByte>& bytes) {
    bytes.clear();
    if (hex == "-") return;
    bytes.resize(hex.size() / 2);
    for (size_t i = 0; i < bytes.size(); i++)
        bytes[i] = (XMLByte)(hexval(hex[2 * i]) * 16 + hexval(hex[2 * i + 1]));
}

// progressive parse: parseFirst, then parseNext until it reports the end (or a failure)
template <class P, class S> static void progressive(P* p, const S& src, XMLPScanToken& token, bool& started) {
    started = p->parseFirst(src, token);
    if (!started) return;
    while (p->parseNext(token)) {}
}

// a[1..4] = api scanner ns hexdoc, a[5] = flags (optional), a[6..] = sysid=hexbytes (optional)
static std::string doParse(const std::vector<std::string>& a) {
    const std::string& api = a[1];
    const std::string& scn = a[2];
    const std::string& nsS = a[3];
    const std::string& hex = a[4];
    const XMLCh* scanner = scannerName(scn);
    if (!scanner || (nsS != "0" && nsS != "1")) return "bad-request";
    if (api != "sax" && api != "sax2" && api != "dom" && api != "ls") return "bad-request";
    if (!validHexDoc(hex)) return "bad-request";

    bool fP = false, fR = false, fW = false, fL = false, fD = false, fN = false, fS = false, fT = false;
    if (a.size() > 5 && a[5] != "-") {
        if (a[5].empty()) return "bad-request";
        for (size_t i = 0; i < a[5].size(); i++) {
            switch (a[5][i]) {
            case 'p': fP = true; break;
            case 'r': fR = true; break;
            case 'w': fW = true; break;
            case 'l': fL = true; break;
            case 'd': fD = true; break;
            case 'n': fN = true; break;
            case 't': fT = true; break;
            case 's': fS = true; break;      // schema processing on, validation "auto" (validate if a grammar is found)
            default: return "bad-request";
            }
        }
    }
    std::map<std::string, std::vector<XMLByte> > table;
    for (size_t i = 6; i < a.size(); i++) {
        size_t eq = a[i].rfind('=');
        if (eq == std::string::npos || eq == 0) return "bad-request";
        std::string h = a[i].substr(eq + 1);
        if (h.empty()) h = "-";
        if (!validHexDoc(h)) return "bad-request";
        unhex(h, table[a[i].substr(0, eq)]);
    }
    if (fP && api == "ls") return "unsupported | - | fh=0";

    gFlagP = fP; gFlagR = fR; gFlagW = fW; gFlagL = fL; gFlagD = fD; gFlagN = fN; gNsOn = (nsS == "1"); gFlagT = fT; gInDTD = false;
    gEntTable.swap(table);

    const bool ns = nsS == "1";
    // r and w change the configuration of the DOM builders: separate parser objects
    std::string key = scn + nsS;
    if (fR) key += 'r';
    if (fW) key += 'w';
    if (fS) key += 's';

    std::vector<XMLByte> bytes;
    unhex(hex, bytes);
    static const XMLByte dummy = 0;
    const XMLByte* data = bytes.empty() ? &dummy : bytes.data();

    resetRecording();
    gExcToken.clear();

    if (api == "sax") {
        RecSAXParser* p = 0;
        guarded([&] { p = getSax(key, scanner, ns); });
        if (p) {
            guarded([&] {
                p->setDoSchema(fS);
                p->setValidationScheme(fS ? SAXParser::Val_Auto : SAXParser::Val_Never);
            });
            // the plain handler is only needed for the locator (l) / to enable DOCTYPE events (d)
            guarded([&] {
                p->setDocumentHandler(fL ? &gSax1Aux : 0);
                p->setDTDHandler((fD || fT) ? &gSax1Aux : 0);
            });
            XMLPScanToken token;
            bool started = false;
            guarded([&] {
                MemBufInputSource src(data, bytes.size(), "xh", false);
                if (fP) progressive(p, src, token, started);
                else p->parse(src);
            });
            if (started) {
                std::string saved = gExcToken;
                guarded([&] { p->parseReset(token); });
                if (!saved.empty()) gExcToken = saved;
            }
        }
        flushText();
    } else if (api == "sax2") {
        RecSAX2Reader* p = 0;
        guarded([&] { p = getSax2(key, scanner, ns); });
        if (p) {
            guarded([&] {
                p->setFeature(XMLUni::fgXercesSchema, fS);
                p->setFeature(XMLUni::fgSAX2CoreValidation, fS);
                p->setFeature(XMLUni::fgXercesDynamic, fS);
            });
            XMLPScanToken token;
            bool started = false;
            guarded([&] {
                MemBufInputSource src(data, bytes.size(), "xh", false);
                if (fP) progressive(p, src, token, started);
                else p->parse(src);
            });
            if (started) {
                std::string saved = gExcToken;
                guarded([&] { p->parseReset(token); });
                if (!saved.empty()) gExcToken = saved;
            }
        }
        if (gInCData) { evCData(gCDataBuf.data(), gCDataBuf.size()); gInCData = false; }
        flushText();
    } else if (api == "dom") {
        RecDOMParser* p = 0;
        guarded([&] { p = getDom(key, scanner, ns); });
        if (p) {
            guarded([&] {
                p->setCreateEntityReferenceNodes(fR);
                p->setIncludeIgnorableWhitespace(!fW);
                p->setDoSchema(fS);
                p->setValidationScheme(fS ? XercesDOMParser::Val_Auto : XercesDOMParser::Val_Never);
            });
            XMLPScanToken token;
            bool started = false;
            guarded([&] {
                MemBufInputSource src(data, bytes.size(), "xh", false);
                if (fP) progressive(p, src, token, started);
                else p->parse(src);
            });
            std::string saved = gExcToken;
            guarded([&] { walkDocument(p->getDocument(), p->openParent()); });
            // parseReset hands the document to the pool (getDocument() is 0 afterwards): walk first
            if (started) guarded([&] { p->parseReset(token); });
            guarded([&] { p->resetDocumentPool(); });
            if (!saved.empty()) gExcToken = saved;
        }
    } else {
        RecLSParser* p = 0;
        guarded([&] { p = getLs(key, scanner, ns); });
        if (p) {
            guarded([&] {
                DOMConfiguration* c = p->getDomConfig();
                c->setParameter(XMLUni::fgDOMEntities, fR);
                c->setParameter(XMLUni::fgDOMElementContentWhitespace, !fW);
                c->setParameter(XMLUni::fgXercesSchema, fS);
                c->setParameter(XMLUni::fgDOMValidateIfSchema, fS);
            });
            guarded([&] {
                MemBufInputSource* src = new MemBufInputSource(data, bytes.size(), "xh", false);
                Wrapper4InputSource wrap(src, true);    // adopts src
                p->parse(&wrap);
            });
            std::string saved = gExcToken;
            // the parser keeps ownership of the document (user-adopts is off): walk, then drop it
            guarded([&] { walkDocument(p->getDocument(), p->openParent()); });
            guarded([&] { p->resetDocumentPool(); });
            if (!saved.empty()) gExcToken = saved;
        }
    }

    std::string out = gEvents.empty() ? std::string("-") : gEvents;
    out += " | ";
    std::string errs;
    for (size_t i = 0; i < gErrs.size(); i++) {
        const ErrRec& r = gErrs[i];
        if (!errs.empty()) errs += ' ';
        char sev = r.type == XMLErrorReporter::ErrType_Warning ? 'W'
                 : r.type == XMLErrorReporter::ErrType_Error ? 'E'
                 : r.type == XMLErrorReporter::ErrType_Fatal ? 'F' : '?';
        errs += sev;
        errs += ':';
        errs += r.dom;
        errs += std::to_string(r.code);
        errs += ':';
        errs += std::to_string(r.line);
        errs += ':';
        errs += std::to_string(r.col);
    }
    if (!gExcToken.empty()) {
        if (!errs.empty()) errs += ' ';
        errs += gExcToken;
    }
    out += errs.empty() ? std::string("-") : errs;
    out += " | fh=" + std::to_string(gFatalHandlerCalls);
    return out;
}

// ------------------------------------------------------------------------------------------------
//  tables
// ------------------------------------------------------------------------------------------------
static std::string doCharTab(bool v11) {
    static const char* D = "0123456789ABCDEF";
    std::string out(65536, '0');
    for (unsigned i = 0; i < 65536; i++) {
        XMLCh c = (XMLCh)i;
        int m = 0;
        if (v11) {
            if (XMLChar1_1::isXMLChar(c)) m |= 1;
            if (XMLChar1_1::isFirstNameChar(c)) m |= 2;
            if (XMLChar1_1::isNameChar(c)) m |= 4;
            if (XMLChar1_1::isWhitespace(c)) m |= 8;
        } else {
            if (XMLChar1_0::isXMLChar(c)) m |= 1;
            if (XMLChar1_0::isFirstNameChar(c)) m |= 2;
            if (XMLChar1_0::isNameChar(c)) m |= 4;
            if (XMLChar1_0::isWhitespace(c)) m |= 8;
        }
        out[i] = D[m];
    }
    return out;
}

static std::string doErrSev() {
    std::string out;
    for (int code = 0; code <= (int)XMLErrs::F_HighBounds + 3; code++) {
        XMLErrs::Codes c = (XMLErrs::Codes)code;
        if (XMLErrs::isWarning(c)) out += 'W';
        else if (XMLErrs::isError(c)) out += 'E';
        else if (XMLErrs::isFatal(c)) out += 'F';
        else out += 'U';
    }
    return out;
}

int main() {
    std::ios::sync_with_stdio(false);
    try {
        XMLPlatformUtils::Initialize();
    } catch (...) {
        return 2;
    }
    std::string line;
    while (std::getline(std::cin, line)) {
        std::string r = "bad-request";
        try {
            std::vector<std::string> a = splitWs(line);
            if (a.size() >= 5 && a[0] == "parse") r = doParse(a);
            else if (a.size() == 1 && a[0] == "chartab") r = doCharTab(false);
            else if (a.size() == 1 && a[0] == "chartab11") r = doCharTab(true);
            else if (a.size() == 1 && a[0] == "errsev") r = doErrSev();
        } catch (...) {
            r = "- | EXC:unknown:0 | fh=0";
        }
        std::cout << r << "\n";
    }
    std::cout.flush();
    fflush(stdout);
    _exit(0);   // parsers are still alive: skip Terminate and static destructors
}
