// xh_C03: observations of property C03 that the shared document harness (xh_C02) does not print.
//   attrs <api> <scanner> <ns> <hexdoc> [<sysid>=<hexbytes>]...
//       api dom : XercesDOMParser tree, per element in document order  <name>[;<attr>=<value>:<specified 0|1>]*   (attributes sorted by name)
//       api sax : SAXParser, XMLDocumentHandler::startElement as the scanner calls it (advanced handler): same line,
//                 specified = XMLAttr::getSpecified()
//       the parser objects are cached per (api, scanner, ns): consecutive requests reuse the scanner's attribute pool
//   loc <api> <scanner> <ns> <hexdoc> [<sysid>=<hexbytes>]...
//       api sax | sax2 : Locator at every startElement:  <name>@<last path component of systemId>:<line>:<col>
//       followed by  | <errors>  each  <sev>@<sysid>:<line>:<col>   (sev W|E|F, position given to the error handler)
//   names and values are hex4 UTF-16 units; scanner WF|IG|DG|SG; ns 0|1; "-" = nothing
#include "xh_common.hpp"
#include <xercesc/util/XMLUni.hpp>
#include <xercesc/util/RefVectorOf.hpp>
#include <xercesc/framework/XMLDocumentHandler.hpp>
#include <xercesc/framework/XMLElementDecl.hpp>
#include <xercesc/framework/XMLAttr.hpp>
#include <xercesc/framework/MemBufInputSource.hpp>
#include <xercesc/util/XMLEntityResolver.hpp>
#include <xercesc/util/XMLResourceIdentifier.hpp>
#include <xercesc/sax/Locator.hpp>
#include <xercesc/sax/HandlerBase.hpp>
#include <xercesc/sax/SAXParseException.hpp>
#include <xercesc/sax2/DefaultHandler.hpp>
#include <xercesc/sax2/Attributes.hpp>
#include <xercesc/parsers/SAXParser.hpp>
#include <xercesc/parsers/SAX2XMLReaderImpl.hpp>
#include <xercesc/parsers/XercesDOMParser.hpp>
#include <xercesc/dom/DOM.hpp>
#include <map>
#include <algorithm>
#include <unistd.h>
using namespace xh;

static std::string gOut, gErrOut;
static const Locator* gLocator = 0;
static std::map<std::string, std::vector<XMLByte> > gEntTable;

static std::string hex4z(const XMLCh* p) {
    static const char* D = "0123456789ABCDEF";
    std::string o;
    if (!p) return o;
    for (; *p; ++p) { unsigned v = (unsigned)*p & 0xFFFF; o += D[v >> 12]; o += D[(v >> 8) & 15]; o += D[(v >> 4) & 15]; o += D[v & 15]; }
    return o;
}
static std::string lastComp(const XMLCh* sys) {
    std::string id = narrow(sys);
    size_t s = id.rfind('/');
    return s == std::string::npos ? id : id.substr(s + 1);
}
static void tok(const std::string& t) { if (!gOut.empty()) gOut += ' '; gOut += t; }
static void elemLine(const XMLCh* name, std::vector<std::pair<std::string, std::string> >& a) {
    std::sort(a.begin(), a.end());
    std::string t = hex4z(name);
    for (size_t i = 0; i < a.size(); i++) t += ";" + a[i].first + "=" + a[i].second;
    tok(t);
}
class MemEntityResolver : public XMLEntityResolver {
public:
    virtual InputSource* resolveEntity(XMLResourceIdentifier* ri) {
        if (!ri || gEntTable.empty() || !ri->getSystemId()) return 0;
        std::string id = narrow(ri->getSystemId());
        std::map<std::string, std::vector<XMLByte> >::const_iterator it = gEntTable.find(id);
        if (it == gEntTable.end()) {
            size_t s = id.rfind('/');
            if (s == std::string::npos) return 0;
            it = gEntTable.find(id.substr(s + 1));
            if (it == gEntTable.end()) return 0;
        }
        static const XMLByte dummy = 0;
        const std::vector<XMLByte>& b = it->second;
        return new MemBufInputSource(b.empty() ? &dummy : b.data(), b.size(), it->first.c_str(), false);
    }
};
static void recErr(char sev, const SAXParseException& e) {
    if (!gErrOut.empty()) gErrOut += ' ';
    gErrOut += sev; gErrOut += '@'; gErrOut += lastComp(e.getSystemId());
    gErrOut += ':' + std::to_string((unsigned long long)e.getLineNumber()) + ':' + std::to_string((unsigned long long)e.getColumnNumber());
}
class ErrH : public ErrorHandler {
public:
    virtual void warning(const SAXParseException& e) { recErr('W', e); }
    virtual void error(const SAXParseException& e) { recErr('E', e); }
    virtual void fatalError(const SAXParseException& e) { recErr('F', e); }
    virtual void resetErrors() {}
};
static std::string locStr() {
    if (!gLocator) return "@?:0:0";
    return "@" + lastComp(gLocator->getSystemId()) + ":" + std::to_string((unsigned long long)gLocator->getLineNumber()) + ":" +
           std::to_string((unsigned long long)gLocator->getColumnNumber());
}
static bool gWantLoc = false;
// SAX1 plain handler (Locator) + advanced handler (XMLAttr as the scanner hands it over)
class Sax1H : public HandlerBase {
public:
    virtual void setDocumentLocator(const Locator* const l) { gLocator = l; }
    virtual void startElement(const XMLCh* const name, AttributeList&) { if (gWantLoc) tok(hex4z(name) + locStr()); }
};
class AdvH : public XMLDocumentHandler {
public:
    virtual void docCharacters(const XMLCh* const, const XMLSize_t, const bool) {}
    virtual void docComment(const XMLCh* const) {}
    virtual void docPI(const XMLCh* const, const XMLCh* const) {}
    virtual void endDocument() {}
    virtual void endElement(const XMLElementDecl&, const unsigned int, const bool, const XMLCh* const) {}
    virtual void endEntityReference(const XMLEntityDecl&) {}
    virtual void ignorableWhitespace(const XMLCh* const, const XMLSize_t, const bool) {}
    virtual void resetDocument() {}
    virtual void startDocument() {}
    virtual void startElement(const XMLElementDecl& d, const unsigned int, const XMLCh* const, const RefVectorOf<XMLAttr>& al,
                              const XMLSize_t n, const bool, const bool) {
        if (gWantLoc) return;
        std::vector<std::pair<std::string, std::string> > a;
        for (XMLSize_t i = 0; i < n; i++) {
            const XMLAttr* x = al.elementAt(i);
            a.push_back(std::make_pair(hex4z(x->getQName()), hex4z(x->getValue()) + (x->getSpecified() ? ":1" : ":0")));
        }
        elemLine(d.getFullName(), a);
    }
    virtual void startEntityReference(const XMLEntityDecl&) {}
    virtual void XMLDecl(const XMLCh* const, const XMLCh* const, const XMLCh* const, const XMLCh* const) {}
};
class Sax2H : public DefaultHandler {
public:
    virtual void setDocumentLocator(const Locator* const l) { gLocator = l; }
    virtual void startElement(const XMLCh* const, const XMLCh* const, const XMLCh* const qname, const Attributes&) {
        tok(hex4z(qname) + locStr());
    }
    virtual void warning(const SAXParseException& e) { recErr('W', e); }
    virtual void error(const SAXParseException& e) { recErr('E', e); }
    virtual void fatalError(const SAXParseException& e) { recErr('F', e); }
};
static ErrH gErrH; static Sax1H gSax1H; static AdvH gAdvH; static Sax2H gSax2H; static MemEntityResolver gRes;
static std::map<std::string, SAXParser*> gSax;
static std::map<std::string, SAX2XMLReaderImpl*> gSax2;
static std::map<std::string, XercesDOMParser*> gDom;

static const XMLCh* scannerName(const std::string& s) {
    if (s == "WF") return XMLUni::fgWFXMLScanner;
    if (s == "IG") return XMLUni::fgIGXMLScanner;
    if (s == "DG") return XMLUni::fgDGXMLScanner;
    if (s == "SG") return XMLUni::fgSGXMLScanner;
    return 0;
}
static bool validHex(const std::string& h) {
    if (h == "-") return true;
    if (h.size() % 2) return false;
    for (size_t i = 0; i < h.size(); i++) if (!isxdigit((unsigned char)h[i])) return false;
    return true;
}
static void unhex(const std::string& h, std::vector<XMLByte>& b) {
    b.clear();
    if (h == "-") return;
    b.resize(h.size() / 2);
    for (size_t i = 0; i < b.size(); i++) b[i] = (XMLByte)(hexval(h[2 * i]) * 16 + hexval(h[2 * i + 1]));
}
static void walk(DOMNode* n) {
    for (DOMNode* c = n->getFirstChild(); c; c = c->getNextSibling()) {
        if (c->getNodeType() == DOMNode::ELEMENT_NODE) {
            std::vector<std::pair<std::string, std::string> > a;
            DOMNamedNodeMap* m = c->getAttributes();
            for (XMLSize_t i = 0; m && i < m->getLength(); i++) {
                DOMAttr* x = (DOMAttr*)m->item(i);
                a.push_back(std::make_pair(hex4z(x->getNodeName()), hex4z(x->getNodeValue()) + (x->getSpecified() ? ":1" : ":0")));
            }
            elemLine(c->getNodeName(), a);
            walk(c);
        } else if (c->getNodeType() == DOMNode::ENTITY_REFERENCE_NODE) walk(c);
    }
}
static std::string doReq(const std::vector<std::string>& a) {
    const bool loc = a[0] == "loc";
    const std::string &api = a[1], &scn = a[2], &nsS = a[3], &hex = a[4];
    const XMLCh* scanner = scannerName(scn);
    if (!scanner || (nsS != "0" && nsS != "1") || !validHex(hex)) return "bad-request";
    if (loc ? (api != "sax" && api != "sax2") : (api != "sax" && api != "dom")) return "bad-request";
    std::map<std::string, std::vector<XMLByte> > table;
    for (size_t i = 5; i < a.size(); i++) {
        size_t eq = a[i].rfind('=');
        if (eq == std::string::npos || eq == 0) return "bad-request";
        std::string h = a[i].substr(eq + 1);
        if (h.empty()) h = "-";
        if (!validHex(h)) return "bad-request";
        unhex(h, table[a[i].substr(0, eq)]);
    }
    gEntTable.swap(table);
    const bool ns = nsS == "1";
    std::string key = scn + nsS;
    std::vector<XMLByte> bytes;
    unhex(hex, bytes);
    static const XMLByte dummy = 0;
    const XMLByte* data = bytes.empty() ? &dummy : bytes.data();
    gOut.clear(); gErrOut.clear(); gLocator = 0; gWantLoc = loc;
    std::string exc;
    try {
        MemBufInputSource src(data, bytes.size(), "xh", false);
        if (api == "sax") {
            SAXParser*& p = gSax[key];
            if (!p) {
                p = new SAXParser(); p->useScanner(scanner); p->setDoNamespaces(ns); p->setDoSchema(false);
                p->setValidationScheme(SAXParser::Val_Never); p->setErrorHandler(&gErrH); p->setDocumentHandler(&gSax1H);
                p->installAdvDocHandler(&gAdvH); p->setXMLEntityResolver(&gRes);
            }
            p->parse(src);
        } else if (api == "sax2") {
            SAX2XMLReaderImpl*& p = gSax2[key];
            if (!p) {
                p = new SAX2XMLReaderImpl(); p->setProperty(XMLUni::fgXercesScannerName, (void*)scanner);
                p->setFeature(XMLUni::fgSAX2CoreNameSpaces, ns); p->setFeature(XMLUni::fgSAX2CoreNameSpacePrefixes, true);
                p->setFeature(XMLUni::fgXercesSchema, false); p->setFeature(XMLUni::fgSAX2CoreValidation, false);
                p->setFeature(XMLUni::fgXercesDynamic, false);
                p->setContentHandler(&gSax2H); p->setErrorHandler(&gSax2H); p->setXMLEntityResolver(&gRes);
            }
            p->parse(src);
        } else {
            XercesDOMParser*& p = gDom[key];
            if (!p) {
                p = new XercesDOMParser(); p->useScanner(scanner); p->setDoNamespaces(ns); p->setDoSchema(false);
                p->setValidationScheme(XercesDOMParser::Val_Never); p->setCreateEntityReferenceNodes(false);
                p->setErrorHandler(&gErrH); p->setXMLEntityResolver(&gRes);
            }
            p->parse(src);
            if (p->getDocument()) walk(p->getDocument());
            p->resetDocumentPool();
        }
    } catch (const OutOfMemoryException&) { exc = "EXC:oom";
    } catch (const XMLException& e) { exc = "EXC:" + narrow(e.getType());
    } catch (const SAXException&) { exc = "EXC:sax";
    } catch (const DOMException&) { exc = "EXC:dom";
    } catch (...) { exc = "EXC:unknown"; }
    if (!exc.empty()) { if (!gErrOut.empty()) gErrOut += ' '; gErrOut += exc; }
    return (gOut.empty() ? std::string("-") : gOut) + " | " + (gErrOut.empty() ? std::string("-") : gErrOut);
}
int main() {
    std::ios::sync_with_stdio(false);
    try { XMLPlatformUtils::Initialize(); } catch (...) { return 2; }
    std::string line;
    while (std::getline(std::cin, line)) {
        std::string r = "bad-request";
        try {
            std::vector<std::string> a = splitWs(line);
            if (a.size() >= 5 && (a[0] == "attrs" || a[0] == "loc")) r = doReq(a);
        } catch (...) { r = "- | EXC:unknown"; }
        std::cout << r << "\n";
    }
    std::cout.flush();
    fflush(stdout);
    _exit(0);
}
