// C19 -- URI / path resolution of the real library, same contract as `uri_handle` of ocaml/C19/uri_driver.ml.in
//
//   c19_uri(op, base, rel)   op in { localfile, xmlurl, xmluri, normalize, default0, default1 }
//
//   arguments : plain ASCII without spaces, "-" = the empty string
//   result    : text with every byte <= 0x20, >= 0x7f or '\\' written as \xHH (upper-case hex); "-" = empty string
//     localfile : LocalFileInputSource(base, rel).getSystemId()
//     xmlurl    : XMLURL u; u.setURL(base, rel, u) && !u.isRelative() ? u.getURLText() : "NONE"
//     xmluri    : XMLUri(&XMLUri(base), rel).getUriText(); "NONE" on MalformedURLException (and on the
//                 ArrayIndexOutOfBoundsException of step 6f, see below)
//     normalize : XMLUri::normalizeURI(rel)                      (base is ignored)
//     default0/1: the default branch of ReaderMgr::createReader(sysId = rel, lastInfo.systemId = base) with
//                 standardUriConformant off/on, WITHOUT opening anything:
//                   "<sysid> FILE <path>"   path = what BinFileInputStream would be asked to open
//                   "<sysid> NET <url>"     XMLURL::makeNewStream would go to the net accessor
//                   "<sysid> BADESC"        XMLURL::makeNewStream would throw MalformedURLException (bad %-escape)
//                   "NONE"                  createReader throws MalformedURLException
//   anything else that escapes: "EXC:<exception type>"
#pragma once
#include "xh_common.hpp"
#include <xercesc/util/XMLURL.hpp>
#include <xercesc/util/XMLUri.hpp>
#include <xercesc/util/XMLUni.hpp>
#include <xercesc/util/XMLUniDefs.hpp>
#include <xercesc/util/ArrayIndexOutOfBoundsException.hpp>
#include <xercesc/framework/LocalFileInputSource.hpp>
#include <xercesc/framework/URLInputSource.hpp>
#include <xercesc/framework/XMLBuffer.hpp>

namespace c19u {

inline std::vector<XMLCh> widen(const std::string& s) {
    std::vector<XMLCh> v;
    if (s != "-")
        for (unsigned char c : s) v.push_back((XMLCh)c);
    v.push_back(0);
    return v;
}
inline std::string enc(const XMLCh* s) {
    std::string out;
    if (s)
        for (; *s; ++s) {
            unsigned c = *s;
            if (c <= 0x20 || c >= 0x7f || c == '\\') { char b[16]; snprintf(b, sizeof b, "\\x%02X", c); out += b; }
            else out += (char)c;
        }
    if (out.empty()) return "-";
    return out;
}
inline bool isHex(XMLCh c) {
    return (c >= chDigit_0 && c <= chDigit_9) || (c >= chLatin_A && c <= chLatin_F) || (c >= chLatin_a && c <= chLatin_f);
}
inline unsigned hexv(XMLCh c) {
    if (c >= chDigit_0 && c <= chDigit_9) return c - chDigit_0;
    if (c >= chLatin_A && c <= chLatin_F) return c - chLatin_A + 10;
    return c - chLatin_a + 10;
}

// the decision XMLURL::makeNewStream takes (XMLURL.cpp), without opening: returns "FILE <path>", "NET <url>" or "BADESC"
inline std::string openDecision(const XMLURL& u) {
    MemoryManager* mm = XMLPlatformUtils::fgMemoryManager;
    if (u.getProtocol() == XMLURL::File) {
        const XMLCh* host = u.getHost();
        if (!host || !XMLString::compareIStringASCII(host, XMLUni::fgLocalHostString)) {
            XMLCh* realPath = XMLString::replicate(u.getPath(), mm);
            ArrayJanitor<XMLCh> jan(realPath, mm);
            XMLSize_t end = XMLString::stringLen(realPath);
            int percentIndex = XMLString::indexOf(realPath, chPercent, 0, mm);
            while (percentIndex != -1) {
                if (percentIndex + 2 >= (int)end) return "BADESC";
                else if (!isHex(realPath[percentIndex + 1]) || !isHex(realPath[percentIndex + 2])) return "BADESC";
                unsigned value = hexv(realPath[percentIndex + 1]) * 16 + hexv(realPath[percentIndex + 2]);
                realPath[percentIndex] = XMLCh(value);
                XMLSize_t i = 0;
                for (i = percentIndex + 1; i < end - 2; i++) realPath[i] = realPath[i + 2];
                realPath[i] = chNull;
                end = i;
                if (((XMLSize_t)(percentIndex + 1)) < end)
                    percentIndex = XMLString::indexOf(realPath, chPercent, percentIndex + 1, mm);
                else
                    percentIndex = -1;
            }
            return "FILE " + enc(realPath);
        }
    }
    return "NET " + enc(u.getURLText());
}

inline std::string run(const std::string& op, const std::string& base, const std::string& rel) {
    MemoryManager* mm = XMLPlatformUtils::fgMemoryManager;
    std::vector<XMLCh> b = widen(base), r = widen(rel);
    if (op == "localfile") {
        LocalFileInputSource src(b.data(), r.data(), mm);
        return enc(src.getSystemId());
    }
    if (op == "xmlurl") {
        XMLURL u(mm);
        if (!u.setURL(b.data(), r.data(), u) || u.isRelative()) return "NONE";
        return enc(u.getURLText());
    }
    if (op == "xmlurlparts") {       // what the resolved URL says about its authority: user|password|host|getPortNum()
        XMLURL u(mm);
        if (!u.setURL(b.data(), r.data(), u) || u.isRelative()) return "NONE";
        return enc(u.getUser()) + "|" + enc(u.getPassword()) + "|" + enc(u.getHost()) + "|" + std::to_string(u.getPortNum());
    }
    if (op == "xmluri") {
        try {
            XMLUri bu(b.data(), mm);
            XMLUri u(&bu, r.data(), mm);
            return enc(u.getUriText());
        } catch (const MalformedURLException&) {
            return "NONE";
        } catch (const ArrayIndexOutOfBoundsException&) {
            // XMLUri::initialize step 6f on a merged path that is exactly "/.." (e.g. base http://a/x, ref ".."):
            // index-1 underflows and XMLString::subString throws; the model answers None for it as well
            return "NONE";
        }
    }
    if (op == "normalize") {
        XMLBuffer buf(1023, mm);
        XMLUri::normalizeURI(r.data(), buf);
        return enc(buf.getRawBuffer());
    }
    if (op == "default0" || op == "default1") {
        const bool stdUri = (op == "default1");
        // ReaderMgr::createReader, the `if (!srcToFill)` branch (ReaderMgr.cpp)
        XMLURL urlTmp(mm);
        if (!urlTmp.setURL(b.data(), r.data(), urlTmp) || urlTmp.isRelative()) {
            if (!stdUri) {
                XMLBuffer resolvedSysId(1023, mm);
                XMLUri::normalizeURI(r.data(), resolvedSysId);
                LocalFileInputSource src(b.data(), resolvedSysId.getRawBuffer(), mm);
                std::string p = enc(src.getSystemId());
                return p + " FILE " + p;          // LocalFileInputSource::makeStream opens getSystemId()
            }
            return "NONE";
        }
        if (stdUri && urlTmp.hasInvalidChar()) return "NONE";
        URLInputSource src(urlTmp, mm);
        return enc(src.getSystemId()) + " " + openDecision(src.urlSrc());
    }
    return "BADOP";
}

} // namespace c19u

inline std::string c19_uri(const std::string& op, const std::string& base, const std::string& rel) {
    try {
        return c19u::run(op, base, rel);
    } catch (const OutOfMemoryException&) {
        return "EXC:OutOfMemory";
    } catch (const XMLException& e) {
        return std::string("EXC:") + xh::narrow(e.getType());
    } catch (...) {
        return "EXC:unknown";
    }
}
