// xh_C01g: drives the growable containers of util/ (ValueVectorOf, RefVectorOf, RefHashTableOf, XMLStringPool, NameIdPool)
// through seeded operation sequences and prints the observable count / capacity / modulus after every operation, in the
// line protocol of ocaml/C01/driver.ml.in.  Built against the ASan+UBSan library: an access outside an allocation ends
// the process with a sanitizer report (the check turns that into a VIOLATION with the request as replay).
#include "xh_common.hpp"
#include <xercesc/util/ValueVectorOf.hpp>
#include <xercesc/util/RefVectorOf.hpp>
#include <xercesc/util/RefHashTableOf.hpp>
#include <xercesc/util/StringPool.hpp>
#include <xercesc/util/NameIdPool.hpp>
#include <xercesc/util/ArrayIndexOutOfBoundsException.hpp>
#include <xercesc/framework/XMLNotationDecl.hpp>
#include <cstdlib>
using namespace xh;

template <class V, class MK> static std::string runVec(V& v, const std::vector<std::string>& a, MK mk) {
    std::string out = "ok";
    char buf[96];
    for (size_t k = 2; k < a.size(); k++) {
        const std::string& op = a[k];
        XMLSize_t arg = op.size() > 1 ? (XMLSize_t)strtoul(op.c_str() + 1, 0, 10) : 0;
        bool thr = false;
        try {
            switch (op[0]) {
            case 'a': v.addElement(mk((int)k)); break;
            case 'i': v.insertElementAt(mk((int)k), arg); break;
            case 'r': v.removeElementAt(arg); break;
            case 'e': v.ensureExtraCapacity(arg); break;
            case 'c': v.removeAllElements(); break;
            default: return "bad-request";
            }
        } catch (const ArrayIndexOutOfBoundsException&) { thr = true; }
        snprintf(buf, sizeof buf, " %lu/%lu/%d", (unsigned long)v.size(), (unsigned long)v.curCapacity(), thr ? 1 : 0);
        out += buf;
    }
    return out;
}
static int* leakInt(int k) { return new int(k); }     // when an insert throws the element is not adopted: leaks are out of scope
static int plainInt(int k) { return k; }

int main() {
    XMLPlatformUtils::Initialize();
    std::string line;
    while (std::getline(std::cin, line)) {
        std::vector<std::string> a = splitWs(line);
        std::string r = "bad-request";
        try {
            if (a.size() >= 2 && a[0] == "vv") {
                ValueVectorOf<int> v((XMLSize_t)strtoul(a[1].c_str(), 0, 10));
                r = runVec(v, a, plainInt);
            } else if (a.size() >= 2 && a[0] == "rv") {
                RefVectorOf<int> v((XMLSize_t)strtoul(a[1].c_str(), 0, 10), false);
                std::vector<int*> keep;
                r = runVec(v, a, [&keep](int k) { keep.push_back(leakInt(k)); return keep.back(); });
                for (size_t i = 0; i < keep.size(); i++) delete keep[i];
            } else if (a.size() == 3 && a[0] == "ht") {
                XMLSize_t n = (XMLSize_t)strtoul(a[2].c_str(), 0, 10);
                RefHashTableOf<int, PtrHasher> t((XMLSize_t)strtoul(a[1].c_str(), 0, 10), false);
                std::vector<int> keys(n + 1);
                r = "ok";
                char buf[32];
                for (XMLSize_t i = 0; i < n; i++) {
                    t.put(&keys[i], &keys[i]);
                    snprintf(buf, sizeof buf, " %lu", (unsigned long)t.getHashModulus());
                    r += buf;
                }
                for (XMLSize_t i = 0; i < n; i++) if (t.get(&keys[i]) != &keys[i]) r = "lost-key";
            } else if (a.size() == 2 && a[0] == "sp") {
                XMLSize_t n = (XMLSize_t)strtoul(a[1].c_str(), 0, 10);
                XMLStringPool pool(109);
                XMLCh name[16];
                for (XMLSize_t i = 0; i < n; i++) {
                    XMLString::binToText((unsigned long)i, name, 15, 10);
                    pool.addOrFind(name);
                }
                char buf[32];
                snprintf(buf, sizeof buf, "ok %lu", (unsigned long)pool.getStringCount());
                r = buf;
                for (XMLSize_t i = 0; i < n; i++) {
                    XMLString::binToText((unsigned long)i, name, 15, 10);
                    if (pool.getId(name) != i + 1 || !XMLString::equals(pool.getValueForId((unsigned int)(i + 1)), name)) r = "lost-string";
                }
            } else if (a.size() == 3 && a[0] == "nip") {
                XMLSize_t n = (XMLSize_t)strtoul(a[2].c_str(), 0, 10);
                NameIdPool<XMLNotationDecl> pool(109, (XMLSize_t)strtoul(a[1].c_str(), 0, 10));
                XMLCh name[16];
                for (XMLSize_t i = 0; i < n; i++) {
                    XMLString::binToText((unsigned long)i, name, 15, 10);
                    pool.put(new XMLNotationDecl(name, 0, 0));
                }
                char buf[32];
                unsigned long stored = 0;          // ids are handed out 1..n; NameIdPool has no size accessor
                for (XMLSize_t i = 1; i <= n; i++) if (pool.getById(i)) stored++;
                snprintf(buf, sizeof buf, "ok %lu", stored);
                r = buf;
                for (XMLSize_t i = 0; i < n; i++) {
                    XMLString::binToText((unsigned long)i, name, 15, 10);
                    const XMLNotationDecl* d = pool.getById(i + 1);
                    if (!d || !XMLString::equals(d->getName(), name)) r = "lost-decl";
                }
            }
        } catch (const XMLException& e) { r = "exc " + narrow(e.getType()); }
        catch (const OutOfMemoryException&) { r = "exc OutOfMemory"; }
        catch (...) { r = "FOREIGN"; }
        std::cout << r << std::endl;
    }
    XMLPlatformUtils::Terminate();
    return 0;
}
