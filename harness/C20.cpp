// xh_C20: parses a top-level document with XInclude processing switched on (XercesDOMParser or DOMLSParser,
// namespaces on) and prints the reported XInclude error codes and a canonical dump of the resulting tree.
// Same line protocol as bin/xm_C20 (the extracted Coq model).
//
// request : <tag> <x|l> <p|u> <root-dir/> <top-relative-path> [abstract file system, ignored here]
// answer  : E[<code>,...] [X:<exception>] [Q[ok <elements>]|Q[BAD <what>]] D<node>...          (one line)
//   Q = consistency of the resulting DOM (documentElement identity, ownerDocument, parent/sibling links,
//       getElementsByTagName, lookupNamespaceURI, second normalizeDocument, serialise + re-parse)
//   node  := (NS:LOCAL b=RAWBASE r=RESOLVEDBASE{ @NS:LOCAL=CPS} {node}) | T<cps> | C<cps>
//   cps   := code points in hex separated by '.'; adjacent text nodes are merged, empty text nodes dropped;
//            processing instructions are not dumped, nor is white-space-only text directly under the document
#include "xh_common.hpp"
#include <xercesc/parsers/XercesDOMParser.hpp>
#include <xercesc/parsers/DOMLSParserImpl.hpp>
#include <xercesc/dom/DOM.hpp>
#include <xercesc/dom/DOMException.hpp>
#include <xercesc/sax/ErrorHandler.hpp>
#include <xercesc/sax/SAXParseException.hpp>
#include <xercesc/sax/SAXException.hpp>
#include <xercesc/framework/XMLErrorCodes.hpp>
#include <xercesc/framework/LocalFileInputSource.hpp>
#include <xercesc/util/XMLUni.hpp>
#include <xercesc/xinclude/XIncludeDOMDocumentProcessor.hpp>
#include <xercesc/framework/MemBufInputSource.hpp>
#include <xercesc/framework/MemBufFormatTarget.hpp>
#include <algorithm>
#include <regex>

using namespace xh;

static std::vector<std::string> gErrs;

static std::string codeName(unsigned int c) {
    switch (c) {
    case XMLErrs::XIncludeResourceErrorWarning: return "ResourceErrorWarning";
    case XMLErrs::XIncludeCannotOpenFile: return "CannotOpenFile";
    case XMLErrs::XIncludeIncludeFailedResourceError: return "IncludeFailedResourceError";
    case XMLErrs::XIncludeOrphanFallback: return "OrphanFallback";
    case XMLErrs::XIncludeNoHref: return "NoHref";
    case XMLErrs::XIncludeXPointerNotSupported: return "XPointerNotSupported";
    case XMLErrs::XIncludeInvalidParseVal: return "InvalidParseVal";
    case XMLErrs::XIncludeMultipleFallbackElems: return "MultipleFallbackElems";
    case XMLErrs::XIncludeIncludeFailedNoFallback: return "IncludeFailedNoFallback";
    case XMLErrs::XIncludeCircularInclusionLoop: return "CircularInclusionLoop";
    case XMLErrs::XIncludeCircularInclusionDocIncludesSelf: return "CircularInclusionDocIncludesSelf";
    case XMLErrs::XIncludeDisallowedChild: return "DisallowedChild";
    case XMLErrs::XIncludeConflictingNotation: return "ConflictingNotation";
    case XMLErrs::XIncludeConflictingEntity: return "ConflictingEntity";
    default: return "N" + std::to_string(c);
    }
}
static void record(unsigned int code, const XMLCh* domain, XMLErrorReporter::ErrTypes t) {
    std::string s = codeName(code);
    if (!XMLString::equals(domain, XMLUni::fgXMLErrDomain)) s = "V" + std::to_string(code);
    s += (t == XMLErrorReporter::ErrType_Warning ? "/w" : t == XMLErrorReporter::ErrType_Fatal ? "/f" : "/e");
    gErrs.push_back(s);
}

struct QuietSax : public ErrorHandler {
    void warning(const SAXParseException&) {}
    void error(const SAXParseException&) {}
    void fatalError(const SAXParseException&) {}
    void resetErrors() {}
};
struct QuietDom : public DOMErrorHandler {
    bool handleError(const DOMError&) { return true; }
};

class XParser : public XercesDOMParser {
public:
    virtual void error(const unsigned int code, const XMLCh* const dom, const XMLErrorReporter::ErrTypes t,
                       const XMLCh* const text, const XMLCh* const sys, const XMLCh* const pub,
                       const XMLFileLoc l, const XMLFileLoc c) {
        record(code, dom, t);
        XercesDOMParser::error(code, dom, t, text, sys, pub, l, c);
    }
};
class LParser : public DOMLSParserImpl {
public:
    virtual void error(const unsigned int code, const XMLCh* const dom, const XMLErrorReporter::ErrTypes t,
                       const XMLCh* const text, const XMLCh* const sys, const XMLCh* const pub,
                       const XMLFileLoc l, const XMLFileLoc c) {
        record(code, dom, t);
        DOMLSParserImpl::error(code, dom, t, text, sys, pub, l, c);
    }
};

static std::string cps(const XMLCh* s) {
    std::string out;
    char b[16];
    bool first = true;
    for (; s && *s; ++s) {
        unsigned int c = *s;
        if (c >= 0xD800 && c <= 0xDBFF && s[1] >= 0xDC00 && s[1] <= 0xDFFF) {
            c = 0x10000 + ((c - 0xD800) << 10) + (s[1] - 0xDC00);
            ++s;
        }
        snprintf(b, sizeof b, "%s%X", first ? "" : ".", c);
        out += b;
        first = false;
    }
    return out;
}
static std::string plain(const XMLCh* s) {            // path-like values: printable ascii kept, rest escaped
    if (!s) return "null";
    if (!*s) return "%empty";
    std::string out;
    for (; *s; ++s) {
        if (*s > 0x20 && *s < 0x7F && *s != '(' && *s != ')' && *s != '%') out += (char)*s;
        else { char b[12]; snprintf(b, sizeof b, "%%%04X", (unsigned)*s); out += b; }
    }
    return out;
}
static const XMLCh kXI[] = {'h','t','t','p',':','/','/','w','w','w','.','w','3','.','o','r','g','/','2','0','0','1','/',
                            'X','I','n','c','l','u','d','e',0};
static std::string nsTag(const XMLCh* ns) {
    if (!ns) return "-";
    if (XMLString::equals(ns, kXI)) return "xi";
    if (XMLString::equals(ns, XMLUni::fgXMLURIName)) return "xml";
    if (XMLString::equals(ns, XMLUni::fgXMLNSURIName)) return "xmlns";
    return plain(ns);
}
static std::string gRootUrl, gRootPath;
static std::string stripRoot(const XMLCh* uri) {
    std::string s = plain(uri);
    if (s.compare(0, gRootUrl.size(), gRootUrl) == 0) return "/" + s.substr(gRootUrl.size());
    if (s.compare(0, gRootPath.size(), gRootPath) == 0) return "/" + s.substr(gRootPath.size());
    return s;
}

static bool allWs(const XMLCh* s) { for (; s && *s; ++s) if (*s != 0x20 && *s != 9 && *s != 0xA && *s != 0xD) return false; return true; }
static void dumpNode(DOMNode* n, std::string& out);
static void dumpChildren(DOMNode* p, std::string& out) {
    std::string pendingText;
    bool havePending = false;
    for (DOMNode* c = p->getFirstChild(); c; c = c->getNextSibling()) {
        short t = c->getNodeType();
        if (t == DOMNode::TEXT_NODE || t == DOMNode::CDATA_SECTION_NODE) {
            std::string v = cps(c->getNodeValue());
            if (v.empty()) continue;
            // white space between the children of the document is not part of the infoset (the code keeps such
            // Text nodes when they come out of an xi:fallback)
            if (p->getNodeType() == DOMNode::DOCUMENT_NODE && allWs(c->getNodeValue())) continue;
            if (havePending) pendingText += "." + v; else { pendingText = v; havePending = true; }
            continue;
        }
        if (t == DOMNode::PROCESSING_INSTRUCTION_NODE) continue;      // not compared (see dumpNode)
        if (havePending) { out += " T" + pendingText; havePending = false; pendingText.clear(); }
        dumpNode(c, out);
    }
    if (havePending) out += " T" + pendingText;
}
static void dumpNode(DOMNode* n, std::string& out) {
    switch (n->getNodeType()) {
    case DOMNode::ELEMENT_NODE: {
        DOMElement* e = (DOMElement*)n;
        const XMLCh* local = e->getLocalName() ? e->getLocalName() : e->getNodeName();
        out += " (" + nsTag(e->getNamespaceURI()) + ":" + plain(local);
        std::string rawBase = "~";
        std::vector<std::string> attrs;
        DOMNamedNodeMap* m = e->getAttributes();
        for (XMLSize_t i = 0; m && i < m->getLength(); i++) {
            DOMAttr* a = (DOMAttr*)m->item(i);
            std::string ns = nsTag(a->getNamespaceURI());
            const XMLCh* al = a->getLocalName() ? a->getLocalName() : a->getName();
            static const XMLCh kBaseQ[] = {'x','m','l',':','b','a','s','e',0};
            if (ns == "xmlns") continue;
            if (XMLString::equals(a->getName(), kBaseQ)) { rawBase = plain(a->getValue()); continue; }
            attrs.push_back(" @" + ns + ":" + plain(al) + "=" + cps(a->getValue()));
        }
        std::sort(attrs.begin(), attrs.end());
        out += " b=" + rawBase + " r=" + stripRoot(e->getBaseURI());
        for (auto& s : attrs) out += s;
        dumpChildren(e, out);
        out += ")";
        break;
    }
    case DOMNode::COMMENT_NODE: out += " C" + cps(n->getNodeValue()); break;
    case DOMNode::PROCESSING_INSTRUCTION_NODE: break;      // the model has no processing instructions: not compared
    case DOMNode::DOCUMENT_TYPE_NODE: break;
    case DOMNode::ENTITY_REFERENCE_NODE: dumpChildren(n, out); break;
    default: out += " ?" + std::to_string((int)n->getNodeType());
    }
}
static std::string dumpDoc(DOMDocument* d) {
    if (!d) return " nodoc";
    std::string out;
    dumpChildren(d, out);
    return out;
}

// ---- consistency of the DOM that XInclude leaves behind, and follow-up uses of it -------------------------------
static size_t gElems;
static void checkLinks(DOMDocument* doc, DOMNode* n, DOMNode* parent, std::string& bad) {
    if (n != (DOMNode*)doc && n->getOwnerDocument() != doc) bad += " ownerDocument";
    if (n->getParentNode() != parent) bad += " parent";
    if (n->getNodeType() == DOMNode::ELEMENT_NODE) {
        gElems++;
        DOMNamedNodeMap* m = n->getAttributes();
        for (XMLSize_t i = 0; m && i < m->getLength(); i++) {
            DOMAttr* at = (DOMAttr*)m->item(i);
            if (at->getOwnerDocument() != doc) bad += " attr-ownerDocument";
            if (at->getOwnerElement() != (DOMElement*)n) bad += " attr-ownerElement";
        }
    }
    DOMNode* prev = 0;
    for (DOMNode* c = n->getFirstChild(); c; c = c->getNextSibling()) {
        if (c->getPreviousSibling() != prev) bad += " previousSibling";
        checkLinks(doc, c, n, bad);
        prev = c;
    }
    if (n->getLastChild() != prev) bad += " lastChild";
    if ((n->getFirstChild() != 0) != n->hasChildNodes()) bad += " hasChildNodes";
}
static std::string stripR(const std::string& s) { return std::regex_replace(s, std::regex(" r=[^ )]*"), ""); }
static std::string quality(DOMDocument* doc) {
    std::string bad;
    DOMNode* firstElem = 0;
    int topElems = 0;
    for (DOMNode* c = doc->getFirstChild(); c; c = c->getNextSibling())
        if (c->getNodeType() == DOMNode::ELEMENT_NODE) { if (!firstElem) firstElem = c; topElems++; }
    if ((DOMNode*)doc->getDocumentElement() != firstElem) bad += doc->getDocumentElement() ? " documentElement-is-another-node" : " documentElement-null";
    gElems = 0;
    checkLinks(doc, doc, 0, bad);
    size_t total = gElems;
    static const XMLCh star[] = {'*', 0};
    DOMNodeList* all = doc->getElementsByTagName(star);
    if (!all || all->getLength() != total) bad += " getElementsByTagName=" + std::to_string(all ? (long)all->getLength() : -1L);
    if (firstElem) {
        static const XMLCh pxi[] = {'x', 'i', 0};
        static const XMLCh pn3[] = {'n', '3', 0};
        const XMLCh* ps[] = {pxi, pn3};
        for (int i = 0; i < 2; i++)
            if (!XMLString::equals(doc->lookupNamespaceURI(ps[i]), firstElem->lookupNamespaceURI(ps[i]))) bad += " lookupNamespaceURI";
    }
    // a second normalisation must not change anything
    std::string d1 = dumpDoc(doc);
    doc->normalizeDocument();
    std::string d2 = dumpDoc(doc);
    if (d1 != d2) bad += " normalizeDocument-changes-the-tree";
    // serialise and parse again (without XInclude): same tree
    if (topElems == 1) {
        try {
            static const XMLCh ls[] = {'L', 'S', 0};
            DOMImplementation* impl = DOMImplementationRegistry::getDOMImplementation(ls);
            DOMLSSerializer* ser = ((DOMImplementationLS*)impl)->createLSSerializer();
            DOMLSOutput* outp = ((DOMImplementationLS*)impl)->createLSOutput();
            MemBufFormatTarget tgt;
            outp->setByteStream(&tgt);
            static const XMLCh u8[] = {'U', 'T', 'F', '-', '8', 0};
            outp->setEncoding(u8);
            bool okw = ser->write(doc, outp);
            std::string bytes((const char*)tgt.getRawBuffer(), tgt.getLen());
            outp->release();
            ser->release();
            if (!okw) bad += " serialise-failed";
            else {
                XParser p2;
                QuietSax h2;
                p2.setErrorHandler(&h2);
                p2.setDoNamespaces(true);
                p2.setDoXInclude(false);
                MemBufInputSource src((const XMLByte*)bytes.data(), bytes.size(), "reparse");
                size_t before = gErrs.size();
                p2.parse(src);
                if (gErrs.size() != before) { bad += " reparse-errors"; gErrs.resize(before); }
                else if (stripR(dumpDoc(p2.getDocument())) != stripR(d2)) bad += " reparse-differs";
            }
        } catch (...) { bad += " serialise-reparse-exception"; }
    }
    if (bad.empty()) return "Q[ok " + std::to_string(total) + "]";
    return "Q[BAD" + bad + "]";
}

static std::string handle(const std::vector<std::string>& a) {
    if (a.size() < 5) return "bad-request";
    gErrs.clear();
    gRootPath = a[3];
    gRootUrl = "file://" + a[3];
    std::string path = a[3] + a[4];      // a[4] is in URI form (no %-escapes in the top document's own path)
    std::string sys = a[2] == "u" ? "file://" + path : path;
    std::string tree, exc, q;
    try {
        if (a[1][0] == 'x') {
            XParser p;
            QuietSax h;
            p.setErrorHandler(&h);
            p.setDoNamespaces(true);
            p.setDoXInclude(true);
            p.setValidationScheme(XercesDOMParser::Val_Never);
            try { p.parse(sys.c_str()); }
            catch (const XMLException& e) { exc = " X:XMLException:" + narrow(e.getType()); }
            catch (const DOMException& e) { exc = " X:DOMException:" + std::to_string((int)e.code); }
            catch (const SAXException& e) { exc = " X:SAXException"; }
            if (exc.empty()) { tree = dumpDoc(p.getDocument()); if (p.getDocument()) q = quality(p.getDocument()); }
        } else if (a[1][0] == 'd') {
            // XIncludeDOMDocumentProcessor::doXIncludeDOMProcess on a document parsed without XInclude
            XParser p;
            QuietSax h;
            p.setErrorHandler(&h);
            p.setDoNamespaces(true);
            p.setDoXInclude(false);
            p.setValidationScheme(XercesDOMParser::Val_Never);
            DOMDocument* out = 0;
            try {
                p.parse(sys.c_str());
                XIncludeDOMDocumentProcessor proc;
                if (p.getDocument())
                    out = proc.doXIncludeDOMProcess(p.getDocument(), (XMLErrorReporter*)&p, 0);
            }
            catch (const XMLException& e) { exc = " X:XMLException:" + narrow(e.getType()); }
            catch (const DOMException& e) { exc = " X:DOMException:" + std::to_string((int)e.code); }
            catch (const SAXException& e) { exc = " X:SAXException"; }
            if (exc.empty()) { tree = dumpDoc(out); if (out) q = quality(out); }
            if (out) out->release();
        } else {
            LParser p;
            QuietDom h;
            DOMConfiguration* c = p.getDomConfig();
            c->setParameter(XMLUni::fgDOMNamespaces, true);
            c->setParameter(XMLUni::fgXercesDoXInclude, true);
            c->setParameter(XMLUni::fgDOMErrorHandler, &h);
            DOMDocument* d = 0;
            try { d = p.parseURI(sys.c_str()); }
            catch (const XMLException& e) { exc = " X:XMLException:" + narrow(e.getType()); }
            catch (const DOMException& e) { exc = " X:DOMException:" + std::to_string((int)e.code); }
            catch (const SAXException& e) { exc = " X:SAXException"; }
            if (exc.empty()) { tree = dumpDoc(d); if (d) q = quality(d); }
        }
    } catch (const OutOfMemoryException&) {
        exc += " X:OutOfMemory";
    } catch (const XMLErrs::Codes c) {
        exc += " X:Codes:" + std::to_string((int)c);
    } catch (...) {
        exc += " X:unknown";
    }
    std::string r = "E[";
    for (size_t i = 0; i < gErrs.size(); i++) r += (i ? "," : "") + gErrs[i];
    r += "]" + exc + (q.empty() ? "" : " " + q) + " D" + tree;
    return r;
}

int main() {
    XMLPlatformUtils::Initialize();
    std::string line;
    while (std::getline(std::cin, line)) {
        std::vector<std::string> a = splitWs(line);
        std::cout << handle(a) << "\n" << std::flush;
    }
    XMLPlatformUtils::Terminate();
    return 0;
}
