// xh_C19: drives the real parsers over a sandbox of canary files and reports, per parse, the resolver
// calls, the files that were opened (inotify IN_OPEN on the sandbox directories, drained at every resolver
// call so that the events stay totally ordered), the first fatal error and the number of
// startEntityReference events.  Same line protocol as bin/xm_C19 (extracted model).
#include "xh_common.hpp"
#include <xercesc/parsers/SAX2XMLReaderImpl.hpp>
#include <xercesc/parsers/XercesDOMParser.hpp>
#include <xercesc/parsers/SAXParser.hpp>
#include <xercesc/sax/HandlerBase.hpp>
#include <xercesc/util/XMLEntityResolver.hpp>
#include <xercesc/util/XMLResourceIdentifier.hpp>
#include <xercesc/util/SecurityManager.hpp>
#include <xercesc/util/XMLUni.hpp>
#include <xercesc/framework/MemBufInputSource.hpp>
#include <xercesc/util/XMLNetAccessor.hpp>
#include <xercesc/util/BinMemInputStream.hpp>
#include <xercesc/util/XMLURL.hpp>
#include <xercesc/framework/XMLErrorCodes.hpp>
#include <xercesc/framework/XMLValidityCodes.hpp>
#include <xercesc/sax/SAXParseException.hpp>
#include <xercesc/sax/SAXException.hpp>
#include <xercesc/sax2/DefaultHandler.hpp>
#include <xercesc/dom/DOMException.hpp>
#include <xercesc/validators/common/Grammar.hpp>
#include <sys/inotify.h>
#include <sys/stat.h>
#include <dirent.h>
#include <unistd.h>
#include <fcntl.h>
#include <map>
#include <set>
#include <fstream>
#include <algorithm>
#if __has_include("C19_uri.hpp")
#include "C19_uri.hpp"
#define HAVE_C19_URI 1
#endif

using namespace xh;

static std::string gRoot;
static int gIno = -1;
static std::map<int, std::string> gWatch;                 // wd -> directory
static std::map<std::string, std::string> gCanary;        // basename -> file content (preloaded)
static std::map<std::string, std::string> gCanaryPath;    // basename -> absolute path
static std::string gDocSys;                               // system id of the document being parsed
static std::vector<std::string> gTrace;

static std::string plain(const XMLCh* s) {
    std::string out;
    if (!s) return out;
    for (; *s; ++s) {
        if (*s > 0x20 && *s < 0x7F && *s != ',' && *s != ';' && *s != '(' && *s != ')') out += (char)*s;
        else { char b[12]; snprintf(b, sizeof b, "\\u%04X", (unsigned)*s); out += b; }
    }
    return out;
}

// file names are bytes (UTF-8): print them like plain() prints XMLCh strings (code points, escapes for the rest)
static std::string plainPath(const std::string& s) {
    std::string out;
    for (size_t i = 0; i < s.size();) {
        unsigned c = (unsigned char)s[i];
        unsigned cp = c; size_t n = 1;
        if (c >= 0xF0 && i + 3 < s.size()) { cp = ((c & 7) << 18) | ((s[i+1] & 63) << 12) | ((s[i+2] & 63) << 6) | (s[i+3] & 63); n = 4; }
        else if (c >= 0xE0 && i + 2 < s.size()) { cp = ((c & 15) << 12) | ((s[i+1] & 63) << 6) | (s[i+2] & 63); n = 3; }
        else if (c >= 0xC0 && i + 1 < s.size()) { cp = ((c & 31) << 6) | (s[i+1] & 63); n = 2; }
        i += n;
        if (cp > 0x20 && cp < 0x7F && cp != ',' && cp != ';' && cp != '(' && cp != ')') out += (char)cp;
        else { char b[16]; snprintf(b, sizeof b, "\\u%04X", cp & 0xFFFF); out += b; }
    }
    return out;
}

static void walk(const std::string& dir) {
    int wd = inotify_add_watch(gIno, dir.c_str(), IN_OPEN);
    if (wd >= 0) gWatch[wd] = dir;
    DIR* d = opendir(dir.c_str());
    if (!d) return;
    std::vector<std::string> subs, files;
    while (dirent* e = readdir(d)) {
        std::string n = e->d_name;
        if (n == "." || n == "..") continue;
        std::string p = dir + "/" + n;
        struct stat sb;
        if (stat(p.c_str(), &sb) != 0) continue;
        if (S_ISDIR(sb.st_mode)) subs.push_back(p);
        else files.push_back(p);
    }
    closedir(d);
    for (auto& f : files) {
        std::ifstream in(f, std::ios::binary);
        std::string c((std::istreambuf_iterator<char>(in)), std::istreambuf_iterator<char>());
        gCanary[f.substr(f.rfind('/') + 1)] = c;
        gCanaryPath[f.substr(f.rfind('/') + 1)] = f;
    }
    for (auto& s : subs) walk(s);
}

static std::map<std::string, std::string> gServed;        // URL text -> content the in-memory net accessor serves
static void drain(bool record);

// in-memory net accessor: records every URL the library asks it for (event N(url)); serves the URLs registered
// with `serve <url> <file>`, anything else fails like a refused connection.  Nothing ever touches the network.
class RecAccessor : public XMLNetAccessor {
public:
    XMLCh* id;
    RecAccessor() { id = XMLString::transcode("C19 recording accessor"); }
    ~RecAccessor() { XMLString::release(&id); }
    const XMLCh* getId() const override { return id; }
    BinInputStream* makeNew(const XMLURL& url, const XMLNetHTTPInfo* = 0) override;
};

// read pending inotify events; append O(path) for every file opened (directories themselves are skipped)
static void drain(bool record) {
    char buf[16384] __attribute__((aligned(8)));
    for (;;) {
        ssize_t n = read(gIno, buf, sizeof buf);
        if (n <= 0) break;
        for (char* p = buf; p < buf + n;) {
            inotify_event* ev = (inotify_event*)p;
            if (record && (ev->mask & IN_OPEN) && !(ev->mask & IN_ISDIR) && ev->len > 0) {
                auto it = gWatch.find(ev->wd);
                std::string path = (it == gWatch.end() ? std::string("?") : it->second) + "/" + ev->name;
                gTrace.push_back("O(" + plainPath(path) + ")");
            }
            p += sizeof(inotify_event) + ev->len;
        }
    }
}

static std::string plain(const XMLCh* s);
BinInputStream* RecAccessor::makeNew(const XMLURL& url, const XMLNetHTTPInfo*) {
    drain(true);
    gTrace.push_back("N(" + plain(url.getURLText()) + ")");
    auto it = gServed.find(narrow(url.getURLText()));
    if (it == gServed.end())
        ThrowXML1(NetAccessorException, XMLExcepts::NetAcc_ConnSocket, url.getURLText());
    return new BinMemInputStream((const XMLByte*)it->second.data(), it->second.size(), BinMemInputStream::BufOpt_Copy);
}

static std::string setRoot(const std::string& root) {
    if (gIno >= 0) close(gIno);
    gWatch.clear();
    gCanary.clear();
    gServed.clear();
    gRoot = root;
    gIno = inotify_init1(IN_NONBLOCK);
    if (gIno < 0) return "err inotify";
    walk(root);            // reads every canary (before anything is recorded) ...
    drain(false);          // ... and forgets the opens this caused
    return "ok";
}

static std::string baseName(const std::string& s) {
    size_t p = s.find_last_of("/");
    return p == std::string::npos ? s : s.substr(p + 1);
}

// mode: 0 = none installed, 1 = returns null, 2 = returns a MemBufInputSource holding the canary's content,
// 3 = like 2 but only for references made from the document entity itself (base URI == document system id) and
//     with the canary's real path as system id, so that nested relative references point at real files
class Resolver : public XMLEntityResolver {
public:
    int mode;
    explicit Resolver(int m) : mode(m) {}
    InputSource* resolveEntity(XMLResourceIdentifier* ri) override {
        drain(true);
        bool schema = ri->getResourceIdentifierType() != XMLResourceIdentifier::ExternalEntity;
        const XMLCh* third = schema ? ri->getNameSpace() : ri->getPublicId();
        gTrace.push_back(std::string("R(") + (schema ? "S," : "E,") + plain(ri->getSystemId()) + "," +
                         plain(ri->getBaseURI()) + "," + plain(third) + ")");
        if (mode != 2 && mode != 3) return 0;
        if (mode == 3 && narrow(ri->getBaseURI()) != gDocSys) return 0;
        std::string sys = narrow(ri->getSystemId());
        std::string bn = baseName(sys);
        auto it = gCanary.find(bn);
        if (it == gCanary.end()) return 0;
        std::string id = mode == 3 ? gCanaryPath[bn] : "mem:" + bn;
        gTrace.push_back("U(" + id + ")");
        XMLCh* xid = XMLString::transcode(id.c_str());
        MemBufInputSource* src = new MemBufInputSource((const XMLByte*)it->second.data(), it->second.size(), xid);
        XMLString::release(&xid);
        return src;
    }
};

struct ErrInfo {
    bool sawFatal = false;
    std::string first;
    unsigned starts = 0;
    void onError(unsigned code, const XMLCh* domain, XMLErrorReporter::ErrTypes t, const XMLCh* text) {
        if (t != XMLErrorReporter::ErrType_Fatal || sawFatal) return;
        sawFatal = true;
        bool isErrs = XMLString::equals(domain, XMLUni::fgXMLErrDomain);
        std::string msg = narrow(text);
        if (isErrs && code == XMLErrs::RecursiveEntity) first = "Recursive";
        else if (isErrs && code == XMLErrs::EntityExpansionLimitExceeded) first = "Limit";
        else if (isErrs && code == XMLErrs::NoExtRefsInAttValue) first = "ExtRefInAtt";
        else if (isErrs && code == XMLErrs::EntityNotFound) first = "EntNotFound";
        else if (isErrs && (code == XMLErrs::XMLException_Fatal || code == XMLErrs::SchemaScanFatalError))
            first = std::string("Exc:") + msg.substr(0, 60);
        else if (XMLString::equals(domain, XMLUni::fgExceptDomain)) {
            if (code == XMLExcepts::Gen_CouldNotOpenDTD || code == XMLExcepts::Gen_CouldNotOpenExtEntity) first = "OpenFailed";
            else if (code >= XMLExcepts::NetAcc_InternalError && code <= XMLExcepts::NetAcc_ReadSocket) first = "Net";
            else if (code == XMLExcepts::URL_MalformedURL) first = "Malformed";
            else if (code == XMLExcepts::Val_CantHaveIntSS) first = "CantHaveIntSS";
            else first = "Exc:" + std::to_string(code) + ":" + msg.substr(0, 40);
        }
        else first = "Other:" + std::to_string(code) + ":" + msg.substr(0, 40);
    }
};

class MySax : public SAX2XMLReaderImpl {
public:
    ErrInfo info;
    void error(const unsigned int code, const XMLCh* const domain, const XMLErrorReporter::ErrTypes t,
               const XMLCh* const text, const XMLCh* const sysId, const XMLCh* const pubId,
               const XMLFileLoc line, const XMLFileLoc col) override {
        info.onError(code, domain, t, text);
        SAX2XMLReaderImpl::error(code, domain, t, text, sysId, pubId, line, col);
    }
    void startEntityReference(const XMLEntityDecl& d) override {
        info.starts++;
        SAX2XMLReaderImpl::startEntityReference(d);
    }
};

class MyDom : public XercesDOMParser {
public:
    ErrInfo info;
    void error(const unsigned int code, const XMLCh* const domain, const XMLErrorReporter::ErrTypes t,
               const XMLCh* const text, const XMLCh* const sysId, const XMLCh* const pubId,
               const XMLFileLoc line, const XMLFileLoc col) override {
        info.onError(code, domain, t, text);
        XercesDOMParser::error(code, domain, t, text, sysId, pubId, line, col);
    }
    void startEntityReference(const XMLEntityDecl& d) override {
        info.starts++;
        XercesDOMParser::startEntityReference(d);
    }
};

class MySax1 : public SAXParser {
public:
    ErrInfo info;
    void error(const unsigned int code, const XMLCh* const domain, const XMLErrorReporter::ErrTypes t,
               const XMLCh* const text, const XMLCh* const sysId, const XMLCh* const pubId,
               const XMLFileLoc line, const XMLFileLoc col) override {
        info.onError(code, domain, t, text);
        SAXParser::error(code, domain, t, text, sysId, pubId, line, col);
    }
    void startEntityReference(const XMLEntityDecl& d) override {
        info.starts++;
        SAXParser::startEntityReference(d);
    }
};

static const XMLCh* scannerName(const std::string& s) {
    if (s == "IG") return XMLUni::fgIGXMLScanner;
    if (s == "DG") return XMLUni::fgDGXMLScanner;
    if (s == "SG") return XMLUni::fgSGXMLScanner;
    return XMLUni::fgWFXMLScanner;
}

static std::string classifyExc(const std::string& msg) {
    return "Exc:" + msg.substr(0, 60);
}

// parse <api> <scanner> <val> <doSchema> <loadSchema> <loadDTD> <disable> <stdUri> <limit|-> <resolver> <docsys> ...
// uc: -1 = leave useCachedGrammarInParse alone, 0/1 = set it; prime: first parse the same document once on the same
// parser with cacheGrammarFromParse + loadExternalDTD (not recorded), so that its DTD grammar is in the pool
static std::string doParse(const std::vector<std::string>& a, int uc = -1, bool prime = false) {
    if (a.size() < 12) return "bad-request";
    const std::string &api = a[1], &scn = a[2], &val = a[3];
    bool doSchema = a[4] == "1", loadSchema = a[5] == "1", loadDTD = a[6] == "1", disable = a[7] == "1",
         stdUri = a[8] == "1";
    bool hasLimit = a[9] != "-";
    unsigned long limit = hasLimit ? strtoul(a[9].c_str(), 0, 10) : 0;
    int rmode = a[10] == "none" ? 0 : (a[10] == "null" ? 1 : (a[10] == "top" ? 3 : 2));
    const std::string& docsys = a[11];
    gDocSys = docsys;
    gTrace.clear();
    drain(false);
    Resolver res(rmode);
    SecurityManager sm;
    sm.setEntityExpansionLimit(limit);
    ErrInfo info;
    std::string exc;
    try {
        if (api == "sax") {
            MySax p;
            p.setProperty(XMLUni::fgXercesScannerName, (void*)scannerName(scn));
            p.setFeature(XMLUni::fgSAX2CoreNameSpaces, true);
            p.setFeature(XMLUni::fgSAX2CoreValidation, val != "never");
            p.setFeature(XMLUni::fgXercesDynamic, val == "auto");
            p.setFeature(XMLUni::fgXercesSchema, doSchema);
            p.setFeature(XMLUni::fgXercesLoadSchema, loadSchema);
            p.setFeature(XMLUni::fgXercesLoadExternalDTD, loadDTD);
            p.setFeature(XMLUni::fgXercesDisableDefaultEntityResolution, disable);
            p.setFeature(XMLUni::fgXercesStandardUriConformant, stdUri);
            if (hasLimit) p.setProperty(XMLUni::fgXercesSecurityManager, &sm);
            if (rmode) p.setXMLEntityResolver(&res);
            DefaultHandler dh;                 // swallows errors
            p.setErrorHandler(&dh);
            p.setContentHandler(&dh);
            p.setLexicalHandler(&dh);
            if (prime) {
                p.setFeature(XMLUni::fgXercesCacheGrammarFromParse, true);
                p.setFeature(XMLUni::fgXercesLoadExternalDTD, true);
                try { p.parse(docsys.c_str()); } catch (...) {}
                p.setFeature(XMLUni::fgXercesCacheGrammarFromParse, false);
                p.setFeature(XMLUni::fgXercesLoadExternalDTD, loadDTD);
            }
            if (uc >= 0) p.setFeature(XMLUni::fgXercesUseCachedGrammarInParse, uc == 1);
            p.info = ErrInfo(); gTrace.clear(); drain(false);
            try { p.parse(docsys.c_str()); }
            catch (const SAXParseException& e) { exc = "SAXParse"; }
            info = p.info;
        } else {
            MyDom p;
            p.useScanner(scannerName(scn));
            p.setDoNamespaces(true);
            p.setValidationScheme(val == "never" ? XercesDOMParser::Val_Never
                                  : val == "auto" ? XercesDOMParser::Val_Auto : XercesDOMParser::Val_Always);
            p.setDoSchema(doSchema);
            p.setLoadSchema(loadSchema);
            p.setLoadExternalDTD(loadDTD);
            p.setDisableDefaultEntityResolution(disable);
            p.setStandardUriConformant(stdUri);
            if (hasLimit) p.setSecurityManager(&sm);
            if (rmode) p.setXMLEntityResolver(&res);
            DefaultHandler dh;                 // swallows errors; installing it makes the parser the error reporter
            p.setErrorHandler(&dh);
            if (prime) {
                p.cacheGrammarFromParse(true);
                p.setLoadExternalDTD(true);
                try { p.parse(docsys.c_str()); } catch (...) {}
                p.cacheGrammarFromParse(false);
                p.setLoadExternalDTD(loadDTD);
            }
            if (uc >= 0) p.useCachedGrammarInParse(uc == 1);
            p.info = ErrInfo(); gTrace.clear(); drain(false);
            try { p.parse(docsys.c_str()); }
            catch (const SAXParseException& e) { exc = "SAXParse"; }
            info = p.info;
        }
    } catch (const OutOfMemoryException&) { exc = "OOM";
    } catch (const XMLException& e) { exc = "XMLException:" + narrow(e.getType());
    } catch (const DOMException& e) { exc = "DOMException";
    } catch (const SAXException& e) { exc = "SAXException";
    } catch (...) { exc = "unknown"; }
    drain(true);
    std::string tr;
    for (size_t i = 0; i < gTrace.size(); i++) { if (i) tr += ";"; tr += gTrace[i]; }
    if (tr.empty()) tr = "-";
    std::string fatal = info.sawFatal ? info.first : (exc.empty() || exc == "SAXParse" ? "none" : "Thrown:" + exc);
    for (auto& c : fatal) if (c == ' ') c = '_';
    return "tr=" + tr + " fatal=" + fatal + " starts=" + std::to_string(info.starts);
}

// hist <api> <op;op;...> <docsys0> <docterm0> <docsys1> <docterm1> ...
//   ops on ONE parser object:  L<n> manager.setEntityExpansionLimit(n) | M1 / M0 install / remove the manager |
//   S<IG|DG|SG|WF> useScanner | P<i> parse document i.  Answer: one <fatal>:<starts> per parse.
template <class P> static std::string histOn(P& p, const std::vector<std::string>& ops, const std::vector<std::string>& docs,
                                             void (*setMgr)(P&, SecurityManager*), void (*useScn)(P&, const XMLCh*)) {
    SecurityManager sm;
    std::string out;
    for (const std::string& op : ops) {
        if (op.empty()) continue;
        if (op[0] == 'L') sm.setEntityExpansionLimit(strtoul(op.c_str() + 1, 0, 10));
        else if (op[0] == 'M') setMgr(p, op == "M1" ? &sm : 0);
        else if (op[0] == 'S') useScn(p, scannerName(op.substr(1)));
        else if (op[0] == 'P') {
            size_t i = strtoul(op.c_str() + 1, 0, 10);
            if (i >= docs.size()) return "bad-doc-index";
            p.info = ErrInfo();
            std::string exc;
            try { p.parse(docs[i].c_str()); }
            catch (const SAXParseException&) {}
            catch (const OutOfMemoryException&) { exc = "OOM"; }
            catch (const XMLException& e) { exc = "XMLException:" + narrow(e.getType()); }
            catch (const SAXException&) { exc = "SAXException"; }
            catch (...) { exc = "unknown"; }
            std::string fatal = p.info.sawFatal ? p.info.first : (exc.empty() ? "none" : "Thrown:" + exc);
            for (auto& c : fatal) if (c == ' ' || c == ';') c = '_';
            if (!out.empty()) out += ";";
            out += fatal + ":" + std::to_string(p.info.starts);
        }
    }
    return "h=" + (out.empty() ? std::string("-") : out);
}

static std::string doHist(const std::vector<std::string>& a) {
    if (a.size() < 3) return "bad-request";
    std::vector<std::string> ops, docs;
    { std::string cur; for (char c : a[2]) { if (c == ';') { ops.push_back(cur); cur.clear(); } else cur += c; } ops.push_back(cur); }
    for (size_t i = 3; i + 1 < a.size(); i += 2) docs.push_back(a[i]);
    gTrace.clear();
    try {
        if (a[1] == "sax") {
            MySax p;
            DefaultHandler dh;
            p.setFeature(XMLUni::fgSAX2CoreNameSpaces, true);
            p.setFeature(XMLUni::fgSAX2CoreValidation, false);
            p.setFeature(XMLUni::fgXercesSchema, false);
            p.setErrorHandler(&dh); p.setContentHandler(&dh); p.setLexicalHandler(&dh);
            return histOn<MySax>(p, ops, docs,
                [](MySax& q, SecurityManager* m) { q.setProperty(XMLUni::fgXercesSecurityManager, m); },
                [](MySax& q, const XMLCh* n) { q.setProperty(XMLUni::fgXercesScannerName, (void*)n); });
        } else if (a[1] == "dom") {
            MyDom p;
            DefaultHandler dh;
            p.setDoNamespaces(true);
            p.setValidationScheme(XercesDOMParser::Val_Never);
            p.setErrorHandler(&dh);
            return histOn<MyDom>(p, ops, docs,
                [](MyDom& q, SecurityManager* m) { q.setSecurityManager(m); },
                [](MyDom& q, const XMLCh* n) { q.useScanner(n); });
        } else {
            MySax1 p;
            HandlerBase hb;
            p.setDoNamespaces(true);
            p.setValidationScheme(SAXParser::Val_Never);
            p.setErrorHandler(&hb); p.setDocumentHandler(&hb);
            return histOn<MySax1>(p, ops, docs,
                [](MySax1& q, SecurityManager* m) { q.setSecurityManager(m); },
                [](MySax1& q, const XMLCh* n) { q.useScanner(n); });
        }
    } catch (const XMLException& e) { return "h=Thrown:XMLException:" + narrow(e.getType());
    } catch (...) { return "h=Thrown:unknown"; }
}

int main() {
    XMLPlatformUtils::Initialize();
    delete XMLPlatformUtils::fgNetAccessor;
    XMLPlatformUtils::fgNetAccessor = new RecAccessor;       // Terminate() deletes it
    std::string line;
    while (std::getline(std::cin, line)) {
        std::vector<std::string> a = splitWs(line);
        std::string r = "bad-request";
        if (a.size() == 2 && a[0] == "root") r = setRoot(a[1]);
        else if (a.size() == 3 && a[0] == "serve") {
            auto it = gCanary.find(baseName(a[2]));
            if (it == gCanary.end()) r = "err no-canary"; else { gServed[a[1]] = it->second; r = "ok"; }
        }
        else if (a.size() == 3 && a[0] == "switch") r = "ok";      // model-side switch, nothing to do here
        else if (!a.empty() && a[0] == "parse") r = doParse(a);
        else if (!a.empty() && a[0] == "hist") r = doHist(a);
        else if (a.size() >= 14 && a[0] == "cparse") {
            // cparse <the 10 settings of parse> <useCached 0|1> <primed 0|1> <docsys> <docterm> <fsterm>
            std::vector<std::string> b(a.begin(), a.begin() + 11);
            b.insert(b.end(), a.begin() + 13, a.end());
            r = doParse(b, a[11] == "1" ? 1 : 0, a[12] == "1");
        }
#ifdef HAVE_C19_URI
        else if (a.size() == 4 && a[0] == "uri") r = c19_uri(a[1], a[2] == "-" ? "" : a[2], a[3] == "-" ? "" : a[3]);
#endif
        std::cout << r << "\n" << std::flush;
    }
    XMLPlatformUtils::Terminate();
    return 0;
}
