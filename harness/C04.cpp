// xh_C04: (a) drives the REAL xercesc::XMLReader with a sequence of reader operations over a chunked stream
//             (same line protocol as bin/xm_C04, the extracted Coq model)
//         (b) document-level oracle: SAX2 parse of the same bytes from different sources / chunkings,
//             canonical event + error dump
#include "C04_dump.hpp"
#include <xercesc/internal/XMLReader.hpp>
#include <xercesc/framework/XMLBuffer.hpp>
#include <xercesc/framework/LocalFileInputSource.hpp>
#include <xercesc/framework/StdInInputSource.hpp>
#include <xercesc/util/TranscodingException.hpp>
#include <xercesc/util/RuntimeException.hpp>
#include <memory>
#include <unistd.h>

using namespace xh;

static const uint64_t HMASK = (1ULL << 40) - 1;
static inline uint64_t hstep(uint64_t h, unsigned c) { return (h * 1000003ULL + c + 1) & HMASK; }

static std::vector<XMLCh> units(const std::string& hx) {
    std::vector<XMLCh> v;
    for (uint32_t u : parseHex(hx, 4)) v.push_back((XMLCh)u);
    v.push_back(0);
    return v;
}

static std::string excName(const XMLException& e) {
    const char* n = exceptName((int)e.getCode());
    if (n) return n;
    switch ((int)e.getCode()) {
    case XMLExcepts::Reader_NelLsepinDecl: return "Reader_NelLsepinDecl";
    case XMLExcepts::Str_StartIndexPastEnd: return "Str_StartIndexPastEnd";
    default: return std::string("XMLException:") + narrow(e.getType()) + ":" + std::to_string((int)e.getCode());
    }
}

static std::string doReader(const std::vector<std::string>& a) {
    // rd <enc> <ver> <lowWater> <chunks> <docspec> ops...
    const char* enc = 0;
    if (a[1] == "utf8") enc = "UTF-8";
    else if (a[1] == "utf16le") enc = "UTF-16LE";
    else if (a[1] == "utf16be") enc = "UTF-16BE";
    else if (a[1] == "latin1") enc = "ISO-8859-1";
    else if (a[1] == "ascii") enc = "US-ASCII";
    else if (a[1] == "ucs4le") enc = "UCS-4 (LE)";
    else if (a[1] == "ucs4be") enc = "UCS-4 (BE)";
    else return "bad-request";
    XMLReader::XMLVersion ver = a[2] == "11" ? XMLReader::XMLV1_1 : XMLReader::XMLV1_0;
    XMLSize_t low = (XMLSize_t)atol(a[3].c_str());
    std::vector<unsigned char> data = expandDoc(a[5]);
    ChunkStream* st = new ChunkStream(data, parseChunks(a[4]));
    XMLCh* encX = XMLString::transcode(enc);
    XMLCh sys[] = { 'x', 0 };
    std::string out;
    std::unique_ptr<XMLReader> rd;
    try {
        rd.reset(new XMLReader(0, sys, st, encX, XMLReader::RefFrom_NonLiteral, XMLReader::Type_General,
                               XMLReader::Source_External, false, false, low, ver));
    } catch (const XMLException& e) {
        XMLString::release(&encX);
        return "!ctor:" + excName(e);
    }
    XMLString::release(&encX);
    XMLBuffer buf(1023);
    for (size_t k = 6; k < a.size(); k++) {
        const std::string& op = a[k];
        char c = op[0];
        std::string arg = op.substr(1);
        if (!out.empty()) out += ' ';
        try {
            XMLCh ch = 0;
            char b[64];
            if (c == 'g') {
                if (rd->getNextChar(ch)) { snprintf(b, sizeof b, "g:%04X", (unsigned)ch); out += b; } else out += "g:-";
            } else if (c == 'p') {
                if (rd->peekNextChar(ch)) { snprintf(b, sizeof b, "p:%04X", (unsigned)ch); out += b; } else out += "p:-";
            } else if (c == 'n') {
                XMLCh notc = (XMLCh)parseHex(arg, 4)[0];
                if (rd->getNextCharIfNot(notc, ch)) { snprintf(b, sizeof b, "n:%04X", (unsigned)ch); out += b; } else out += "n:-";
            } else if (c == 'c') {
                out += rd->skippedChar((XMLCh)parseHex(arg, 4)[0]) ? "c:1" : "c:0";
            } else if (c == 'q') {
                if (rd->skipIfQuote(ch)) { snprintf(b, sizeof b, "q:%04X", (unsigned)ch); out += b; } else out += "q:-";
            } else if (c == 'w') {
                out += rd->skippedSpace() ? "w:1" : "w:0";
            } else if (c == 'W') {
                bool sk = false;
                bool r = rd->skipSpaces(sk, false);
                out += std::string("W:") + (r ? "1" : "0") + (sk ? "1" : "0");
            } else if (c == 's') {
                std::vector<XMLCh> s = units(arg);
                out += rd->skippedString(s.data()) ? "s:1" : "s:0";
            } else if (c == 'l') {
                std::vector<XMLCh> s = units(arg);
                out += rd->skippedStringLong(s.data()) ? "l:1" : "l:0";
            } else if (c == 'k') {
                std::vector<XMLCh> s = units(arg);
                out += rd->peekString(s.data()) ? "k:1" : "k:0";
            } else if (c == 'N' || c == 'T' || c == 'C') {
                buf.reset();
                bool r = (c == 'C') ? rd->getNCName(buf) : rd->getName(buf, c == 'T');
                uint64_t h = 0;
                for (XMLSize_t i = 0; i < buf.getLen(); i++) h = hstep(h, buf.getRawBuffer()[i]);
                XMLSize_t n = buf.getLen();
                out += std::string(1, c) + ":" + (r ? "1" : "0") + ":" + std::to_string((long)n) + ":" + std::to_string((unsigned long long)h) +
                       ":" + showHex(buf.getRawBuffer(), n < 6 ? n : 6, 4);
            } else if (c == 'Q') {
                buf.reset();
                int colon = -2;
                bool r = rd->getQName(buf, &colon);
                uint64_t h = 0;
                for (XMLSize_t i = 0; i < buf.getLen(); i++) h = hstep(h, buf.getRawBuffer()[i]);
                XMLSize_t n = buf.getLen();
                out += std::string("Q:") + (r ? "1" : "0") + ":" + std::to_string((long)n) + ":" + std::to_string((unsigned long long)h) +
                       ":" + showHex(buf.getRawBuffer(), n < 6 ? n : 6, 4) + ":" + std::to_string(colon);
            } else if (c == 'S' || c == 'U') {
                buf.reset();
                bool r = (c == 'S') ? rd->getSpaces(buf) : rd->getUpToCharOrWS(buf, (XMLCh)parseHex(arg, 4)[0]);
                uint64_t h = 0;
                for (XMLSize_t i = 0; i < buf.getLen(); i++) h = hstep(h, buf.getRawBuffer()[i]);
                XMLSize_t n = buf.getLen();
                out += std::string(1, c) + ":" + (r ? "1" : "0") + ":" + std::to_string((long)n) + ":" + std::to_string((unsigned long long)h) +
                       ":" + showHex(buf.getRawBuffer(), n < 6 ? n : 6, 4);
            } else if (c == 'm') {
                buf.reset();
                rd->movePlainContentChars(buf);
                uint64_t h = 0;
                for (XMLSize_t i = 0; i < buf.getLen(); i++) h = hstep(h, buf.getRawBuffer()[i]);
                out += "m:" + std::to_string((long)buf.getLen()) + ":" + std::to_string((unsigned long long)h);
            } else if (c == 'G') {
                // repeat getNextChar until it returns false (arg = max count, empty = unlimited)
                long lim = arg.empty() ? -1 : atol(arg.c_str());
                long n = 0;
                uint64_t h = 0;
                XMLCh last[4] = {0, 0, 0, 0};
                try {
                    while (lim < 0 || n < lim) {
                        if (!rd->getNextChar(ch)) break;
                        h = hstep(h, ch);
                        last[n & 3] = ch;
                        n++;
                    }
                } catch (const XMLException&) {
                    // report what was delivered before the exception, then the exception
                    snprintf(b, sizeof b, "G:%ld:%llu ", n, (unsigned long long)h);
                    out += b;
                    throw;
                }
                snprintf(b, sizeof b, "G:%ld:%llu", n, (unsigned long long)h);
                out += b;
            } else if (c == 'P') {
                snprintf(b, sizeof b, "P:%lu,%lu", (unsigned long)rd->getLineNumber(), (unsigned long)rd->getColumnNumber());
                out += b;
            } else if (c == 'O') {
                snprintf(b, sizeof b, "O:%lu", (unsigned long)rd->getSrcOffset());
                out += b;
            } else out += "?";
        } catch (const XMLException& e) {
            out += "!" + excName(e);
            break;
        }
    }
    return out;
}

static std::string gTmpDir = ".";

// xcsplit <encoding name> <hex bytes>: prefix-stability of a (possibly ICU-provided) transcoder -- decoding the bytes in
// two blocks split at k (carrying the bytes the first call did not eat, as XMLReader::refreshRawBuffer does) must give
// the same characters as decoding them at once, for every k
#include <xercesc/util/TransService.hpp>
static bool decodeBlocks(const char* enc, const std::vector<uint32_t>& b, size_t split, std::vector<XMLCh>& out) {
    XMLTransService::Codes rc;
    XMLCh* encX = XMLString::transcode(enc);
    std::unique_ptr<XMLTranscoder> t(XMLPlatformUtils::fgTransService->makeNewTranscoderFor(encX, rc, 16 * 1024));
    XMLString::release(&encX);
    if (!t) return false;
    std::vector<XMLByte> raw(b.size() + 8, 0);
    for (size_t i = 0; i < b.size(); i++) raw[i] = (XMLByte)b[i];
    std::vector<XMLCh> buf(b.size() * 2 + 16);
    std::vector<unsigned char> sizes(b.size() * 2 + 16);
    size_t pos = 0, avail = split;
    int guard = 0;
    while (pos < b.size() && guard++ < 64) {
        XMLSize_t eaten = 0;
        XMLSize_t n = t->transcodeFrom(raw.data() + pos, avail - pos, buf.data(), buf.size(), eaten, sizes.data());
        out.insert(out.end(), buf.begin(), buf.begin() + n);
        pos += eaten;
        if (avail < b.size()) avail = b.size();          // second block: everything that is left
        else if (eaten == 0) break;
    }
    return true;
}
static std::string doXcSplit(const std::vector<std::string>& a) {
    std::vector<uint32_t> b = parseHex(a[2], 2);
    try {
        std::vector<XMLCh> whole;
        if (!decodeBlocks(a[1].c_str(), b, b.size(), whole)) return "noenc";
        for (size_t k = 1; k < b.size(); k++) {
            std::vector<XMLCh> parts;
            decodeBlocks(a[1].c_str(), b, k, parts);
            if (parts != whole) return "diff k=" + std::to_string(k) + " whole=" + showHex(whole.data(), whole.size(), 4) +
                                       " blocks=" + showHex(parts.data(), parts.size(), 4);
        }
        return "ok " + std::to_string(b.size()) + " " + showHex(whole.data(), whole.size() < 8 ? whole.size() : 8, 4);
    } catch (const XMLException& e) { return "exc " + excName(e); }
}

// external DTD subset / external entities: every external id resolves to the request's <extspec> bytes, delivered
// from memory (one-shot requests) or through the same chunking as the document entity
#include <xercesc/sax/EntityResolver.hpp>
class ExtResolver : public EntityResolver {
public:
    std::vector<unsigned char> fData, fData2;
    ChunkSpec fChunks;
    bool fChunked = false;
    // a system id containing the digit '2' is served the second external byte string (<ext2spec>)
    InputSource* resolveEntity(const XMLCh* const, const XMLCh* const sysId) {
        static const XMLByte none[1] = {0};
        bool second = false;
        for (const XMLCh* q = sysId; q && *q; ++q) if (*q == '2') second = true;
        const std::vector<unsigned char>& d = second ? fData2 : fData;
        if (fChunked) return new ChunkSource(d, fChunks, second ? "ext2" : "ext");
        return new MemBufInputSource(d.empty() ? none : d.data(), d.size(), second ? "ext2" : "ext", false);
    }
};

static std::string doDoc(const std::vector<std::string>& a) {
    // doc <cfg> <src> <chunks> <docspec> [<extspec> [<ext2spec>]]   cfg: scanner letter I/W/D/S, ns 0/1, optional 'f' = full dump;
    // with <extspec>: external DTD loading on, every external id is served these bytes (chunked like the document)
    const std::string& cfg = a[1];
    std::vector<unsigned char> data = expandDoc(a[4]);
    std::unique_ptr<SAX2XMLReader> p(XMLReaderFactory::createXMLReader());
    const XMLCh* sc = XMLUni::fgIGXMLScanner;
    if (cfg[0] == 'W') sc = XMLUni::fgWFXMLScanner;
    else if (cfg[0] == 'D') sc = XMLUni::fgDGXMLScanner;
    else if (cfg[0] == 'S') sc = XMLUni::fgSGXMLScanner;
    p->setProperty(XMLUni::fgXercesScannerName, (void*)sc);
    p->setFeature(XMLUni::fgSAX2CoreNameSpaces, cfg.size() > 1 && cfg[1] == '1');
    p->setFeature(XMLUni::fgSAX2CoreValidation, false);
    ExtResolver res;
    if (a.size() >= 6) {
        res.fData = expandDoc(a[5]);
        if (a.size() >= 7) res.fData2 = expandDoc(a[6]);
        res.fChunks = parseChunks(a[3]);
        res.fChunked = (a[2] == "chunk");
        p->setFeature(XMLUni::fgXercesLoadExternalDTD, true);
        p->setEntityResolver(&res);
    } else
        p->setFeature(XMLUni::fgXercesLoadExternalDTD, false);
    bool full = cfg.find('f') != std::string::npos;
    // "L<n>" at the end of cfg: low-water mark of the raw buffer (property http://apache.org/xml/properties/low-water-mark)
    XMLSize_t lowV = 0;
    size_t lpos = cfg.find('L');
    if (lpos != std::string::npos) { lowV = (XMLSize_t)atol(cfg.c_str() + lpos + 1); p->setProperty(XMLUni::fgXercesLowWaterMark, &lowV); }
    DumpHandler h;
    p->setContentHandler(&h);
    p->setErrorHandler(&h);
    p->setLexicalHandler(&h); p->setDeclarationHandler(&h);
    std::string exc = "-";
    std::unique_ptr<InputSource> src;
    std::string tmp;
    if (a[2] == "mem")
        src.reset(new MemBufInputSource(data.data(), data.size(), "x", false));
    else if (a[2] == "file") {
        tmp = gTmpDir + "/c04-" + std::to_string((long)getpid()) + ".xml";
        FILE* f = fopen(tmp.c_str(), "wb");
        if (!f) return "bad-tmp";
        fwrite(data.data(), 1, data.size(), f);
        fclose(f);
        XMLCh* t = XMLString::transcode(tmp.c_str());
        src.reset(new LocalFileInputSource(t));
        XMLString::release(&t);
    } else
        src.reset(new ChunkSource(data, parseChunks(a[3]), "x"));
    try {
        p->parse(*src);
    } catch (const OutOfMemoryException&) { exc = "OutOfMemory";
    } catch (const XMLException& e) { exc = "XMLException:" + excName(e);
    } catch (const SAXParseException& e) { exc = "SAXParseException";
    } catch (const SAXException& e) { exc = "SAXException";
    } catch (...) { exc = "FOREIGN"; }
    h.flushText();
    if (!tmp.empty()) unlink(tmp.c_str());
    // file: the system id differs, nothing in the dump prints it
    std::string r = "doc " + std::to_string((unsigned long long)fnv(h.out)) + " " + std::to_string(h.events) + " " + exc + " " +
                    (h.errs.empty() ? "-" : h.errs);
    if (full) r += " " + h.out;
    for (char& ch : r) if (ch == '\n' || ch == '\r') ch = '?';
    return r;
}

int main(int argc, char** argv) {
    XMLPlatformUtils::Initialize();
    if (const char* t = getenv("XH_TMPDIR")) gTmpDir = t;
    if (argc >= 3 && std::string(argv[1]) == "stdin") {
        // parse the process's standard input through StdInInputSource; argv[2] = cfg
        std::unique_ptr<SAX2XMLReader> p(XMLReaderFactory::createXMLReader());
        std::string cfg = argv[2];
        const XMLCh* sc = XMLUni::fgIGXMLScanner;
        if (cfg[0] == 'W') sc = XMLUni::fgWFXMLScanner;
        else if (cfg[0] == 'D') sc = XMLUni::fgDGXMLScanner;
        else if (cfg[0] == 'S') sc = XMLUni::fgSGXMLScanner;
        p->setProperty(XMLUni::fgXercesScannerName, (void*)sc);
        p->setFeature(XMLUni::fgSAX2CoreNameSpaces, cfg.size() > 1 && cfg[1] == '1');
        p->setFeature(XMLUni::fgSAX2CoreValidation, false);
        p->setFeature(XMLUni::fgXercesLoadExternalDTD, false);
        DumpHandler h;
        p->setContentHandler(&h); p->setErrorHandler(&h); p->setLexicalHandler(&h); p->setDeclarationHandler(&h);
        std::string exc = "-";
        try { StdInInputSource src; p->parse(src); }
        catch (const XMLException& e) { exc = "XMLException:" + excName(e); }
        catch (const SAXException&) { exc = "SAXException"; }
        catch (...) { exc = "FOREIGN"; }
        h.flushText();
        std::string r = "doc " + std::to_string((unsigned long long)fnv(h.out)) + " " + std::to_string(h.events) + " " + exc + " " +
                        (h.errs.empty() ? "-" : h.errs);
        if (cfg.find('f') != std::string::npos) r += " " + h.out;
        for (char& ch : r) if (ch == '\n' || ch == '\r') ch = '?';
        std::cout << r << "\n";
        return 0;
    }
    std::string line;
    while (std::getline(std::cin, line)) {
        std::vector<std::string> a = splitWs(line);
        std::string r = "bad-request";
        if (a.size() >= 6 && a[0] == "rd") r = doReader(a);
        else if (a.size() >= 5 && a.size() <= 7 && a[0] == "doc") r = doDoc(a);
        else if (a.size() == 3 && a[0] == "xcsplit") r = doXcSplit(a);
        std::cout << r << "\n";
    }
    std::cout.flush();
    return 0;
}
