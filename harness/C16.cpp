// xh_C16: (a) engine level - drives the real XSerializeEngine with the same line protocol as bin/xm_C16;
//         (b) pool level  - the property's own oracle: pool A vs deserialize(serialize(A)) on instance documents.
#include "xh_common.hpp"
#include <xercesc/internal/XSerializeEngine.hpp>
#include <xercesc/internal/BinMemOutputStream.hpp>
#include <xercesc/framework/XMLGrammarPoolImpl.hpp>
#include <xercesc/util/BinMemInputStream.hpp>
#include <xercesc/util/XercesVersion.hpp>
#include <xercesc/framework/MemBufInputSource.hpp>
#include <xercesc/framework/psvi/XSModel.hpp>
#include <xercesc/framework/psvi/XSNamedMap.hpp>
#include <xercesc/framework/psvi/XSElementDeclaration.hpp>
#include <xercesc/framework/psvi/XSAttributeDeclaration.hpp>
#include <xercesc/framework/psvi/XSTypeDefinition.hpp>
#include <xercesc/framework/psvi/XSSimpleTypeDefinition.hpp>
#include <xercesc/framework/psvi/XSComplexTypeDefinition.hpp>
#include <xercesc/framework/psvi/XSParticle.hpp>
#include <xercesc/framework/psvi/XSModelGroup.hpp>
#include <xercesc/framework/psvi/XSWildcard.hpp>
#include <xercesc/framework/psvi/XSAttributeUse.hpp>
#include <xercesc/framework/psvi/XSIDCDefinition.hpp>
#include <xercesc/framework/psvi/XSFacet.hpp>
#include <xercesc/framework/psvi/XSMultiValueFacet.hpp>
#include <xercesc/framework/psvi/XSNotationDeclaration.hpp>
#include <xercesc/framework/psvi/XSModelGroupDefinition.hpp>
#include <xercesc/framework/psvi/XSAttributeGroupDefinition.hpp>
#include <xercesc/framework/psvi/XSAnnotation.hpp>
#include <xercesc/framework/psvi/PSVIHandler.hpp>
#include <xercesc/framework/psvi/PSVIElement.hpp>
#include <xercesc/framework/psvi/PSVIAttributeList.hpp>
#include <xercesc/framework/psvi/PSVIAttribute.hpp>
#include <xercesc/parsers/SAX2XMLReaderImpl.hpp>
#include <xercesc/sax2/XMLReaderFactory.hpp>
#include <xercesc/sax2/DefaultHandler.hpp>
#include <xercesc/sax2/Attributes.hpp>
#include <xercesc/sax/SAXParseException.hpp>
#include <xercesc/sax/SAXException.hpp>
#include <xercesc/validators/common/Grammar.hpp>
#include <xercesc/util/StringPool.hpp>
#include <algorithm>
#include <map>
#include <cstring>
#include <memory>

using namespace xh;

static const char* serExcept(int code) {
    switch (code) {
    case XMLExcepts::XSer_InStream_Read_LT_Req: return "XSer_InStream_Read_LT_Req";
    case XMLExcepts::XSer_Storer_Loader_Mismatch: return "XSer_Storer_Loader_Mismatch";
    case XMLExcepts::XSer_LoadPool_UppBnd_Exceed: return "XSer_LoadPool_UppBnd_Exceed";
    case XMLExcepts::XSer_ProtoType_NameLen_Dif: return "XSer_ProtoType_NameLen_Dif";
    case XMLExcepts::XSer_ProtoType_Name_Dif: return "XSer_ProtoType_Name_Dif";
    case XMLExcepts::XSer_Inv_ClassIndex: return "XSer_Inv_ClassIndex";
    case XMLExcepts::XSer_GrammarPool_Empty: return "XSer_GrammarPool_Empty";
    default: return 0;
    }
}
static std::string exName(const XMLException& e) {
    const char* n = serExcept((int)e.getCode());
    std::string ty = narrow(e.getType());
    if (n) return ty + ":" + n;
    return ty + ":" + std::to_string((int)e.getCode());
}
static std::string hex64(uint64_t v, int w) {
    char b[32];
    snprintf(b, sizeof b, "%0*llX", w, (unsigned long long)v);
    return b;
}
static uint64_t parse64(const std::string& s) { return strtoull(s.c_str(), 0, 16); }
static std::string unhex(const std::string& h) {
    std::string out;
    if (h == "-") return out;
    for (size_t i = 0; i + 1 < h.size(); i += 2) out += (char)(hexval(h[i]) * 16 + hexval(h[i + 1]));
    return out;
}

// ------------------------------------------------------------------------------------------------------------
// (a) engine level
// ------------------------------------------------------------------------------------------------------------
static std::string doEngine(const std::vector<std::string>& a) {
    size_t bs = (size_t)atol(a[1].c_str());
    MemoryManager* mm = XMLPlatformUtils::fgMemoryManager;
    XMLGrammarPoolImpl pool(mm);
    BinMemOutputStream out(1024, mm);
    std::string result;
    try {
        XSerializeEngine eng(&out, &pool, bs);
        for (size_t k = 3; k < a.size(); k++) {
            const std::string& t = a[k];
            std::string v = t.substr(2);
            switch (t[0]) {
            case 'b': eng << (XMLByte)parse64(v); break;
            case 'c': eng << (XMLCh)parse64(v); break;
            case 'i': eng << (unsigned int)parse64(v); break;
            case 'l': eng << (unsigned long)parse64(v); break;
            case 'z': eng.writeSize((XMLSize_t)parse64(v)); break;
            case 'r': { std::vector<uint32_t> d = parseHex(v, 2); std::vector<XMLByte> b(d.size() + 1);
                        for (size_t i = 0; i < d.size(); i++) b[i] = (XMLByte)d[i];
                        eng.write(b.data(), d.size()); break; }
            case 's': if (v == "~") eng.writeString((const XMLCh*)0);
                      else { std::vector<uint32_t> d = parseHex(v, 4); std::vector<XMLCh> s(d.size() + 1, 0);
                             for (size_t i = 0; i < d.size(); i++) s[i] = (XMLCh)d[i];
                             eng.writeString(s.data()); }
                      break;
            case 'x': if (v == "~") eng.writeString((const XMLByte*)0);
                      else { std::vector<uint32_t> d = parseHex(v, 2); std::vector<XMLByte> s(d.size() + 1, 0);
                             for (size_t i = 0; i < d.size(); i++) s[i] = (XMLByte)d[i];
                             eng.writeString(s.data()); }
                      break;
            case 'S': if (v == "~") eng.writeString((const XMLCh*)0, 0, XSerializeEngine::toWriteBufferLen);
                      else { size_t p = v.find(':'); uint64_t bl = parse64(v.substr(0, p));
                             std::vector<uint32_t> d = parseHex(v.substr(p + 1), 4); std::vector<XMLCh> s(d.size() + 1, 0);
                             for (size_t i = 0; i < d.size(); i++) s[i] = (XMLCh)d[i];
                             eng.writeString(s.data(), (XMLSize_t)bl, XSerializeEngine::toWriteBufferLen); }
                      break;
            default: return "bad-request";
            }
        }
    } catch (const XMLException& e) {
        return "werr " + exName(e);
    }
    size_t n = (size_t)out.curPos();
    // "c<N>" in the third field: the loading side gets only the first N bytes of the stream (truncated stream)
    if (a[2].size() > 1 && a[2][0] == 'c') { size_t cut = (size_t)atol(a[2].c_str() + 1); if (cut < n) n = cut; }
    const XMLByte* raw = out.getRawBuffer();
    std::vector<XMLByte> bytes(raw, raw + n);
    bytes.push_back(0);      // keep data() valid for an empty stream
    result = "ok " + showHex(bytes.data(), n, 2) + " |";
    try {
        BinMemInputStream in(bytes.data(), n, BinMemInputStream::BufOpt_Reference, mm);
        XSerializeEngine eng(&in, &pool, bs);
        std::string back;
        for (size_t k = 3; k < a.size(); k++) {
            const std::string& t = a[k];
            std::string v = t.substr(2);
            switch (t[0]) {
            case 'b': { XMLByte x = 0; eng >> x; back += " b:" + hex64(x, 2); break; }
            case 'c': { XMLCh x = 0; eng >> x; back += " c:" + hex64(x, 4); break; }
            case 'i': { unsigned int x = 0; eng >> x; back += " i:" + hex64(x, 8); break; }
            case 'l': { unsigned long x = 0; eng >> x; back += " l:" + hex64(x, 16); break; }
            case 'z': { XMLSize_t x = 0; eng.readSize(x); back += " z:" + hex64(x, 16); break; }
            case 'r': { size_t len = v == "-" ? 0 : v.size() / 2; std::vector<XMLByte> b(len + 8, 0xEE);
                        eng.read(b.data(), len);
                        for (size_t i = len; i < len + 8; i++) if (b[i] != 0xEE) return "overrun";
                        back += " r:" + showHex(b.data(), len, 2); break; }
            case 's': { XMLCh* s = 0; XMLSize_t bl = 0, dl = 0; eng.readString(s, bl, dl);
                        if (!s) back += " s:~"; else { back += " s:" + showHex(s, dl, 4); mm->deallocate(s); }
                        break; }
            case 'x': { XMLByte* s = 0; XMLSize_t bl = 0, dl = 0; eng.readString(s, bl, dl);
                        if (!s) back += " x:~"; else { back += " x:" + showHex(s, dl, 2); mm->deallocate(s); }
                        break; }
            case 'S': { XMLCh* s = 0; XMLSize_t bl = 0, dl = 0; eng.readString(s, bl, dl, XSerializeEngine::toReadBufferLen);
                        if (!s) back += " S:~"; else { back += " S:" + hex64(bl, 16) + ":" + showHex(s, dl, 4); mm->deallocate(s); }
                        break; }
            }
        }
        result += back.empty() ? " -" : back;
    } catch (const XMLException& e) {
        result += " err " + exName(e);
    } catch (const OutOfMemoryException&) {
        result += " err OutOfMemory";       // a garbage length field: allocation fails before the read does
    }
    return result;
}

// object references through the real engine: objects of two small serializable classes (0 = QName, 1 = KVStringPair),
// template containers by address (needToStoreObject / needToLoadObject / registerObject); the answer is the sharing
// pattern of the loaded pointers (first-appearance index), "-" for null
#include <xercesc/util/QName.hpp>
#include <xercesc/util/KVStringPair.hpp>
static std::string doObj(const std::vector<std::string>& a) {
    size_t bs = (size_t)atol(a[1].c_str());
    MemoryManager* mm = XMLPlatformUtils::fgMemoryManager;
    XMLGrammarPoolImpl pool(mm);
    BinMemOutputStream out(1024, mm);
    std::map<int, XSerializable*> objs;
    std::map<int, void*> conts;
    std::vector<char> dummy(4096);
    try {
        XSerializeEngine eng(&out, &pool, bs);
        for (size_t k = 2; k < a.size(); k++) {
            const std::string& t = a[k];
            if (t[0] == 'n') { if (t == "nt") eng.needToStoreObject(0); else eng << (XSerializable*)0; }
            else if (t[0] == 't') { int ad = atoi(t.c_str() + 1); conts[ad] = &dummy[ad % 4096]; eng.needToStoreObject(conts[ad]); }
            else { int ad = atoi(t.c_str() + 1); int c = atoi(t.c_str() + t.find(':') + 1);
                   if (!objs.count(ad)) objs[ad] = c == 0 ? (XSerializable*)new (mm) QName(mm) : (XSerializable*)new (mm) KVStringPair(mm);
                   eng << objs[ad]; }
        }
    } catch (const XMLException& e) { return "werr " + exName(e); }
    std::vector<XMLByte> bytes(out.getRawBuffer(), out.getRawBuffer() + out.curPos());
    std::string res = "ok";
    try {
        BinMemInputStream in(bytes.data(), bytes.size(), BinMemInputStream::BufOpt_Reference, mm);
        XSerializeEngine eng(&in, &pool, bs);
        std::vector<void*> seen;
        std::vector<char> marks(a.size() + 1);
        for (size_t k = 2; k < a.size(); k++) {
            const std::string& t = a[k];
            void* p = 0;
            if (t == "nt" || t[0] == 't') { if (eng.needToLoadObject(&p)) { p = &marks[k]; eng.registerObject(p); } }
            else { int c = atoi(t.c_str() + (t[0] == 'n' ? 1 : t.find(':') + 1));
                   if (c == 0) { QName* q = 0; eng >> q; p = q; } else { KVStringPair* q = 0; eng >> q; p = q; } }
            if (!p) { res += " -"; continue; }
            size_t i = std::find(seen.begin(), seen.end(), p) - seen.begin();
            if (i == seen.size()) seen.push_back(p);
            res += " " + std::to_string(i);
        }
    } catch (const XMLException& e) { return "err " + exName(e); }
    return res;
}

// ------------------------------------------------------------------------------------------------------------
// (b) pool level
// ------------------------------------------------------------------------------------------------------------
static uint64_t fnv(const std::string& s) {
    uint64_t h = 1469598103934665603ULL;
    for (unsigned char c : s) { h ^= c; h *= 1099511628211ULL; }
    return h;
}

class Dump : public DefaultHandler, public PSVIHandler {
public:
    std::string out;
    int errors = 0;
    void startElement(const XMLCh* const uri, const XMLCh* const local, const XMLCh* const, const Attributes& at) override {
        out += "S(" + narrow(uri) + "|" + narrow(local);
        std::vector<std::string> as;
        for (XMLSize_t i = 0; i < at.getLength(); i++)
            as.push_back(narrow(at.getURI(i)) + "|" + narrow(at.getLocalName(i)) + "=" + narrow(at.getValue(i)) + ":" + narrow(at.getType(i)));
        std::sort(as.begin(), as.end());
        for (auto& s : as) out += " " + s;
        out += ")";
    }
    void endElement(const XMLCh* const, const XMLCh* const local, const XMLCh* const) override { out += "E(" + narrow(local) + ")"; }
    void characters(const XMLCh* const ch, const XMLSize_t n) override { out += "T(" + narrow(std::basic_string<XMLCh>(ch, n).c_str()) + ")"; }
    void ignorableWhitespace(const XMLCh* const, const XMLSize_t n) override { out += "W" + std::to_string(n); }
    void rep(const char* sev, const SAXParseException& e) {
        errors++;
        out += std::string("!") + sev + ":" + std::to_string(e.getLineNumber()) + ":" + std::to_string(e.getColumnNumber()) + ":" + narrow(e.getMessage()) + ";";
    }
    void warning(const SAXParseException& e) override { rep("W", e); }
    void error(const SAXParseException& e) override { rep("E", e); }
    void fatalError(const SAXParseException& e) override { rep("F", e); }
    // PSVI
    void handleElementPSVI(const XMLCh* const local, const XMLCh* const, PSVIElement* p) override {
        out += "P(" + narrow(local);
        if (p) {
            out += "," + std::to_string((int)p->getValidity()) + "," + std::to_string((int)p->getValidationAttempted());
            XSTypeDefinition* t = p->getTypeDefinition();
            out += "," + (t ? narrow(t->getName()) + (t->getAnonymous() ? "#anon" : "") : std::string("-"));
            XSSimpleTypeDefinition* m = p->getMemberTypeDefinition();
            if (m) out += ",m=" + narrow(m->getName());
            if (p->getSchemaDefault()) out += ",d=" + narrow(p->getSchemaDefault());
            if (p->getSchemaNormalizedValue()) out += ",n=" + narrow(p->getSchemaNormalizedValue());
            if (p->getIsSchemaSpecified() == false) out += ",dflt";
        }
        out += ")";
    }
    void handlePartialElementPSVI(const XMLCh* const, const XMLCh* const, PSVIElement*) override {}
    void handleAttributesPSVI(const XMLCh* const, const XMLCh* const, PSVIAttributeList* l) override {
        if (!l) return;
        std::vector<std::string> as;
        for (XMLSize_t i = 0; i < l->getLength(); i++) {
            PSVIAttribute* a = l->getAttributePSVIAtIndex(i);
            std::string s = narrow(l->getAttributeNameAtIndex(i));
            if (a) {
                s += "," + std::to_string((int)a->getValidity());
                XSTypeDefinition* t = a->getTypeDefinition();
                s += "," + (t ? narrow(t->getName()) : std::string("-"));
                XSSimpleTypeDefinition* m = a->getMemberTypeDefinition();
                if (m) s += ",m=" + narrow(m->getName());
                if (a->getSchemaDefault()) s += ",d=" + narrow(a->getSchemaDefault());
                if (!a->getIsSchemaSpecified()) s += ",dflt";
            }
            as.push_back(s);
        }
        std::sort(as.begin(), as.end());
        out += "A(";
        for (auto& s : as) out += s + ";";
        out += ")";
    }
};

static SAX2XMLReaderImpl* mkParser(XMLGrammarPool* pool, bool schema, bool useCached) {
    SAX2XMLReader* r = XMLReaderFactory::createXMLReader(XMLPlatformUtils::fgMemoryManager, pool);
    r->setFeature(XMLUni::fgSAX2CoreNameSpaces, true);
    r->setFeature(XMLUni::fgSAX2CoreValidation, true);
    r->setFeature(XMLUni::fgXercesDynamic, false);
    r->setFeature(XMLUni::fgXercesSchema, schema);
    r->setFeature(XMLUni::fgXercesSchemaFullChecking, schema);
    r->setFeature(XMLUni::fgXercesLoadExternalDTD, false);
    r->setFeature(XMLUni::fgXercesValidationErrorAsFatal, false);
    r->setFeature(XMLUni::fgXercesContinueAfterFatalError, false);
    if (useCached) r->setFeature(XMLUni::fgXercesUseCachedGrammarInParse, true);
    return (SAX2XMLReaderImpl*)r;
}

static std::string validate(XMLGrammarPool* pool, bool schema, const std::string& doc) {
    Dump d;
    std::unique_ptr<SAX2XMLReaderImpl> p(mkParser(pool, schema, true));
    p->setContentHandler(&d);
    p->setErrorHandler(&d);
    // PSVI reporting is opt-in: with a PSVIHandler installed the scanner itself (IGXMLScanner::buildAttList, original pool A
    // already) dereferences a null XSSimpleTypeDefinition for attributes of user-defined simple types of a cached grammar
    if (getenv("C16_PSVI")) p->setPSVIHandler(&d);
    try {
        MemBufInputSource src((const XMLByte*)doc.data(), doc.size(), "file:///c16/instance.xml");
        p->parse(src);
    } catch (const XMLException& e) { d.out += "#X:" + exName(e); d.errors++; }
    catch (const SAXParseException& e) { d.out += "#SPE:" + narrow(e.getMessage()); d.errors++; }
    catch (const SAXException& e) { d.out += "#SAX:" + narrow(e.getMessage()); d.errors++; }
    catch (const OutOfMemoryException&) { d.out += "#OOM"; d.errors++; }
    catch (...) { d.out += "#unknown"; d.errors++; }
    return std::to_string(d.errors) + "/" + d.out;
}

// schema component model of a locked pool, order independent
static std::string tyName(XSTypeDefinition* t) {
    if (!t) return "-";
    return "{" + narrow(t->getNamespace()) + "}" + narrow(t->getName()) + (t->getAnonymous() ? "#anon" : "") +
           (t->getTypeCategory() == XSTypeDefinition::SIMPLE_TYPE ? "/s" : "/c");
}
static std::string tyChain(XSTypeDefinition* t) {       // the type and its base types up to the ur-type
    std::string s;
    for (int d = 0; t && d < 12; d++) {
        s += (d ? "<-" : "") + tyName(t);
        XSTypeDefinition* b = t->getBaseType();
        if (!b || b == t) break;
        t = b;
    }
    return s;
}
static std::string facetDump(XSSimpleTypeDefinition* st) {
    std::string s = "{v" + std::to_string((int)st->getVariety()) + ",f" + std::to_string(st->getDefinedFacets()) + ",x" + std::to_string(st->getFixedFacets());
    XSFacetList* fl = st->getFacets();
    std::vector<std::string> fs;    // the facet list is enumerated from a hash table: sort
    if (fl) for (XMLSize_t i = 0; i < fl->size(); i++) {
        XSFacet* f = fl->elementAt(i);
        fs.push_back(std::to_string((int)f->getFacetKind()) + "=" + narrow(f->getLexicalFacetValue()) + (f->isFixed() ? "!" : ""));
    }
    std::sort(fs.begin(), fs.end());
    for (auto& x : fs) s += "," + x;
    XSMultiValueFacetList* ml = st->getMultiValueFacets();
    if (ml) for (XMLSize_t i = 0; i < ml->size(); i++) {
        XSMultiValueFacet* f = ml->elementAt(i);
        s += ",m" + std::to_string((int)f->getFacetKind()) + "=[";
        StringList* v = f->getLexicalFacetValues();
        std::vector<std::string> vs;
        if (v) for (XMLSize_t k = 0; k < v->size(); k++) vs.push_back(narrow(v->elementAt(k)));
        for (auto& x : vs) s += x + "|";
        s += "]";
    }
    if (st->getItemType()) s += ",item=" + tyChain(st->getItemType());
    if (st->getPrimitiveType()) s += ",prim=" + tyName(st->getPrimitiveType());
    XSSimpleTypeDefinitionList* mt = st->getMemberTypes();
    if (mt) { s += ",members="; for (XMLSize_t i = 0; i < mt->size(); i++) s += tyChain(mt->elementAt(i)) + "|"; }
    if (st->getBaseType()) s += ",chain=" + tyChain(st);
    XSAnnotationList* al = st->getAnnotations();
    if (al) for (XMLSize_t i = 0; i < al->size(); i++) s += ",ann#" + std::to_string(fnv(narrow(al->elementAt(i)->getAnnotationString())));
    return s + "}";
}
static std::string particleDump(XSParticle* p, int depth);
static std::string groupDump(XSModelGroup* g, int depth) {
    if (!g) return "-";
    std::string s = "G" + std::to_string((int)g->getCompositor()) + "[";
    XSParticleList* pl = g->getParticles();
    if (pl) for (XMLSize_t i = 0; i < pl->size(); i++) s += particleDump(pl->elementAt(i), depth + 1) + " ";
    return s + "]";
}
static std::string particleDump(XSParticle* p, int depth) {
    if (!p) return "-";
    if (depth > 12) return "...";
    std::string s = std::to_string(p->getMinOccurs()) + ".." + (p->getMaxOccursUnbounded() ? std::string("*") : std::to_string(p->getMaxOccurs())) + ":";
    switch (p->getTermType()) {
    case XSParticle::TERM_ELEMENT: s += "e(" + narrow(p->getElementTerm()->getNamespace()) + "|" + narrow(p->getElementTerm()->getName()) +
                                        ":" + tyName(p->getElementTerm()->getTypeDefinition()) + ")"; break;
    case XSParticle::TERM_MODELGROUP: s += groupDump(p->getModelGroupTerm(), depth); break;
    case XSParticle::TERM_WILDCARD: { XSWildcard* w = p->getWildcardTerm();
        s += "w(" + std::to_string((int)w->getConstraintType()) + "," + std::to_string((int)w->getProcessContents());
        StringList* nl = w->getNsConstraintList();
        if (nl) for (XMLSize_t i = 0; i < nl->size(); i++) s += "," + narrow(nl->elementAt(i));
        s += ")"; break; }
    default: s += "empty";
    }
    return s;
}
static std::string modelDump(XMLGrammarPool* pool) {
    bool changed = false;
    XSModel* m = pool->getXSModel(changed);
    if (!m) return "nomodel";
    std::vector<std::string> items;
    StringList* nss = m->getNamespaces();
    for (XMLSize_t n = 0; nss && n < nss->size(); n++) {
        const XMLCh* ns = nss->elementAt(n);
        if (XMLString::equals(ns, SchemaSymbols::fgURI_SCHEMAFORSCHEMA)) continue;
        for (int kind = XSConstants::ATTRIBUTE_DECLARATION; kind <= XSConstants::NOTATION_DECLARATION; kind++) {
            XSNamedMap<XSObject>* map = 0;
            try { map = m->getComponentsByNamespace((XSConstants::COMPONENT_TYPE)kind, ns); } catch (...) { map = 0; }
            if (!map) continue;
            for (XMLSize_t i = 0; i < map->getLength(); i++) {
                XSObject* o = map->item(i);
                std::string s = std::to_string(kind) + ":" + narrow(ns) + "|" + narrow(o->getName());
                switch (kind) {
                case XSConstants::ELEMENT_DECLARATION: {
                    XSElementDeclaration* e = (XSElementDeclaration*)o;
                    s += ",t=" + tyChain(e->getTypeDefinition());
                    s += ",c" + std::to_string((int)e->getConstraintType()) + "=" + narrow(e->getConstraintValue());
                    s += std::string(",n") + (e->getNillable() ? "1" : "0") + ",a" + (e->getAbstract() ? "1" : "0");
                    s += ",sub=" + narrow(e->getSubstitutionGroupAffiliation() ? e->getSubstitutionGroupAffiliation()->getName() : 0);
                    s += ",blk" + std::to_string(e->getDisallowedSubstitutions()) + ",ex" + std::to_string(e->getSubstitutionGroupExclusions());
                    XSNamedMap<XSIDCDefinition>* ics = e->getIdentityConstraints();
                    std::vector<std::string> is;
                    if (ics) for (XMLSize_t k = 0; k < ics->getLength(); k++) {
                        XSIDCDefinition* ic = ics->item(k);
                        std::string t = narrow(ic->getName()) + "/" + std::to_string((int)ic->getCategory()) + "/" + narrow(ic->getSelectorStr());
                        StringList* fs = ic->getFieldStrs();
                        if (fs) for (XMLSize_t q = 0; q < fs->size(); q++) t += "/" + narrow(fs->elementAt(q));
                        if (ic->getRefKey()) t += "->" + narrow(ic->getRefKey()->getName());
                        is.push_back(t);
                    }
                    std::sort(is.begin(), is.end());
                    for (auto& x : is) s += ",ic=" + x;
                    break; }
                case XSConstants::ATTRIBUTE_DECLARATION: {
                    XSAttributeDeclaration* a = (XSAttributeDeclaration*)o;
                    s += ",t=" + tyChain(a->getTypeDefinition());
                    s += ",c" + std::to_string((int)a->getConstraintType()) + "=" + narrow(a->getConstraintValue());
                    break; }
                case XSConstants::TYPE_DEFINITION: {
                    XSTypeDefinition* t = (XSTypeDefinition*)o;
                    s += ",chain=" + tyChain(t) + ",fin" + std::to_string(t->getFinal());
                    if (t->getTypeCategory() == XSTypeDefinition::SIMPLE_TYPE) s += facetDump((XSSimpleTypeDefinition*)t);
                    else {
                        XSComplexTypeDefinition* c = (XSComplexTypeDefinition*)t;
                        s += ",ct" + std::to_string((int)c->getContentType()) + ",d" + std::to_string((int)c->getDerivationMethod()) + (c->getAbstract() ? ",abs" : "");
                        s += ",p=" + particleDump(c->getParticle(), 0);
                        if (c->getSimpleType()) s += ",st=" + tyChain(c->getSimpleType());
                        XSAttributeUseList* ul = c->getAttributeUses();
                        std::vector<std::string> us;
                        if (ul) for (XMLSize_t k = 0; k < ul->size(); k++) {
                            XSAttributeUse* u = ul->elementAt(k);
                            us.push_back(narrow(u->getAttrDeclaration()->getNamespace()) + "|" + narrow(u->getAttrDeclaration()->getName()) + (u->getRequired() ? "!" : "?") +
                                         std::to_string((int)u->getConstraintType()) + "=" + narrow(u->getConstraintValue()) +
                                         ":" + tyChain(u->getAttrDeclaration()->getTypeDefinition()));
                        }
                        std::sort(us.begin(), us.end());
                        for (auto& x : us) s += ",u=" + x;
                        XSWildcard* w = c->getAttributeWildcard();
                        if (w) s += ",aw" + std::to_string((int)w->getConstraintType()) + "/" + std::to_string((int)w->getProcessContents());
                    }
                    break; }
                case XSConstants::MODEL_GROUP_DEFINITION:
                    s += "," + groupDump(((XSModelGroupDefinition*)o)->getModelGroup(), 0); break;
                case XSConstants::ATTRIBUTE_GROUP_DEFINITION: {
                    XSAttributeUseList* ul = ((XSAttributeGroupDefinition*)o)->getAttributeUses();
                    s += ",n=" + std::to_string(ul ? ul->size() : 0); break; }
                case XSConstants::NOTATION_DECLARATION:
                    s += ",pub=" + narrow(((XSNotationDeclaration*)o)->getPublicId()) + ",sys=" + narrow(((XSNotationDeclaration*)o)->getSystemId()); break;
                }
                items.push_back(s);
            }
        }
    }
    XSAnnotationList* al = m->getAnnotations();
    if (al) for (XMLSize_t i = 0; i < al->size(); i++) items.push_back("ann#" + std::to_string(fnv(narrow(al->elementAt(i)->getAnnotationString()))));
    std::sort(items.begin(), items.end());
    std::string out;
    for (auto& s : items) out += s + "\n";
    return out;
}

static bool serializePool(XMLGrammarPool* pool, std::vector<XMLByte>& bytes, std::string& err) {
    try {
        BinMemOutputStream out(8192, XMLPlatformUtils::fgMemoryManager);
        pool->serializeGrammars(&out);
        bytes.assign(out.getRawBuffer(), out.getRawBuffer() + out.curPos());
        return true;
    } catch (const XMLException& e) { err = exName(e); }
    catch (...) { err = "unknown"; }
    return false;
}
static bool deserializePool(XMLGrammarPool* pool, const std::vector<XMLByte>& bytes, std::string& err) {
    try {
        BinMemInputStream in(bytes.data(), bytes.size(), BinMemInputStream::BufOpt_Reference, XMLPlatformUtils::fgMemoryManager);
        pool->deserializeGrammars(&in);
        return true;
    } catch (const XMLException& e) { err = exName(e); }
    catch (const OutOfMemoryException&) { err = "OutOfMemory"; }
    catch (...) { err = "unknown"; }
    return false;
}
static size_t grammarCount(XMLGrammarPool* pool) {
    size_t n = 0;
    RefHashTableOfEnumerator<Grammar> e = pool->getGrammarEnumerator();
    while (e.hasMoreElements()) { e.nextElement(); n++; }
    return n;
}

// pool <dtd|xsd> <mode> <hexgrammar> <hexinstance>*      mode: cmp | full (print dumps) | level:<hex8> | find:<hexpattern>
static std::string doPool(const std::vector<std::string>& a) {
    bool schema = a[1] == "xsd";
    std::string mode = a[2];
    std::vector<std::string> gtexts;
    { size_t b = 0; while (true) { size_t e = a[3].find('+', b); gtexts.push_back(unhex(a[3].substr(b, e == std::string::npos ? e : e - b)));
                                   if (e == std::string::npos) break; b = e + 1; } }
    MemoryManager* mm = XMLPlatformUtils::fgMemoryManager;
    std::unique_ptr<XMLGrammarPoolImpl> poolA(new XMLGrammarPoolImpl(mm));
    std::string res;
    // 1. load the grammar into pool A
    {
        Dump d;
        std::unique_ptr<SAX2XMLReaderImpl> p(mkParser(poolA.get(), schema, gtexts.size() > 1));
        p->setErrorHandler(&d);
        try {
            for (size_t gi = 0; gi < gtexts.size(); gi++) {
                const std::string& gtext = gtexts[gi];
                std::string sys = schema ? "file:///c16/g" + (gi + 1 == gtexts.size() ? std::string("") : std::to_string(gi)) + ".xsd" : "file:///c16/g.dtd";
                MemBufInputSource src((const XMLByte*)gtext.data(), gtext.size(), sys.c_str());
                Grammar* g = p->loadGrammar(src, schema ? Grammar::SchemaGrammarType : Grammar::DTDGrammarType, true);
                if (!g) return "nogrammar " + std::to_string(d.errors) + " " + d.out.substr(0, 300);
            }
        } catch (const XMLException& e) { return "nogrammar X:" + exName(e); }
        catch (const SAXException& e) { return "nogrammar SAX:" + narrow(e.getMessage()); }
        catch (...) { return "nogrammar unknown"; }
        res = "ok gerr=" + std::to_string(d.errors);
    }
    // 2. serialize, deserialize into a fresh pool
    std::vector<XMLByte> s1, s2;
    std::string err;
    if (!serializePool(poolA.get(), s1, err)) return res + " ser1-failed:" + err;
    res += " len=" + std::to_string(s1.size());
    if (mode.compare(0, 5, "find:") == 0) {
        // offset of a byte pattern inside the stream (used to aim a string at a buffer boundary)
        std::string pat = unhex(mode.substr(5));
        auto it = std::search(s1.begin(), s1.end(), pat.begin(), pat.end(), [](XMLByte x, char y) { return x == (XMLByte)y; });
        return res + " at=" + (it == s1.end() ? std::string("-1") : std::to_string(it - s1.begin()));
    }
    if (mode.compare(0, 6, "level:") == 0) {
        unsigned int lv = (unsigned int)parse64(mode.substr(6));
        memcpy(s1.data(), &lv, 4);
        std::unique_ptr<XMLGrammarPoolImpl> poolC(new XMLGrammarPoolImpl(mm));
        bool ok = deserializePool(poolC.get(), s1, err);
        return res + (ok ? " level-accepted" : " level-rejected:" + err) + " grammars=" + std::to_string(grammarCount(poolC.get())) +
               " strings=" + std::to_string(poolC->getURIStringPool()->getStringCount());
    }
    std::unique_ptr<XMLGrammarPoolImpl> poolB(new XMLGrammarPoolImpl(mm));
    if (!deserializePool(poolB.get(), s1, err)) return res + " deser-failed:" + err;
    // 3. serialise B again
    if (!serializePool(poolB.get(), s2, err)) return res + " ser2-failed:" + err;
    if (s2 == s1) res += " reser=same";
    else {
        // a third generation tells a stable order change from a loss
        std::unique_ptr<XMLGrammarPoolImpl> poolD(new XMLGrammarPoolImpl(mm));
        std::vector<XMLByte> s3;
        std::string e3;
        bool ok3 = deserializePool(poolD.get(), s2, e3) && serializePool(poolD.get(), s3, e3);
        res += " reser=" + std::string(s2.size() == s1.size() ? "samelen" : "difflen:" + std::to_string(s2.size())) +
               (ok3 ? (s3 == s1 ? ",gen3=gen1" : (s3 == s2 ? ",gen3=gen2" : ",gen3-differs")) : ",gen3-failed:" + e3);
    }
    if (!getenv("C16_NOLOCK")) { poolA->lockPool(); poolB->lockPool(); }
    res += " grammars=" + std::to_string(grammarCount(poolA.get())) + "/" + std::to_string(grammarCount(poolB.get()));
    // 4. component model
    if (schema) {
        std::string ma = modelDump(poolA.get()), mb = modelDump(poolB.get());
        res += " model=" + std::string(ma == mb ? "same" : "DIFF") + ":" + std::to_string(std::count(ma.begin(), ma.end(), '\n'));
        if (ma != mb || mode == "full") res += " [[A-model " + ma + " ]] [[B-model " + mb + " ]]";
    }
    // 5. instances
    for (size_t k = 4; k < a.size(); k++) {
        std::string doc = unhex(a[k]);
        std::string da = validate(poolA.get(), schema, doc), db = validate(poolB.get(), schema, doc);
        std::string nerr = da.substr(0, da.find('/'));
        res += " | " + std::string(da == db ? "same" : "DIFF") + " e" + nerr + " h" + hex64(fnv(da), 16);
        if (da != db || mode == "full") res += " [[A " + da + " ]] [[B " + db + " ]]";
    }
    for (char& c : res) if (c == '\n') c = '~';
    return res;
}

int main() {
    XMLPlatformUtils::Initialize();
    std::string line;
    while (std::getline(std::cin, line)) {
        std::vector<std::string> a = splitWs(line);
        std::string r = "bad-request";
        try {
            if (a.size() >= 3 && a[0] == "eng") r = doEngine(a);
            else if (a.size() >= 3 && a[0] == "obj") r = doObj(a);
            else if (a.size() >= 4 && a[0] == "pool") r = doPool(a);
            else if (a.size() == 1 && a[0] == "consts") {
                XMLGrammarPoolImpl pool(XMLPlatformUtils::fgMemoryManager);
                BinMemOutputStream out(64, XMLPlatformUtils::fgMemoryManager);
                XSerializeEngine eng(&out, &pool);
                r = "ok level=" + std::to_string((int)XERCES_GRAMMAR_SERIALIZATION_LEVEL) + " bufsize=" + std::to_string(eng.getBufSize());
            }
        } catch (const XMLException& e) { r = "uncaught " + exName(e); }
        catch (const OutOfMemoryException&) { r = "uncaught OutOfMemory"; }
        catch (...) { r = "uncaught unknown"; }
        std::cout << r << "\n" << std::flush;
    }
    return 0;
}
