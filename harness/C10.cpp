// xh_C10: validates (schema, instance) pairs with the real library and reports the multiset of
// identity-constraint validity codes.  Line protocol (same line is read by bin/xm_C10, which uses the abstract part):
//   ic <always|auto|never> <ig|sg> <pool|ext|loc> <xsd-hex> <xml-hex> <abstract tokens ...>
// answer:  r <code>*<count> ... [x <domain>:<code>*<count> ...]     ("r -" when no identity-constraint error)
// IC codes are printed by name (XMLValid::IC_*); any other error is listed after "x" (the generators only produce
// instances that are valid apart from identity constraints, so an "x" part is always a divergence from the model).
#include "xh_common.hpp"
#include <xercesc/parsers/SAXParser.hpp>
#include <xercesc/framework/MemBufInputSource.hpp>
#include <xercesc/framework/XMLValidityCodes.hpp>
#include <xercesc/framework/XMLGrammarPoolImpl.hpp>
#include <xercesc/sax/HandlerBase.hpp>
#include <xercesc/framework/psvi/PSVIHandler.hpp>
#include <xercesc/sax/SAXException.hpp>
#include <xercesc/sax/SAXParseException.hpp>
#include <xercesc/util/XMLUni.hpp>
#include <xercesc/validators/common/Grammar.hpp>
#include <xercesc/validators/schema/identity/XercesXPath.hpp>
#include <xercesc/validators/schema/identity/XPathException.hpp>
#include <xercesc/validators/schema/NamespaceScope.hpp>
#include <xercesc/util/StringPool.hpp>
#include <xercesc/util/QName.hpp>
#include <map>
#include <fstream>
#include <cstdlib>
#include <unistd.h>

using namespace xh;

static const char* icName(unsigned int c) {
    switch (c) {
    case XMLValid::IC_FieldMultipleMatch: return "IC_FieldMultipleMatch";
    case XMLValid::IC_UnknownField: return "IC_UnknownField";
    case XMLValid::IC_AbsentKeyValue: return "IC_AbsentKeyValue";
    case XMLValid::IC_KeyNotEnoughValues: return "IC_KeyNotEnoughValues";
    case XMLValid::IC_KeyMatchesNillable: return "IC_KeyMatchesNillable";
    case XMLValid::IC_DuplicateUnique: return "IC_DuplicateUnique";
    case XMLValid::IC_DuplicateKey: return "IC_DuplicateKey";
    case XMLValid::IC_KeyRefOutOfScope: return "IC_KeyRefOutOfScope";
    case XMLValid::IC_KeyNotFound: return "IC_KeyNotFound";
    default: return 0;
    }
}

struct Collector {
    std::map<std::string, int> ic;      // by name
    std::map<std::string, int> other;   // domain:code
    bool fatal = false;
};

class ICParser : public SAXParser {
public:
    Collector* col;
    ICParser(Collector* c) : SAXParser(), col(c) {}
    void error(const unsigned int errCode, const XMLCh* const msgDomain, const XMLErrorReporter::ErrTypes errType,
               const XMLCh* const errorText, const XMLCh* const systemId, const XMLCh* const publicId,
               const XMLFileLoc lineNum, const XMLFileLoc colNum) override {
        bool validity = XMLString::equals(msgDomain, XMLUni::fgValidityDomain);
        const char* n = validity ? icName(errCode) : 0;
        if (n) col->ic[n]++;
        else {
            std::string d = validity ? "V" : (XMLString::equals(msgDomain, XMLUni::fgXMLErrDomain) ? "E" : "O");
            col->other[d + ":" + std::to_string(errCode)]++;
        }
        if (errType == XMLErrorReporter::ErrType_Fatal) col->fatal = true;
        // do not forward: no ErrorHandler is installed and fatal errors must not throw out of parse() unexpectedly
    }
};

// a PSVIHandler that ignores everything (request flag "+p" on the scanner token): the scanners take different code
// paths for the type information of an element when a handler is installed
class NoopPSVI : public PSVIHandler {
public:
    void handleElementPSVI(const XMLCh* const, const XMLCh* const, PSVIElement*) override {}
    void handlePartialElementPSVI(const XMLCh* const, const XMLCh* const, PSVIElement*) override {}
    void handleAttributesPSVI(const XMLCh* const, const XMLCh* const, PSVIAttributeList*) override {}
};

static std::string unhex(const std::string& h) {
    std::string out;
    if (h == "-") return out;
    for (size_t i = 0; i + 1 < h.size(); i += 2) out += (char)(hexval(h[i]) * 16 + hexval(h[i + 1]));
    return out;
}

static std::string workDir() {
    const char* e = getenv("XH_WORK");
    return e ? e : "/verif/work/C10";
}

static std::string doIC(const std::vector<std::string>& a) {
    const std::string& scheme = a[1];
    std::string scanner = a[2];
    bool withPSVI = false;
    if (scanner.size() > 2 && scanner.substr(scanner.size() - 2) == "+p") { withPSVI = true; scanner = scanner.substr(0, scanner.size() - 2); }
    const std::string& load = a[3];
    // schema token: MAIN[:IMPORTED1[:IMPORTED2]] (hex); each imported schema (another target namespace) is written to a
    // file and the marker @@A@@ / @@B@@ in the main schema's xs:import is replaced by its path
    std::vector<std::string> parts;
    {
        std::string tok = a[4];
        size_t pos = 0, c;
        while ((c = tok.find(':', pos)) != std::string::npos) { parts.push_back(tok.substr(pos, c - pos)); pos = c + 1; }
        parts.push_back(tok.substr(pos));
    }
    std::string xsd = unhex(parts[0]);
    std::vector<std::string> impPaths;
    for (size_t k = 1; k < parts.size(); k++) {
        std::string path = workDir() + "/" + std::string(1, (char)('a' + (k - 1))) + std::to_string((long)getpid()) + ".xsd";
        std::ofstream f(path.c_str(), std::ios::binary | std::ios::trunc);
        f << unhex(parts[k]);
        f.close();
        impPaths.push_back(path);
        std::string marker = std::string("@@") + (char)('A' + (k - 1)) + "@@";
        size_t p = xsd.find(marker);
        if (p != std::string::npos) xsd.replace(p, marker.size(), path);
    }
    std::string xml = unhex(a[5]);
    Collector col;
    std::string xsdPath;
    if (load != "pool") {
        xsdPath = workDir() + "/s" + std::to_string((long)getpid()) + ".xsd";
        std::ofstream f(xsdPath.c_str(), std::ios::binary | std::ios::trunc);
        f << xsd;
    }
    // marker @@L@@ inside the root start tag: replaced by the xsi:noNamespaceSchemaLocation attribute in "loc" mode
    {
        size_t p = xml.find("@@L@@");
        if (p != std::string::npos)
            xml.replace(p, 5, load == "loc" ? ("xsi:noNamespaceSchemaLocation=\"" + xsdPath + "\"") : std::string());
    }
    std::string res;
    try {
        ICParser parser(&col);
        parser.useScanner(scanner == "sg" ? XMLUni::fgSGXMLScanner : XMLUni::fgIGXMLScanner);
        HandlerBase hb;                      // installs the parser as the scanner's XMLErrorReporter (see error() above)
        parser.setErrorHandler(&hb);
        parser.setValidationScheme(scheme == "always" ? SAXParser::Val_Always
                                   : scheme == "auto" ? SAXParser::Val_Auto : SAXParser::Val_Never);
        parser.setDoNamespaces(true);
        parser.setDoSchema(true);
        parser.setValidationSchemaFullChecking(true);
        parser.setIdentityConstraintChecking(true);
        NoopPSVI psvi;
        if (withPSVI) parser.setPSVIHandler(&psvi);
        if (load == "pool") {
            MemBufInputSource src((const XMLByte*)xsd.data(), xsd.size(), "c10.xsd");
            Grammar* g = parser.loadGrammar(src, Grammar::SchemaGrammarType, true);
            if (!g) return "noschema";
            parser.useCachedGrammarInParse(true);
        } else if (load == "ext") {
            XMLCh* p = XMLString::transcode(xsdPath.c_str());
            parser.setExternalNoNamespaceSchemaLocation(p);
            XMLString::release(&p);
        }
        if (!col.ic.empty() || !col.other.empty()) {
            res = "schema-error";
            for (auto& kv : col.other) res += " " + kv.first + "*" + std::to_string(kv.second);
            return res;
        }
        MemBufInputSource doc((const XMLByte*)xml.data(), xml.size(), "c10.xml");
        parser.parse(doc);
    } catch (const OutOfMemoryException&) {
        return "exc OutOfMemory";
    } catch (const XMLException& e) {
        return "exc " + exceptString(e);
    } catch (const SAXParseException& e) {
        return "exc SAXParseException";
    } catch (const SAXException& e) {
        return "exc SAXException";
    } catch (...) {
        return "exc unknown";
    }
    if (!xsdPath.empty()) unlink(xsdPath.c_str());
    for (auto& ip : impPaths) unlink(ip.c_str());
    res = "r";
    if (col.ic.empty()) res += " -";
    for (auto& kv : col.ic) res += " " + kv.first + "*" + std::to_string(kv.second);
    if (!col.other.empty()) {
        res += " x";
        for (auto& kv : col.other) res += " " + kv.first + "*" + std::to_string(kv.second);
    }
    return res;
}

// ---- xp <s|f> <hex4 units | ->: XercesXPath (scanner + parseExpression [+ checkForSelectedAttributes]) on one expression.
// answer: "p <path> | <path> ..." with steps S (self) D (descendant) C:<nametest> A:<nametest>, nametest = * | <prefix>:* |
// [<prefix>:]<local> (names as hex4 units), or "e <XMLExcepts name>".  Prefixes t, o, p, q, r are bound, all others not.
static const unsigned int kEmptyNs = 77;
class FixedResolver : public XercesNamespaceResolver {
public:
    unsigned int getNamespaceForPrefix(const XMLCh* const prefix) const override {
        if (!prefix || !prefix[0] || prefix[1]) return kEmptyNs;
        switch (prefix[0]) { case 't': return 1; case 'o': return 2; case 'p': case 'q': return 3; case 'r': return 4; default: return kEmptyNs; }
    }
};
static const char* xpErrName(int c) {
    switch (c) {
    case XMLExcepts::XPath_NoAttrSelector: return "NoAttrSelector"; case XMLExcepts::XPath_NoUnionAtStart: return "NoUnionAtStart";
    case XMLExcepts::XPath_NoMultipleUnion: return "NoMultipleUnion"; case XMLExcepts::XPath_MissingAttr: return "MissingAttr";
    case XMLExcepts::XPath_ExpectedToken1: return "ExpectedToken1"; case XMLExcepts::XPath_PrefixNoURI: return "PrefixNoURI";
    case XMLExcepts::XPath_NoDoubleColon: return "NoDoubleColon"; case XMLExcepts::XPath_ExpectedStep1: return "ExpectedStep1";
    case XMLExcepts::XPath_ExpectedStep2: return "ExpectedStep2"; case XMLExcepts::XPath_ExpectedStep3: return "ExpectedStep3";
    case XMLExcepts::XPath_NoForwardSlash: return "NoForwardSlash"; case XMLExcepts::XPath_NoDoubleForwardSlash: return "NoDoubleForwardSlash";
    case XMLExcepts::XPath_NoForwardSlashAtStart: return "NoForwardSlashAtStart"; case XMLExcepts::XPath_NoSelectionOfRoot: return "NoSelectionOfRoot";
    case XMLExcepts::XPath_EmptyExpr: return "EmptyExpr"; case XMLExcepts::XPath_NoUnionAtEnd: return "NoUnionAtEnd";
    case XMLExcepts::XPath_InvalidChar: return "InvalidChar"; case XMLExcepts::XPath_TokenNotSupported: return "TokenNotSupported";
    default: return 0;
    }
}
static std::string hex4(const XMLCh* s) {
    static const char* d = "0123456789ABCDEF";
    std::string o;
    for (; s && *s; s++) { o += d[(*s >> 12) & 15]; o += d[(*s >> 8) & 15]; o += d[(*s >> 4) & 15]; o += d[*s & 15]; }
    return o;
}
static std::string nodeTest(XercesNodeTest* nt) {
    switch (nt->getType()) {
    case XercesNodeTest::NodeType_WILDCARD: return "*";
    case XercesNodeTest::NodeType_NAMESPACE: return hex4(nt->getName()->getPrefix()) + ":*";
    case XercesNodeTest::NodeType_QNAME: {
        const XMLCh* p = nt->getName()->getPrefix();
        return (p && *p ? hex4(p) + ":" : std::string()) + hex4(nt->getName()->getLocalPart());
    }
    default: return "?";
    }
}
static std::string doXP(const std::vector<std::string>& a) {
    std::vector<XMLCh> expr;
    if (a[2] != "-") for (size_t i = 0; i + 3 < a[2].size(); i += 4)
        expr.push_back((XMLCh)((hexval(a[2][i]) << 12) | (hexval(a[2][i + 1]) << 8) | (hexval(a[2][i + 2]) << 4) | hexval(a[2][i + 3])));
    expr.push_back(0);
    try {
        XMLStringPool pool(109);
        FixedResolver res;
        XercesXPath xp(expr.data(), &pool, &res, kEmptyNs, a[1] == "s");
        RefVectorOf<XercesLocationPath>* lps = xp.getLocationPaths();
        std::string out = "p";
        for (XMLSize_t i = 0; lps && i < lps->size(); i++) {
            if (i) out += " |";
            XercesLocationPath* lp = lps->elementAt(i);
            for (XMLSize_t j = 0; j < lp->getStepSize(); j++) {
                XercesStep* st = lp->getStep(j);
                switch (st->getAxisType()) {
                case XercesStep::AxisType_SELF: out += " S"; break;
                case XercesStep::AxisType_DESCENDANT: out += " D"; break;
                case XercesStep::AxisType_CHILD: out += " C:" + nodeTest(st->getNodeTest()); break;
                case XercesStep::AxisType_ATTRIBUTE: out += " A:" + nodeTest(st->getNodeTest()); break;
                default: out += " ?";
                }
            }
        }
        return out;
    } catch (const OutOfMemoryException&) {
        return "exc OutOfMemory";
    } catch (const XMLException& e) {
        const char* n = xpErrName((int)e.getCode());
        return n ? std::string("e ") + n : "exc " + exceptString(e);
    } catch (...) {
        return "exc unknown";
    }
}

int main() {
    XMLPlatformUtils::Initialize();
    std::string line;
    while (std::getline(std::cin, line)) {
        std::vector<std::string> a = splitWs(line);
        std::string r = "bad-request";
        if (a.size() >= 6 && a[0] == "ic") r = doIC(a);
        else if (a.size() == 3 && a[0] == "xp") r = doXP(a);
        std::cout << r << "\n";
    }
    std::cout.flush();
    return 0;
}
