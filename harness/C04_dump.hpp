// shared by xh_C04 and xh_C01: document specs, chunking streams / input sources, canonical SAX2 dump
#pragma once
#include "xh_common.hpp"
#include <xercesc/util/BinInputStream.hpp>
#include <xercesc/sax/InputSource.hpp>
#include <xercesc/sax/SAXParseException.hpp>
#include <xercesc/sax/SAXException.hpp>
#include <xercesc/sax2/DefaultHandler.hpp>
#include <xercesc/sax2/Attributes.hpp>
#include <xercesc/sax2/SAX2XMLReader.hpp>
#include <xercesc/sax2/XMLReaderFactory.hpp>
#include <xercesc/framework/MemBufInputSource.hpp>
#include <xercesc/util/XMLUni.hpp>
#include <cstring>

namespace xh {

// "HEX*N,HEX,..." -> bytes.  "-" = empty
inline std::vector<unsigned char> expandDoc(const std::string& spec) {
    std::vector<unsigned char> out;
    if (spec == "-") return out;
    size_t i = 0;
    while (i < spec.size()) {
        size_t j = spec.find(',', i);
        if (j == std::string::npos) j = spec.size();
        std::string seg = spec.substr(i, j - i);
        size_t st = seg.find('*');
        size_t rep = 1;
        std::string hx = seg;
        if (st != std::string::npos) { hx = seg.substr(0, st); rep = (size_t)atol(seg.c_str() + st + 1); }
        std::vector<unsigned char> b;
        for (size_t k = 0; k + 2 <= hx.size(); k += 2) b.push_back((unsigned char)(hexval(hx[k]) * 16 + hexval(hx[k + 1])));
        for (size_t r = 0; r < rep; r++) out.insert(out.end(), b.begin(), b.end());
        i = j + 1;
    }
    return out;
}

// chunk spec: "0" = everything asked for; "a.b.c" = read sizes used cyclically; "i.j:a.b" = sizes i, j once, then
// a, b cyclically.  Every readBytes call returns min(rest of the current chunk, maxToRead) bytes (the current
// chunk shrinks, like a socket would)
inline std::vector<size_t> parseSizes(const std::string& s) {
    std::vector<size_t> v;
    size_t i = 0;
    while (i < s.size()) {
        size_t j = s.find('.', i);
        if (j == std::string::npos) j = s.size();
        size_t x = (size_t)atol(s.substr(i, j - i).c_str());
        v.push_back(x ? x : 1);
        i = j + 1;
    }
    return v;
}
struct ChunkSpec { std::vector<size_t> init, cycle; };
inline ChunkSpec parseChunks(const std::string& s) {
    ChunkSpec c;
    if (s == "0") return c;
    size_t k = s.find(':');
    if (k == std::string::npos) c.cycle = parseSizes(s);
    else { c.init = parseSizes(s.substr(0, k)); c.cycle = parseSizes(s.substr(k + 1)); }
    return c;
}

class ChunkStream : public BinInputStream {
public:
    ChunkStream(const std::vector<unsigned char>& d, const ChunkSpec& c)
        : fData(d), fSpec(c), fPos(0), fCk(0), fLeft(0), fReads(0) {}
    XMLFilePos curPos() const { return fPos; }
    size_t nextSize() {
        size_t k = fCk++;
        if (k < fSpec.init.size()) return fSpec.init[k];
        return fSpec.cycle[(k - fSpec.init.size()) % fSpec.cycle.size()];
    }
    XMLSize_t readBytes(XMLByte* const toFill, const XMLSize_t maxToRead) {
        fReads++;
        size_t avail = fData.size() - fPos;
        size_t n = maxToRead < avail ? maxToRead : avail;
        if (!fSpec.cycle.empty() && n > 0) {
            if (fLeft == 0) fLeft = nextSize();
            if (n > fLeft) n = fLeft;
            fLeft -= n;
        }
        if (n) memcpy(toFill, fData.data() + fPos, n);
        fPos += n;
        return n;
    }
    const XMLCh* getContentType() const { return 0; }
    std::vector<unsigned char> fData;
    ChunkSpec fSpec;
    size_t fPos, fCk, fLeft, fReads;
};

class ChunkSource : public InputSource {
public:
    ChunkSource(const std::vector<unsigned char>& d, const ChunkSpec& c, const char* sysId)
        : InputSource(sysId), fData(d), fChunks(c) {}
    BinInputStream* makeStream() const { return new ChunkStream(fData, fChunks); }
    std::vector<unsigned char> fData;
    ChunkSpec fChunks;
};

inline std::string esc(const XMLCh* s, size_t n) {
    std::string out;
    char b[12];
    for (size_t i = 0; i < n; i++) {
        XMLCh c = s[i];
        if (c >= 0x20 && c < 0x7F && c != '\\' && c != '|') out += (char)c;
        else { snprintf(b, sizeof b, "\\u%04X", (unsigned)c); out += b; }
    }
    return out;
}
inline std::string esc(const XMLCh* s) { return s ? esc(s, XMLString::stringLen(s)) : std::string("(null)"); }

// canonical SAX2 dump: adjacent characters() calls are coalesced (SAX allows arbitrary splitting of text)
class DumpHandler : public DefaultHandler {
public:
    std::string out;
    std::string text;
    std::string errs;      // "sev:line:col:message;" list
    long events = 0;
    bool inCData = false;
    void flushText() { if (!text.empty()) { out += "T(" + text + ")|"; text.clear(); events++; } }
    void ev(const std::string& s) { flushText(); out += s; out += '|'; events++; }
    void startDocument() { ev("SD"); }
    void endDocument() { ev("ED"); }
    void startElement(const XMLCh* const uri, const XMLCh* const local, const XMLCh* const qn, const Attributes& a) {
        std::string s = "SE(" + esc(uri) + "," + esc(local) + "," + esc(qn);
        for (XMLSize_t i = 0; i < a.getLength(); i++)
            s += ";" + esc(a.getQName(i)) + "=" + esc(a.getValue(i)) + ":" + esc(a.getType(i));
        ev(s + ")");
    }
    void endElement(const XMLCh* const uri, const XMLCh* const local, const XMLCh* const qn) { ev("EE(" + esc(qn) + ")"); }
    void characters(const XMLCh* const chars, const XMLSize_t length) { text += esc(chars, length); }
    void ignorableWhitespace(const XMLCh* const chars, const XMLSize_t length) { text += esc(chars, length); }
    void processingInstruction(const XMLCh* const target, const XMLCh* const data) { ev("PI(" + esc(target) + "," + esc(data) + ")"); }
    void comment(const XMLCh* const chars, const XMLSize_t length) { ev("C(" + esc(chars, length) + ")"); }
    void startCDATA() { ev("SC"); }
    void endCDATA() { ev("EC"); }
    void startDTD(const XMLCh* const name, const XMLCh* const pub, const XMLCh* const sys) { ev("DTD(" + esc(name) + ")"); }
    void endDTD() { ev("EDTD"); }
    void startEntity(const XMLCh* const name) { ev("SEnt(" + esc(name) + ")"); }
    void endEntity(const XMLCh* const name) { ev("EEnt(" + esc(name) + ")"); }
    // DeclHandler (DTD declarations, so that the effect of parameter-entity references is observable)
    void elementDecl(const XMLCh* const name, const XMLCh* const model) { ev("ED(" + esc(name) + "," + esc(model) + ")"); }
    void attributeDecl(const XMLCh* const e, const XMLCh* const a, const XMLCh* const type, const XMLCh* const mode, const XMLCh* const value) {
        ev("AD(" + esc(e) + "," + esc(a) + "," + esc(type) + "," + esc(mode) + "," + esc(value) + ")"); }
    void internalEntityDecl(const XMLCh* const name, const XMLCh* const value) { ev("IED(" + esc(name) + "," + esc(value) + ")"); }
    void externalEntityDecl(const XMLCh* const name, const XMLCh* const, const XMLCh* const sys) { ev("XED(" + esc(name) + "," + esc(sys) + ")"); }
    void startPrefixMapping(const XMLCh* const p, const XMLCh* const u) { ev("PM(" + esc(p) + "," + esc(u) + ")"); }
    void endPrefixMapping(const XMLCh* const p) { ev("EPM(" + esc(p) + ")"); }
    void rep(const char* sev, const SAXParseException& e) {
        flushText();
        std::string s = std::string(sev) + ":" + std::to_string((long)e.getLineNumber()) + ":" +
                        std::to_string((long)e.getColumnNumber()) + ":" + esc(e.getMessage());
        errs += s + ";";
        out += "!" + s + "|";
    }
    void warning(const SAXParseException& e) { rep("W", e); }
    void error(const SAXParseException& e) { rep("E", e); }
    void fatalError(const SAXParseException& e) { rep("F", e); }
};

inline uint64_t fnv(const std::string& s) {
    uint64_t h = 1469598103934665603ULL;
    for (unsigned char c : s) { h ^= c; h *= 1099511628211ULL; }
    return h;
}

} // namespace xh
