// xh_C01: exploration harness for "arbitrary input never causes memory errors, UB, hangs or foreign exceptions".
// Built against the ASan/UBSan library (.build/lib-asan).  One request per line:
//     parse <api> <scanner> <val> <flags> <chunks> <docspec> <extspec>
//        api     sax | sax2 | dom | domls
//        scanner I | W | D | S
//        val     never | auto | always
//        flags   letters: n namespaces, s schema, f schema full checking, x exit-on-first-fatal OFF (continue after fatal),
//                d load external DTD, e create entity reference nodes / no expansion, - none
//        chunks  chunk spec of the document stream (see C04_dump.hpp)
//        docspec document bytes; extspec = bytes served by the entity resolver for EVERY external id
//                (external DTD subset, external entities, schema documents)
// Answer: "ok <errors>" | "exc <class>" | "FOREIGN <what>"; a sanitizer report or crash ends the process (the
// check then knows the request from the number of answers), each answer is flushed.
#include "C04_dump.hpp"
#include <xercesc/parsers/SAXParser.hpp>
#include <xercesc/parsers/XercesDOMParser.hpp>
#include <xercesc/sax/HandlerBase.hpp>
#include <xercesc/sax/EntityResolver.hpp>
#include <xercesc/dom/DOM.hpp>
#include <xercesc/dom/DOMException.hpp>
#include <xercesc/dom/DOMLSParser.hpp>
#include <xercesc/dom/DOMImplementationLS.hpp>
#include <xercesc/dom/DOMImplementationRegistry.hpp>
#include <xercesc/framework/Wrapper4InputSource.hpp>
#include <xercesc/util/XMLEntityResolver.hpp>
#include <xercesc/util/XMLResourceIdentifier.hpp>
#include <xercesc/validators/common/Grammar.hpp>
#include <xercesc/sax2/XMLReaderFactory.hpp>
#include <memory>
#include <exception>

using namespace xh;

static std::vector<unsigned char> gExt;
// multi-document mode of the resolver (extspec "name:spec|name:spec|..."): the document whose name equals the last path
// component of the requested system id is served, under that name as its system id (so that include / import / redefine
// cycles between DIFFERENT documents can be built); an unknown name gets an empty entity
static std::vector<std::pair<std::string, std::vector<unsigned char> > > gMulti;
static bool gIsMulti = false;
static void setExt(const std::string& spec) {
    gMulti.clear();
    gIsMulti = spec.find(':') != std::string::npos;
    if (!gIsMulti) { gExt = expandDoc(spec); return; }
    gExt.clear();
    size_t i = 0;
    while (i < spec.size()) {
        size_t j = spec.find('|', i);
        if (j == std::string::npos) j = spec.size();
        std::string sec = spec.substr(i, j - i);
        size_t c = sec.find(':');
        if (c != std::string::npos) gMulti.push_back(std::make_pair(sec.substr(0, c), expandDoc(sec.substr(c + 1))));
        i = j + 1;
    }
}
static InputSource* serve(const XMLCh* sysId) {
    static const XMLByte none[1] = {0};
    if (!gIsMulti) return new MemBufInputSource(gExt.empty() ? none : gExt.data(), gExt.size(), "ext", false);
    std::string id = narrow(sysId);
    size_t sl = id.find_last_of("/\\");
    if (sl != std::string::npos) id = id.substr(sl + 1);
    for (size_t k = 0; k < gMulti.size(); k++)
        if (gMulti[k].first == id)
            return new MemBufInputSource(gMulti[k].second.empty() ? none : gMulti[k].second.data(), gMulti[k].second.size(), id.c_str(), false);
    return new MemBufInputSource(none, 0, id.c_str(), false);
}

class MemResolver : public EntityResolver, public XMLEntityResolver {
public:
    // an empty entity is passed as a valid pointer with length 0 (a null pointer would be the caller's misuse)
    static const XMLByte* bytes() { static const XMLByte none[1] = {0}; return gExt.empty() ? none : gExt.data(); }
    InputSource* resolveEntity(const XMLCh* const, const XMLCh* const systemId) { return serve(systemId); }
    InputSource* resolveEntity(XMLResourceIdentifier* id) { return serve(id->getSystemId()); }
};

class CountHandler : public HandlerBase {
public:
    long n = 0;
    void warning(const SAXParseException&) { n++; }
    void error(const SAXParseException&) { n++; }
    void fatalError(const SAXParseException&) { n++; }
};
class CountHandler2 : public DefaultHandler {
public:
    long n = 0;
    void warning(const SAXParseException&) { n++; }
    void error(const SAXParseException&) { n++; }
    void fatalError(const SAXParseException&) { n++; }
};
class DomErr : public DOMErrorHandler {
public:
    long n = 0;
    bool handleError(const DOMError&) { n++; return true; }
};

static const XMLCh* scannerName(char c) {
    switch (c) {
    case 'W': return XMLUni::fgWFXMLScanner;
    case 'D': return XMLUni::fgDGXMLScanner;
    case 'S': return XMLUni::fgSGXMLScanner;
    default: return XMLUni::fgIGXMLScanner;
    }
}

// one parser object, one or several documents (a HISTORY): request fields
//   parse <api> <scanner> <val> <flags> <chunks> <docspec> <extspec>
//   hist  <api> <scanner> <val> <flags> <chunks> <docspec1> <extspec1> <docspec2> <extspec2> ...
// flag 'c' = cacheGrammarFromParse + useCachedGrammarInParse (grammar reuse across the history)
struct Docs {
    std::vector<std::vector<unsigned char> > doc;
    std::vector<std::string> ext;
    bool load = false;          // "load": the document is a schema handed to loadGrammar
    ChunkSpec chunks;
};

template <class F> static std::string runDocs(const Docs& d, F parseOne, bool hist) {
    std::string out;
    for (size_t i = 0; i < d.doc.size(); i++) {
        setExt(d.ext[i]);
        ChunkSource src(d.doc[i], d.chunks, d.load ? "top.xsd" : "doc.xml");
        std::string r;
        try {
            long n = parseOne(src);
            r = "ok " + std::to_string(n);
        } catch (const OutOfMemoryException&) { r = "exc OutOfMemoryException";
        } catch (const XMLException&) { r = "exc XMLException";
        } catch (const SAXParseException&) { r = "exc SAXParseException";
        } catch (const SAXException&) { r = "exc SAXException";
        } catch (const DOMException&) { r = "exc DOMException";
        } catch (const DOMLSException&) { r = "exc DOMLSException";
        } catch (const std::exception& e) { r = std::string("FOREIGN std::exception ") + e.what();
        } catch (...) { r = "FOREIGN unknown"; }
        if (!hist) return r;
        out += (i ? ";" : "") + r;
    }
    return "hist " + out;
}

static std::string doParse(const std::vector<std::string>& a) {
    const std::string& api = a[1];
    char sc = a[2][0];
    const std::string& val = a[3];
    // flags: letters, optionally followed by ";B<n>" (setInputBufferSize) and ";L<n>" (low-water mark)
    std::string fl = a[4];
    long optBuf = -1, optLow = -1;
    {
        size_t sc0 = fl.find(';');
        if (sc0 != std::string::npos) {
            std::string rest = fl.substr(sc0);
            fl = fl.substr(0, sc0);
            size_t i = 0;
            while (i < rest.size()) {
                size_t j = rest.find(';', i + 1);
                if (j == std::string::npos) j = rest.size();
                std::string o = rest.substr(i + 1, j - i - 1);
                if (!o.empty() && o[0] == 'B') optBuf = atol(o.c_str() + 1);
                if (!o.empty() && o[0] == 'L') optLow = atol(o.c_str() + 1);
                i = j;
            }
        }
    }
    bool ns = fl.find('n') != std::string::npos, schema = fl.find('s') != std::string::npos,
         full = fl.find('f') != std::string::npos, cont = fl.find('x') != std::string::npos,
         loadDTD = fl.find('d') != std::string::npos, entRef = fl.find('e') != std::string::npos,
         cache = fl.find('c') != std::string::npos;
    bool hist = a[0] == "hist";
    Docs d;
    d.chunks = parseChunks(a[5]);
    for (size_t k = 6; k + 1 < a.size(); k += 2) { d.doc.push_back(expandDoc(a[k])); d.ext.push_back(a[k + 1]); }
    d.load = a[0] == "load";
    MemResolver res;
    if (api == "sax") {
        SAXParser p;
        CountHandler h;
        p.useScanner(scannerName(sc));
        p.setValidationScheme(val == "always" ? SAXParser::Val_Always : val == "auto" ? SAXParser::Val_Auto : SAXParser::Val_Never);
        p.setDoNamespaces(ns); p.setDoSchema(schema); p.setValidationSchemaFullChecking(full);
        p.setExitOnFirstFatalError(!cont); p.setLoadExternalDTD(loadDTD);
        p.cacheGrammarFromParse(cache); p.useCachedGrammarInParse(cache);
        if (optBuf >= 0) p.setInputBufferSize((XMLSize_t)optBuf);
        if (optLow >= 0) p.setLowWaterMark((XMLSize_t)optLow);
        p.setDocumentHandler(&h); p.setErrorHandler(&h); p.setEntityResolver(&res);
        return runDocs(d, [&](ChunkSource& src) { h.n = 0; p.parse(src); return h.n; }, hist);
    } else if (api == "sax2") {
        std::unique_ptr<SAX2XMLReader> p(XMLReaderFactory::createXMLReader());
        CountHandler2 h;
        p->setProperty(XMLUni::fgXercesScannerName, (void*)scannerName(sc));
        p->setFeature(XMLUni::fgSAX2CoreValidation, val != "never");
        p->setFeature(XMLUni::fgXercesDynamic, val == "auto");
        p->setFeature(XMLUni::fgSAX2CoreNameSpaces, ns);
        p->setFeature(XMLUni::fgXercesSchema, schema);
        p->setFeature(XMLUni::fgXercesSchemaFullChecking, full);
        p->setFeature(XMLUni::fgXercesContinueAfterFatalError, cont);
        p->setFeature(XMLUni::fgXercesLoadExternalDTD, loadDTD);
        p->setFeature(XMLUni::fgXercesCacheGrammarFromParse, cache);
        p->setFeature(XMLUni::fgXercesUseCachedGrammarInParse, cache);
        XMLSize_t lowV = (XMLSize_t)optLow;
        if (optBuf >= 0) p->setInputBufferSize((XMLSize_t)optBuf);
        if (optLow >= 0) p->setProperty(XMLUni::fgXercesLowWaterMark, &lowV);
        p->setContentHandler(&h); p->setErrorHandler(&h); p->setEntityResolver(&res);
        return runDocs(d, [&](ChunkSource& src) { h.n = 0; if (d.load) p->loadGrammar(src, Grammar::SchemaGrammarType, cache); else p->parse(src); return h.n; }, hist);
    } else if (api == "dom") {
        XercesDOMParser p;
        CountHandler h;
        p.useScanner(scannerName(sc));
        p.setValidationScheme(val == "always" ? XercesDOMParser::Val_Always : val == "auto" ? XercesDOMParser::Val_Auto : XercesDOMParser::Val_Never);
        p.setDoNamespaces(ns); p.setDoSchema(schema); p.setValidationSchemaFullChecking(full);
        p.setExitOnFirstFatalError(!cont); p.setLoadExternalDTD(loadDTD);
        p.setCreateEntityReferenceNodes(entRef);
        p.cacheGrammarFromParse(cache); p.useCachedGrammarInParse(cache);
        if (optLow >= 0) p.setLowWaterMark((XMLSize_t)optLow);
        p.setErrorHandler(&h); p.setEntityResolver(&res);
        return runDocs(d, [&](ChunkSource& src) {
            h.n = 0;
            if (d.load) { p.loadGrammar(src, Grammar::SchemaGrammarType, cache); return h.n; }
            p.parse(src);
            if (DOMDocument* doc = p.getDocument()) { if (doc->getDocumentElement()) (void)doc->getDocumentElement()->getTextContent(); }
            return h.n;
        }, hist);
    } else if (api == "domls") {
        static const XMLCh ls[] = { 'L', 'S', 0 };
        DOMImplementation* impl = DOMImplementationRegistry::getDOMImplementation(ls);
        DOMLSParser* p = ((DOMImplementationLS*)impl)->createLSParser(DOMImplementationLS::MODE_SYNCHRONOUS, 0);
        DomErr eh;
        DOMConfiguration* c = p->getDomConfig();
        c->setParameter(XMLUni::fgXercesScannerName, (void*)scannerName(sc));
        c->setParameter(XMLUni::fgDOMValidate, val == "always");
        c->setParameter(XMLUni::fgDOMValidateIfSchema, val == "auto");
        c->setParameter(XMLUni::fgDOMNamespaces, ns);
        c->setParameter(XMLUni::fgXercesSchema, schema);
        c->setParameter(XMLUni::fgXercesSchemaFullChecking, full);
        c->setParameter(XMLUni::fgXercesContinueAfterFatalError, cont);
        c->setParameter(XMLUni::fgXercesLoadExternalDTD, loadDTD);
        c->setParameter(XMLUni::fgXercesCacheGrammarFromParse, cache);
        c->setParameter(XMLUni::fgXercesUseCachedGrammarInParse, cache);
        XMLSize_t lowV = (XMLSize_t)optLow;
        if (optLow >= 0) c->setParameter(XMLUni::fgXercesLowWaterMark, &lowV);
        c->setParameter(XMLUni::fgDOMEntities, entRef);
        c->setParameter(XMLUni::fgDOMErrorHandler, &eh);
        c->setParameter(XMLUni::fgXercesEntityResolver, (XMLEntityResolver*)&res);
        std::string r;
        try {
            r = runDocs(d, [&](ChunkSource& src) {
                eh.n = 0;
                Wrapper4InputSource w(&src, false);
                DOMDocument* doc = p->parse(&w);
                if (doc && doc->getDocumentElement()) (void)doc->getDocumentElement()->getTextContent();
                return eh.n;
            }, hist);
        } catch (...) { p->release(); throw; }
        p->release();
        return r;
    }
    return "bad-request";
}

int main() {
    XMLPlatformUtils::Initialize();
    std::string line;
    while (std::getline(std::cin, line)) {
        std::vector<std::string> a = splitWs(line);
        std::string r = "bad-request";
        if (a.size() == 8 && (a[0] == "parse" || (a[0] == "load" && (a[1] == "sax2" || a[1] == "dom")))) r = doParse(a);
        else if (a.size() >= 8 && a.size() % 2 == 0 && a[0] == "hist") r = doParse(a);
        std::cout << r << std::endl;
    }
    XMLPlatformUtils::Terminate();
    return 0;
}
