// xh_C06: drives the real parsers (SAX2 / SAX1 / DOM over IGXMLScanner / WFXMLScanner / SGXMLScanner), the real
// ElemStack and the DOM Level 3 namespace lookups with the same line protocol as bin/xm_C06 (extracted model).
// See ocaml/C06/driver.ml.in for the request grammar.
#include "xh_common.hpp"
#include <xercesc/parsers/SAX2XMLReaderImpl.hpp>
#include <xercesc/parsers/SAXParser.hpp>
#include <xercesc/parsers/XercesDOMParser.hpp>
#include <xercesc/sax2/DefaultHandler.hpp>
#include <xercesc/sax2/Attributes.hpp>
#include <xercesc/sax/HandlerBase.hpp>
#include <xercesc/sax/AttributeList.hpp>
#include <xercesc/sax/SAXException.hpp>
#include <xercesc/framework/MemBufInputSource.hpp>
#include <xercesc/framework/XMLErrorCodes.hpp>
#include <xercesc/internal/ElemStack.hpp>
#include <xercesc/dom/DOM.hpp>
#include <xercesc/util/XMLUni.hpp>
#include <xercesc/util/EmptyStackException.hpp>
#include <map>
#include <memory>
#include <cstring>
#include <unistd.h>
#include <sys/wait.h>
#include <csignal>
#include <csetjmp>

using namespace xh;

// ---------------------------------------------------------------------------------------------------------
static std::u16string widen(const std::string& s) {          // "-" is the empty string
    std::u16string w;
    if (s == "-") return w;
    for (unsigned char c : s) w.push_back((char16_t)c);
    return w;
}
static std::string nm(const XMLCh* s) {                        // null and "" are both "-"
    if (!s || !*s) return "-";
    std::string out;
    for (; *s; ++s) {
        if (*s > 0x20 && *s < 0x7F && *s != '|') out += (char)*s;
        else { char b[12]; snprintf(b, sizeof b, "\\u%04X", (unsigned)*s); out += b; }
    }
    return out;
}
static const char* errName(unsigned int code) {
    switch (code) {
    case XMLErrs::UnknownPrefix: return "UnknownPrefix";
    case XMLErrs::NoUseOfxmlnsAsPrefix: return "NoUseOfxmlnsAsPrefix";
    case XMLErrs::PrefixXMLNotMatchXMLURI: return "PrefixXMLNotMatchXMLURI";
    case XMLErrs::NoEmptyStrNamespace: return "NoEmptyStrNamespace";
    case XMLErrs::NoUseOfxmlnsURI: return "NoUseOfxmlnsURI";
    case XMLErrs::XMLURINotMatchXMLPrefix: return "XMLURINotMatchXMLPrefix";
    case XMLErrs::AttrAlreadyUsedInSTag: return "AttrAlreadyUsedInSTag";
    default: return 0;
    }
}

// collects the canonical answer; after the first fatal error nothing more is recorded
struct Sink {
    std::vector<std::string> parts;
    bool fatal = false;
    void add(const std::string& s) { if (!fatal) parts.push_back(s); }
    void error(unsigned int code, const XMLCh* domain, XMLErrorReporter::ErrTypes t) {
        if (fatal) return;
        std::string n;
        const char* k = XMLString::equals(domain, XMLUni::fgXMLErrDomain) ? errName(code) : 0;
        n = k ? k : (nm(domain).substr(nm(domain).rfind('/') + 1) + ":" + std::to_string(code));
        if (t == XMLErrorReporter::ErrType_Fatal) { parts.push_back("FATAL " + n); fatal = true; }
        else parts.push_back(std::string(t == XMLErrorReporter::ErrType_Warning ? "WARNING " : "ERROR ") + n);
    }
    std::string join(const char* endTok) {
        std::string out;
        for (size_t i = 0; i < parts.size(); i++) { if (i) out += " | "; out += parts[i]; }
        if (!fatal && endTok) { if (!out.empty()) out += " | "; out += endTok; }
        return out;
    }
};
static Sink* gSink = 0;

class Sax2Reader : public SAX2XMLReaderImpl {
public:
    void error(const unsigned int code, const XMLCh* const dom, const XMLErrorReporter::ErrTypes t, const XMLCh* const txt,
               const XMLCh* const sys, const XMLCh* const pub, const XMLFileLoc l, const XMLFileLoc c) override {
        if (gSink) gSink->error(code, dom, t);
        SAX2XMLReaderImpl::error(code, dom, t, txt, sys, pub, l, c);
    }
};
class Sax1Parser : public SAXParser {
public:
    void error(const unsigned int code, const XMLCh* const dom, const XMLErrorReporter::ErrTypes t, const XMLCh* const txt,
               const XMLCh* const sys, const XMLCh* const pub, const XMLFileLoc l, const XMLFileLoc c) override {
        if (gSink) gSink->error(code, dom, t);
        SAXParser::error(code, dom, t, txt, sys, pub, l, c);
    }
};
class DomParser : public XercesDOMParser {
public:
    void error(const unsigned int code, const XMLCh* const dom, const XMLErrorReporter::ErrTypes t, const XMLCh* const txt,
               const XMLCh* const sys, const XMLCh* const pub, const XMLFileLoc l, const XMLFileLoc c) override {
        if (gSink) gSink->error(code, dom, t);
        XercesDOMParser::error(code, dom, t, txt, sys, pub, l, c);
    }
};

class Sax2Handler : public DefaultHandler {
public:
    void startPrefixMapping(const XMLCh* const p, const XMLCh* const u) override { gSink->add("SPM " + nm(p) + " " + nm(u)); }
    void endPrefixMapping(const XMLCh* const p) override { gSink->add("EPM " + nm(p)); }
    void startElement(const XMLCh* const uri, const XMLCh* const loc, const XMLCh* const qn, const Attributes& a) override {
        std::string s = "SE " + nm(uri) + " " + nm(loc) + " " + nm(qn) + " " + std::to_string(a.getLength());
        for (XMLSize_t i = 0; i < a.getLength(); i++)
            s += " " + nm(a.getURI(i)) + " " + nm(a.getLocalName(i)) + " " + nm(a.getQName(i)) + " " + nm(a.getValue(i));
        gSink->add(s);
    }
    void endElement(const XMLCh* const uri, const XMLCh* const loc, const XMLCh* const qn) override {
        gSink->add("EE " + nm(uri) + " " + nm(loc) + " " + nm(qn));
    }
    void characters(const XMLCh* const, const XMLSize_t) override { gSink->add("CH"); }
    void fatalError(const SAXParseException&) override {}
    void error(const SAXParseException&) override {}
    void warning(const SAXParseException&) override {}
};
class Sax1Handler : public HandlerBase {
public:
    void startElement(const XMLCh* const qn, AttributeList& a) override {
        std::string s = "S " + nm(qn) + " " + std::to_string(a.getLength());
        for (XMLSize_t i = 0; i < a.getLength(); i++) s += " " + nm(a.getName(i)) + " " + nm(a.getValue(i));
        gSink->add(s);
    }
    void endElement(const XMLCh* const qn) override { gSink->add("E " + nm(qn)); }
    void characters(const XMLCh* const, const XMLSize_t) override { gSink->add("CH"); }
    void fatalError(const SAXParseException&) override {}
    void error(const SAXParseException&) override {}
    void warning(const SAXParseException&) override {}
};

// ---------------------------------------------------------------------------------------------------------
struct Request {
    std::vector<std::u16string> qs, us;
    std::vector<std::string> qsN, usN;
    std::string xml;
};
static bool parseQueries(const std::vector<std::string>& a, size_t& i, Request& r) {
    if (i >= a.size()) return false;
    int nq = atoi(a[i++].c_str());
    for (int k = 0; k < nq; k++) { if (i >= a.size()) return false; r.qs.push_back(widen(a[i])); r.qsN.push_back(a[i]); i++; }
    if (i >= a.size()) return false;
    int nu = atoi(a[i++].c_str());
    for (int k = 0; k < nu; k++) { if (i >= a.size()) return false; r.us.push_back(widen(a[i])); r.usN.push_back(a[i]); i++; }
    return true;
}
// attribute value token -> the text written in the document: plain characters, {s} {t} {n} {r} literal space / TAB / LF /
// CR, {#HEX} character reference, {&name} entity reference (predefined or declared in the ENT part); "-" = empty
static std::string txt(const std::string& s) {
    if (s == "-") return std::string();
    std::string out;
    for (size_t i = 0; i < s.size(); i++) {
        if (s[i] != '{') { out += s[i]; continue; }
        size_t j = s.find('}', i);
        if (j == std::string::npos) { out += s[i]; continue; }
        std::string g = s.substr(i + 1, j - i - 1);
        if (g == "s") out += ' ';
        else if (g == "t") out += '\t';
        else if (g == "n") out += '\n';
        else if (g == "r") out += '\r';
        else if (!g.empty() && g[0] == '#') out += "&#x" + g.substr(1) + ";";
        else if (!g.empty() && g[0] == '&') out += g + ";";
        i = j;
    }
    return out;
}
// renders the token list to XML text
static bool render(const std::vector<std::string>& a, size_t i, bool v11, std::string& out) {
    std::vector<std::string> open;
    // always with a declaration: a reused scanner keeps the XML version of the previous document otherwise
    out += v11 ? "<?xml version=\"1.1\"?>" : "<?xml version=\"1.0\"?>";
    // optional internal DTD subset with attribute defaults: DTD <n> {<element> <apfx> <alocal> <D|F> <value>}*n
    std::string decls;
    bool haveDtd = false;
    // optional internal entities: ENT <m> {<name> <value token>}*m
    if (i < a.size() && a[i] == "ENT") {
        if (i + 1 >= a.size()) return false;
        int m = atoi(a[i + 1].c_str());
        i += 2;
        if (i + 2 * (size_t)m >= a.size()) return false;
        for (int k = 0; k < m; k++, i += 2) decls += "<!ENTITY " + a[i] + " \"" + txt(a[i + 1]) + "\">";
        haveDtd = true;
    }
    if (i < a.size() && a[i] == "DTD") {
        if (i + 1 >= a.size()) return false;
        int n = atoi(a[i + 1].c_str());
        i += 2;
        if (i + 5 * (size_t)n >= a.size()) return false;
        haveDtd = true;
        for (int k = 0; k < n; k++, i += 5) {
            std::string an = txt(a[i + 1]).empty() ? a[i + 2] : a[i + 1] + ":" + a[i + 2];
            decls += "<!ATTLIST " + a[i] + " " + an + " CDATA " + (a[i + 3] == "F" ? "#FIXED " : "") + "\"" + txt(a[i + 4]) + "\">";
        }
    }
    if (haveDtd) {
        // the document element is the first start tag
        if (i >= a.size() || a[i] != "S" || i + 2 >= a.size()) return false;
        std::string root = txt(a[i + 1]).empty() ? a[i + 2] : a[i + 1] + ":" + a[i + 2];
        out += "<!DOCTYPE " + root + " [" + decls + "]>";
    }
    while (i < a.size()) {
        const std::string& t = a[i++];
        if (t == "T") out += "t";
        else if (t == "C") out += "<!--c-->";
        else if (t == "E") { if (open.empty()) return false; out += "</" + open.back() + ">"; open.pop_back(); }
        else if (t == "S") {
            if (i + 4 > a.size()) return false;
            std::string qn = txt(a[i]).empty() ? a[i + 1] : a[i] + ":" + a[i + 1];
            bool empty = a[i + 2] == "e";
            int k = atoi(a[i + 3].c_str());
            i += 4;
            out += "<" + qn;
            for (int j = 0; j < k; j++) {
                if (i + 3 > a.size()) return false;
                std::string an = txt(a[i]).empty() ? a[i + 1] : a[i] + ":" + a[i + 1];
                out += " " + an + "=\"" + txt(a[i + 2]) + "\"";
                i += 3;
            }
            if (empty) out += "/>"; else { out += ">"; open.push_back(qn); }
        } else return false;
    }
    return true;
}
static const XMLCh* scannerName(const std::string& s) {
    if (s == "wf") return XMLUni::fgWFXMLScanner;
    if (s == "sg") return XMLUni::fgSGXMLScanner;
    if (s == "dg") return XMLUni::fgDGXMLScanner;
    return XMLUni::fgIGXMLScanner;
}

// ---- DOM lookups ---------------------------------------------------------------------------------------------
static std::string lookups(const DOMNode* n, const Request& r) {
    std::string s = "LU " + nm(n->lookupNamespaceURI(0));
    for (auto& q : r.qs) s += " " + nm(n->lookupNamespaceURI((const XMLCh*)q.c_str()));
    s += " LP";
    for (auto& u : r.us) s += " " + nm(n->lookupPrefix((const XMLCh*)u.c_str()));
    s += std::string(" DN ") + (n->isDefaultNamespace(0) ? "1" : "0");
    for (auto& u : r.us) s += std::string(" ") + (n->isDefaultNamespace((const XMLCh*)u.c_str()) ? "1" : "0");
    return s;
}
// the same, surviving a memory fault of the library: fork() costs ~60 ms in this sandbox, so the fault is caught in
// process (the known fault is a null read at the very start of the call, before any state is touched); used only for
// documents without document element
static sigjmp_buf gJmp;
static volatile sig_atomic_t gArmed = 0;
static void onFault(int sig) {
    if (gArmed) { gArmed = 0; siglongjmp(gJmp, sig); }
    _exit(128 + sig);
}
static std::string lookupsIsolated(const DOMNode* n, const Request& r) {
    struct sigaction sa, old1, old2;
    memset(&sa, 0, sizeof sa);
    sa.sa_handler = onFault;
    sigemptyset(&sa.sa_mask);
    sigaction(SIGSEGV, &sa, &old1);
    sigaction(SIGBUS, &sa, &old2);
    std::string s;
    int sig = sigsetjmp(gJmp, 1);
    if (sig == 0) {
        gArmed = 1;
        try { s = lookups(n, r); } catch (...) { s = "EXC"; }
        gArmed = 0;
    } else s = "CRASH signal " + std::to_string(sig);
    sigaction(SIGSEGV, &old1, 0);
    sigaction(SIGBUS, &old2, 0);
    return s;
}
static void dumpNode(const DOMNode* n, const Request& r, Sink& sink) {
    switch (n->getNodeType()) {
    case DOMNode::ELEMENT_NODE: {
        DOMNamedNodeMap* m = n->getAttributes();
        XMLSize_t k = m ? m->getLength() : 0;
        std::string s = "EL " + nm(n->getNamespaceURI()) + " " + nm(n->getPrefix()) + " " + nm(n->getLocalName()) + " " + std::to_string(k);
        for (XMLSize_t i = 0; i < k; i++) {
            DOMNode* a = m->item(i);
            s += " " + nm(a->getNamespaceURI()) + " " + nm(a->getPrefix()) + " " + nm(a->getLocalName()) + " " + nm(a->getNodeValue());
        }
        s += " " + lookups(n, r);
        if (k) s += " AT " + lookups(m->item(0), r);
        sink.add(s);
        for (DOMNode* c = n->getFirstChild(); c; c = c->getNextSibling()) dumpNode(c, r, sink);
        break;
    }
    case DOMNode::TEXT_NODE: sink.add("TX " + lookups(n, r)); break;
    case DOMNode::COMMENT_NODE: sink.add("CM " + lookups(n, r)); break;
    default: sink.add("NODE " + std::to_string((int)n->getNodeType()));
    }
}
static std::string docLookups(DOMDocument* doc, const Request& r) {
    if (!doc) return "DOC nodoc";
    if (doc->getDocumentElement()) return "DOC " + lookups(doc, r);
    return "DOC " + lookupsIsolated(doc, r);
}

// ---- parsers: a fresh one per request.  (Reused parsers carry state from one document into the next -- the XML
// version of the previous document, element declarations faulted in by SGXMLScanner with the prefix of their first
// use -- which is the subject of property C15, not of this one.) -----------------------------------------------
static Sax2Handler gH2;
static Sax1Handler gH1;

static std::string doParse(const std::vector<std::string>& a) {
    if (a.size() < 6) return "bad-request";
    const std::string &api = a[1], &sc = a[2];
    bool v11 = a[3] == "11";
    Request r;
    size_t i = 4;
    if (!parseQueries(a, i, r)) return "bad-request";
    if (!render(a, i, v11, r.xml)) return "bad-request";
    MemBufInputSource src((const XMLByte*)r.xml.data(), r.xml.size(), "c06", false);
    Sink sink;
    gSink = &sink;
    std::string result;
    try {
        if (api == "sax2p" || api == "sax2") {
            std::unique_ptr<Sax2Reader> p(new Sax2Reader());
            {
                p->setProperty(XMLUni::fgXercesScannerName, (void*)scannerName(sc));
                p->setFeature(XMLUni::fgSAX2CoreNameSpaces, true);
                p->setFeature(XMLUni::fgSAX2CoreNameSpacePrefixes, api == "sax2p");
                p->setFeature(XMLUni::fgSAX2CoreValidation, false);
                p->setFeature(XMLUni::fgXercesSchema, sc == "sg");
                p->setContentHandler(&gH2);
                p->setErrorHandler(&gH2);
            }
            p->parse(src);
            result = sink.join("END");
        } else if (api == "sax1") {
            std::unique_ptr<Sax1Parser> p(new Sax1Parser());
            {
                p->useScanner(scannerName(sc));
                p->setDoNamespaces(true);
                p->setValidationScheme(SAXParser::Val_Never);
                p->setDoSchema(sc == "sg");
                p->setDocumentHandler(&gH1);
                p->setErrorHandler(&gH1);
            }
            p->parse(src);
            result = sink.join("END");
        } else if (api == "dom") {
            std::unique_ptr<DomParser> p(new DomParser());
            {
                p->useScanner(scannerName(sc));
                p->setDoNamespaces(true);
                p->setValidationScheme(XercesDOMParser::Val_Never);
                p->setDoSchema(sc == "sg");
                p->setErrorHandler(&gH1);
            }
            p->parse(src);
            DOMDocument* doc = p->getDocument();
            if (!sink.fatal) sink.add("OK");
            std::string docl = docLookups(doc, r);
            bool wasFatal = sink.fatal;
            sink.fatal = false;
            sink.add(docl);
            if (!wasFatal && doc)
                for (DOMNode* c = doc->getFirstChild(); c; c = c->getNextSibling())
                    if (c->getNodeType() != DOMNode::DOCUMENT_TYPE_NODE) dumpNode(c, r, sink);
            result = sink.join(0);
        } else result = "bad-request";
    } catch (const OutOfMemoryException&) { result = sink.join(0) + " | EXC OutOfMemory";
    } catch (const XMLException& e) { result = sink.join(0) + " | EXC XMLException:" + nm(e.getType());
    } catch (const DOMException& e) { result = sink.join(0) + " | EXC DOMException:" + std::to_string((int)e.code);
    } catch (const SAXException&) { result = sink.join(0) + " | EXC SAXException";
    } catch (...) { result = sink.join(0) + " | EXC unknown"; }
    gSink = 0;
    return result;
}

static std::string doEmptyDoc(const std::vector<std::string>& a) {
    Request r;
    size_t i = 1;
    if (!parseQueries(a, i, r)) return "bad-request";
    static const XMLCh core[] = { 'C', 'o', 'r', 'e', 0 };
    DOMImplementation* impl = DOMImplementationRegistry::getDOMImplementation(core);
    DOMDocument* doc = impl->createDocument();
    std::string s = docLookups(doc, r);
    doc->release();
    return s;
}

// the real ElemStack under arbitrary operation sequences
static std::string doStack(const std::vector<std::string>& a) {
    ElemStack es;
    es.reset(1, 2, 3, 4);
    std::string out = "ok";
    size_t i = 1;
    try {
        while (i < a.size()) {
            const std::string& op = a[i++];
            if (op == "A") es.addLevel();
            else if (op == "P") es.popTop();
            else if ((op == "D" || op == "G") && i + 1 < a.size()) {
                std::u16string p = widen(a[i]);
                unsigned int u = (unsigned int)atoi(a[i + 1].c_str());
                i += 2;
                if (op == "D") es.addPrefix((const XMLCh*)p.c_str(), u); else es.addGlobalPrefix((const XMLCh*)p.c_str(), u);
            } else if (op == "M" && i < a.size()) {
                std::u16string p = widen(a[i++]);
                bool unk = false;
                unsigned int u = es.mapPrefixToURI((const XMLCh*)p.c_str(), unk);
                out += " " + std::to_string(u) + (unk ? "?" : "");
            } else { out += " bad-op"; break; }
        }
    } catch (const EmptyStackException& e) {
        out += e.getCode() == XMLExcepts::ElemStack_StackUnderflow ? " !StackUnderflow" : " !EmptyStack";
    } catch (const XMLException& e) { out += " !XMLException:" + nm(e.getType()); }
    return out;
}

// the real WFElemStack (WFXMLScanner's element stack) under the same operation sequences; no global declarations, and no
// lookup on an empty stack (mapPrefixToURI reads fStack[fStackTop - 1]: the generator never asks for it)
static std::string doWFStack(const std::vector<std::string>& a) {
    WFElemStack es;
    es.reset(1, 2, 3, 4);
    std::string out = "ok";
    size_t i = 1;
    long depth = 0;
    try {
        while (i < a.size()) {
            const std::string& op = a[i++];
            if (op == "A") { es.addLevel(); depth++; }
            else if (op == "P") { es.popTop(); depth--; }
            else if (op == "D" && i + 1 < a.size()) {
                std::u16string p = widen(a[i]);
                unsigned int u = (unsigned int)atoi(a[i + 1].c_str());
                i += 2;
                es.addPrefix((const XMLCh*)p.c_str(), u);
            } else if (op == "M" && i < a.size() && depth > 0) {
                std::u16string p = widen(a[i++]);
                bool unk = false;
                unsigned int u = es.mapPrefixToURI((const XMLCh*)p.c_str(), unk);
                out += " " + std::to_string(u) + (unk ? "?" : "");
            } else { out += " bad-op"; break; }
        }
    } catch (const EmptyStackException& e) {
        out += e.getCode() == XMLExcepts::ElemStack_StackUnderflow ? " !StackUnderflow" : " !EmptyStack";
    } catch (const XMLException& e) { out += " !XMLException:" + nm(e.getType()); }
    return out;
}

int main() {
    XMLPlatformUtils::Initialize();
    std::string line;
    while (std::getline(std::cin, line)) {
        std::vector<std::string> a = splitWs(line);
        std::string r = "bad-request";
        if (!a.empty()) {
            if (a[0] == "parse") r = doParse(a);
            else if (a[0] == "emptydoc") r = doEmptyDoc(a);
            else if (a[0] == "stack") r = doStack(a);
            else if (a[0] == "wfstack") r = doWFStack(a);
        }
        std::cout << r << "\n";
    }
    std::cout.flush();
    return 0;
}
