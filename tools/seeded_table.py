#!/usr/bin/env python3
"""regenerate seeded/README.md from seeded/*/meta.json"""
import glob, json, os, re
V = os.path.dirname(os.path.dirname(os.path.abspath(__file__)))
rows = []
for mp in sorted(glob.glob(os.path.join(V, "seeded", "*", "meta.json"))):
    d = os.path.basename(os.path.dirname(mp))
    m = json.load(open(mp))
    patch = open(os.path.join(os.path.dirname(mp), "patch.diff")).read()
    files = sorted(set(os.path.basename(f) for f in re.findall(r"^\+\+\+ b/(\S+)", patch, re.M)))
    idea = m.get("idea") or ""
    if not idea:
        notes = open(os.path.join(os.path.dirname(mp), "notes.md")).read() if os.path.exists(os.path.join(os.path.dirname(mp), "notes.md")) else ""
        lines = [l.strip("# *-").strip() for l in notes.splitlines() if l.strip() and not l.startswith("```")]
        idea = (lines[0] if lines else "")[:160]
    rows.append((d, m.get("property"), ", ".join(files), idea.replace("|", "/"), m.get("detected_first_run"), m.get("detected_now"),
                 (m.get("detected_by_now") or m.get("detected_by") or "").replace("|", "/")[:220], bool(m.get("superseded"))))
out = ["# Seeded breaking changes", "",
       "Each directory holds `patch.diff` (against /repo HEAD at the time), the sub-agent's demonstration (`demo.cpp`/`demo.sh`), `notes.md`",
       "(what it breaks, what it needs in order to manifest, commands run) and `meta.json`.  All were produced by independent sub-agents that saw only",
       "the property text and a scratch worktree; each compiles and passes the 80 pinned tests.  `tools/seedtest.sh <property> <dir>` applies one in a",
       "scratch worktree and runs the check against it (never in /repo).", "",
       "first run = result of the check as it was when the change was produced; now = result of the current check.", "",
       "| case | files | idea | first run | now | detected by |", "|---|---|---|---|---|---|"]
for r in rows:
    out.append("| %s | %s | %s | %s | %s | %s |" % (r[0], r[2], r[3], "caught" if r[4] else "MISSED", "no longer a violation (neutralised by a later fix commit, see meta.json)" if r[7] else ("caught" if r[5] else ("MISSED" if r[5] is False else "?")), r[6]))
n = len(rows)
out += ["", "Totals: %d cases; caught at first run %d; caught by the current checks %d; neutralised by later fix commits %d." % (
    n, sum(1 for r in rows if r[4]), sum(1 for r in rows if r[5]), sum(1 for r in rows if r[7]))]
open(os.path.join(V, "seeded", "README.md"), "w").write("\n".join(out) + "\n")
print(out[-1])
