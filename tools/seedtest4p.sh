#!/bin/bash
# tools/seedtest4p.sh <property> <seeded-dir>... : like seedtest4.sh, but runs ./check <property> of THIS checkout against
# several seeded patches one after the other in ONE scratch worktree / build directory (incremental rebuilds).
set -u
P=$1; shift
HERE=$(cd "$(dirname "$0")/.." && pwd)
cd "$HERE"
WT=/tmp/st4p-$P-$$; VB=/tmp/st4p-$P-$$-b
git -C /repo worktree add -q --detach $WT HEAD || { echo "WORKTREE-FAILED $P"; exit 3; }
mkdir -p "$HERE/seeded/logs4"
for D in "$@"; do
  git -C $WT checkout -q -- .
  if ! git -C $WT apply "$HERE/seeded/$D/patch.diff" 2>/dev/null; then
    if ! (cd $WT && patch -p1 -s --fuzz=3 < "$HERE/seeded/$D/patch.diff"); then echo "SEEDTEST $D PATCH-DOES-NOT-APPLY"; continue; fi
  fi
  VERIF_REPO=$WT VERIF_BUILD=$VB timeout 3000 ./check $P > "$HERE/seeded/logs4/$D.$P.log" 2>&1
  rc=$?
  echo "SEEDTEST $D by=$P rc=$rc $(grep -c '^VIOLATION' "$HERE/seeded/logs4/$D.$P.log") violations; $(grep '^VIOLATION' "$HERE/seeded/logs4/$D.$P.log" | head -3 | tr '\n' ' ')"
done
git -C /repo worktree remove --force $WT 2>/dev/null; rm -rf $WT $VB
