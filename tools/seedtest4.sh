#!/bin/bash
# tools/seedtest4.sh <property> <seeded-dir> [more properties...] : run ./check <property> of THIS checkout (works from a
# `vp run` snapshot as well as from /verif) against /repo HEAD + seeded/<seeded-dir>/patch.diff in a private scratch
# worktree (/tmp/st4-<dir>, build in /tmp/st4-<dir>-b); /repo's working tree is never touched; both are removed at the end.
set -u
P=$1; D=$2; shift 2
HERE=$(cd "$(dirname "$0")/.." && pwd)
cd "$HERE"
WT=/tmp/st4-$D; VB=/tmp/st4-$D-b
git -C /repo worktree remove --force $WT 2>/dev/null; rm -rf $WT $VB
git -C /repo worktree add -q --detach $WT HEAD || { echo "WORKTREE-FAILED $D"; exit 3; }
if ! git -C $WT apply "$HERE/seeded/$D/patch.diff" 2>/dev/null; then
  if ! (cd $WT && patch -p1 -s --fuzz=3 < "$HERE/seeded/$D/patch.diff"); then
    echo "PATCH-DOES-NOT-APPLY $D"; git -C /repo worktree remove --force $WT; exit 3; fi
fi
mkdir -p "$HERE/seeded/logs4"
for Q in $P "$@"; do
  cp evidence/$Q.json /tmp/st4-evidence-$D-$Q.json 2>/dev/null
  VERIF_REPO=$WT VERIF_BUILD=$VB timeout 3000 ./check $Q > "$HERE/seeded/logs4/$D.$Q.log" 2>&1
  rc=$?
  cp /tmp/st4-evidence-$D-$Q.json evidence/$Q.json 2>/dev/null; rm -f /tmp/st4-evidence-$D-$Q.json
  echo "SEEDTEST $D by=$Q rc=$rc $(grep -c '^VIOLATION' "$HERE/seeded/logs4/$D.$Q.log") violations; $(grep '^VIOLATION' "$HERE/seeded/logs4/$D.$Q.log" | head -3 | tr '\n' ' ')"
done
git -C /repo worktree remove --force $WT 2>/dev/null; rm -rf $WT $VB
