#!/usr/bin/env python3
"""tools/flip.py Cxx ID commit [ID commit ...] : mark findings as fixed in known-findings.d/Cxx.json"""
import json, sys
P = sys.argv[1]
p = '/verif/known-findings.d/%s.json' % P
d = json.load(open(p))
L = d if isinstance(d, list) else d['findings']
args = sys.argv[2:]
for i in range(0, len(args), 2):
    fid, c = args[i], args[i + 1]
    hit = [e for e in L if e.get('id') == fid]
    if not hit:
        print('NOT FOUND', fid); continue
    e = hit[0]
    w = e.get('what', '')
    if w.startswith('fixed:'):
        print('already', fid); continue
    e['status'] = 'fixed'; e['commit'] = c
    e['what'] = 'fixed: property=%s %s %s' % (P, c, w)
    e.pop('why_not_fixed', None)
    print('flipped', P, fid, c)
json.dump(d, open(p, 'w'), indent=1)
