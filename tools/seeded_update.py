#!/usr/bin/env python3
"""update seeded/*/meta.json from the seedtest logs kept in seeded/logs/ (chronological), then regenerate the README"""
import glob, json, os, re, subprocess
V = os.path.dirname(os.path.dirname(os.path.abspath(__file__)))
runs = {}
logs = sorted(glob.glob(os.path.join(V, "seeded", "logs", "seedtest*.log")), key=lambda f: int(re.findall(r"(\d+)\.log", f)[0]))
for f in logs:
    for l in open(f):
        m = re.match(r"(?:SEEDTEST )?(C\d\d-\d+) (?:by=C\d\d )?rc=(\d+) (\d+) violations; ?(.*)", l)
        if not m:
            continue
        d, rc, n, rest = m.groups()
        pm = re.search(r"property=(C\d\d)", rest)
        runs.setdefault(d, []).append({"log": os.path.basename(f), "rc": int(rc), "by": pm.group(1) if pm else None,
                                       "tags": sorted(set(re.findall(r"replays/C\d\d/([a-zA-Z0-9\-]+?)-\d+-\d+\.json", rest))),
                                       "noinput": "no-failing-input-found" in rest and rest.count("VIOLATION") <= 1})
for mp in sorted(glob.glob(os.path.join(V, "seeded", "*", "meta.json"))):
    d = os.path.basename(os.path.dirname(mp))
    m = json.load(open(mp))
    rs = runs.get(d, [])
    if rs:
        if m.get("detected_first_run") is None:
            own = [r for r in rs if r["by"] in (None, m["property"])]
            m["detected_first_run"] = bool(own and own[0]["rc"] == 1)
        hits = [r for r in rs if r["rc"] == 1]
        m["runs"] = rs
        m["detected_now"] = rs and any(r["rc"] == 1 for r in rs) and (rs[-1]["rc"] == 1 or any(r["rc"] == 1 and r["by"] != m["property"] for r in rs))
        if m.get("superseded"):
            m["detected_now"] = None
        if hits:
            last = hits[-1]
            m["detected_by_now"] = "./check %s: %s%s" % (last["by"], ", ".join(last["tags"]), " (no-failing-input-found)" if last["noinput"] else "")
    json.dump(m, open(mp, "w"), indent=1)
subprocess.run(["python3", os.path.join(V, "tools", "seeded_table.py")])
