#!/bin/bash
# tools/ingest4.sh <property> : round 4 - copy /tmp/seed4-<P>-out/{1,2} to seeded/<P>-{10,11}, remove the scratch worktree
P=$1
for n in 1 2; do m=$((9+n)); [ -f /tmp/seed4-$P-out/$n/patch.diff ] || continue
 mkdir -p /verif/seeded/$P-$m; cp /tmp/seed4-$P-out/$n/patch.diff /tmp/seed4-$P-out/$n/notes.md /verif/seeded/$P-$m/
 for f in /tmp/seed4-$P-out/$n/*; do b=$(basename $f); case $b in patch.diff|notes.md|demo|*.o) ;; *) [ -f "$f" ] && [ $(stat -c %s "$f") -lt 400000 ] && cp "$f" /verif/seeded/$P-$m/ ;; esac; done
 [ -f /verif/seeded/$P-$m/meta.json ] || python3 -c "
import json; json.dump({'property':'$P','round':4,'origin':'independent sub-agent given only the property text, a scratch worktree of /repo and the list of places already used by rounds 1-3 (nothing from /verif)','what_it_breaks_and_needs':'see notes.md','confirmed':'sub-agent: patch applies, library builds, ctest 80/80 with the patch alone, demo exits non-zero with / 0 without; coordinator: tools/seedtest4.sh (scratch worktree, check run against it)','detected_first_run':None,'runs':[]},open('/verif/seeded/$P-$m/meta.json','w'),indent=1)"
done
git -C /repo worktree remove --force /tmp/seed4-$P 2>/dev/null; rm -rf /tmp/seed4-$P /tmp/seed4-$P-out
echo ingested $P round 4
