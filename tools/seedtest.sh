#!/bin/bash
# tools/seedtest.sh <property> <seeded-dir> : run ./check <property> against /repo HEAD + seeded/<seeded-dir>/patch.diff
# in a persistent scratch worktree (/tmp/st-wt, build in /tmp/st-vb), never touching /repo's working tree.
set -u
P=$1; D=$2
cd /verif
if [ ! -d /tmp/st-wt ]; then git -C /repo worktree add -q --detach /tmp/st-wt HEAD; fi
git -C /tmp/st-wt checkout -q -- . ; git -C /tmp/st-wt checkout -q --detach $(git -C /repo rev-parse HEAD)
if ! git -C /tmp/st-wt apply seeded/$D/patch.diff 2>/dev/null; then
  if ! (cd /tmp/st-wt && patch -p1 -s --fuzz=3 < /verif/seeded/$D/patch.diff); then echo "PATCH-DOES-NOT-APPLY $D"; git -C /tmp/st-wt checkout -q -- .; exit 3; fi
fi
cp evidence/$P.json /tmp/st-evidence-$P.json 2>/dev/null
VERIF_REPO=/tmp/st-wt VERIF_BUILD=/tmp/st-vb timeout 2400 ./check $P > /tmp/st-$D.log 2>&1
rc=$?
cp /tmp/st-evidence-$P.json evidence/$P.json 2>/dev/null
git -C /tmp/st-wt checkout -q -- .
echo "$D rc=$rc $(grep -c VIOLATION /tmp/st-$D.log) violations; $(grep VIOLATION /tmp/st-$D.log | head -2 | tr '\n' ' ')"
