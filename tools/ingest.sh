#!/bin/bash
# tools/ingest.sh <round> <property> : copy /tmp/seed<round>-<P>-out/{1,2,3} to seeded/<P>-{3(r-1)+1..}, remove the worktree
r=$1; P=$2; base=$(( (r-1)*3 ))
pre="seed$r"; [ "$r" = "1" ] && pre="seed"
for n in 1 2 3; do m=$((base+n)); mkdir -p /verif/seeded/$P-$m; cp /tmp/$pre-$P-out/$n/patch.diff /tmp/$pre-$P-out/$n/notes.md /verif/seeded/$P-$m/; cp /tmp/$pre-$P-out/$n/demo.* /tmp/$pre-$P-out/$n/*.hpp /verif/seeded/$P-$m/ 2>/dev/null
 [ -f /verif/seeded/$P-$m/meta.json ] || python3 -c "
import json; json.dump({'property':'$P','round':$r,'origin':'independent sub-agent given only the property text, a scratch worktree of /repo and the list of places already used','what_it_breaks_and_needs':'see notes.md','confirmed':'sub-agent: patch applies, library builds, ctest 80/80 with the patch alone, demo exits non-zero with / 0 without; coordinator: tools/seedtest.sh','detected_first_run':None},open('/verif/seeded/$P-$m/meta.json','w'),indent=1)"
done
git -C /repo worktree remove --force /tmp/$pre-$P 2>/dev/null; rm -rf /tmp/$pre-$P-out
echo ingested $P round $r
