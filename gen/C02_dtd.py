"""DOCTYPE stream for C02/C03: documents with an internal DTD subset (general / parameter entities, ATTLIST defaults,
ELEMENT declarations, declared and undeclared %pe; references, standalone yes/no/absent) and references to declared /
undeclared general entities in content, attribute values and ATTLIST defaults.
Expectation (XML 1.0 section 4.1, WFC/VC Entity Declared): an undeclared general entity reference is a
well-formedness (fatal) error iff the document has no DTD, or only an internal subset WITHOUT parameter-entity
references, or standalone='yes'; otherwise it is a validity matter and a non-validating parse must accept the
document (the reference contributes nothing).  Expected events are computed here by expanding the entities.
Everything derives from the rng passed in."""

LET = "abcdefghkmnpqrstuvwxyz"


def nm(rng, pre):
    while True:
        n = pre + "".join(rng.choice(LET) for _ in range(rng.choice([1, 2, 4])))
        if n not in ("gt", "lt", "amp", "apos", "quot"):      # never redeclare a predefined entity
            return n


def txt(rng):
    return "".join(rng.choice(LET + "0123456789  ") for _ in range(rng.choice([1, 2, 5, 9])))


def hx(s):
    out = ""
    for c in s:
        o = ord(c)
        if o > 0xFFFF:
            o -= 0x10000
            out += "%04X%04X" % (0xD800 + (o >> 10), 0xDC00 + (o & 1023))
        else:
            out += "%04X" % o
    return out


# numeric character references inside DTD literals (entity values, ATTLIST defaults): Spec = the referenced code point
REF_CPS = [0x41, 0x7A, 0xE9, 0x20AC, 0xD7FF, 0xE000, 0xFFFD, 0x10000, 0x10001, 0x1F600, 0x2F600, 0xEFFFF, 0xF0000,
           0xFFFFF, 0x100000, 0x10FFFD, 0x10FFFF]


def charref(rng):
    cp = rng.choice(REF_CPS)
    if rng.random() < 0.5:
        form = "&#%s%d;" % ("0" * rng.choice([0, 0, 2]), cp)
    else:
        h = "%x" % cp
        form = "&#x%s%s;" % ("0" * rng.choice([0, 0, 3]), "".join(ch.upper() if rng.random() < 0.5 else ch for ch in h))
    return ("c", cp, form)


class Doc:
    pass


def gen(rng):
    d = Doc()
    d.standalone = rng.choice([None, None, "yes", "no"])
    d.ents = {}            # name -> parts
    d.order = []           # subset items
    d.root = nm(rng, "r")
    nent = rng.choice([0, 1, 2, 3, 5])
    names = []
    for _ in range(nent):
        n = nm(rng, "e")
        if n in d.ents:
            continue
        parts = []
        for _ in range(rng.choice([1, 1, 2, 3])):
            k = rng.random()
            if k < 0.25:
                parts.append(charref(rng))
            elif k < 0.6 or not names:
                parts.append(("t", txt(rng)))
            elif k < 0.8:
                parts.append(("r", rng.choice(names)))
            else:
                parts.append(("e", nm(rng, "b")))
        d.ents[n] = parts
        names.append(n)
        d.order.append(("ent", n))
    # parameter entities: declared ones (some declare a general entity), and references
    d.pes = {}
    d.pe_declared_ents = []
    use_pe = rng.random() < 0.55
    if use_pe:
        for _ in range(rng.choice([0, 1, 2])):
            p = nm(rng, "p")
            if p in d.pes:
                continue
            k = rng.random()
            if k < 0.4:
                g = nm(rng, "g")
                if g in d.ents:
                    continue
                d.pes[p] = ("decl", g, txt(rng))
            elif k < 0.7:
                d.pes[p] = ("ws", " ")
            else:
                d.pes[p] = ("comment", "c")
            d.order.insert(rng.randrange(len(d.order) + 1), ("pe", p))
        nref = rng.choice([1, 1, 2, 3])
        for _ in range(nref):
            declared = [p for p in d.pes]
            if declared and rng.random() < 0.5:
                p = rng.choice(declared)
                pos = d.order.index(("pe", p)) + 1
                d.order.insert(rng.randrange(pos, len(d.order) + 1), ("peref", p))
                if d.pes[p][0] == "decl" and d.pes[p][1] not in d.pe_declared_ents and d.standalone != "yes":
                    d.pe_declared_ents.append(d.pes[p][1])
            elif d.standalone != "yes":
                # undeclared parameter entity: a validity matter (VC Entity Declared); xerces makes it fatal only
                # with standalone='yes', which is excluded here
                d.order.insert(rng.randrange(len(d.order) + 1), ("peref", nm(rng, "zz")))
    d.has_peref = any(i[0] == "peref" for i in d.order)
    if d.has_peref and d.order[0][0] != "peref":
        # a first PE reference before everything else, so that every later declaration is scanned in a DTD that
        # already "contains a PE reference"
        first = next(i for i in d.order if i[0] == "peref")
        if first[1] in d.pes:
            d.order.insert(0, ("pe", first[1] + "0"))
            d.pes[first[1] + "0"] = ("ws", " ")
            d.order.insert(1, ("peref", first[1] + "0"))
        else:
            d.order.insert(0, first)
    # general entities usable in references
    usable = list(names) + [g for g in d.pe_declared_ents]
    for g in d.pe_declared_ents:
        pass

    def attr_safe(n, seen=()):
        if n in d.pe_declared_ents:
            return True
        for pt in d.ents[n]:
            if pt[0] == "e":
                return False
            if pt[0] == "r" and not attr_safe(pt[1]):
                return False
        return True
    d.attr_safe = attr_safe
    und = rng.random() < 0.45
    d.undeclared_used = False

    def parts(rng, n, attr):
        out = []
        for _ in range(n):
            k = rng.random()
            cand = [x for x in usable if (not attr or attr_safe(x))]
            if k < 0.45 or (not cand and not und):
                out.append(("t", txt(rng)))
            elif k < 0.8 and cand:
                out.append(("r", rng.choice(cand)))
            elif und:
                out.append(("u", nm(rng, "zu")))
                d.undeclared_used = True
            else:
                out.append(("t", txt(rng)))
        return out
    d.content = parts(rng, rng.choice([1, 2, 3, 5]), False)
    d.attrs = []
    for _ in range(rng.choice([0, 0, 1, 2])):
        a = nm(rng, "a")
        if a not in [x[0] for x in d.attrs]:
            d.attrs.append((a, parts(rng, rng.choice([1, 2, 3]), True)))
    d.default = None
    if rng.random() < 0.4:
        a = nm(rng, "d")
        # only entities declared before the ATTLIST may be referenced in a default: the ATTLIST goes last
        d.default = (a, parts(rng, rng.choice([1, 2]), True) + ([charref(rng)] if rng.random() < 0.5 else []))
        d.order.append(("attlist", a))
    if rng.random() < 0.5:
        d.order.insert(rng.randrange(len(d.order) + 1), ("element", d.root))
    if rng.random() < 0.3:
        d.order.insert(rng.randrange(len(d.order) + 1), ("comment", "k"))
    return d


def render_parts(ps):
    out = ""
    for pt in ps:
        k, v = pt[0], pt[1]
        if k == "c":
            out += pt[2]
        elif k == "t":
            out += v
        elif k in ("r", "u"):
            out += "&" + v + ";"
        else:
            out += "<" + v + "/>"
    return out


def render(d, rng):
    s = ""
    if d.standalone or rng.random() < 0.3:
        s += '<?xml version="1.0"' + (' standalone="%s"' % d.standalone if d.standalone else "") + "?>"
    s += "<!DOCTYPE " + d.root + " [\n"
    for it in d.order:
        if it[0] == "ent":
            s += '<!ENTITY %s "%s">\n' % (it[1], render_parts(d.ents[it[1]]))
        elif it[0] == "pe":
            v = d.pes[it[1]]
            if v[0] == "decl":
                s += "<!ENTITY %% %s \"<!ENTITY %s '%s'>\">\n" % (it[1], v[1], v[2])
            elif v[0] == "ws":
                s += '<!ENTITY %% %s " ">\n' % it[1]
            else:
                s += '<!ENTITY %% %s "<!--c-->">\n' % it[1]
        elif it[0] == "peref":
            s += "%" + it[1] + ";\n"
        elif it[0] == "attlist":
            s += '<!ATTLIST %s %s CDATA "%s">\n' % (d.root, d.default[0], render_parts(d.default[1]))
        elif it[0] == "element":
            s += "<!ELEMENT %s ANY>\n" % it[1]
        else:
            s += "<!--k-->\n"
    s += "]>\n<" + d.root
    for a, ps in d.attrs:
        s += ' %s="%s"' % (a, render_parts(ps))
    s += ">" + render_parts(d.content) + "</" + d.root + ">"
    return s


def wfc_applies(d):
    return d.standalone == "yes" or not d.has_peref


def expected_fatal(d):
    return d.undeclared_used and wfc_applies(d)


def expand_text(d, ps):
    """attribute value: text only"""
    out = ""
    for pt in ps:
        k, v = pt[0], pt[1]
        if k == "c":
            out += chr(v)
        elif k == "t":
            out += v
        elif k == "r":
            if v in d.ents:
                out += expand_text(d, d.ents[v])
            else:
                out += next(x[2] for x in d.pes.values() if x[0] == "decl" and x[1] == v)
    return out


def expand_events(d, ps, out):
    """content: list of ('T', text) | ('S', name) | ('E', name); adjacent text merged later"""
    for pt in ps:
        k, v = pt[0], pt[1]
        if k == "c":
            out.append(("T", chr(v)))
        elif k == "t":
            out.append(("T", v))
        elif k == "e":
            out.append(("S", v))
            out.append(("E", v))
        elif k == "r":
            if v in d.ents:
                expand_events(d, d.ents[v], out)
            else:
                out.append(("T", next(x[2] for x in d.pes.values() if x[0] == "decl" and x[1] == v)))


def expected_events(d):
    attrs = [(a, expand_text(d, ps)) for a, ps in d.attrs]
    if d.default and d.default[0] not in [a for a, _ in attrs]:
        attrs.append((d.default[0], expand_text(d, d.default[1])))
    attrs.sort(key=lambda x: [ord(c) for c in x[0]])
    toks = ["S" + hx(d.root) + "".join(",%s=%s" % (hx(a), hx(v)) for a, v in attrs)]
    ev = []
    expand_events(d, d.content, ev)
    cur = ""
    for k, v in ev:
        if k == "T":
            cur += v
        else:
            if cur:
                toks.append("T" + hx(cur))
                cur = ""
            toks.append(k + hx(v))
    if cur:
        toks.append("T" + hx(cur))
    toks.append("E" + hx(d.root))
    # comments of the internal subset are not document content; nothing else is dumped for the DOCTYPE
    return " ".join(toks)


# ---- malformed DOCTYPE documents: every one violates a well-formedness constraint and must be fatal (IG, DG)
def mutants(rng):
    r = nm(rng, "r")
    e = nm(rng, "e")
    f = nm(rng, "f")
    t = txt(rng).strip() or "x"
    M = [
        ("dtd-undeclared-nodtdpe", '<!DOCTYPE %s [<!ENTITY %s "%s">]><%s>&%s;</%s>' % (r, e, t, r, f, r)),
        ("dtd-undeclared-attr", '<!DOCTYPE %s [<!ENTITY %s "%s">]><%s a="&%s;"/>' % (r, e, t, r, f)),
        ("dtd-undeclared-default", '<!DOCTYPE %s [<!ATTLIST %s a CDATA "&%s;">]><%s/>' % (r, r, f, r)),
        ("dtd-undeclared-standalone", '<?xml version="1.0" standalone="yes"?><!DOCTYPE %s [<!ENTITY %% p " "> %%p; ]><%s>&%s;</%s>' % (r, r, f, r)),
        ("dtd-partial-markup", '<!DOCTYPE %s [<!ENTITY %s "<b>%s">]><%s>&%s;</b></%s>' % (r, e, t, r, e, r)),
        ("dtd-partial-markup2", '<!DOCTYPE %s [<!ENTITY %s "%s</b>">]><%s><b>&%s;</%s>' % (r, e, t, r, e, r)),
        ("dtd-partial-comment", '<!DOCTYPE %s [<!ENTITY %s "<!--">]><%s>&%s; --></%s>' % (r, e, r, e, r)),
        ("dtd-recursive", '<!DOCTYPE %s [<!ENTITY %s "a&%s;"><!ENTITY %s "b&%s;">]><%s>&%s;</%s>' % (r, e, f, f, e, r, e, r)),
        ("dtd-self-recursive", '<!DOCTYPE %s [<!ENTITY %s "a&%s;">]><%s a="&%s;"/>' % (r, e, e, r, e)),
        ("dtd-lt-in-attr-via-entity", '<!DOCTYPE %s [<!ENTITY %s "a<b">]><%s a="&%s;"/>' % (r, e, r, e)),
        ("dtd-lt-in-attr-via-nested", '<!DOCTYPE %s [<!ENTITY %s "<"><!ENTITY %s "x&%s;">]><%s a="&%s;"/>' % (r, e, f, e, r, f)),
        ("dtd-external-in-attr", '<!DOCTYPE %s [<!ENTITY %s SYSTEM "x.ent">]><%s a="&%s;"/>' % (r, e, r, e)),
        ("dtd-unparsed-in-content", '<!DOCTYPE %s [<!NOTATION n SYSTEM "n"><!ENTITY %s SYSTEM "u.gif" NDATA n>]><%s>&%s;</%s>' % (r, e, r, e, r)),
        ("dtd-peref-in-markup", '<!DOCTYPE %s [<!ENTITY %% p "ANY"><!ELEMENT %s %%p;>]><%s/>' % (r, r, r)),
        ("dtd-bad-entity-value", '<!DOCTYPE %s [<!ENTITY %s "a&b">]><%s/>' % (r, e, r)),
        ("dtd-bad-entity-value2", '<!DOCTYPE %s [<!ENTITY %s "a%%b">]><%s/>' % (r, e, r)),
        ("dtd-entity-content-notwf", '<!DOCTYPE %s [<!ENTITY %s "a&#60;b">]><%s>&%s;</%s>' % (r, e, r, e, r)),
        ("dtd-unterminated", '<!DOCTYPE %s [<!ENTITY %s "%s">' % (r, e, t)),
        ("dtd-unterminated-decl", '<!DOCTYPE %s [<!ENTITY %s "%s" ]><%s/>' % (r, e, t, r)),
        ("dtd-two-doctypes", '<!DOCTYPE %s []><!DOCTYPE %s []><%s/>' % (r, r, r)),
        ("dtd-after-root", '<%s/><!DOCTYPE %s []>' % (r, r)),
        ("dtd-entity-ref-in-prolog", '<!DOCTYPE %s [<!ENTITY %s "%s">]>&%s;<%s/>' % (r, e, t, e, r)),
        ("dtd-entity-ref-in-epilog", '<!DOCTYPE %s [<!ENTITY %s "%s">]><%s/>&%s;' % (r, e, t, r, e)),
        ("dtd-charref-to-entity-markup-ok-but-unclosed", '<!DOCTYPE %s [<!ENTITY %s "&#60;b>">]><%s>&%s;</%s>' % (r, e, r, e, r)),
        ("dtd-badcharref-entity", '<!DOCTYPE %s [<!ENTITY %s "a%sb">]><%s>&%s;</%s>' % (
            r, e, rng.choice(["&#xFFFF;", "&#xFFFE;", "&#0;", "&#x110000;", "&#xD800;", "&#xDFFF;", "&#;", "&#x;", "&#1;",
                              "&#x1F600", "&#X41;", "&#65536 ;", "&#1114112;"]), r, e, r)),
        ("dtd-badcharref-default", '<!DOCTYPE %s [<!ATTLIST %s a CDATA "a%sb">]><%s/>' % (
            r, r, rng.choice(["&#xFFFF;", "&#0;", "&#x110000;", "&#xD800;", "&#x;", "&#8;"]), r)),
        ("dtd-charref-overflow-entity", '<!DOCTYPE %s [<!ENTITY %s "a%sb">]><%s>&%s;</%s>' % (
            r, e, rng.choice(["&#4294967361;", "&#x100000041;", "&#8589934657;", "&#x10000000000000041;", "&#99999999999999999999;"]), r, e, r)),
        ("dtd-charref-overflow-default", '<!DOCTYPE %s [<!ATTLIST %s a CDATA "%s">]><%s/>' % (
            r, r, rng.choice(["&#4294967361;", "&#x100000041;", "&#x1000000000041;"]), r)),
        ("dtd-garbage-in-subset", '<!DOCTYPE %s [ x ]><%s/>' % (r, r)),
        ("dtd-element-in-subset", '<!DOCTYPE %s [ <b/> ]><%s/>' % (r, r)),
    ]
    return M


# ---- external subset / external parameter entity with conditional sections (XML 1.0 section 3.4), served by the resolver
def _ws(rng):
    return rng.choice(["", "", " ", "\n", " \t"])


def _ignore_junk(rng, depth, fake):
    """contents of an IGNOREd section: anything but an unbalanced '<![' or ']]>'.  The pieces are joined with a blank so
    that two of them cannot combine into a delimiter by accident (']' + ']>' = ']]>', '<!' + '[x' = '<![x')"""
    return " ".join(_ignore_pieces(rng, depth, fake))


def _ignore_pieces(rng, depth, fake):
    out = []
    for _ in range(rng.choice([0, 1, 2, 4])):
        k = rng.random()
        if k < 0.25:
            n = nm(rng, "i")
            fake.append(n)
            out.append('<!ENTITY %s "ignored">' % n)
        elif k < 0.45:
            out.append(rng.choice(["]", "]>", "] ]>", "x]", "<!", "<! [x", "]] >", "'", '"', "%zz;", "&q;", "-->", "<a>"]))
        elif k < 0.65 and depth < 3:
            out.append("<![" + rng.choice(["", "IGNORE[", "INCLUDE[", " x ["]) + _ignore_junk(rng, depth + 1, fake) + "]" * rng.choice([2, 2, 3, 5]) + ">")
        else:
            out.append(txt(rng))
    return out


def _ext_items(rng, depth, declared, fake, kws):
    out = ""
    for _ in range(rng.choice([1, 2, 3, 4])):
        k = rng.random()
        if k < 0.3:
            n = nm(rng, "x")
            if n in declared or n in fake:
                continue
            v = txt(rng)
            declared[n] = v
            out += '<!ENTITY %s "%s">%s' % (n, v, _ws(rng))
        elif k < 0.5 and depth < 3:
            kw = rng.choice(["INCLUDE"] + [("%" + p + ";") for p, v in kws.items() if v == "INCLUDE"])
            out += "<![" + _ws(rng) + kw + _ws(rng) + "[" + _ext_items(rng, depth + 1, declared, fake, kws) + "]]>" + _ws(rng)
        elif k < 0.8:
            kw = rng.choice(["IGNORE"] + [("%" + p + ";") for p, v in kws.items() if v == "IGNORE"])
            # the closing delimiter is "]]>"; any further ']' in front of it belong to the ignored text
            out += "<![" + _ws(rng) + kw + _ws(rng) + "[" + _ignore_junk(rng, depth + 1, fake) + "]" * rng.choice([2, 3, 3, 4, 5, 6]) + ">" + _ws(rng)
        elif k < 0.9:
            out += "<!--c ]]> <![ -->" + _ws(rng)
        else:
            out += "<?p ]]> ?>" + _ws(rng)
    return out


def gen_ext(rng):
    """returns dict(text, res{sysid: bytes}, fatal False, events, kind)"""
    root = nm(rng, "r")
    declared, fake = {}, []
    kws = {}
    head = ""
    if rng.random() < 0.4:
        head += "<?xml version='1.0' encoding='UTF-8'?>"
    for _ in range(rng.choice([0, 1, 2])):
        p = nm(rng, "k")
        if p not in kws:
            kws[p] = rng.choice(["INCLUDE", "IGNORE"])
            head += '<!ENTITY %% %s "%s">\n' % (p, kws[p] if rng.random() < 0.7 else " " + kws[p] + " ")
    body = _ext_items(rng, 0, declared, fake, kws)
    ext = head + body
    fake = [f for f in fake if f not in declared]
    refs = list(declared.items()) + [(f, None) for f in fake[:3]]
    rng.shuffle(refs)
    content = ""
    exp = ""
    for n, v in refs:
        t = txt(rng).strip() or "t"
        content += t + "&" + n + ";"
        exp += t + (v if v is not None else "")
    if not content:
        content = exp = "t"
    how = rng.choice(["extsubset", "extsubset+int", "extpe"])
    if how == "extsubset":
        doc = '<!DOCTYPE %s SYSTEM "s.dtd"><%s>%s</%s>' % (root, root, content, root)
        res = {"s.dtd": ext}
    elif how == "extsubset+int":
        doc = '<!DOCTYPE %s SYSTEM "sub/s.dtd" [<!--int-->]><%s>%s</%s>' % (root, root, content, root)
        res = {"s.dtd": ext}
    else:
        doc = '<!DOCTYPE %s [<!ENTITY %% ext SYSTEM "p.ent"> %%ext; ]><%s>%s</%s>' % (root, root, content, root)
        res = {"p.ent": ext}
    ev = "S%s T%s E%s" % (hx(root), hx(exp), hx(root))
    return {"text": doc, "res": res, "fatal": False, "events": ev, "kind": "ext/" + how}


def ext_mutants(rng):
    r = nm(rng, "r")
    main = '<!DOCTYPE %s SYSTEM "s.dtd"><%s/>' % (r, r)
    E = [
        ("cond-unterminated-ignore", "<![IGNORE[ x ]>"),
        ("cond-unterminated-ignore2", "<![IGNORE[ x ]] >"),
        ("cond-ignore-nested-unclosed", "<![IGNORE[ <![ x ]]>"),
        ("cond-unterminated-include", '<![INCLUDE[ <!ENTITY a "b"> ]>'),
        ("cond-include-eof", '<![INCLUDE[ <!ENTITY a "b">'),
        ("cond-bad-keyword", "<![FOO[ ]]>"),
        ("cond-lowercase-keyword", "<![ignore[ ]]>"),
        ("cond-stray-close", '<!ENTITY a "b"> ]]>'),
        ("cond-include-extra-bracket", '<![INCLUDE[ <!ENTITY a "b"> ]]]>'),
        ("cond-missing-bracket", "<![IGNORE x ]]>"),
        ("cond-pe-keyword-garbage", '<!ENTITY %% k "MAYBE"><![%k;[ ]]>'.replace("%%", "%")),
        ("cond-text-in-include", "<![INCLUDE[ text ]]>"),
    ]
    out = [(n, main, {"s.dtd": e}) for n, e in E]
    out.append(("cond-in-internal-subset", '<!DOCTYPE %s [<![IGNORE[ x ]]>]><%s/>' % (r, r), {}))
    out.append(("cond-include-in-internal-subset", '<!DOCTYPE %s [<![INCLUDE[ <!ENTITY a "b"> ]]>]><%s/>' % (r, r), {}))
    out.append(("cond-extpe-unterminated", '<!DOCTYPE %s [<!ENTITY %% e SYSTEM "p.ent"> %%e; ]><%s/>' % (r, r), {"p.ent": "<![IGNORE[ x ]>"}))
    return out


# ---- markup / quote pairs split across internal general entities (XML 1.0 4.3.2: the replacement text of every entity
#      must match `content` on its own).  The verdict and the events come from the extracted entity layer of the model.
def gen_split(rng):
    """returns (document text, [(name, replacement text)], body = the text from the root start tag on)"""
    ents = []
    kinds = {}

    def have(k):
        return [n for n, kk in kinds.items() if kk == k]

    def add(kind, text):
        n = "e%d" % len(ents)
        ents.append((n, text))
        kinds[n] = kind
        return n
    t = lambda: txt(rng).strip() or "t"
    for _ in range(rng.choice([2, 3, 4, 6])):
        k = rng.choice(["text", "bal", "open", "close", "ref", "openref", "quote", "elemattr", "tag-a", "tag-b",
                        "cm-open", "cm-close", "cdata", "pi", "closeopen", "refclose", "self", "elemattr-safe"])
        if k == "text":
            add(k, t())
        elif k == "bal":
            add(k, rng.choice(["%s<b>%s</b>%s" % (t(), t(), t()), "<b/>", "<b x='1'>%s</b>" % t(), "<b><c/></b>" + t()]))
        elif k == "open":
            add(k, "<b>" + t())
        elif k == "close":
            add(k, t() + "</b>")
        elif k == "closeopen":
            add(k, "</b><b>")
        elif k == "ref" and ents:
            add(k, t() + "&" + rng.choice(ents)[0] + ";" + t())
        elif k == "openref" and have("close"):
            add(k, "<b>&" + rng.choice(have("close")) + ";")
        elif k == "refclose" and have("open"):
            add(k, "&" + rng.choice(have("open")) + ";</b>")
        elif k == "quote":
            add(k, rng.choice(["it's", 'say "x"', "'", '"', "a'b\"c"]))
        elif k == "elemattr" and have("quote"):
            q = rng.choice(["'", '"'])
            add(k, "<e x=%s%s&%s; fine%s/>" % (q, t(), rng.choice(have("quote")), q))
        elif k == "elemattr-safe" and have("text"):
            add(k, "<e x='&%s;'>%s</e>" % (rng.choice(have("text")), t()))
        elif k == "tag-a":
            add(k, "<b")
        elif k == "tag-b":
            add(k, " x='1'>" + t() + "</b>")
        elif k == "cm-open":
            add(k, "<!--c")
        elif k == "cm-close":
            add(k, "d-->")
        elif k == "cdata":
            add(k, "<![CDATA[<z>&q;]]>")
        elif k == "pi":
            add(k, "<?p d?><!--k-->")
        elif k == "self":
            n = "e%d" % len(ents)
            add(k, t() + "&" + n + ";")
    if not ents:
        add("text", t())
    body = "<a"
    names = [n for n, _ in ents]
    for j in range(rng.choice([0, 0, 1, 2])):
        q = rng.choice(["'", '"'])
        body += " y%d=%s%s&%s;%s%s" % (j, q, t(), rng.choice(names), t(), q)
    body += ">"
    for _ in range(rng.choice([1, 2, 3, 5])):
        r = rng.random()
        n = rng.choice(names)
        if r < 0.45:
            body += "&" + n + ";"
        elif r < 0.6:
            body += t()
        elif r < 0.75:
            body += "<c>&" + n + ";</c>"
        elif r < 0.85:
            body += "<b>&" + n + ";"          # start tag here, end tag (if any) inside the entity
        else:
            body += "&" + n + ";</b>"         # start tag (if any) inside the entity, end tag here
    body += "</a>"
    doc = "<!DOCTYPE a [" + "".join("<!ENTITY %s %s>" % (n, ('"%s"' % v.replace('"', "&#34;")) if rng.random() < 0.5
                                                         else ("'%s'" % v.replace("'", "&#39;"))) for n, v in ents) + "]>" + body
    return doc, ents, body
