"""C11, XPath-flavoured (non-schema) API of RegularExpression: generators and model-free (metamorphic) oracles.

The implementation is observed through `bin/xh_C11 xp <mode> <opts> <pats> <subjects>` (harness/C11.cpp):
  b = matches(s)   f = matches(s, &fresh Match)   r = one Match object reused   i = repeated/interleaved use
  t = tokenize / replace and their emulation from match positions;  subjects may carry a window  hex:a:b.

Oracles (each is a statement of the property text that needs no model of the matcher):
  O1 optimisation switches: the same pattern with and without F (fixed-string / Boyer-Moore) and H (head character)
     gives the same answer and the same positions for every group;
  O2 a pure literal (Boyer-Moore only path) and the same literal wrapped in a non-capturing group with F (plain
     backtracking) find the same window;
  O3 a reused Match object reports exactly what a fresh one reports, for every group (non-participating = -1),
     over sequences of several expressions and subjects;
  O4 no Match object, fresh Match: same answer (capture bookkeeping does not change the verdict);
  O5 the same compiled expression used forwards / backwards / again gives the same results;
  O6 matches(s, a, b) equals matches(substring(s, a, b)) with positions shifted by a;
  O7 tokenize(s) equals the tokens cut out by the successive match windows; replace(s, "$0") == s;
     replace(s, "[$0|$1]") equals the string assembled from the successive Match objects;
  O8 (Spec) for expressions of the common subset: some window matches  <=>  dmatch_re(ANY* r ANY*) on the
     generator's syntax tree;
  O9 (model, search semantics) the window found equals the one the extracted model finds (Model11.xsearch_tok)."""
import itertools

import C11 as B          # printers / ReGen of the schema-dialect check


def hx(cps):
    return B.hx(cps)


ANY = "nr110000110000"              # complement of nothing inside 0..10FFFF = every code point (0x110000 is outside)
DOT_XP = "nuur00000A00000Ar00000D00000Dur002028002028r002029002029"


def ast_xp(n, single_line):
    """spec tree of the expression as the non-schema dialect reads it ('.' excludes LF CR LS PS unless option s)"""
    s = B.ast_re(n)
    dot = "S" + ANY if single_line else "S" + DOT_XP
    return s.replace("Snur00000A00000Ar00000D00000D", dot)


def any_window_ast(ast):
    return "CR0,*,S%sC%sR0,*,S%s" % (ANY, ast, ANY)


POOLS = [
    ([0x61, 0x62], 0x7A), ([0x61, 0x62, 0x63], 0x7A), ([0x61, 0x62], 0x0A), ([0x61, 0x41, 0x62], 0x42),
    ([0x61, 0x44F], 0x4F), ([0x44F, 0x14F, 0x62], 0x4F), ([0x61, 0x10000], 0x62), ([0x1004F, 0x44F], 0x4F),
    ([0x61, 0x2028], 0x62), ([0x30, 0x61], 0x5F),
]
WEIGHTS = [20, 10, 6, 6, 8, 8, 5, 5, 2, 3]

BM_ALPHA = [0x61, 0x62, 0x4F, 0x44F, 0x14F, 0x10000, 0x1004F, 0x24F]


def print_xp(n, rng):
    """printer for the non-schema dialect: as the schema printer, plus reluctant quantifiers"""
    k = n[0]
    if k == 'chr':
        return [92, n[1]] if n[1] == 0x24 else B.esc_out(n[1])
    if k in ('dot', 'named', 'cls', 'eps'):
        return B.print_re(n)
    if k == 'grp':
        return [40] + print_xp(n[1], rng) + [41]
    if k == 'cat':
        out = []
        for c in n[1]:
            out += ([40] + print_xp(c, rng) + [41]) if c[0] in ('alt', 'eps') else print_xp(c, rng)
        return out
    if k == 'alt':
        out = []
        for i, c in enumerate(n[1]):
            out += ([124] if i else []) + print_xp(c, rng)
        return out
    _, lo, hi, c, style = n
    body = print_xp(c, rng) if B.is_atom(c) else [40] + print_xp(c, rng) + [41]
    q = B.print_re(('rep', lo, hi, ('chr', 0x61), style))[1:]
    if rng.random() < 0.15:
        q = q + [63]
    return body + q


def count_groups(pat):
    n, i = 0, 0
    while i < len(pat):
        if pat[i] == 92:
            i += 2
            continue
        if pat[i] == 40 and not (i + 1 < len(pat) and pat[i + 1] == 63):
            n += 1
        i += 1
    return n


def subjects(rng, syms, maxlen, extra=6, longmax=10):
    out = [[]]
    for n in range(1, maxlen + 1):
        out += [list(t) for t in itertools.product(syms, repeat=n)]
    for _ in range(extra):
        out.append([rng.choice(syms) for _ in range(rng.randrange(maxlen + 1, longmax + 1))])
    return out


def units(cps):
    return sum(2 if c >= 0x10000 else 1 for c in cps)


def drop_empty_classes(groups, xm, swbits):
    """F32: a class that subtraction leaves empty crashes the constructor outside schema mode; such expressions are
    recognised with the parser model (token tree contains T_RANGE with no ranges) and taken out"""
    import subprocess
    idx = [i for i, g in enumerate(groups) if g.get("expr") is not None]
    if not idx:
        return groups, 0
    lines = ["emptycls %s %s" % (swbits, hx(B.print_re(groups[i]["expr"]))) for i in idx]
    p = subprocess.run([xm], input=("\n".join(lines) + "\n").encode(), stdout=subprocess.PIPE, timeout=300)
    out = p.stdout.decode().splitlines()
    bad = {i for i, o in zip(idx, out) if o != "ok 0"}
    return [g for i, g in enumerate(groups) if i not in bad], len(bad)


def fc_analysis(n):
    """Token::analyzeFirstCharacter replayed on the generator's syntax tree.  returns (ret, lost):
    ret in CONT / TERM / ANY ('.': any character, nothing added to the set) / FULL (the whole range was added);
    lost = an ANY was discarded (a union that saw another branch first, or a closure), i.e. sub-class (a) of F33"""
    k = n[0]
    if k in ('chr', 'named'):
        return 'TERM', False
    if k == 'cls':
        neg, items, sub = n[1]
        return ('FULL' if neg and sub is None else 'TERM'), False
    if k == 'dot':
        return 'ANY', False
    if k == 'eps':
        return 'CONT', False
    if k == 'grp':
        return fc_analysis(n[1])
    if k == 'cat':
        lost = False
        for c in n[1]:
            r, l = fc_analysis(c)
            lost |= l
            if r != 'CONT':
                return r, lost
        return 'CONT', lost

    def union(children):
        lost, has_empty, ret = False, False, 'CONT'
        for c in children:
            ret, l = fc_analysis(c)
            lost |= l
            if ret in ('ANY', 'FULL'):
                break
            has_empty = True
        if has_empty:
            return 'CONT', lost or ret == 'ANY'
        return ret, lost
    if k == 'alt':
        return union(n[1])
    _, lo, hi, c, style = n
    if style == '?':
        return union([c, ('eps',)])
    r, l = fc_analysis(c)
    if style == '+':
        if r != 'CONT':
            return r, l
        return 'CONT', l
    return 'CONT', l or r == 'ANY'


EOLS = (0x0A, 0x0D, 0x2028, 0x2029)


def dotstar_eol(g, subj):
    """class of F37: the expression starts with an unbounded '.' closure (matches() then scans line starts only), option s
    is off, and the subject (or window source) holds an end-of-line character"""
    pat = g["pat"]
    lead = pat[:2] == [46, 42] or pat[:5] == [46, 123, 48, 44, 125]
    return lead and "s" not in g["opts"] and any(c in EOLS for c in subj)


def char_at_unit(cps, u):
    pos = 0
    for c in cps:
        if pos == u:
            return c
        pos += 2 if c >= 0x10000 else 1
    return None


def lit_ast(lit):
    return ('cat', [('chr', c) for c in lit]) if len(lit) != 1 else ('chr', lit[0])


def gen(ctx):
    """returns a list of groups; a group = dict(kind, lines=[...], meta...) evaluated by `evaluate`"""
    rng = ctx.rng
    thorough = ctx.tier == "thorough"
    groups = []
    n_expr = 6000 if thorough else 190
    for _ in range(n_expr):
        sigma, foreign = rng.choices(POOLS, WEIGHTS)[0]
        g = B.ReGen(rng, sigma, foreign)
        e = g.expr(rng.choice([1, 2, 2, 3, 3]))
        if B.has_nullable_loop(e) and rng.random() < 0.7:
            continue
        base = print_xp(e, rng)
        if len(base) > 50 or B.bad_for_model(base):
            continue
        plain = base == B.print_re(e)            # no reluctant quantifier: same text as the schema printer
        pat = list(base)
        deco = []
        ng = count_groups(pat)
        if rng.random() < 0.15:
            pat = [94] + pat; deco.append("^")
        if rng.random() < 0.15:
            pat = pat + [36]; deco.append("$")
        if ng >= 1 and rng.random() < 0.2:
            pat = pat + [92, 49]; deco.append("\\1")
        opts = "".join(o for o in "ism" if rng.random() < 0.2)
        if "i" in opts and any(pat[j] == 45 and pat[j + 1] == 91 for j in range(len(pat) - 1)):
            opts = opts.replace("i", "")      # F32: option i + a class subtraction that leaves nothing crashes the constructor
        if rng.random() < 0.1 and 0x20 not in pat and 0x23 not in pat and 0x0A not in pat and 0x09 not in pat:
            opts += "x"
        syms = sigma + [foreign]
        if "m" in opts or "s" in opts or "$" in deco:
            syms = syms[:2] + [0x0A]
        maxlen = 4 if len(syms) <= 3 else 3
        subj = subjects(rng, syms, maxlen)
        groups.append({"kind": "xp-expr", "pat": pat, "opts": opts, "subj": subj, "expr": e, "deco": deco,
                       "plain": plain, "ngroups": ng})
    # literals for the Boyer-Moore paths: characters >= U+0100 and supplementary ones at every position
    for _ in range(1500 if thorough else 90):
        k = rng.choice([2, 2, 3, 3, 4, 5])
        lit = [rng.choice(BM_ALPHA) for _ in range(k)]
        shape = rng.choice(["lit", "lit", "lit", "lit(x|y)", "(x|y)lit", ".*lit", "lit+", "x?lit"])
        x, y = rng.choice(BM_ALPHA), rng.choice(BM_ALPHA)
        L = [c for ch in lit for c in B.esc_out(ch)]
        X, Y = B.esc_out(x), B.esc_out(y)
        pat = {"lit": L, "lit(x|y)": L + [40] + X + [124] + Y + [41], "(x|y)lit": [40] + X + [124] + Y + [41] + L,
               ".*lit": [46, 42] + L, "lit+": L + [43], "x?lit": X + [63] + L}[shape]
        subj = []
        for _ in range(40):
            pre = [rng.choice(BM_ALPHA) for _ in range(rng.randrange(0, 6))]
            post = [rng.choice(BM_ALPHA) for _ in range(rng.randrange(0, 4))]
            mid = list(lit)
            r = rng.random()
            if r < 0.35:
                j = rng.randrange(len(mid))
                mid[j] = rng.choice([c for c in BM_ALPHA if c % 256 == mid[j] % 256 and c != mid[j]] or BM_ALPHA)
            elif r < 0.45:
                mid = mid[:-1]
            elif r < 0.55:
                mid = mid + mid
            subj.append(pre + mid + post)
        subj += [[], lit, lit + lit, lit[1:] + lit, lit[:-1] + lit]
        xy = ('grp', ('alt', [('chr', x), ('chr', y)]))
        fca = {"lit": lit_ast(lit), "lit(x|y)": ('cat', [lit_ast(lit), xy]), "(x|y)lit": ('cat', [xy, lit_ast(lit)]),
               ".*lit": ('cat', [('rep', 0, None, ('dot',), '*'), lit_ast(lit)]),
               "lit+": ('cat', [lit_ast(lit[:-1] or lit), ('rep', 1, None, ('chr', lit[-1]), '+')]),
               "x?lit": ('cat', [('rep', 0, 1, ('chr', x), '?'), lit_ast(lit)])}[shape]
        groups.append({"kind": "xp-bm-" + shape, "pat": pat, "opts": "", "subj": subj, "expr": None, "deco": ["lit"],
                       "plain": False, "ngroups": count_groups(pat), "lit": lit if shape == "lit" else None,
                       "fc_lost": fc_analysis(fca)[1]})
    # first-character classes with members below and above U+0100 (BMP and supplementary), behind optional / starred
    # prefixes that overlap them; subjects that must START on such members
    HIGH = [0x436, 0x3A9, 0x3000, 0x4E2D, 0xFF, 0x100, 0x101]
    SUPP = [0x10000, 0x1D11E]
    for _ in range(800 if thorough else 45):
        lo = rng.choice([0x61, 0x62, 0x64])
        hi = lo + rng.choice([1, 2, 5])
        items = [('r', lo, hi)] + [('c', c) for c in rng.sample(HIGH, rng.choice([1, 2, 3]))]
        if rng.random() < 0.4:
            items.append(('c', rng.choice(SUPP)))
        if rng.random() < 0.3:
            items.append(('c', 0x20))
        rng.shuffle(items)
        C = ('cls', (False, items, None))
        kind = rng.choice(["opt", "star", "space", "optgrp"])
        if kind == "opt":
            pre = ('rep', 0, 1, ('chr', rng.randrange(lo, hi + 1)), '?')
        elif kind == "star":
            pre = ('rep', 0, None, ('cls', (False, [('r', 0x61, 0x66)], None)), '*')
        elif kind == "space":
            pre = ('rep', 0, None, ('named', 's'), '*')
        else:
            pre = ('rep', 0, 1, ('grp', ('alt', [('chr', lo), ('chr', rng.choice(HIGH))])), '?')
        body = C if rng.random() < 0.6 else ('rep', 1, None, C, '+')
        tail = rng.choice([[], [('chr', 0x7A)], [('chr', 0x21)]])
        e = ('cat', [pre, body] + tail)
        members = [it[1] for it in items if it[0] == 'c'] + [lo, hi]
        sfx = [t[1] for t in tail]
        subj = [[]]
        for m in members:
            subj += [[m] + sfx, [m], [lo, m] + sfx, [0x7A, m] + sfx, [m, m] + sfx, [0x20, m] + sfx, [m] + sfx + [m] + sfx]
        subj += [[0x7A], sfx, [0x78] + sfx]
        pat = B.print_re(e)
        groups.append({"kind": "xp-firstchar", "pat": pat, "opts": "", "subj": subj, "expr": e, "deco": [], "plain": True,
                       "ngroups": count_groups(pat)})
    for g in groups:
        if "fc_lost" not in g:
            g["fc_lost"] = fc_analysis(g["expr"])[1] if g.get("expr") is not None else False
    return groups


def requests_for(g, rng, others):
    """request lines of one group; returns list of (tag, line)"""
    P = hx(g["pat"])
    S = ",".join(hx(s) for s in g["subj"])
    o = g["opts"] or "-"
    L = [("f", "xp f %s %s %s" % (o, P, S))]
    for extra in ("F", "H", "FH"):
        L.append(("f+" + extra, "xp f %s%s %s %s" % (g["opts"], extra, P, S)))
    L.append(("wrapF", "xp f %sFH %s %s" % (g["opts"], hx([40, 63, 58] + g["pat"] + [41]), S)))
    L.append(("b", "xp b %sFH %s %s" % (g["opts"], P, S)))
    L.append(("b0", "xp b %s %s %s" % (o, P, S)))
    L.append(("i", "xp i %sFH %s %s" % (g["opts"], P, S)))
    # reused Match across several expressions (different group counts) and subjects
    def has_sub(p):
        return any(p[j] == 45 and p[j + 1] == 91 for j in range(len(p) - 1))
    pats = [g["pat"]] + [x["pat"] for x in others if not ("i" in g["opts"] and has_sub(x["pat"]))]
    L.append(("r", "xp r %s %s %s" % (o, ",".join(hx(p) for p in pats), S)))
    L.append(("fseq", "xp f %s %s %s" % (o, ",".join(hx(p) for p in pats), S)))
    L.append(("r2", "xp r %sFH %s %s" % (g["opts"], ",".join(hx(p) for p in pats), S)))
    L.append(("fseq2", "xp f %sFH %s %s" % (g["opts"], ",".join(hx(p) for p in pats), S)))
    # windows
    ws = []
    for s in g["subj"]:
        if len(s) >= 2 and len(ws) < 60:
            a = rng.randrange(0, len(s))
            b = rng.randrange(a, len(s) + 1)
            ws.append((s, a, b))
    g["windows"] = ws
    if ws:
        L.append(("win", "xp f %sFH %s %s" % (g["opts"], P, ",".join("%s:%d:%d" % (hx(s), a, b) for s, a, b in ws))))
        L.append(("sub", "xp f %sFH %s %s" % (g["opts"], P, ",".join(hx(s[a:b]) for s, a, b in ws))))
        L.append(("win0", "xp f %s %s %s" % (o, P, ",".join("%s:%d:%d" % (hx(s), a, b) for s, a, b in ws))))
        L.append(("sub0", "xp f %s %s %s" % (o, P, ",".join(hx(s[a:b]) for s, a, b in ws))))
    L.append(("t", "xp t %s %s %s" % (o, P, S)))
    return L


def shift(res, d):
    """shift the positions of a result '1:a_b,c_d' by d units (-1 stays -1)"""
    if not res.startswith("1:"):
        return res
    out = []
    for p in res[2:].split(","):
        a, b = p.split("_")
        a, b = int(a), int(b)
        out.append("%d_%d" % (a + d if a >= 0 else a, b + d if b >= 0 else b))
    return "1:" + ",".join(out)


def found(res):
    return res[:1]


def split_res(ans):
    """'ok r1;r2|r1;r2' -> [[...],[...]] per pattern"""
    body = ans[3:] if ans.startswith("ok ") else ans
    return [p.split(";") for p in body.split("|")]


def evaluate(g, tagged, answers):
    """apply the model-free oracles O1..O7 to the answers of one group.  returns list of (oracle, detail, line)"""
    A = {t: a for (t, _), a in zip(tagged, answers)}
    Ln = {t: l for (t, l) in tagged}
    bad = []
    f = split_res(A["f"])[0]
    if f == ["parse-error"] or A["f"].startswith("exc") or f[0].startswith("exc"):
        # malformed for this dialect: every variant must say the same
        for t in ("f+F", "f+H", "f+FH", "b", "i"):
            if split_res(A[t])[0] != f:
                bad.append(("O1-parse", "variant %s: %s vs %s" % (t, A[t][:60], A["f"][:60]), Ln[t]))
        return bad, None
    fF, fH, fFH = (split_res(A[t])[0] for t in ("f+F", "f+H", "f+FH"))
    if f == fF and fH == fFH and f != fH:
        # only the head-character optimisation (switched off by H) changes the result.  Known finding F33 covers exactly:
        # (b) the match has to start on a supplementary character, (a) the first-character analysis discarded a '.'
        # (fc_lost, see fc_analysis).  Every other H-dependent answer is a violation.
        for k, (p, q) in enumerate(zip(fH, f)):
            if p == q:
                continue
            why = None
            if p[:1] == "1" and k < len(g["subj"]):
                a0 = int(p[2:].split(",")[0].split("_")[0])
                ch = char_at_unit(g["subj"][k], a0)
                if ch is not None and ch >= 0x10000:
                    why = "F33-headchar"
            if why is None and g.get("fc_lost") and p[:1] == "1":
                why = "F33-headchar"
            if why is None:
                bad.append(("O1-options", "option H changes the result of subject #%d: %s vs %s (not one of the F33 classes)"
                            % (k, p, q), Ln["f+H"]))
                break
            if not any(b[0] == "F33-headchar" for b in bad):
                bad.append(("F33-headchar", "option H changes the result of subject #%d: %s vs %s" % (k, p, q), Ln["f+H"]))
    else:
        for t, x in (("f+F", fF), ("f+H", fH), ("f+FH", fFH)):
            if x != f:
                k = next(i for i, (p, q) in enumerate(zip(x, f)) if p != q)
                bad.append(("O1-options", "option %s changes the result of subject #%d: %s vs %s" % (t[2:], k, x[k], f[k]), Ln[t]))
    f = fFH            # the reference for the remaining oracles is the run without pre-filters
    w = split_res(A["wrapF"])[0]
    # F34: on the Boyer-Moore-only path (the whole expression is one literal) the end position is computed from the
    # length of the pattern TEXT: end - start == length of the text although the plain matcher finds a shorter window
    plen = units(g["pat"])
    f34 = False
    if w != ["parse-error"]:
        for p, q in zip(w, fFH):
            if p[:1] == "1" and q[:1] == "1" and p != q:
                a0, b0 = map(int, q[2:].split(",")[0].split("_"))
                a1, b1 = map(int, p[2:].split(",")[0].split("_"))
                if a0 == a1 and b0 - a0 == plen and b1 - a1 != plen:
                    f34 = True
    for k, q in enumerate(fFH):
        if q[:1] == "1" and k < len(g["subj"]):
            a0, b0 = map(int, q[2:].split(",")[0].split("_"))
            if b0 - a0 == plen and b0 > units(g["subj"][k]):
                f34 = True                  # a window that ends beyond the subject
    if f34:
        bad.append(("F34-fixed-end", "Boyer-Moore-only path reports end = start + length of the pattern text", Ln["f"]))
        return bad, None
    if w != ["parse-error"]:
        for k, (p, q) in enumerate(zip(w, f)):
            if found(p) != found(q) or (p[:1] == "1" and p[2:].split(",")[0] != q[2:].split(",")[0]):
                bad.append(("O2-plain-vs-optimised", "subject #%d: (?:P) with F gives %s, P gives %s" % (k, p, q), Ln["wrapF"]))
                break
    b = split_res(A["b"])[0]
    for k, (p, q) in enumerate(zip(b, f)):
        if p[:1] != q[:1]:
            bad.append(("O4-match-object", "subject #%d: without Match %s, with Match %s" % (k, p, q), Ln["b"]))
            break
    f0 = split_res(A["f"])[0]
    for k, (p, q) in enumerate(zip(split_res(A["b0"])[0], f0)):
        if p[:1] != q[:1]:
            bad.append(("O4-match-object", "subject #%d (pre-filters on): without Match %s, with Match %s" % (k, p, q), Ln["b0"]))
            break
    i = split_res(A["i"])[0]
    if "UNSTABLE" in i or i[:len(f)] != f:
        bad.append(("O5-stateless", "repeated/interleaved use differs: %s" % A["i"][:120], Ln["i"]))
    for rt, ft in (("r", "fseq"), ("r2", "fseq2")):
      r, fs = split_res(A[rt]), split_res(A[ft])
      if r != fs:
        for pi, (x, y) in enumerate(zip(r, fs)):
            for k, (p, q) in enumerate(zip(x, y)):
                if p != q and not (p[:1] == "0" and q[:1] == "0"):
                    bad.append(("O3-reused-match", "expression #%d subject #%d: reused Match %s, fresh Match %s" % (pi, k, p, q), Ln[rt]))
                    break
            else:
                continue
            break
    if "win" in A:
        wv, sv = split_res(A["win"])[0], split_res(A["sub"])[0]
        for k, ((s, a, bnd), p, q) in enumerate(zip(g["windows"], wv, sv)):
            if p != shift(q, units(s[:a])):
                if dotstar_eol(g, s):
                    bad.append(("F37-dotstar", "window #%d [%d,%d): %s, on the substring %s" % (k, a, bnd, p, q), Ln["win"]))
                    break
                bad.append(("O6-window", "window #%d [%d,%d): %s, on the substring %s" % (k, a, bnd, p, q), Ln["win"]))
                break
    for k, x in enumerate(split_res(A["t"])[0]):
        if x[:1] != "T":
            continue
        parts = dict((p[0], p[1:]) for p in x.split("~"))
        if parts["R"] != parts["S"]:
            bad.append(("O7-replace-identity", "subject #%d: replace(s, \"$0\") = %s, s = %s" % (k, parts["R"], parts["S"]), Ln["t"]))
            break
        if "^" not in g["deco"]:
            if parts["T"] != parts["E"]:
                bad.append(("O7-tokenize", "subject #%d: tokenize %s, from match positions %s" % (k, parts["T"], parts["E"]), Ln["t"]))
                break
            if parts["Q"] != parts["P"]:
                bad.append(("O7-replace-groups", "subject #%d: replace(s, \"[$0|$1]\") = %s, from match positions %s"
                            % (k, parts["Q"], parts["P"]), Ln["t"]))
                break
    return bad, f
