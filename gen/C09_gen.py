"""Generators, oracle mapping and consistency checks of the C09 check (everything derives from the rng passed in)."""
from fractions import Fraction

RULE = ("per kernel: literals from the type's grammar (random lengths, leading/trailing zeros, signs) + near-misses "
        "(lone '.', exponent forms, doubled signs/points, inner/outer whitespace of all four kinds, non-ASCII look-alikes "
        "whose low byte is a legal character, boundary numerals around 2^31/2^63/2^64, 40-digit numerals) sent through "
        "XSValue::validate, DatatypeValidator::validate, and in-parse validation of <e>v</e> and <a v='v'/> against a "
        "generated schema; derived types: random facet sets with values taken from the instance pool so that instances "
        "hit bound-1ulp/bound/bound+1ulp and equal values in other lexical forms, restriction chains of 2 steps; "
        "compare on all pairs of a value pool (antisymmetry, reflexivity on equal values, transitivity on all triples, "
        "each pair against the Spec order); canonical forms checked canonical + value preserving + idempotent by the "
        "Spec. A case is non-trivial when the answer is not the plain 'valid' default of an unconstrained built-in type "
        "or when it reaches a facet/lexical error branch; distinct by request text")

last_axiom_stats = {}


def hx(s):
    """string (or list of code units) -> protocol hex"""
    if isinstance(s, str):
        units = []
        for ch in s:
            c = ord(ch)
            if c >= 0x10000:
                c -= 0x10000
                units += [0xD800 + (c >> 10), 0xDC00 + (c & 1023)]
            else:
                units.append(c)
    else:
        units = list(s)
    return "".join("%04X" % u for u in units) or "-"


def unhx(h):
    return [] if h == "-" else [int(h[i:i + 4], 16) for i in range(0, len(h), 4)]


WS = [0x20, 0x9, 0xA, 0xD]


def collapse(units):
    out, pending, started = [], False, False
    for u in units:
        if u in WS:
            pending = started
        else:
            if pending:
                out.append(0x20)
            out.append(u)
            started, pending = True, False
    return out


# ------------------------------------------------------------------------------------------------------------
# decimal
# ------------------------------------------------------------------------------------------------------------
def dec_literal(rng, maxi=6, maxf=5):
    """a random literal of the lexical space, with its pieces"""
    sign = rng.choice(["", "", "+", "-"])
    form = rng.randrange(10)
    ip = "".join(rng.choice("0123456789") for _ in range(rng.randrange(1, maxi + 1)))
    fp = "".join(rng.choice("0123456789") for _ in range(rng.randrange(1, maxf + 1)))
    if rng.random() < 0.3:
        ip = "0" * rng.randrange(1, 4) + ip
    if rng.random() < 0.3:
        fp = fp + "0" * rng.randrange(1, 4)
    if rng.random() < 0.15:
        ip = "0" * rng.randrange(1, 3)
    if rng.random() < 0.15:
        fp = "0" * rng.randrange(1, 3)
    if form < 3:
        return sign + ip
    if form < 4:
        return sign + ip + "."
    if form < 5:
        return sign + "." + fp
    return sign + ip + "." + fp


def dec_value(lit):
    """python-side value, used only to *build* interesting cases (never as oracle)"""
    return Fraction(lit.strip().replace("+", "")) if any(c.isdigit() for c in lit) else None


def dec_variants(rng, lit):
    """other lexical forms of the same value"""
    s = lit.lstrip("+-")
    sign = "-" if lit.startswith("-") else ""
    ip, _, fp = s.partition(".")
    out = []
    out.append(sign + "0" * rng.randrange(1, 3) + ip + "." + fp + "0" * rng.randrange(0, 3))
    out.append((sign or "+") + (ip or "0") + "." + fp + "0")
    core_i, core_f = ip.lstrip("0"), fp.rstrip("0")
    out.append(sign + core_i + ("." + core_f if core_f or not core_i else ""))
    return [o for o in out if o not in ("", "-", "+")]


def dec_neighbours(lit):
    """bound - 1ulp, bound + 1ulp at one more fraction digit"""
    v = dec_value(lit)
    s = lit.lstrip("+-")
    fd = len(s.partition(".")[2]) + 1
    out = []
    for d in (-1, 1):
        w = v + Fraction(d, 10 ** fd)
        neg = w < 0
        n = abs(w) * 10 ** fd
        digs = str(int(n)).rjust(fd + 1, "0")
        out.append(("-" if neg else "") + digs[:-fd] + "." + digs[-fd:])
    return out


DEC_NEAR_MISS = [
    "", ".", "+.", "-.", "..", "1..2", "1.2.3", ".1.", "1e5", "1E5", "1.0e0", "0x10", "--1", "+-1", "-+1", "++1", "1-", "1+",
    "-", "+", "1 2", "1 .5", "1. 5", "- 1", "+ 1", "1,5", "1.5f", "INF", "-INF", "NaN", "1_000", "١", "１",
    "ı", "İ", "İ.ĵ", "1İ", "Į", "ĭ1", " 1", "1 ", "　" + "1", "1​",
    "0", "00", "-0", "+0", "0.", ".0", "0.0", "-0.0", "+00.00", "00.", ".00", "-.0", "+0.", "000000000000000000000",
    "1", "-1", "+1", "1.", ".1", "01.10", "9" * 40, "-" + "9" * 40, "0." + "0" * 39 + "1", "1" + "0" * 40 + ".5",
    "2147483647", "2147483648", "-2147483648", "-2147483649", "4294967295", "4294967296",
    "9223372036854775807", "9223372036854775808", "-9223372036854775808", "-9223372036854775809",
    "18446744073709551615", "18446744073709551616", "32767", "32768", "-32769", "127", "128", "-128", "-129", "255", "256",
    "65535", "65536",
]


def with_ws(rng, lit):
    """whitespace decorations: outer (legal after collapse) and inner (never legal)"""
    ws = lambda: "".join(rng.choice(" \t\n\r") for _ in range(rng.randrange(1, 3)))
    r = rng.randrange(5)
    if r == 0:
        return ws() + lit
    if r == 1:
        return lit + ws()
    if r == 2:
        return ws() + lit + ws()
    if r == 3 and len(lit) > 1:
        p = rng.randrange(1, len(lit))
        return lit[:p] + ws() + lit[p:]
    return ws()


def dec_facet_groups(rng, pool):
    """random valid facet groups for a decimal restriction: list of (spec-suffix, ...)"""
    vals = sorted(set(pool), key=dec_value)
    g = []
    r = rng.random()
    if r < 0.55:
        lo, hi = sorted(rng.sample(range(len(vals)), 2))
        if dec_value(vals[lo]) == dec_value(vals[hi]):
            hi = lo
        lo_kind = rng.choice(["minInclusive", "minExclusive", None])
        hi_kind = rng.choice(["maxInclusive", "maxExclusive", None])
        if lo == hi:
            lo_kind = "minInclusive" if lo_kind else None
            hi_kind = "maxInclusive" if hi_kind else None
        if lo_kind:
            g.append("%s=%s" % (lo_kind, vals[lo]))
        if hi_kind:
            g.append("%s=%s" % (hi_kind, vals[hi]))
    if rng.random() < 0.4:
        td = rng.randrange(1, 8)
        g.append("totalDigits=%d" % td)
        if rng.random() < 0.5:
            g.append("fractionDigits=%d" % rng.randrange(0, td + 1))
    elif rng.random() < 0.3:
        g.append("fractionDigits=%d" % rng.randrange(0, 5))
    if rng.random() < 0.2:
        g.append("enum=" + "|".join(rng.sample(vals, min(len(vals), rng.randrange(1, 5)))))
    return g


def tighten(rng, group, pool):
    """a second restriction step that is a valid restriction of `group` (same or tighter facets)"""
    d = dict(x.split("=", 1) for x in group)
    vals = sorted(set(pool), key=dec_value)
    lo = dec_value(d.get("minInclusive") or d.get("minExclusive") or vals[0])
    hi = dec_value(d.get("maxInclusive") or d.get("maxExclusive") or vals[-1])
    inner = [v for v in vals if lo < dec_value(v) < hi]
    g = []
    if "enum" in d:
        return g
    if len(inner) >= 2 and rng.random() < 0.7:
        a, b = sorted(rng.sample(range(len(inner)), 2))
        if dec_value(inner[a]) < dec_value(inner[b]):
            if rng.random() < 0.7:
                g.append("%s=%s" % (rng.choice(["minInclusive", "minExclusive"]), inner[a]))
            if rng.random() < 0.7:
                g.append("%s=%s" % (rng.choice(["maxInclusive", "maxExclusive"]), inner[b]))
    if "totalDigits" in d and rng.random() < 0.5:
        td = rng.randrange(max(1, int(d.get("fractionDigits", "0"))), int(d["totalDigits"]) + 1)
        if td >= 1:
            g.append("totalDigits=%d" % td)
    elif "totalDigits" not in d and "fractionDigits" not in d and rng.random() < 0.3:
        g.append("fractionDigits=%d" % rng.randrange(0, 4))
    return g


def gen_decimal(rng, tier, add, pools):
    thorough = tier == "thorough"
    base = "decimal"
    # 1. near misses and grammar literals through the four entry points (+ whitespace decorations)
    lits = list(DEC_NEAR_MISS)
    lits += [dec_literal(rng) for _ in range(4000 if thorough else 500)]
    lits += [dec_literal(rng, 25, 25) for _ in range(400 if thorough else 60)]
    deco = [with_ws(rng, l) for l in rng.sample(lits, len(lits) // 3)]
    # a mutation stream: one random edit of a legal literal
    mut = []
    for _ in range(3000 if thorough else 400):
        l = dec_literal(rng)
        p = rng.randrange(len(l) + 1)
        c = rng.choice(list(".+-eE ,\t") + ["İ", "٥", "/", ":", "a"])
        mut.append(l[:p] + c + l[p + (1 if rng.random() < 0.5 else 0):])
    for l in lits + deco + mut:
        h = hx(l)
        add("dec-xsv", "xsv decimal " + h)
        add("dec-dv", "dv %s %s" % (base, h))
        add("dec-pe", "pe %s %s" % (base, h))
        add("dec-pa", "pa %s %s" % (base, h))
        add("dec-xsc", "xsc decimal " + h)
        add("dec-can", "can %s %s" % (base, h))
    pools["dec-agree"] = [hx(l) for l in lits + deco + mut]
    # 2. order: pool of ~40 values incl. equal values in different forms
    seed_vals = [dec_literal(rng, 3, 3) for _ in range(14)] + ["0", "-0", "0.0", "1", "1.0", "+01.00", "-1", "-1.0", "0.1",
                                                              ".10", "0.09", "10", "9.99", "-0.1", "-.10", "100", "99.999"]
    for v in seed_vals[:6]:
        seed_vals += dec_variants(rng, v)[:1]
    opool = seed_vals[:44 if not thorough else 70]
    if thorough:
        opool += [dec_literal(rng, 12, 12) for _ in range(20)]
    for a in opool:
        for b in opool:
            add("dec-cmp", "cmp decimal %s %s" % (hx(a), hx(b)))
    pools["dec-order"] = [hx(a) for a in opool]
    for a in [".", "1..2", "", "x", " 1 "]:
        add("dec-cmp-bad", "cmp decimal %s %s" % (hx(a), hx("1")))
        add("dec-cmp-bad", "cmp decimal %s %s" % (hx("1"), hx(a)))
    # 3. derived types
    ntypes = 600 if thorough else 90
    for _ in range(ntypes):
        pool = [dec_literal(rng, 3, 3) for _ in range(6)]
        g1 = dec_facet_groups(rng, pool)
        if not g1:
            continue
        spec = "decimal[%s]" % ";".join(g1)
        if rng.random() < 0.4:
            g2 = tighten(rng, g1, pool)
            if g2:
                spec += "[%s]" % ";".join(g2)
        inst = list(pool)
        for f in (spec.replace("][", ";").strip("]").split("[", 1)[1]).split(";"):
            k, v = f.split("=", 1)
            if k.startswith("m"):
                inst += dec_neighbours(v) + dec_variants(rng, v) + [v]
            if k == "enum":
                for e in v.split("|"):
                    inst += dec_variants(rng, e)[:2]
            if k in ("totalDigits", "fractionDigits"):
                n = int(v)
                inst += ["9" * n, "9" * (n + 1), "1" + "0" * n, "0." + "0" * max(0, n - 1) + "1", "0." + "0" * n + "1",
                         "1." + "0" * (n + 2), "9" * max(1, n - 1) + ".9", "9" * n + ".90", "0" * 4 + "9" * n,
                         "." + "9" * n, "." + "9" * (n + 1)]
        inst += [".", "1e1", " 1 ", ""]
        for l in inst:
            h = hx(l)
            r = rng.randrange(3)
            add("dec-facet-dv", "dv %s %s" % (spec, h))
            add("dec-facet-pe" if r else "dec-facet-pa", "%s %s %s" % ("pe" if r else "pa", spec, h))
            if r == 2:
                add("dec-facet-can", "can %s %s" % (spec, h))


B64 = "ABCDEFGHIJKLMNOPQRSTUVWXYZabcdefghijklmnopqrstuvwxyz0123456789+/"
B16 = "AEIMQUYcgkosw048"
B04 = "AQgw"


def b64_literal(rng, nq=None):
    nq = rng.randrange(0, 5) if nq is None else nq
    s = "".join(rng.choice(B64) for _ in range(4 * nq))
    r = rng.randrange(4)
    if r == 1:
        s += rng.choice(B64) + rng.choice(B64) + rng.choice(B16) + "="
    elif r == 2:
        s += rng.choice(B64) + rng.choice(B04) + "=="
    elif r == 3:
        s += "".join(rng.choice(B64) for _ in range(4))
    return s


def spaced(rng, s, p=0.3):
    out = []
    for i, c in enumerate(s):
        out.append(c)
        if i + 1 < len(s) and rng.random() < p:
            out.append(" ")
    return "".join(out)


def gen_binary(rng, tier, add, pools):
    thorough = tier == "thorough"
    n = 3000 if thorough else 350
    b64 = ["", "AAAA", "AA==", "AQ==", "AB==", "AAA=", "AAB=", "AAE=", "A===", "====", "=AAA", "AA=A", "A=AA", "AAAAA", "AAA", "AA", "A",
           "AAAA====", "AAAAAA==", "AAAAAAA=", "AA==AAAA", "AAA=AAAA", "AA= =", "AA = =", "AA== ", " AA==", "AA  AA", "A A A A", "AAAA AAAA",
           "AA\tAA", "AA\nAA", "AA-A", "AA_A", "AA*=", "A*==", "AA=*", "*A==", "ÿAAA", "AÿAA", "AAÿA", "AAAÿ", "ÿÿÿÿ", "ŁAAA", "AŁAA", "AAAŁ",
           "AAAAĀAAAA", "AAAAĀ", "ĀAAAA", "AAAAĀ!!", "AAĽĽ", "AAAĽ", "ĠAAAA", "AAAAĠ", "AA ĠAA", "AAAA\u00a0", "QUJD", "QUI=", "QQ==", "/+/+", "////", "++++"]
    b64 = [x.encode().decode("unicode_escape") if "\\" in x else x for x in b64]
    for _ in range(n):
        l = b64_literal(rng)
        r = rng.randrange(10)
        if r < 4:
            l = spaced(rng, l)
        elif r == 4 and l:
            p = rng.randrange(len(l))
            l = l[:p] + rng.choice(["=", " ", "  ", "-", "ÿ", "Ł", "Ā", chr(0x100 + ord(rng.choice(B64))), "\t"]) + l[p + rng.randrange(2):]
        elif r == 5 and l:
            l = l[:-rng.randrange(1, min(4, len(l)) + 1)]
        elif r == 6:
            l = with_ws(rng, l)
        b64.append(l)
    hexs = ["", "0", "00", "0a", "0A", "Aa", "fF", "0g", "g0", "0G", "000", "0 0", " 00", "00 ", "0x00", "00\t".replace("\\t", "\t"), "ŁA", "AŁ", "İ0", "0İ",
            "ÿ0", "0ÿ", "30", "ff" * 20, "0123456789abcdefABCDEF", "＀0", "٠0"]
    for _ in range(n // 2):
        l = "".join(rng.choice("0123456789abcdefABCDEF") for _ in range(2 * rng.randrange(0, 6)))
        r = rng.randrange(8)
        if r == 0 and l:
            p = rng.randrange(len(l))
            l = l[:p] + rng.choice(["g", "G", " ", "x", "Ł", "İ", ":", "@", "`", "/"]) + l[p + rng.randrange(2):]
        elif r == 1:
            l = l + rng.choice("0123456789abcdef")
        elif r == 2:
            l = with_ws(rng, l)
        hexs.append(l)
    for base, lits in (("base64Binary", b64), ("hexBinary", hexs)):
        for l in lits:
            h = hx(l)
            add(base[:3] + "-xsv", "xsv %s %s" % (base, h))
            add(base[:3] + "-dv", "dv %s %s" % (base, h))
            add(base[:3] + "-pe", "pe %s %s" % (base, h))
            add(base[:3] + "-pa", "pa %s %s" % (base, h))
            add(base[:3] + "-xsc", "xsc %s %s" % (base, h))
            add(base[:3] + "-can", "can %s %s" % (base, h))
        pools[base + "-agree"] = [hx(l) for l in lits]
    for l in b64[:200]:
        add("b64-dec", "b64 " + hx(l))
    # length facets and enumerations
    for _ in range(300 if thorough else 50):
        base = rng.choice(["base64Binary", "hexBinary"])
        g = []
        r = rng.randrange(4)
        if r == 0:
            g.append("length=%d" % rng.randrange(0, 5))
        elif r == 1:
            lo = rng.randrange(0, 4)
            g.append("minLength=%d" % lo)
            if rng.random() < 0.6:
                g.append("maxLength=%d" % (lo + rng.randrange(0, 3)))
        elif r == 2:
            g.append("maxLength=%d" % rng.randrange(0, 5))
        else:
            if base == "hexBinary":
                es = ["".join(rng.choice("0123456789abcdefABCDEF") for _ in range(2 * rng.randrange(1, 3))) for _ in range(2)]
            else:
                es = [b64_literal(rng, rng.randrange(1, 3)) for _ in range(2)]
            g.append("enum=" + "|".join(e for e in es if e))
        spec = "%s[%s]" % (base, ";".join(g))
        if rng.random() < 0.3 and r in (1, 2):
            spec += "[length=%d]" % (int(g[0].split("=")[1]) + (0 if r == 2 else rng.randrange(0, 2)))
        for _ in range(10):
            if base == "hexBinary":
                l = "".join(rng.choice("0123456789abcdefABCDEF") for _ in range(2 * rng.randrange(0, 6)))
            else:
                l = spaced(rng, b64_literal(rng, rng.randrange(0, 3)), 0.15)
            add("bin-facet", "%s %s %s" % (rng.choice(["dv", "pe", "pa"]), spec, hx(l)))
        if r == 3:
            for e in g[0].split("=", 1)[1].split("|"):
                for v in (e, e.swapcase() if base == "hexBinary" else spaced(rng, e, 0.5), e.lower(), e.upper()):
                    add("bin-enum", "%s %s %s" % (rng.choice(["dv", "pe"]), spec, hx(v)))
    # boolean
    bl = ["true", "false", "1", "0", "TRUE", "True", "False", "yes", "no", "00", "01", "10", "-0", "+1", "", " ", " true", "true ", "\ttrue\n".replace("\\t", "\t").replace("\\n", "\n"),
          "tru", "truee", "t rue", "fals", "１", "ı", "İ", "true1", "0.0", "1.0"]
    for l in bl:
        h = hx(l)
        for op in ("xsv", "dv", "pe", "pa", "xsc"):
            add("bool-" + op, "%s boolean %s" % (op, h))
    pools["boolean-agree"] = [hx(l) for l in bl]
    for a in ["true", "false", "1", "0"]:
        for b in ["true", "false", "1", "0"]:
            add("bool-cmp", "cmp boolean %s %s" % (hx(a), hx(b)))


def dt_literal(rng):
    y = rng.choice([rng.randrange(1, 10000), rng.randrange(1, 10000), 1900, 2000, 2004, 2100, 2400, 1, 4, 100, 400, 9999, 10000, 123456])
    mo = rng.randrange(1, 13)
    dim = [31, 29 if (y % 4 == 0 and (y % 100 != 0 or y % 400 == 0)) else 28, 31, 30, 31, 30, 31, 31, 30, 31, 30, 31][mo - 1]
    d = rng.choice([1, dim, rng.randrange(1, dim + 1)])
    h, mi, sec = rng.randrange(24), rng.randrange(60), rng.randrange(60)
    s = "%s%04d-%02d-%02dT%02d:%02d:%02d" % (rng.choice(["", "", "", "-"]), y, mo, d, h, mi, sec)
    if rng.random() < 0.4:
        s += "." + "".join(rng.choice("0123456789") for _ in range(rng.randrange(1, 7)))
    r = rng.random()
    if r < 0.25:
        s += "Z"
    elif r < 0.6:
        tzh = rng.choice([0, 14, 13, rng.randrange(15)])
        s += "%s%02d:%02d" % (rng.choice("+-"), tzh, 0 if tzh == 14 else rng.choice([0, 30, 59, rng.randrange(60)]))
    return s


DT_NEAR = [
    "2000-01-01T00:00:00", "2000-01-01T00:00:60", "2000-01-01T23:59:60Z", "2000-12-31T23:59:60+00:00", "2000-01-01T00:00:61",
    "2000-01-01T00:00:59", "2000-01-01T00:60:00", "2000-01-01T24:00:00", "2000-01-01T24:00:00.000", "2000-01-01T24:00:00.001",
    "2000-01-01T24:00:01", "2000-01-01T24:01:00", "2000-01-01T25:00:00", "2000-02-29T00:00:00", "2001-02-29T00:00:00",
    "1900-02-29T00:00:00", "2400-02-29T00:00:00", "2000-02-30T00:00:00", "2000-04-31T00:00:00", "2000-04-30T00:00:00",
    "2000-01-32T00:00:00", "2000-01-00T00:00:00", "2000-00-01T00:00:00", "2000-13-01T00:00:00", "0000-01-01T00:00:00",
    "-0001-01-01T00:00:00", "0001-01-01T00:00:00", "001-01-01T00:00:00", "01000-01-01T00:00:00", "10000-01-01T00:00:00",
    "-10000-01-01T00:00:00", "2000-01-01T00:00:00Z", "2000-01-01T00:00:00z", "2000-01-01T00:00:00+14:00", "2000-01-01T00:00:00-14:00",
    "2000-01-01T00:00:00+14:01", "2000-01-01T00:00:00+15:00", "2000-01-01T00:00:00+13:59", "2000-01-01T00:00:00+13:60",
    "2000-01-01T00:00:00+00:00", "2000-01-01T00:00:00-00:00", "2000-01-01T00:00:00+1:00", "2000-01-01T00:00:00+01:0",
    "2000-01-01T00:00:00+0100", "2000-01-01T00:00:00+01:00Z", "2000-01-01T00:00:00ZZ", "2000-01-01T00:00:00Z ", "2000-01-01T00:00:00.",
    "2000-01-01T00:00:00.Z", "2000-01-01T00:00:00.+01:00", "2000-01-01T00:00:00.5", "2000-01-01T00:00:00.5Z", "2000-01-01T00:00:00,5",
    "2000-01-01T00:00:0", "2000-01-01T00:00", "2000-01-01T0:00:00", "2000-01-01 00:00:00", "2000-01-01t00:00:00", "2000-01-01",
    "2000-1-01T00:00:00", "2000-01-1T00:00:00", "20000101T000000", "2000/01/01T00:00:00", "2000-01-01T00.00.00", "+2000-01-01T00:00:00",
    "--2000-01-01T00:00:00", " 2000-01-01T00:00:00", "2000-01-01T00:00:00 ", "2000-01-01T 00:00:00", "", "T", "2000-01-01T00:00:000",
    "2000-01-01T00:00:00.5.5", "2000-01-01T00:00:00-", "2000-01-01T00:00:00+", "٢٠٠٠-01-01T00:00:00", "2000-01-01T00:00:0０",
    "4294967296-01-01T00:00:00", "4294967297-01-01T00:00:00", "2147483648-01-01T00:00:00", "99999999999-01-01T00:00:00",
    "2000-01-01T00:00:00+１4:00", "2000-01-01T-1:00:00", "2000-01-01T00:-1:00", "2000-01--1T00:00:00", "2000--1-01T00:00:00",
]


def gen_datetime(rng, tier, add, pools):
    thorough = tier == "thorough"
    lits = list(DT_NEAR) + [dt_literal(rng) for _ in range(3000 if thorough else 400)]
    mut = []
    for _ in range(3000 if thorough else 500):
        l = dt_literal(rng)
        p = rng.randrange(len(l) + 1)
        r = rng.randrange(4)
        if r == 0:      # change one digit to a boundary digit
            q = [i for i, c in enumerate(l) if c.isdigit()]
            i = rng.choice(q)
            l = l[:i] + rng.choice("0123456789") + l[i + 1:]
        elif r == 1:
            l = l[:p] + rng.choice(list("-+:.TZ 0169") + ["٠", "ĺ"]) + l[p:]
        elif r == 2 and p < len(l):
            l = l[:p] + l[p + 1:]
        else:
            l = with_ws(rng, l)
        mut.append(l)
    for l in lits + mut:
        h = hx(l)
        add("dt-xsv", "xsv dateTime " + h)
        add("dt-pe", "pe dateTime " + h)
        add("dt-pa", "pa dateTime " + h)
    pools["dateTime-agree"] = [hx(l) for l in lits + mut]
    # order axioms on the implementation's own answers (compare is not modelled)
    pool = [dt_literal(rng) for _ in range(22)] + ["2000-01-01T12:00:00", "2000-01-01T12:00:00Z", "2000-01-01T12:00:00+14:00",
            "2000-01-01T12:00:00-14:00", "2000-01-02T02:00:00Z", "1999-12-31T22:00:00Z", "2000-01-01T24:00:00", "2000-01-02T00:00:00",
            "2000-01-01T12:00:00.5", "2000-01-01T12:00:00.50", "2000-01-01T13:00:00+01:00", "2000-01-01T11:00:00-01:00",
            "2000-02-29T23:59:59-14:00", "2000-03-01T00:00:00Z", "-0001-12-31T23:59:59", "0001-01-01T00:00:00"]
    for a in pool:
        for b in pool:
            add("dt-cmp", "cmp dateTime %s %s" % (hx(a), hx(b)))
    pools["dt-order"] = [hx(a) for a in pool]


# ------------------------------------------------------------------------------------------------------------
# whitespace facet at work: element/attribute values split into literal text, character references and CDATA
# ------------------------------------------------------------------------------------------------------------
def chunked(rng, text, attr):
    """split `text` into chunks l/r/c; CR only through a character reference; CDATA only in elements"""
    out = []
    i = 0
    while i < len(text):
        n = rng.choice([1, 1, 2, 3, len(text)])
        piece = text[i:i + n]
        i += n
        kinds = ["l", "r"] + ([] if attr else ["c"])
        k = rng.choice(kinds)
        if "\r" in piece or ("]" in piece and k == "c"):
            k = "r"
        out.append(k + hx(piece))
    return ",".join(out)


def gen_whitespace(rng, tier, add, pools):
    thorough = tier == "thorough"
    wsrun = lambda lo, hi: "".join(rng.choice(" \t\n\r ") for _ in range(rng.randrange(lo, hi + 1)))
    types = ["integer", "int", "decimal", "intlist", "decimallist", "unsignedBytelist", "token", "normalizedString", "string",
             "positiveInteger", "int[maxExclusive=50]"]
    for _ in range(6000 if thorough else 900):
        t = rng.choice(types)
        ntok = rng.choice([1, 1, 2, 2, 3])
        toks = []
        for k in range(ntok):
            first_short = rng.random() < 0.5
            tok = rng.choice(["1", "7", "0", "-", "+", "a"]) if first_short and rng.random() < 0.8 else \
                rng.choice(["12", "-3", "+45", "300", "1.5", "007", "2147483648", "ab"])
            toks.append(tok)
        text = wsrun(0, 2) + toks[0]
        for tok in toks[1:]:
            text += wsrun(1, 2) + tok
        text += wsrun(0, 2)
        attr = rng.random() < 0.4
        add("ws-attr" if attr else "ws-elem", "%s %s %s" % ("pb" if attr else "pc", t, chunked(rng, text, attr) or "l-"))
    for t in types:         # the class seen by reading: leading whitespace, one-character first token, more tokens
        for text in [" 1 2", " 1 2 3", "\t1\n2", "  1  2  ", " 1", "1 ", " 12 3", "1 2", " a b", "\n-\n1", " 1\r2"]:
            add("ws-elem", "pc %s %s" % (t, chunked(rng, text, False)))
            add("ws-elem", "pc %s l%s" % (t, hx(text.replace("\r", " "))))
            add("ws-attr", "pb %s l%s" % (t, hx(text.replace("\r", " "))))


# ------------------------------------------------------------------------------------------------------------
# restriction chains over {min,max} x {Inclusive,Exclusive}, 2 and 3 steps, values at bound-1/bound/bound+1 of every level
# ------------------------------------------------------------------------------------------------------------
import datetime as _dt


def _dt_lit(rng, k, zone=None):
    """instant number k (half hours around the 2001/2002 year end, UTC) written in a random time zone"""
    inst = _dt.datetime(2001, 12, 31, 12, 0, 0) + _dt.timedelta(seconds=k)
    off = rng.choice([0, 0, 60, -60, 120, -120, 330, -570, 840, -840, 14 * 60 - 1, -(13 * 60 + 59)]) if zone is None else zone
    loc = inst + _dt.timedelta(minutes=off)
    z = "Z" if off == 0 and rng.random() < 0.7 else "%s%02d:%02d" % ("+" if off >= 0 else "-", abs(off) // 60, abs(off) % 60)
    return loc.strftime("%Y-%m-%dT%H:%M:%S") + z


def gen_chains(rng, tier, add, pools):
    thorough = tier == "thorough"
    kinds = [(a, b) for a in (None, "Inclusive", "Exclusive") for b in (None, "Inclusive", "Exclusive") if a or b]
    bases = ["decimal", "integer", "int", "positiveInteger", "nonNegativeInteger", "double", "dateTime"]
    for base in bases:
        combos = [(k1, k2) for k1 in kinds for k2 in kinds]
        combos += [(rng.choice(kinds), rng.choice(kinds), rng.choice(kinds)) for _ in range(400 if thorough else 70)]
        for combo in combos:
            n = len(combo)
            if base == "dateTime":
                unit = 1800
                grid = sorted(rng.sample(range(-40, 41), 2 * n))
                val = lambda k: _dt_lit(rng, k * unit)
                near = lambda k: [_dt_lit(rng, k * unit - 1), _dt_lit(rng, k * unit), _dt_lit(rng, k * unit + 1), _dt_lit(rng, k * unit)]
            else:
                lo0 = 1 if base == "positiveInteger" else (0 if base == "nonNegativeInteger" else -50)
                grid = sorted(rng.sample(range(lo0 + 1, lo0 + 120), 2 * n))
                if base in ("decimal", "double") and rng.random() < 0.5:
                    val = lambda k: rng.choice(["%d.5", "%d.50", "+%d.5"]) % k if k >= 0 else "%d.5" % k
                    near = lambda k: ["%d.49" % k, "%d.5" % k, "%d.51" % k, "%d.500" % k] if k >= 0 else \
                                     ["%d.51" % k, "%d.5" % k, "%d.49" % k, "%d.50" % k]
                else:
                    val = lambda k: str(k)
                    near = lambda k: [str(k - 1), str(k), str(k + 1), ("+0%d" % k) if k >= 0 else str(k)]
            spec = base
            inst = []
            for lvl, (kmin, kmax) in enumerate(combo):
                lo, hi = grid[lvl], grid[2 * n - 1 - lvl]
                g = []
                if kmin:
                    g.append("min%s=%s" % (kmin, val(lo)))
                    inst += near(lo)
                if kmax:
                    g.append("max%s=%s" % (kmax, val(hi)))
                    inst += near(hi)
                spec += "[%s]" % ";".join(g)
            if base in ("positiveInteger", "nonNegativeInteger"):
                inst += ["0", "-5", "1", "-1"]
            for v in inst:
                add("chain-" + base, "%s %s %s" % ("pe" if rng.random() < 0.7 else ("pa" if rng.random() < 0.5 else "dv"), spec, hx(v)))
    # enumeration in the value space of dateTime: the same instant in another zone
    for _ in range(200 if thorough else 40):
        k = rng.randrange(-40, 41) * 1800
        spec = "dateTime[enum=%s|%s]" % (_dt_lit(rng, k), _dt_lit(rng, k + 7200))
        for v in (_dt_lit(rng, k), _dt_lit(rng, k + 7200), _dt_lit(rng, k + 1), _dt_lit(rng, k - 3600)):
            add("dt-enum", "pe %s %s" % (spec, hx(v)))


def gen_dt_order(rng, tier, add, pools):
    """zoned/unzoned dateTimes at month and year ends with offsets up to +-14:00: compare against the Spec order,
    canonical representation against the Spec canonical form"""
    thorough = tier == "thorough"
    lits = []
    ends = ["2001-11-30T23:30:00", "2001-12-01T01:30:00", "2001-12-31T23:59:59", "2002-01-01T00:00:00", "2000-02-29T23:00:00",
            "2000-03-01T01:00:00", "1999-02-28T22:30:00.5", "1999-03-01T00:30:00.50", "2000-12-31T12:00:00", "2001-01-01T00:30:00",
            "2004-02-28T23:45:00", "1900-02-28T23:45:00", "2001-04-30T20:00:00", "2001-05-01T06:00:00", "0001-01-01T05:00:00"]
    for e in ends:
        lits.append(e)
        for _ in range(2):
            tzh = rng.choice([0, 1, 2, 5, 13, 14])
            tzm = 0 if tzh == 14 else rng.choice([0, 30, 59])
            lits.append("%s%s%02d:%02d" % (e, rng.choice("+-"), tzh, tzm))
        if rng.random() < 0.5:
            lits.append(e + "Z")
    # equal instants in different zones
    for k in rng.sample(range(-60, 60), 8 if not thorough else 30):
        lits += [_dt_lit(rng, k * 1800 + 43200), _dt_lit(rng, k * 1800 + 43200)]
    lits += ["2000-01-01T24:00:00", "2000-01-02T00:00:00"]
    lits = lits[:70 if not thorough else 140]
    for a in lits:
        for b in lits:
            add("dt-order", "cmp dateTime %s %s" % (hx(a), hx(b)))
        add("dt-canon", "xsc dateTime " + hx(a))
        add("dt-canon", "can dateTime " + hx(a))


# ------------------------------------------------------------------------------------------------------------
# float/double lexical space, special values; lists of unions / unions of lists
# ------------------------------------------------------------------------------------------------------------
FLOAT_NEAR = ["", ".", "-.", "+.", "-", "+", "e", "E", "1e", "e1", "1e+", "1e-", "1e1.5", "1.5e1", ".e1", "1-1", "1+1", "1e1e1", "0x1", "+.e",
              "..", "-.0", "+.0", ".0", "0.", "-0", "+0", "0", "00", "-00.00", "+.00", "0.0.", "+INF", "INF", "-INF", "NaN", "-NaN", "inf", "nan",
              "INFINITY", "Infinity", "1.", ".5E-3", "--1", "1 e1", "1e 1", "1E5", "1e05", "1e+05", "-1.5E-10", "1e400", "1e-400", "-1e400",
              "4.9e-324", "1.7976931348623157e308", "3.4028235e38", "1e39", "１e1", "1ｅ1", "1,5", "1f", "1d", "1e5f", "-e5", "+e5", "1e5.", "1.e5",
              ".e", "-.e1", "0e0", "-0e0", "0.e", "1E+", "1E-5E", " 1", "1 ", " NaN ", "N aN", "IN F"]


def float_literal(rng):
    m = dec_literal(rng, 4, 4)
    r = rng.random()
    if r < 0.5:
        return m
    return m + rng.choice("eE") + rng.choice(["", "+", "-"]) + "".join(rng.choice("0123456789") for _ in range(rng.randrange(1, 3)))


def gen_float(rng, tier, add, pools):
    thorough = tier == "thorough"
    lits = list(FLOAT_NEAR) + [float_literal(rng) for _ in range(2000 if thorough else 300)]
    for _ in range(2000 if thorough else 300):
        l = float_literal(rng)
        p = rng.randrange(len(l) + 1)
        l = l[:p] + rng.choice(list(".+-eE 0") + ["İ", "x", "N", "F"]) + l[p + rng.randrange(2):]
        lits.append(l)
    lits += [with_ws(rng, l) for l in rng.sample(lits, 60)]
    for l in lits:
        h = hx(l)
        t = rng.choice(["double", "double", "float"])
        add("flt-xsv", "xsv %s %s" % (t, h))
        add("flt-pe", "pe %s %s" % (t, h))
        add("flt-pa", "pa %s %s" % (t, h))
    pools["double-agree"] = []
    pool = ["NaN", "INF", "-INF", "0", "-0", "1", "1.0", "-1", "2.5", "10", "-2.5", " NaN", "+0.0"]
    for a in pool:
        for b in pool:
            add("flt-cmp", "cmp double %s %s" % (hx(a), hx(b)))


DATE_NEAR = ["2000-01-01", "2000-02-29", "2001-02-29", "1900-02-29", "2400-02-29", "2000-02-30", "2000-04-31", "2000-04-30", "2000-12-31",
             "2000-13-01", "2000-00-01", "2000-01-00", "2000-01-32", "0000-01-01", "-0001-01-01", "0001-01-01", "001-01-01", "01000-01-01",
             "10000-01-01", "2000-01-01Z", "2000-01-01z", "2000-01-01+14:00", "2000-01-01-14:00", "2000-01-01+14:01", "2000-01-01+15:00",
             "2000-01-01+13:59", "2000-01-01+13:60", "2000-01-01+00:00", "2000-01-01+1:00", "2000-01-01+0100", "2000-01-01ZZ", "2000-01-01 Z",
             "2000-01-01T00:00:00", "2000-01-01T", "2000-1-01", "2000-01-1", "20000101", "2000/01/01", "+2000-01-01", "--2000-01-01", " 2000-01-01 ",
             "2000-01-01+", "2000-01-01-", "2000-01-01:", "2000-01-01.5", "2000-01", "2000", "", "-", "2000-01-01-01:00", "2000-01-01+01:00Z",
             "٢٠٠٠-01-01", "2000-01-0１", "2000-01-01+１4:00", "99999999999-01-01", "4294967297-01-01"]


def gen_date(rng, tier, add, pools):
    thorough = tier == "thorough"
    lits = list(DATE_NEAR)
    for _ in range(2500 if thorough else 350):
        l = dt_literal(rng)
        d, _, rest = l.partition("T")
        z = ""
        for k in range(len(rest)):
            if rest[k] in "Z+-":
                z = rest[k:]
                break
        l = d + z
        r = rng.randrange(6)
        if r == 0:
            q = [i for i, c in enumerate(l) if c.isdigit()]
            i = rng.choice(q)
            l = l[:i] + rng.choice("0123456789") + l[i + 1:]
        elif r == 1:
            p = rng.randrange(len(l) + 1)
            l = l[:p] + rng.choice(list("-+:.TZ 0169") + ["٠"]) + l[p:]
        elif r == 2:
            p = rng.randrange(len(l))
            l = l[:p] + l[p + 1:]
        elif r == 3:
            l = with_ws(rng, l)
        lits.append(l)
    for l in lits:
        h = hx(l)
        add("date-xsv", "xsv date " + h)
        add("date-pe", "pe date " + h)
        add("date-pa", "pa date " + h)
    pools["date-agree"] = [hx(l) for l in lits]


DUR_NEAR = ["PY", "PT", "P", "-P1Y", "P1.5Y", "PT1.S", "PT.5S", "PT0.5S", "P1YT", "PT1H1H", "P1YM", "PTS", "PT1S", "P1M2Y", "P1DT", "P-1Y",
            "-P-1Y", "+P1Y", "P1Y2M3DT4H5M6.7S", "PT1M1H", "P1S", "PT1D", "P 1Y", "p1y", "P1Y ", " P1Y", "P01Y", "PT1.5.5S", "PT1H.5S", "P1Y1Y",
            "PD", "-P", "-PT0S", "P0Y", "PT0S", "-P0D", "P1Y2M", "P1YT1M", "P1MT1M", "PT1M", "P1M", "PT", "P1Y2D", "P2D1Y", "PT1S1M", "P1H",
            "PT1Y", "P1DT1D", "P1Y-2M", "P1Y2M3D4H", "T1H", "1Y", "", "-", "P.5Y", "PT5.S", "PT0.S", "PT.S", "P١Y", "P1Ｙ", "P1YT1.50S",
            "P1Y2M3DT4H5M6S", "-P1Y2M3DT4H5M6.789S", "P99999D", "PT86400S", "PT1440M", "P1DT0H", "--P1Y", "P1Y2M3DT", "PT1H2M3", "P1Y2"]


def dur_literal(rng):
    neg = "-" if rng.random() < 0.25 else ""
    date = "".join("%d%s" % (rng.choice([0, 1, 2, 12, 30, 365, rng.randrange(100)]), d) for d in "YMD" if rng.random() < 0.4)
    time = "".join("%d%s" % (rng.choice([0, 1, 24, 60, rng.randrange(100)]), d) for d in "HM" if rng.random() < 0.3)
    if rng.random() < 0.3:
        time += "%d%sS" % (rng.randrange(100), ("." + str(rng.randrange(1, 1000))) if rng.random() < 0.4 else "")
    if not date and not time:
        date = "1D"
    return neg + "P" + date + ("T" + time if time else "")


DUR_WINDOWS = [("P1M", ["P27D", "P28D", "P29D", "P30D", "P31D", "P32D"]), ("P2M", ["P58D", "P59D", "P60D", "P61D", "P62D", "P63D"]),
               ("P1Y", ["P364D", "P365D", "P366D", "P367D", "P12M", "P11M", "P13M"]), ("P5M", ["P149D", "P150D", "P151D", "P152D", "P153D", "P154D"]),
               ("P3M", ["P88D", "P89D", "P90D", "P91D", "P92D", "P93D"]), ("P6M", ["P180D", "P181D", "P184D", "P185D"]),
               ("P1M1D", ["P29D", "P32D", "P33D", "P1MT24H", "P1MT23H59M60S"]), ("P1D", ["PT24H", "PT23H", "PT25H", "PT1440M", "PT86400S", "PT86399S"]),
               ("PT1H", ["PT60M", "PT59M", "PT61M", "PT3600S"]), ("P2M1DT12H", ["P60DT12H", "P61DT12H", "P62DT12H", "P63DT12H", "P64DT12H"])]


def gen_duration(rng, tier, add, pools):
    thorough = tier == "thorough"
    lits = list(DUR_NEAR) + [dur_literal(rng) for _ in range(2000 if thorough else 300)]
    for _ in range(2000 if thorough else 300):
        l = dur_literal(rng)
        p = rng.randrange(len(l) + 1)
        r = rng.randrange(4)
        if r == 0:
            l = l[:p] + rng.choice(list("PTYMDHS.-+ 0") + ["٠"]) + l[p:]
        elif r == 1 and p < len(l):
            l = l[:p] + l[p + 1:]
        elif r == 2:
            q = list(l)
            i, j = rng.randrange(len(q)), rng.randrange(len(q))
            q[i], q[j] = q[j], q[i]
            l = "".join(q)
        else:
            l = with_ws(rng, l)
        lits.append(l)
    for l in lits:
        h = hx(l)
        add("dur-xsv", "xsv duration " + h)
        add("dur-pe", "pe duration " + h)
        add("dur-pa", "pa duration " + h)
    pools["duration-agree"] = [hx(l) for l in lits]
    # order: the indeterminate windows, with time parts and negative durations
    pool = []
    for m, ds in DUR_WINDOWS:
        pool.append(m)
        pool += ds
    pool += ["-" + x for x in rng.sample(pool, 14)] + ["P0D", "PT0S", "-PT0S", "PT0.5S", "PT0.6S", "PT1.5S", "PT1S"]
    pool = list(dict.fromkeys(pool))
    pairs = [(a, b) for a in pool for b in pool]
    if not thorough:
        near = set()
        for m, ds in DUR_WINDOWS:
            for x in [m] + ds:
                for y in [m] + ds:
                    near.add((x, y)); near.add(("-" + x, "-" + y))
        pairs = list(near) + rng.sample(pairs, 1500)
    for a, b in pairs:
        add("dur-cmp", "cmp duration %s %s" % (hx(a), hx(b)))
    # facets: every bound kind with the month value as bound and the day values as instances, and the other way round
    for m, ds in DUR_WINDOWS:
        for kind in ("minInclusive", "minExclusive", "maxInclusive", "maxExclusive"):
            for bound, vals in [(m, ds)] + [(d, [m]) for d in ds]:
                spec = "duration[%s=%s]" % (kind, bound)
                for v in vals + [bound]:
                    add("dur-facet", "%s %s %s" % (rng.choice(["pe", "pe", "pa"]), spec, hx(v)))
        import re as _re
        days = [x for x in ds if _re.match(r'P[0-9]+D$', x)]
        if len(days) < 2:
            continue
        lo, hi = days[0], days[-1]
        for spec in ("duration[minInclusive=%s][maxExclusive=%s]" % (lo, hi), "duration[minExclusive=%s;maxInclusive=%s]" % (lo, hi)):
            for v in [m] + ds:
                add("dur-facet", "pe %s %s" % (spec, hx(v)))


def gen_b64_padding(rng, tier, add, pools):
    """every final quartet shape  X?==  and  XX?=  over all 64 last data characters (unused bits must be zero)"""
    for last in B64:
        for lit in (rng.choice(B64) + last + "==", rng.choice(B64) + rng.choice(B64) + last + "=",
                    "QUJD" + rng.choice(B64) + last + "==", "QUJD" + rng.choice(B64) + rng.choice(B64) + last + "=",
                    rng.choice(B64) + " " + last + " = ="):
            h = hx(lit)
            for op in ("xsv", "dv", "pe", "xsc", "can"):
                add("b64-pad", "%s base64Binary %s" % (op, h))
            add("b64-pad", "b64 " + h)
            add("b64-pad", "pa base64Binary[length=%d] %s" % (rng.randrange(1, 6), h))


# the other date/time types that share XMLDateTime::compare: judged by the Spec on the timeline of the equivalent dateTime
EQUIV = {}       # (type, hex literal) -> hex of the dateTime literal denoting the same starting instant


def gtype_literal(rng, t):
    """(literal, equivalent dateTime literal); fields may be out of range on purpose"""
    y = rng.choice([1999, 2000, 2001, 2004, 1900, rng.randrange(1, 3000)])
    mo = rng.choice([1, 2, 2, 3, 4, 12, 12, 13, 0, rng.randrange(1, 13)])
    d = rng.choice([1, 1, 28, 29, 30, 31, 31, 32, 0, rng.randrange(1, 29)])
    h, mi, sec = rng.choice([0, 0, 12, 23, 24, 25, rng.randrange(24)]), rng.choice([0, 0, 30, 59, 60]), rng.choice([0, 0, 30, 59, 61])
    z = rng.choice(["", "", "Z", "+14:00", "-14:00", "+01:00", "-05:30", "+13:59", "+14:01", "+15:00", "-00:00"])
    frac = rng.choice(["", "", ".5", ".50", ".125"])
    if t == "gYear":
        return "%04d%s" % (y, z), "%04d-01-01T00:00:00%s" % (y, z)
    if t == "gYearMonth":
        return "%04d-%02d%s" % (y, mo, z), "%04d-%02d-01T00:00:00%s" % (y, mo, z)
    if t == "gMonthDay":
        return "--%02d-%02d%s" % (mo, d, z), "2000-%02d-%02dT00:00:00%s" % (mo, d, z)
    if t == "gDay":
        return "---%02d%s" % (d, z), "2000-01-%02dT00:00:00%s" % (d, z)
    if t == "gMonth":
        return "--%02d%s" % (mo, z), "2000-%02d-01T00:00:00%s" % (mo, z)
    return "%02d:%02d:%02d%s%s" % (h, mi, sec, frac, z), "2000-01-01T%02d:%02d:%02d%s%s" % (h, mi, sec, frac, z)


def gen_gtypes(rng, tier, add, pools):
    thorough = tier == "thorough"
    for t in ("gYear", "gYearMonth", "gMonthDay", "gDay", "gMonth", "time"):
        lits = [gtype_literal(rng, t) for _ in range(400 if thorough else 70)]
        valid = []
        for l, e in lits:
            EQUIV[(t, hx(l))] = hx(e)
            add("g-lex", "xsv %s %s" % (t, hx(l)))
            add("g-lex", "pe %s %s" % (t, hx(l)))
        pool = [l for l, e in lits][:26 if not thorough else 60]
        for a in pool:
            for b in pool:
                add("g-cmp", "cmp %s %s %s" % (t, hx(a), hx(b)))


# value-space facets of list and union types: enumeration compared member-wise in the value space, length in items
VCLASSES = {
    "decimal": [["1", "1.0", "+01"], ["2", "2.00"], ["3", "03.0"], ["-0.5", "-.50"], ["0", "-0", "0.0"], ["7", "7.0"], ["8", "8.00"]],
    "boolean": [["true", "1"], ["false", "0"]],
    "int": [["1", "+1", "01"], ["2", "02"], ["-3", "-03"], ["0", "-0"]],
    "dateTime": [["2000-01-01T00:00:00Z", "1999-12-31T19:00:00-05:00"], ["2001-12-31T23:00:00-02:00", "2002-01-01T01:00:00Z"],
                 ["2000-06-15T12:00:00", "2000-06-15T12:00:00.0"], ["2000-02-29T23:30:00-01:00", "2000-03-01T00:30:00Z"]],
    "token": [["a"], ["b"], ["c"], ["ab"]],
    "double": [["1", "1.0"], ["INF"], ["NaN"], ["-2.5", "-2.50"], ["0", "0.0"]],
    "U(int+boolean)": [["1", "01"], ["true"], ["false"], ["0", "00"], ["2", "+2"]],
    "U(decimal+token)": [["1", "1.0"], ["a"], ["b"], ["2.5", "2.50"]],
    "U(boolean+token)": [["true", "1"], ["false", "0"], ["x"], ["y"]],
}


def gen_list_enum(rng, tier, add, pools):
    thorough = tier == "thorough"
    for item, classes in VCLASSES.items():
        for _ in range(12 if thorough else 3):
            members = []
            for _ in range(rng.randrange(1, 4)):
                members.append([rng.randrange(len(classes)) for _ in range(rng.randrange(1, 5))])
            enum = "|".join("~".join(classes[c][0] for c in m) for m in members)
            spec = "L(%s)[enum=%s]" % (item, enum)
            if rng.random() < 0.3:
                spec = "L(%s)[enum=%s;%s=%d]" % (item, enum, rng.choice(["maxLength", "minLength", "length"]), rng.randrange(0, 4))
            inst = [[]]
            for m in members:
                inst.append(list(m))
                for k in range(len(m)):
                    inst.append(m[:k])                       # every proper prefix, down to the empty list
                inst.append(m + [rng.randrange(len(classes))])   # a proper extension
                inst.append([rng.randrange(len(classes))] + m)
                p = list(m)
                rng.shuffle(p)
                inst.append(p)                               # a permutation
                if m:
                    q = list(m)
                    i = rng.randrange(len(q))
                    q[i] = (q[i] + 1) % len(classes)
                    inst.append(q)                           # one item changed
                    inst.append(m[1:])                       # a proper suffix
            for cl in inst:
                for rep in range(2):
                    text = " ".join(rng.choice(classes[c]) if rep else classes[c][-1] for c in cl)
                    if rng.random() < 0.2:
                        text = " " + text.replace(" ", "  ") + " "
                    add("list-enum", "%s %s %s" % (rng.choice(["pe", "pe", "pa"]), spec, hx(text)))
    # enumeration directly on a union, and length facets counted in items
    for spec, vals in (("U(int+boolean)[enum=1|false]", ["1", "01", "true", "false", "0", "2", "x"]),
                       ("U(decimal+token)[enum=1.0|a]", ["1", "1.00", "a", "b", "1.5"]),
                       ("U(L(int)+boolean)[enum=1~2|true]", ["1 2", "01 +2", "1", "2 1", "true", "1 2 3", ""])):
        for v in vals:
            add("union-enum", "pe %s %s" % (spec, hx(v)))
    for item in ("decimal", "boolean", "U(int+boolean)"):
        for f in ("length=2", "minLength=2", "maxLength=2", "minLength=1;maxLength=3"):
            cl = VCLASSES[item]
            for n in range(0, 5):
                add("list-len", "pe L(%s)[%s] %s" % (item, f, hx(" ".join(rng.choice(rng.choice(cl)) for _ in range(n)))))


# canonical representations at roll-over boundaries (day, month, YEAR, leap day, century) for zones -14:00..+14:00
def gen_canon_boundaries(rng, tier, add, pools):
    thorough = tier == "thorough"
    days = ["1999-12-31", "2000-01-01", "2000-12-31", "2001-01-01", "9999-12-31", "0001-01-01", "0001-12-31", "0002-01-01", "-0001-12-31",
            "-0001-01-01", "1900-02-28", "1900-03-01", "2000-02-28", "2000-02-29", "2000-03-01", "2004-02-29", "2100-02-28", "2100-03-01",
            "1999-11-30", "1999-12-01", "2000-04-30", "2000-05-01", "2000-06-15", "10000-01-01", "12345-12-31", "2399-12-31", "2400-02-29"]
    zones = ["", "Z", "+00:00", "-00:00", "+00:01", "-00:01", "+11:59", "+12:00", "+12:01", "-11:59", "-12:00", "-12:01", "+13:30", "-13:30",
             "+14:00", "-14:00", "+05:30", "-09:45"]
    times = ["00:00:00", "00:00:01", "11:59:59", "12:00:00", "12:00:01", "23:59:59", "23:30:00.50", "00:30:00.125", "24:00:00", "13:45:00"]
    for d in days:
        zs = zones if thorough else zones[:4] + rng.sample(zones[4:], 9)
        for z in zs:
            for op in ("xsc", "can"):
                add("canon-date", "%s date %s" % (op, hx(d + z)))
            t = rng.choice(times)
            for op in ("xsc", "can"):
                add("canon-dt", "%s dateTime %s" % (op, hx(d + "T" + t + z)))
    for t in times:
        for z in zones:
            for op in ("xsc", "can"):
                add("canon-time", "%s time %s" % (op, hx(t + z)))


def gen_combinators(rng, tier, add, pools):
    thorough = tier == "thorough"
    leaves = ["int", "boolean", "double", "unsignedByte", "decimal", "negativeInteger"]
    toks = {"int": ["1", "-5", "2147483647", "2147483648", "+07"], "boolean": ["true", "false", "1", "0"],
            "double": ["1e5", "INF", "NaN", "-.5", "1e"], "unsignedByte": ["0", "255", "256"], "decimal": ["1.5", ".5", "."],
            "negativeInteger": ["-1", "0", "-0"], "junk": ["tru", "x", "1.5.5", "--1", "e", "-"]}

    def rnd_type(depth):
        r = rng.random()
        if depth == 0 or r < 0.2:
            return rng.choice(leaves)
        if r < 0.6:
            return "U(%s)" % "+".join(rnd_type(depth - 1) if rng.random() < 0.3 else rng.choice(leaves) for _ in range(rng.randrange(2, 4)))
        inner = rnd_type(depth - 1)
        if inner.startswith("L("):            # a list of lists is not allowed
            inner = "U(%s+%s)" % (rng.choice(leaves), rng.choice(leaves))
        if inner.startswith("U(") and "L(" in inner:
            inner = rng.choice(leaves)
        return "L(%s)" % inner
    fixed = ["L(U(int+boolean))", "U(L(int)+boolean)", "U(L(int)+L(boolean))", "L(U(double+boolean))", "U(int+L(unsignedByte)+boolean)",
             "L(int)", "L(U(unsignedByte+negativeInteger))"]
    types = fixed + [rnd_type(2) for _ in range(200 if thorough else 40)]
    for t in types:
        if not (t.startswith("L(") or t.startswith("U(")):
            continue
        spec = t
        if t.startswith("L(") and rng.random() < 0.5:
            k = rng.randrange(0, 4)
            spec += "[%s]" % rng.choice(["length=%d" % k, "minLength=%d" % k, "maxLength=%d" % k, "minLength=1;maxLength=%d" % (k + 1)])
        names = [n for n in toks if n in t] or ["int"]
        for _ in range(14):
            n = rng.choice([0, 1, 1, 2, 3, 4])
            items = [rng.choice(toks[rng.choice(names + (["junk"] if rng.random() < 0.2 else []))]) for _ in range(n)]
            sep = lambda: rng.choice([" ", " ", "  ", "\t", "\n"])
            text = rng.choice(["", " "]) + "".join(i + sep() for i in items)
            if rng.random() < 0.5:
                text = text.rstrip()
            add("comb", "%s %s %s" % (rng.choice(["pe", "pe", "pa"]), spec, hx(text)))



# facet inheritance through derivation steps that declare NO facet, for every variety (atomic, list, union) and every
# facet kind: base -> +facets -> (nothing) -> (nothing), a facet-less step in the middle of a chain, and lists / unions
# over such a type.  The instance is typed with the LAST type.  Oracles: the Spec (conjunction of all facets on the
# chain) where the type has one, and -- for every chain -- the verdict of the same chain without the empty steps.
FACETLESS = [
    # (base, [facet groups], values)
    ("U(int+boolean)", ["enum=1|false"], ["1", "01", "true", "false", "0", "2", "x", "xyz"]),
    ("U(decimal+token)", ["enum=1.0|a"], ["1", "1.00", "a", "b", "1.5", "2"]),
    ("U(boolean+token)", ["enum=true|x"], ["true", "1", "x", "y", "false"]),
    ("U(L(int)+boolean)", ["enum=1~2|true"], ["1 2", "01 2", "1", "2 1", "true", "false", "1 2 3"]),
    ("U(int+token)", ["pattern=(1|2|a)*"], ["12", "a", "b", "1b", ""]),
    ("L(int)", ["enum=1~2|3"], ["1 2", "01 02", "3", "1", "2 1", "1 2 3", ""]),
    ("L(int)", ["length=2"], ["1 2", "1", "1 2 3", ""]),
    ("L(decimal)", ["minLength=1;maxLength=2"], ["", "1", "1.0 2", "1 2 3"]),
    ("L(boolean)", ["maxLength=3", "minLength=2"], ["1", "1 0", "true false 1", "1 0 1 0"]),
    ("L(U(int+boolean))", ["enum=1~true|0", "length=1"], ["1 true", "0", "00", "true", "1"]),
    ("L(token)", ["pattern=a(.a)*"], ["a", "a a", "a b", "b"]),
    ("decimal", ["totalDigits=3;fractionDigits=1"], ["12.5", "123.4", "1.25", "999", "1000", "0.10"]),
    ("decimal", ["enum=1.5|2"], ["1.50", "2.0", "2.5", "+1.5"]),
    ("decimal", ["minInclusive=-5", "maxExclusive=7.5"], ["-5", "-5.1", "7.5", "7.49", "0"]),
    ("int", ["minExclusive=3;maxInclusive=9"], ["3", "4", "9", "10", "+09"]),
    ("integer", ["enum=1|2|3", "enum=2|3"], ["1", "2", "03", "4"]),
    ("positiveInteger", ["maxInclusive=4"], ["0", "1", "4", "5"]),
    ("unsignedByte", ["minInclusive=250"], ["249", "250", "255", "256"]),
    ("double", ["maxInclusive=2.5"], ["2.5", "2.50", "2.51", "1"]),
    ("double", ["enum=1|2.5"], ["1.0", "2.50", "2"]),
    ("boolean", ["pattern=true|false"], ["true", "1", "false", "0"]),
    ("string", ["length=3"], ["abc", "ab", "abcd", " a "]),
    ("string", ["whiteSpace=collapse", "length=3"], ["abc", " abc ", "a  b", "a b", "abcd"]),
    ("string", ["whiteSpace=replace", "enum=a~b"], ["a b", "a\tb", "a  b", "ab"]),
    ("token", ["minLength=2;maxLength=3"], ["a", "ab", "abc", "abcd", " ab "]),
    ("token", ["enum=a|b~c"], ["a", "b c", " b  c ", "c"]),
    ("token", ["pattern=a+b"], ["ab", "aab", "b", "abb"]),
    ("NMTOKEN", ["enum=x|y"], ["x", "y", "z"]),
    ("anyURI", ["maxLength=5"], ["a:b", "http://x/y"]),
    ("hexBinary", ["length=2"], ["0a0B", "0a", "0a0b0c", "0A0b"]),
    ("hexBinary", ["enum=0a0b"], ["0a0b", "0a", "0c0d"]),
    ("base64Binary", ["maxLength=2"], ["AAA=", "AAAA", "AA=="]),
    ("dateTime", ["minInclusive=2000-01-01T00-00-00Z"], []),     # (placeholder removed below: ':' is not usable here)
    ("date", ["enum=2000-01-01|2000-02-29"], ["2000-01-01", "2000-02-29", "2000-03-01"]),
    ("gYear", ["maxInclusive=2000"], ["1999", "2000", "2001"]),
    ("duration", ["minInclusive=P1D"], ["PT23H", "P1D", "PT24H", "P2D"]),
]


def gen_facetless(rng, tier, add, pools):
    pairs = pools.setdefault("facetless", [])
    for base, groups, vals in FACETLESS:
        if not vals:
            continue
        plain = base + "".join("[%s]" % g for g in groups)
        variants = [plain + "[]", plain + "[][]"]
        if len(groups) > 1:
            variants.append(base + "[%s][]" % groups[0] + "".join("[%s]" % g for g in groups[1:]))
        else:
            variants.append(base + "[]" + "[%s]" % groups[0])           # the empty step first: nothing to inherit yet
        ok_in_r = all(ch not in "".join(groups) for ch in ":+)")
        for v in vals:
            h = hx(v)
            op = "pe" if ("whiteSpace" in plain or rng.random() < 0.75) else "pa"
            add("facetless", "%s %s %s" % (op, plain, h))
            for sp in variants:
                add("facetless", "%s %s %s" % (op, sp, h))
                pairs.append(("%s %s %s" % (op, sp, h), "%s %s %s" % (op, plain, h)))
        # lists and unions whose item / member type is the facet-less re-derivation
        if ok_in_r and not base.startswith("L(") and "whiteSpace" not in plain and base not in ("string",):
            r0 = "R(%s%s)" % (base, "".join(":" + g for g in groups))
            for extra in (":", "::"):
                r1 = "R(%s%s%s)" % (base, "".join(":" + g for g in groups), extra)
                for outer in ("L(%s)", "U(%s+boolean)"):
                    if outer.startswith("L(") and ("L(" in base):
                        continue
                    for v in vals:
                        if " " in v and outer.startswith("L("):
                            continue
                        texts = [v] if not outer.startswith("L(") else [v, v + " " + vals[0], vals[0] + "  " + v]
                        for tx in texts:
                            a, b = "pe %s %s" % (outer % r1, hx(tx)), "pe %s %s" % (outer % r0, hx(tx))
                            add("facetless", b)
                            add("facetless", a)
                            pairs.append((a, b))


# canonical representation of float/double on the decimal-scientific model (values far from the strtod limits, so that
# XSValue does not replace them by INF / 0): leading fraction zeros (finding F40), trailing zeros with and without a
# point, signs, both exponent markers, exponent signs / leading zeros, zeros of every shape, the special values
FLOAT_CANON = ["0.001", "0.01", "0.1", "1", "10", "100", "1.50", "0.0010", "00.001", "-0.001", ".001", "0.001E0", "1E-3", "0012.3400", "000",
               "0.0", "-0", "+0.0", "100E2", "0100", "+5", "12.", ".5e1", "0.00100", "0.01E-1", "0.1E-2", "1.0E-3", "-.05e+07", "5e-0", "0e5",
               "0.0e-3", "-0.000E12", "INF", "-INF", "NaN", "1.0E0", "9.99E2", "-1.0E-10", "1200e-2", "0.0E0", "1.E1", "123456789.0123456789",
               "0.000000000000000000001", "100000000000000000000", "1e", "e1", ".", "-.", "1.2.3", "1E1E1", "+INF", "1e1.0"]


def gen_float_canon(rng, tier, add, pools):
    thorough = tier == "thorough"
    lits = list(FLOAT_CANON)
    for _ in range(1500 if thorough else 250):
        ip = "".join(rng.choice("0000123456789") for _ in range(rng.randrange(0, 5)))
        fp = "".join(rng.choice("0000123456789") for _ in range(rng.randrange(0, 6)))
        m = rng.choice(["", "", "-", "+"]) + (ip + ("." + fp if (fp or rng.random() < 0.2) else "") if (ip or fp) else "0")
        if rng.random() < 0.55:
            m += rng.choice("eE") + rng.choice(["", "+", "-", "-", "-0", "00"]) + str(rng.randrange(0, 25))
        lits.append(m)
    for l in lits:
        t = rng.choice(["double", "float"])
        add("flt-canon", "xsc %s %s" % (t, hx(l)))
        add("flt-canon", "can %s %s" % (t, hx(l)))
    for l in rng.sample(lits, 20):
        add("flt-canon", "xsc double " + hx(with_ws(rng, l)))

# ------------------------------------------------------------------------------------------------------------
def gen_cases(rng, tier):
    cases = []
    seen = set()

    def add(kind, line):
        if line not in seen:
            seen.add(line)
            cases.append((kind, line))
    pools = {}
    gen_decimal(rng, tier, add, pools)
    gen_binary(rng, tier, add, pools)
    gen_datetime(rng, tier, add, pools)
    gen_whitespace(rng, tier, add, pools)
    gen_chains(rng, tier, add, pools)
    gen_dt_order(rng, tier, add, pools)
    gen_float(rng, tier, add, pools)
    gen_date(rng, tier, add, pools)
    gen_duration(rng, tier, add, pools)
    gen_b64_padding(rng, tier, add, pools)
    gen_gtypes(rng, tier, add, pools)
    gen_list_enum(rng, tier, add, pools)
    gen_canon_boundaries(rng, tier, add, pools)
    gen_combinators(rng, tier, add, pools)
    gen_facetless(rng, tier, add, pools)
    gen_float_canon(rng, tier, add, pools)
    return cases, pools


def type_base(spec):
    return spec.split("[", 1)[0]


GTYPES = ("gYear", "gYearMonth", "gMonthDay", "gDay", "gMonth", "time")
DEC_LIKE = {"decimal", "double", "integer", "nonPositiveInteger", "negativeInteger", "nonNegativeInteger", "positiveInteger",
            "long", "int", "short", "byte", "unsignedLong", "unsignedInt", "unsignedShort", "unsignedByte"}


def oracle_request(req):
    """the spec_* request that judges this request (None when there is no oracle)"""
    a = req.split()
    op = a[0]
    if op in ("pe", "pa") and (a[1].startswith("L(") or a[1].startswith("U(")):
        return "spec_comb %s %s" % (a[1], a[2])
    if a[1] in GTYPES:
        if op in ("xsv", "pe") and (a[1], a[2]) in EQUIV:
            return "spec_dt " + EQUIV[(a[1], a[2])]
        if op == "cmp" and (a[1], a[2]) in EQUIV and (a[1], a[3]) in EQUIV:
            return "spec_dt_order %s %s" % (EQUIV[(a[1], a[2])], EQUIV[(a[1], a[3])])
        return None
    if op in ("xsv", "pe", "pa", "dv") and type_base(a[1]) == "duration":
        if op == "dv" and collapse(unhx(a[2])) != unhx(a[2]):
            return None
        u = "".join(chr(c) for c in collapse(unhx(a[2])))
        import re as _re
        if any(len(x) > 9 for x in _re.findall(r"[0-9]+", u + a[1])):
            return None       # numbers are C ints
        return "spec_dur %s %s" % (a[1], a[2])
    if op == "cmp" and a[1] == "duration":
        return "spec_dur_order %s %s" % (a[2], a[3])
    if op in ("xsv", "pe", "pa") and a[1] == "date":
        u = collapse(unhx(a[2]))
        k = 1 if u[:1] == [0x2D] else 0
        n = 0
        while k + n < len(u) and 0x30 <= u[k + n] <= 0x39:
            n += 1
        return None if n > 9 else "spec_date " + a[2]
    if op in ("xsv", "pe", "pa", "xsc") and a[1] in ("double", "float"):
        return "spec_float " + a[2]
    if op == "can" and a[1] in ("double", "float"):
        return "spec_float " + a[2] if collapse(unhx(a[2])) == unhx(a[2]) else None
    if op == "cmp" and a[1] in ("double", "float"):
        return "spec_float_order %s %s" % (a[2], a[3])
    if op == "pc":
        return "spec_ws %s %s" % (a[1], a[2])
    if op == "pb":
        return "spec_wsb %s %s" % (a[1], a[2])
    if op in ("xsv", "dv", "pe", "pa") and type_base(a[1]) in DEC_LIKE and type_base(a[1]) != "decimal":
        if op == "dv" and collapse(unhx(a[2])) != unhx(a[2]):
            return None
        return "spec_dec_valid %s %s" % (a[1], a[2])
    if op in ("dv", "pe", "pa") and type_base(a[1]) == "dateTime" and "[" in a[1]:
        if op == "dv" and collapse(unhx(a[2])) != unhx(a[2]):
            return None
        return "spec_dt_valid %s %s" % (a[1], a[2])
    if op == "cmp" and a[1] == "dateTime":
        return "spec_dt_order %s %s" % (a[2], a[3])
    if op in ("xsc", "can") and a[1] == "dateTime":
        return "spec_dt " + a[2]
    if op in ("xsc", "can") and a[1] == "date":
        return "spec_date " + a[2]
    if op in ("xsc", "can") and a[1] == "time":
        return "spec_time " + a[2]
    if op == "xsv" and a[1] == "decimal":
        return "spec_dec_valid decimal " + a[2]
    if op in ("dv", "pe", "pa") and type_base(a[1]) == "decimal":
        if op == "dv" and collapse(unhx(a[2])) != unhx(a[2]):
            return None       # validate() is specified on whitespace-processed input only
        return "spec_dec_valid %s %s" % (a[1], a[2])
    if op == "cmp" and type_base(a[1]) == "decimal":
        return "spec_dec_order %s %s" % (a[2], a[3])
    if op in ("xsc", "can") and type_base(a[1]) == "decimal":
        return "spec_dec_valid %s %s" % (a[1] if op == "can" else "decimal", a[2])
    if op in ("xsv", "dv", "pe", "pa", "xsc", "can") and type_base(a[1]) in ("hexBinary", "base64Binary"):
        if op in ("dv", "can") and collapse(unhx(a[2])) != unhx(a[2]):
            return None
        if op == "xsc" and not collapse(unhx(a[2])):
            return None       # XSValue reports "no content" for the empty literal: no canonical form is asked for
        return "spec_bin_valid %s %s" % (a[1], a[2])
    if op in ("xsv", "dv", "pe", "pa") and a[1] == "dateTime":
        if op == "dv" and collapse(unhx(a[2])) != unhx(a[2]):
            return None
        u = collapse(unhx(a[2]))
        k = 1 if u[:1] == [0x2D] else 0
        n = 0
        while k + n < len(u) and 0x30 <= u[k + n] <= 0x39:
            n += 1
        if n > 9:
            return None       # implementation limit (years are C ints); the Spec claim is for years of at most 9 digits
        return "spec_dt " + a[2]
    if op == "b64":
        return "spec_bin_value base64Binary " + a[1]
    if op in ("xsv", "dv", "pe", "pa", "xsc") and a[1] == "boolean":
        if op == "dv" and collapse(unhx(a[2])) != unhx(a[2]):
            return None
        return "spec_bool " + a[2]
    if op == "cmp" and a[1] == "boolean":
        return "spec_bool " + a[2]
    return None


def spec_judgement(req, impl, spec):
    """'ok' | 'violates' | None"""
    if spec is None:
        return None
    a = req.split()
    op = a[0]
    if op in ("pc", "pb"):
        if impl == "invalid":
            return "ok" if spec.startswith("0") else "violates"
        if impl.startswith("valid"):
            # verdict and the schema-normalised value delivered to the application
            return "ok" if spec == "1 " + impl.split()[1] else "violates"
        return "violates"
    if op == "cmp" and a[1] in ("double", "float"):
        if spec in ("notlex", "none"):
            return None
        return "ok" if impl == spec else "violates"
    if op == "cmp" and a[1] == "duration":
        if spec == "notlex":
            return None
        want = "-1" if spec == "2" else spec
        return "ok" if impl == want else "violates"
    if op == "cmp" and (a[1] == "dateTime" or a[1] in GTYPES):
        if spec == "notlex":
            return None
        want = "-1" if spec == "2" else spec       # DateTimeValidator::compare reports INDETERMINATE as -1
        return "ok" if impl == want else "violates"
    if op in ("pe", "pa") and spec == "none":
        return None
    if op in ("xsv", "dv", "pe", "pa"):
        v = {"1": True, "valid": True, "0": False, "invalid": False}.get(impl.split()[0] if impl else "")
        if v is None:
            return "violates"
        return "ok" if v == (spec.split()[0] == "1") else "violates"
    if op == "cmp" and a[1] == "boolean":
        return None
    if op == "cmp":
        if spec == "notlex":
            return "ok" if impl.startswith("err") else "violates"
        return "ok" if impl == spec else "violates"
    if op in ("xsc", "can"):
        # canonical form exists iff the literal is valid; its own properties are judged by the follow-ups
        return "ok" if (impl.startswith("ok")) == (spec.split()[0] == "1") else "violates"
    if op == "b64":
        if collapse(unhx(a[1])) != unhx(a[1]):
            return None
        if a[1] == "-":
            return "ok" if impl == "null" else "violates"      # the decoder has no empty result; callers special-case it
        return "ok" if impl == spec else "violates"
    return None


def attribute(req, mode):
    """the listed finding a Spec violation on this request belongs to (precise predicates), or None"""
    a = req.split()
    if len(a) > 2 and a[1] in GTYPES and all((a[1], h) in EQUIV for h in a[2:]):
        # same code paths as dateTime: classify the equivalent dateTime request
        return attribute(" ".join([a[0], "dateTime"] + [EQUIV[(a[1], h)] for h in a[2:]]), mode)
    if a[0] in ("xsv", "dv", "pe", "pa", "xsc", "can", "cmp") and type_base(a[1]) == "decimal":
        for h in a[2:]:
            u = collapse(unhx(h))
            if u and u[0] in (0x2B, 0x2D):
                u = u[1:]
            if u == [0x2E]:
                return "F10"        # the literal is an optional sign followed by a lone '.'
    base = type_base(a[1]) if len(a) > 1 else ""
    if "U(" in base and "enum=" in a[1]:
        return "F38"                # enumeration / equality on a union ignores which member type a literal belongs to
    if base == "duration":
        import re as _re
        texts = ["".join(chr(c) for c in collapse(unhx(h))) for h in a[2:]]
        facet = a[1]
        if a[0] != "cmp" and "[" not in a[1]:
            body = texts[0].lstrip("-")
            if _re.search(r"(?<![0-9])[YMDHS.]", body[1:].replace("T", "")) or _re.search(r"T[YMDHS.]", body):
                return "F35"        # a designator (or the decimal point) that is not preceded by a digit
            return None
        if any("." in t for t in texts) or "." in facet:
            return "F36"            # fractional seconds are ignored by compare
        if any(t.startswith("-") for t in texts) or "=-" in facet:
            return "F37"            # negative durations go through time-zone normalisation in the EQUAL shortcut
        return None
    if a[0] in ("xsc", "can") and base in ("double", "float"):
        u = collapse(unhx(a[2]))
        m = []
        for ch in u:
            if ch in (0x45, 0x65):
                break
            m.append(ch)
        t = "".join(chr(ch) for ch in m).lstrip("+-")
        ip, _, fp = t.partition(".")
        if ip.strip("0") == "" and fp[:1] == "0" and fp.strip("0") != "":
            return "F40"            # value below 0.1 written with zeros right after the point: manBuf keeps them
        return None
    if a[0] == "cmp" and base in ("double", "float"):
        return "F34"                # one operand NaN: -1 * INDETERMINATE = -2 is returned
    if "double" in base or "float" in base:
        toks = [t for t in "".join(chr(u) if u not in WS else " " for u in unhx(a[2])).split(" ") if t] if a[0] != "cmp" else []
        if any(t in ("+.", "-.") for t in toks):
            return "F33"            # a sign followed by a lone '.' is rewritten to a zero by normalizeZero
    if base in ("date", "time") and a[0] in ("xsc", "can"):
        u = collapse(unhx(a[2]))
        t = "".join(chr(c) for c in u)
        zoned = t.endswith("Z") or (len(t) > 6 and t[-6] in "+-" and t[-3] == ":")
        if base == "date" and zoned and t.lstrip("-")[:5] in ("0001-",) :
            return "F32"            # year 0001 / -0001 next to the non-existent year 0000
        if base == "time" and t.startswith("24"):
            return None
        return None
    if base in ("dateTime", "date") and a[0] in ("xsc", "can") and collapse(unhx(a[2]))[:1] == [0x2D] and mode.get("f39", 0) == 0:
        return "F39"                # canonical form of a negative year
    if base == "dateTime" and a[0] in ("cmp", "xsc", "can"):
        def zoned(u):
            return u[-1:] == [0x5A] or (len(u) > 6 and u[-6] in (0x2B, 0x2D) and u[-3] == 0x3A)
        us = [collapse(unhx(h)) for h in a[2:]]
        for u in us:
            t = u.index(0x54) if 0x54 in u else -1
            if t >= 0 and u[t + 1:t + 3] == [0x32, 0x34]:
                return "F31"        # hour 24 is kept as is (not the following day's 00:00:00)
        if a[0] == "cmp" and len(us) == 2 and zoned(us[0]) != zoned(us[1]):
            return "F30"
        y0 = us[0][1:] if us[0][:1] == [0x2D] else us[0]
        if a[0] in ("xsc", "can") and y0[:5] == [0x30, 0x30, 0x30, 0x31, 0x2D] and zoned(us[0]):
            return "F32"        # a zoned value of year 0001: normalisation may step into the non-existent year 0000
    if base == "dateTime" and a[0] != "cmp":
        u = collapse(unhx(a[2]))
        t = u.index(0x54) if 0x54 in u else -1
        if t >= 0 and u[t + 7:t + 9] == [0x36, 0x30]:
            return "F11"            # the seconds field is 60
        if t >= 0 and len(u) > t + 10 and u[t + 9] == 0x2E and u[t + 10] in (0x5A, 0x2B, 0x2D):
            return "F29"            # '.' directly followed by the time zone: empty fraction
    if a[0] == "b64" or base == "base64Binary":
        u = unhx(a[-1])
        if any(c > 0xFF for c in u):
            return "F12"            # a code unit above U+00FF is narrowed to its low byte
        if 0xFF in u:
            return "F26"            # U+00FF indexes one past base64Inverse[BASELENGTH = 255]
        if a[0] == "can":
            return "F28"
    if base == "hexBinary":
        if a[0] == "can":
            return "F28"            # DatatypeValidator::getCanonicalRepresentation returns the raw string
        if "enum=" in a[1] and a[0] in ("dv", "pe", "pa"):
            return "F27"            # enumeration of hexBinary is compared as strings (case sensitive)
    return None


XSV_TYPES = DEC_LIKE - {"double"}


def followups(req, impl, spec=None):
    """(target, request, expected answer, what, original request)"""
    a = req.split()
    out = []
    if a[0] in ("pc", "pb") and spec and type_base(a[1]) in XSV_TYPES and "[" not in a[1] and impl.split()[0] in ("valid", "invalid"):
        # XSValue::validate on the Spec-normalised string must give the in-parse verdict
        norm = spec.split()[1]
        if norm != "-":
            out.append(("impl", "xsv %s %s" % (a[1], norm), "1" if impl.startswith("valid") else "0",
                        "XSValue::validate on the whitespace-normalised value disagrees with in-parse validation", req))
    if a[0] in ("xsc", "can") and a[1] in ("date", "time") and impl.startswith("ok "):
        c = impl.split()[1]
        out.append(("spec", "spec_%s_canon %s %s" % (a[1], a[2], c), "1",
                    "canonical representation of the %s is not the canonical literal of the same value" % a[1], req))
        out.append(("impl", "xsc %s %s" % (a[1], c), "ok " + c, "canonical representation is not idempotent", req))
        out.append(("impl", "can %s %s" % (a[1], c), "ok " + c, "canonical representation (validator) is not idempotent", req))
    if a[0] in ("xsc", "can") and a[1] == "dateTime" and impl.startswith("ok "):
        c = impl.split()[1]
        out.append(("spec", "spec_dt_canon %s %s" % (a[2], c), "1",
                    "canonical representation of the dateTime is not the canonical literal of the same instant", req))
        out.append(("impl", "xsc dateTime " + c, "ok " + c, "canonical representation is not idempotent", req))
    if a[0] in ("xsc", "can") and type_base(a[1]) == "decimal" and impl.startswith("ok "):
        c = impl.split()[1]
        out.append(("spec", "spec_dec_canon %s %s" % (a[2], c), "1",
                    "canonical representation is not a canonical literal of the same value", req))
        out.append(("impl", "xsc decimal " + c, "ok " + c, "canonical representation is not idempotent", req))
    if a[0] in ("xsc", "can") and a[1] in ("double", "float") and impl.startswith("ok "):
        c = impl.split()[1]
        out.append(("spec", "spec_float_canon %s %s" % (a[2], c), "1",
                    "canonical representation of the %s is not the canonical literal (3.2.4.2) of the same value" % a[1], req))
        out.append(("impl", "%s %s %s" % (a[0], a[1], c), "ok " + c, "canonical representation is not idempotent", req))
    return out + followups_bin(req, impl)


def followups_bin(req, impl):
    a = req.split()
    out = []
    if a[0] in ("xsc", "can") and type_base(a[1]) in ("hexBinary", "base64Binary") and impl.startswith("ok "):
        c = impl.split()[1]
        b = type_base(a[1])
        out.append(("spec", "spec_bin_canon %s %s %s" % (b, a[2], c), "1",
                    "canonical representation is not a canonical literal of the same value", req))
        out.append(("impl", "xsc %s %s" % (b, c), "ok " + c, "canonical representation is not idempotent", req))
    return out


def f39_overflow(req):
    a = req.split()
    return len(a) == 3 and a[0] in ("xsc", "can") and a[1] == "date" and collapse(unhx(a[2]))[:1] == [0x2D]


def nontrivial(req, impl):
    a = req.split()
    if a[0] in ("pc", "pb"):
        return True
    if len(a) < 3:
        return impl != "null"
    if "[" in a[1]:
        return True
    return not (impl in ("1", "valid"))


def consistency(byreq, pools):
    """checks on the implementation's own answers.  yields (what, requests, detail)"""
    out = []
    stats = {}
    # (a) XSValue verdict == DatatypeValidator verdict == in-parse verdict (element and attribute)
    n = 0
    for pname in sorted(pools):
        if not pname.endswith("-agree") or pname == "dec-agree":
            continue
        t = pname[:-6]
        for h in pools[pname]:
            rs = ["xsv %s %s" % (t, h), "pe %s %s" % (t, h), "pa %s %s" % (t, h)]
            vs = [byreq.get(r) for r in rs]
            if None in vs or "skip" in vs or attribute(rs[0], {}):
                continue          # (strings of a listed finding are judged one by one against the Spec instead)
            n += 1
            b = [vs[0] == "1", vs[1] == "valid", vs[2] == "valid"]
            if len(set(b)) != 1:
                out.append(("XSValue::validate and in-parse validation disagree", rs, "verdicts %s" % b))
    for h in pools.get("dec-agree", []):
        rs = ["xsv decimal " + h, "pe decimal " + h, "pa decimal " + h]
        vs = [byreq.get(r) for r in rs]
        if None in vs or "skip" in vs:
            continue
        n += 1
        b = [vs[0] == "1", vs[1] == "valid", vs[2] == "valid"]
        if len(set(b)) != 1:
            out.append(("XSValue::validate and in-parse validation disagree", rs, "verdicts %s" % b))
        # canonical forms of the two APIs agree
        c1, c2 = byreq.get("xsc decimal " + h), byreq.get("can decimal " + h)
        if c1 is not None and c2 is not None and collapse(unhx(h)) == unhx(h) and c1 != c2:
            out.append(("XSValue and DatatypeValidator canonical forms differ", ["xsc decimal " + h, "can decimal " + h], ""))
    stats["api_agreement_strings"] = n
    # (b) order axioms over the pool
    pool = pools.get("dec-order", [])
    c = {}
    for x in pool:
        for y in pool:
            r = byreq.get("cmp decimal %s %s" % (x, y))
            try:
                c[(x, y)] = int(r)
            except (TypeError, ValueError):
                c[(x, y)] = None
    trip = 0
    for x in pool:
        if c[(x, x)] != 0:
            out.append(("compare not reflexive", ["cmp decimal %s %s" % (x, x)], ""))
        for y in pool:
            if c[(x, y)] is None or c[(y, x)] is None or c[(x, y)] != -c[(y, x)] or c[(x, y)] not in (-1, 0, 1):
                out.append(("compare not antisymmetric / out of range", ["cmp decimal %s %s" % (x, y), "cmp decimal %s %s" % (y, x)], ""))
                continue
            for z in pool:
                trip += 1
                if c[(x, y)] is not None and c[(y, z)] is not None and c[(x, y)] <= 0 and c[(y, z)] <= 0:
                    want_lt = c[(x, y)] < 0 or c[(y, z)] < 0
                    if c[(x, z)] is None or c[(x, z)] > 0 or (want_lt and c[(x, z)] != -1) or (not want_lt and c[(x, z)] != 0):
                        out.append(("compare not transitive", ["cmp decimal %s %s" % (x, y), "cmp decimal %s %s" % (y, z),
                                                               "cmp decimal %s %s" % (x, z)], ""))
    stats["decimal_pool"] = len(pool)
    stats["decimal_triples"] = trip
    # (c) dateTime: partial order with INDETERMINATE (2); axioms on the implementation's own answers
    pool = pools.get("dt-order", [])
    c = {}
    for x in pool:
        for y in pool:
            r = byreq.get("cmp dateTime %s %s" % (x, y))
            try:
                c[(x, y)] = int(r)
            except (TypeError, ValueError):
                c[(x, y)] = None
    # DateTimeValidator::compare reports INDETERMINATE as -1: a pair answering -1 in both directions is indeterminate
    for x in pool:
        for y in pool:
            if x < y and c[(x, y)] == -1 and c[(y, x)] == -1:
                c[(x, y)] = c[(y, x)] = 2
    def zoned(h):
        u = unhx(h)
        return u[-1:] == [0x5A] or (len(u) > 6 and u[-6] in (0x2B, 0x2D) and u[-3] == 0x3A)
    f30 = []
    for x in pool:
        for y in pool:
            if c[(x, y)] == 0 and zoned(x) != zoned(y):
                f30.append("cmp dateTime %s %s" % (x, y))      # a zoned and an unzoned value are never equal (3.2.7.4)
                c[(x, y)] = 2
    if f30:
        out.append(("KNOWN:F30", f30[:2], "%d pairs" % len(f30)))
    stats["dateTime_indeterminate_pairs"] = sum(1 for v in c.values() if v == 2) // 2
    trip = 0
    for x in pool:
        if c.get((x, x)) != 0:
            out.append(("dateTime compare not reflexive", ["cmp dateTime %s %s" % (x, x)], ""))
        for y in pool:
            a, b = c[(x, y)], c[(y, x)]
            if a is None or b is None or a not in (-1, 0, 1, 2) or (a == 2) != (b == 2) or (a != 2 and a != -b):
                out.append(("dateTime compare not antisymmetric", ["cmp dateTime %s %s" % (x, y), "cmp dateTime %s %s" % (y, x)], ""))
                continue
            if a not in (-1, 0):
                continue
            for z in pool:
                trip += 1
                d = c[(y, z)]
                if d in (-1, 0):
                    e = c[(x, z)]
                    want = -1 if (a == -1 or d == -1) else 0
                    if e != want:
                        out.append(("dateTime compare not transitive", ["cmp dateTime %s %s" % (x, y), "cmp dateTime %s %s" % (y, z),
                                                                        "cmp dateTime %s %s" % (x, z)], "expected %d" % want))
    stats["dateTime_pool"] = len(pool)
    stats["dateTime_triples"] = trip
    # (d) a derivation step that declares no facet changes nothing: same verdict as the chain without it
    nfl = 0
    for with_empty, plain in pools.get("facetless", []):
        x, y = byreq.get(with_empty), byreq.get(plain)
        if x in ("valid", "invalid") and y in ("valid", "invalid"):
            nfl += 1
            if x != y:
                out.append(("a restriction step without facets changed the verdict (facets of the base are not inherited)",
                            [with_empty, plain], "%s vs %s" % (x, y)))
    stats["facetless_pairs"] = nfl
    last_axiom_stats.clear()
    last_axiom_stats.update(stats)
    return out[:20]
