"""C08 case generators, third part: one element against its declaration (xsi:nil / value constraints / content type),
processContents over element trees, the overlap test of the UPA check, restrictions that omit base particles.
Every case carries "custom": <tag>; checks/C08.py evaluates them (custom_eval)."""
import itertools

import C08_gen as G

HDR = ('<xs:schema xmlns:xs="%s" xmlns:t="urn:t" xmlns:u="urn:u" targetNamespace="urn:t" '
       'elementFormDefault="qualified"><xs:import namespace="urn:u" schemaLocation="u.xsd"/>' % G.XSD)


def san(s):
    out = ""
    for ch in s:
        if ch.isalnum() and ord(ch) < 128 or ch in "_.-:":
            out += ch
        else:
            out += "\\u%04X" % ord(ch)
    return out


def inst(body, rootattrs=""):
    return ('<t:r xmlns:t="urn:t" xmlns:u="urn:u" xmlns:v="urn:v" xmlns:xsi="%s"%s>%s</t:r>' % (G.XSI, rootattrs, body))


# ---- one element against its declaration --------------------------------------------------------------------------
ELEM_KINDS = {
    "e": ("e", "<xs:complexType/>", lambda nk: True),
    "s": ("s", None, lambda nk: True),
    "o": ("o", '<xs:complexType><xs:sequence><xs:element ref="t:a" minOccurs="0"/></xs:sequence></xs:complexType>', lambda nk: nk <= 1),
    "O": ("o", '<xs:complexType><xs:sequence><xs:element ref="t:a"/></xs:sequence></xs:complexType>', lambda nk: nk == 1),
    "m": ("m", '<xs:complexType mixed="true"><xs:sequence><xs:element ref="t:a" minOccurs="0"/></xs:sequence></xs:complexType>', lambda nk: nk <= 1),
}
BODIES = [("", 0, ""), (" ", 0, " "), ("abc", 0, "abc"), ("xyz", 0, "xyz"), ("<t:a/>", 1, ""), ("abc<t:a/>", 1, "abc"),
          ("<!--c-->", 0, ""), ("<t:a/><t:a/>", 2, ""), (" <t:a/> ", 1, "  "), ("<?p q?>", 0, ""), ("ab<!--x-->c", 0, "abc"),
          ("\n", 0, "\n")]


def elem_cases(rng, thorough):
    cases = []
    for key, (mk, ct, cmok) in ELEM_KINDS.items():
        for nillable in (1, 0):
            for vc in ("n", "d", "f"):
                if vc != "n" and mk not in ("s", "m"):
                    continue
                attrs = ' nillable="%s"' % ("true" if nillable else "false")
                if vc == "d":
                    attrs += ' default="abc"'
                elif vc == "f":
                    attrs += ' fixed="abc"'
                if ct is None:
                    attrs += ' type="xs:string"'
                doc = (HDR + '<xs:element name="r"><xs:complexType><xs:sequence><xs:element ref="t:c"/></xs:sequence>'
                       '</xs:complexType></xs:element><xs:element name="c"%s>%s</xs:element>'
                       '<xs:element name="a" type="xs:string"/></xs:schema>' % (attrs, ct or ""))
                items, insts, texts = [], [], []
                bodies = BODIES if thorough else BODIES[:9] + [rng.choice(BODIES[9:])]
                for nil, na in (("a", ""), ("t", ' xsi:nil="true"'), ("f", ' xsi:nil="false"'), ("t", ' xsi:nil=" true "')):
                    if na == ' xsi:nil=" true "' and not thorough and rng.random() < 0.6:
                        continue
                    for body, nk, text in bodies:
                        items.append("%s %d %d %s" % (nil, nk, 1 if cmok(nk) else 0, G.hx(text)))
                        insts.append(inst("<t:c%s>%s</t:c>" % (na, body)))
                        texts.append(text)
                model = "ev %s %d %s %s ; %s" % (mk, nillable, vc, G.hx("abc" if vc != "n" else ""), " ; ".join(items))
                req = G.request(model, [("main.xsd", doc), ("u.xsd", G.U_XSD)], "main.xsd", insts)
                cases.append({"kind": "element-decl-%s-%s%s" % (key, vc, "-nillable" if nillable else ""), "request": req,
                              "n": len(items), "custom": "ev", "strict_penalty": [False] * len(items),
                              "info": {"kind": key, "nillable": nillable, "vc": vc}})
    return cases


# ---- processContents over element trees --------------------------------------------------------------------------
def pc_schema():
    t = ""
    for nm, pc in (("s", "skip"), ("l", "lax"), ("x", "strict")):
        t += ('<xs:element name="%s"><xs:complexType><xs:sequence><xs:any namespace="##any" processContents="%s" '
              'minOccurs="0" maxOccurs="unbounded"/></xs:sequence><xs:attribute name="k" type="xs:string" use="required"/>'
              '</xs:complexType></xs:element>' % (nm, pc))
    return HDR + t + "</xs:schema>"


def pc_tree(rng, depth, how, validate_hint=True):
    """-> (xml text, model tokens, pc for the children)"""
    r = rng.random()
    declared = r < 0.7
    if declared:
        name = rng.choice("slx")
        ok = rng.random() < 0.7
        child_how = {"s": "S", "l": "L", "x": "X"}[name]
        open_ = '<t:%s%s>' % (name, ' k="1"' if ok else "")
        close = "</t:%s>" % name
    else:
        name = rng.choice(["t:zz", "v:zz", "zz"])
        ok = True
        child_how = "L"            # faulted-in declaration of type "any": children are processed laxly
        open_, close = "<%s>" % name, "</%s>" % name
    kids = []
    if depth > 0:
        for _ in range(rng.choice([0, 1, 1, 2, 2, 3])):
            kids.append(pc_tree(rng, depth - 1, child_how))
    xml = open_ + "".join(k[0] for k in kids) + close
    toks = "( %s %d %d %s )" % (how, 1 if declared else 0, 1 if ok else 0, " ".join(k[1] for k in kids))
    return xml, toks


def pc_cases(rng, thorough):
    cases = []
    doc = pc_schema()
    n = 400 if thorough else 90
    for i in range(n):
        root = rng.choice("slx")
        ok = rng.random() < 0.85
        child_how = {"s": "S", "l": "L", "x": "X"}[root]
        kids = [pc_tree(rng, rng.choice([1, 2, 3]), child_how) for _ in range(rng.choice([1, 2, 3]))]
        xml = ('<t:%s xmlns:t="urn:t" xmlns:v="urn:v"%s>%s</t:%s>' % (root, ' k="1"' if ok else "", "".join(k[0] for k in kids), root))
        toks = "( D 1 %d %s )" % (1 if ok else 0, " ".join(k[1] for k in kids))
        req = G.request("pw " + toks, [("main.xsd", doc), ("u.xsd", G.U_XSD)], "main.xsd", [xml])
        cases.append({"kind": "process-contents-tree", "request": req, "n": 1, "custom": "pw", "strict_penalty": [False],
                      "info": {"tree": toks}})
    return cases


# ---- the overlap test of the UPA check ----------------------------------------------------------------------------
UPA_LEAVES = [("E 2 1", '<xs:element name="a" type="xs:string"/>'), ("E 2 2", '<xs:element name="b" type="xs:string"/>'),
              ("E 3 6", '<xs:element ref="u:x"/>'),
              ("W any", '<xs:any namespace="##any" processContents="skip"/>'),
              ("W not 2", '<xs:any namespace="##other" processContents="skip"/>'),
              ("W ns 1", '<xs:any namespace="##local" processContents="skip"/>'),
              ("W ns 2", '<xs:any namespace="##targetNamespace" processContents="skip"/>'),
              ("W ns 3", '<xs:any namespace="urn:u" processContents="skip"/>'),
              ("W ns 4", '<xs:any namespace="urn:v" processContents="skip"/>')]


def upa_cases(rng, thorough):
    cases = []
    pairs = list(itertools.product(range(len(UPA_LEAVES)), repeat=2))
    for i, j in pairs:
        (m1, x1), (m2, x2) = UPA_LEAVES[i], UPA_LEAVES[j]
        for shape in ("choice", "optseq"):
            if shape == "optseq" and not thorough and rng.random() < 0.5:
                continue
            if shape == "choice":
                body = "<xs:choice>%s%s</xs:choice>" % (x1, x2)
            else:
                body = "<xs:sequence>%s%s</xs:sequence>" % (x1.replace("/>", ' minOccurs="0"/>', 1), x2)
            doc = HDR + '<xs:element name="r"><xs:complexType>%s</xs:complexType></xs:element></xs:schema>' % body
            req = G.request("uc %s %s" % (m1, m2), [("main.xsd", doc), ("u.xsd", G.U_XSD)], "main.xsd", [])
            cases.append({"kind": "upa-overlap-" + shape, "request": req, "n": 0, "custom": "uc",
                          "info": {"leaves": [m1, m2], "shape": shape}})
    return cases


# ---- restrictions that omit particles of the base sequence (3.9.6 Particle Derivation OK, Recurse) ---------------
def restr_cases(rng, thorough):
    E = lambda m, n, q: ("E", m, n, q, "local")
    a, b, c, d, e, x, y = (2, 1), (2, 2), (2, 3), (2, 4), (2, 5), (2, 6), (2, 7)
    C = lambda m, n, kids: ("C", m, n, kids, "inline")
    S = lambda m, n, kids: ("S", m, n, kids, "inline")
    p1s = [C(1, 1, [E(0, 1, b), E(1, 1, c)]), C(1, 1, [E(1, 1, b), E(1, 1, c)]), C(0, 1, [E(1, 1, b), E(1, 1, c)]),
           E(0, 1, b), E(1, 1, b), E(0, -1, b), E(2, 3, b), C(1, 1, [E(0, -1, b), E(1, 1, c)]),
           C(1, 1, [S(1, 1, [E(0, 1, b), E(0, 1, c)]), E(1, 1, y)]), C(1, 1, [S(1, 1, [E(1, 1, b), E(0, 1, c)]), E(1, 1, y)])]
    p3s = [E(0, 1, e), E(1, 1, e), C(1, 1, [E(0, 1, x), E(1, 1, e)]), C(1, 1, [E(1, 1, x), E(1, 1, e)])]
    combos = []
    for p1 in p1s:
        for p3 in p3s:
            for k1, k2, k3 in itertools.product((0, 1), repeat=3):
                if 1 + k1 + k2 + k3 < 2 or (k1 and k2 and k3):
                    continue
                combos.append((p1, p3, (1, k1, k2, k3)))
    if not thorough:
        rng.shuffle(combos)
        # always keep the two canonical shapes: omitted choice emptiable through a child / not emptiable, a particle kept after it
        fixed = [(p1s[0], p3s[0], (1, 0, 1, 1)), (p1s[1], p3s[0], (1, 0, 1, 1)), (p1s[8], p3s[2], (1, 0, 1, 0)),
                 (p1s[0], p3s[2], (1, 0, 1, 0)), (p1s[7], p3s[1], (1, 0, 1, 1))]
        combos = fixed + combos[:70]
    words = G.exhaustive([a, b, c, d, e], 4, 260)
    cases = []
    for p1, p3, keep in combos:
        parts = [E(1, 1, a), p1, E(1, 1, d), p3]
        sc = G.Schema()
        sc.uses_u = True
        base = "".join(sc.render_particle(p) for p in parts)
        der = "".join(sc.render_particle(p) for p, k in zip(parts, keep) if k)
        types = ('<xs:complexType name="B"><xs:sequence>%s</xs:sequence></xs:complexType>'
                 '<xs:complexType name="D"><xs:complexContent><xs:restriction base="t:B"><xs:sequence>%s</xs:sequence>'
                 '</xs:restriction></xs:complexContent></xs:complexType>' % (base, der))
        doc = sc.document('<xs:element name="r" type="t:B"/>', types)
        model = "pr 4 %s ; %s" % (" ".join("%d %s" % (k, G.model_particle(p)) for p, k in zip(parts, keep)),
                                  " ; ".join(",".join(G.qtext(q) for q in w) or "-" for w in words))
        req = G.request(model, [("main.xsd", doc), ("u.xsd", G.U_XSD)], "main.xsd", [])
        cases.append({"kind": "restriction-omits-particles", "request": req, "n": 0, "custom": "pr",
                      "info": {"parts": [G.model_particle(p) for p in parts], "keep": list(keep)}})
    return cases
