"""Typed schema model, schema/instance renderers and case generators for C08.

A *case* is one request line:   <model part> | X <docs> <main> <n> <instances>
The model part carries what the generator knows about the governing declaration (content particle / all-group /
attribute declarations) and, per instance, what the model needs (child names / attribute sets); the implementation
part carries the schema documents and the instance documents as text.

Namespaces (uri ids used in the model part):  1 = absent, 2 = urn:t (main schema, prefix t), 3 = urn:u (imported
schema u.xsd, prefix u), 4 = urn:v (no schema known).  Local names: 1..8 = a b c d e x y z.
"""
import itertools

NS = {1: None, 2: "urn:t", 3: "urn:u", 4: "urn:v"}
PFX = {2: "t", 3: "u", 4: "v"}
LOCAL = {1: "a", 2: "b", 3: "c", 4: "d", 5: "e", 6: "x", 7: "y", 8: "z"}
XSD = "http://www.w3.org/2001/XMLSchema"
XSI = "http://www.w3.org/2001/XMLSchema-instance"

U_XSD = ('<xs:schema xmlns:xs="%s" targetNamespace="urn:u" xmlns:u="urn:u" elementFormDefault="qualified">'
         + "".join('<xs:element name="%s" type="xs:string"/>' % LOCAL[i] for i in (1, 2, 6, 7))
         + '<xs:attribute name="ga" type="xs:string"/>'
         + "</xs:schema>") % XSD


def hx(s):
    return s.encode("utf-8").hex().upper() or "-"


def occ_attrs(m, n):
    s = ""
    if m != 1:
        s += ' minOccurs="%d"' % m
    if n != 1:
        s += ' maxOccurs="%s"' % ("unbounded" if n < 0 else n)
    return s


def qtext(q):
    return "%d:%d" % q


def tagname(q):
    u, l = q
    return LOCAL[l] if u == 1 else "%s:%s" % (PFX[u], LOCAL[l])


# ------------------------------------------------------------------------------------------------
# particles:  ("E", m, n, (uri, local), style)      style: "local" | "ref"
#             ("W", m, n, constraint, nsattr, pc)   constraint: ("any",) | ("not", u) | ("set", [u..]); nsattr = text
#             ("S"|"C", m, n, [children], how)      how: "inline" | "group"  (named model group + reference)
# ------------------------------------------------------------------------------------------------
def model_particle(p):
    k = p[0]
    if k == "E":
        return "E %d %d %d %d" % (p[1], p[2], p[3][0], p[3][1])
    if k == "W":
        c = p[3]
        if c[0] == "any":
            return "W %d %d any" % (p[1], p[2])
        if c[0] == "not":
            return "W %d %d not %d" % (p[1], p[2], c[1])
        return "W %d %d set %d%s" % (p[1], p[2], len(c[1]), "".join(" %d" % u for u in c[1]))
    return "%s %d %d %d %s" % (k, p[1], p[2], len(p[3]), " ".join(model_particle(c) for c in p[3]))


class Schema:
    """collects the global components a rendered content model needs"""

    def __init__(self):
        self.globals_t = set()      # local ids of global elements of urn:t that must exist
        self.groups = []            # rendered named groups
        self.extra = []             # other global components (text)
        self.uses_u = False

    def render_particle(self, p):
        k = p[0]
        if k == "E":
            (u, l) = p[3]
            o = occ_attrs(p[1], p[2])
            if u == 2 and p[4] == "ref":
                self.globals_t.add(l)
                return '<xs:element ref="t:%s"%s/>' % (LOCAL[l], o)
            if u == 2:
                return '<xs:element name="%s" type="xs:string"%s/>' % (LOCAL[l], o)
            if u == 1:
                return '<xs:element name="%s" type="xs:string" form="unqualified"%s/>' % (LOCAL[l], o)
            self.uses_u = True
            return '<xs:element ref="u:%s"%s/>' % (LOCAL[l], o)
        if k == "W":
            ns = "" if p[4] is None else ' namespace="%s"' % p[4]
            return '<xs:any%s processContents="%s"%s/>' % (ns, p[5], occ_attrs(p[1], p[2]))
        tag = "xs:sequence" if k == "S" else "xs:choice"
        inner = "".join(self.render_particle(c) for c in p[3])
        if p[4] == "group":
            name = "g%d" % (len(self.groups) + 1)
            self.groups.append('<xs:group name="%s"><%s>%s</%s></xs:group>' % (name, tag, inner, tag))
            return '<xs:group ref="t:%s"%s/>' % (name, occ_attrs(p[1], p[2]))
        return "<%s%s>%s</%s>" % (tag, occ_attrs(p[1], p[2]), inner, tag)

    def document(self, root_decl, types):
        g = "".join('<xs:element name="%s" type="xs:string"/>' % LOCAL[l] for l in sorted(self.globals_t))
        imp = '<xs:import namespace="urn:u" schemaLocation="u.xsd"/>' if self.uses_u else ""
        return ('<xs:schema xmlns:xs="%s" xmlns:t="urn:t" xmlns:u="urn:u" targetNamespace="urn:t" '
                'elementFormDefault="qualified">%s%s%s%s%s%s</xs:schema>'
                % (XSD, imp, root_decl, types, g, "".join(self.groups), "".join(self.extra)))


def instance(kids, attrs="", text_between=None, root="t:r", rootattrs=""):
    """kids: list of qnames (uri, local) or raw strings"""
    body = ""
    for i, q in enumerate(kids):
        if text_between is not None:
            body += text_between
        body += q if isinstance(q, str) else "<%s/>" % tagname(q)
    if text_between is not None and kids:
        body += text_between
    return ('<%s xmlns:t="urn:t" xmlns:u="urn:u" xmlns:v="urn:v" xmlns:xsi="%s"%s%s>%s</%s>'
            % (root, XSI, rootattrs, attrs, body, root))


def request(model_part, docs, main, insts):
    return "%s | X %d %s %s %d %s" % (model_part, len(docs), " ".join("%s %s" % (n, hx(t)) for n, t in docs),
                                      main, len(insts), " ".join(hx(i) for i in insts))


# ------------------------------------------------------------------------------------------------
# language helpers on the python side (only used to *generate* interesting words, never as oracle)
# ------------------------------------------------------------------------------------------------
OCCS = [(1, 1), (0, 1), (0, -1), (1, -1), (2, 2), (0, 2), (2, 3), (1, 3), (3, 3), (2, -1), (3, -1), (0, 3), (2, 5),
        (1, 2), (4, 4)]


def leaves(p):
    if p[0] in ("E", "W"):
        return [p]
    return [x for c in p[3] for x in leaves(c)]


def wild_sample(p, rng, pool):
    ok = [q for q in pool if wild_allows(p[3], q[0])]
    return rng.choice(ok) if ok else None


def wild_allows(c, u):
    if c[0] == "any":
        return True
    if c[0] == "not":
        return u != c[1] and u != 1
    return u in c[1]


def sample_word(p, rng, pool, mutate_at=None, counter=None):
    """a word of (or, with mutate_at = index of a node in preorder and a delta, near) the language of p.
    returns list of qnames or None"""
    if counter is None:
        counter = [0]
    idx = counter[0]
    counter[0] += 1
    m, n = p[1], p[2]
    choices = [m, m if n < 0 else n, m + 1 if (n < 0 or m + 1 <= n) else m]
    if n < 0:
        choices.append(m + 2)
    k = rng.choice(choices)
    if mutate_at is not None and mutate_at[0] == idx:
        k = (m - 1) if mutate_at[1] < 0 else ((m + 3) if n < 0 else n + 1)
        if k < 0:
            k = 0
    k = min(k, 6)
    out = []
    for _ in range(k):
        if p[0] == "E":
            out.append(p[3])
        elif p[0] == "W":
            q = wild_sample(p, rng, pool)
            if q is None:
                return None
            out.append(q)
        elif p[0] == "S":
            for c in p[3]:
                w = sample_word(c, rng, pool, mutate_at, counter)
                if w is None:
                    return None
                out += w
        else:
            if not p[3]:
                return None
            c = rng.choice(p[3])
            # keep preorder numbering stable: number all alternatives
            base = counter[0]
            w = None
            for alt in p[3]:
                cc = [counter[0]]
                ww = sample_word(alt, rng, pool, mutate_at, cc)
                counter[0] = cc[0]
                if alt is c:
                    w = ww
            if w is None:
                return None
            out += w
    if k == 0 and p[0] in ("S", "C"):
        # still advance numbering over the subtree
        for c in p[3]:
            cc = [counter[0]]
            sample_word(c, rng, pool, None, cc)
            counter[0] = cc[0]
    return out


def count_nodes(p):
    return 1 if p[0] in ("E", "W") else 1 + sum(count_nodes(c) for c in p[3])


def exhaustive(alphabet, maxlen, cap):
    out = []
    for n in range(maxlen + 1):
        for s in itertools.product(alphabet, repeat=n):
            out.append(list(s))
            if len(out) >= cap:
                return out
    return out


# ------------------------------------------------------------------------------------------------
# random deterministic ("single occurrence") particles
# ------------------------------------------------------------------------------------------------
WILDS = [
    # (constraint, namespace attribute text, namespaces whose elements may NOT be used beside it)
    (("not", 2), "##other", {3, 4}),
    (("set", [3, 4]), "urn:u urn:v", {3, 4}),
    (("set", [3]), "urn:u", {3}),
    (("set", [1]), "##local", {1}),
    (("set", [2]), "##targetNamespace", {2}),
    (("set", [1, 3]), "##local urn:u", {1, 3}),
    (("set", [2, 4]), "##targetNamespace urn:v urn:v", {2, 4}),
    (("any",), "##any", {1, 2, 3, 4}),
    (("any",), None, {1, 2, 3, 4}),
]
ELEMS = [(2, 1), (2, 2), (2, 3), (2, 4), (1, 1), (1, 2), (3, 6), (3, 7), (3, 1)]


def random_particle(rng, max_leaves=5, depth=3):
    """a random particle in which every element name / wildcard occurs once and wildcards are disjoint from the
    elements (hence trivially satisfying Unique Particle Attribution)"""
    wild = rng.choice(WILDS) if rng.random() < 0.35 else None
    banned = wild[2] if wild else set()
    pool = [q for q in ELEMS if q[0] not in banned]
    rng.shuffle(pool)
    nleaves = rng.randrange(1, max_leaves + 1)
    syms = [("E", q) for q in pool[:nleaves]]
    if wild:
        syms = syms[:max(0, nleaves - 1)] + [("W", wild)]
        rng.shuffle(syms)
    if not syms:
        syms = [("W", wild)]

    def occ(simple=False):
        if simple or rng.random() < 0.45:
            return (1, 1)
        return rng.choice(OCCS)

    def leaf(s):
        m, n = occ()
        if s[0] == "E":
            return ("E", m, n, s[1], rng.choice(["local", "ref"]) if s[1][0] == 2 else "ref")
        c, txt, _ = s[1]
        return ("W", m, n, c, txt, rng.choice(["skip", "lax", "strict"]))

    def build(ss, d):
        if len(ss) == 1 and (d == 0 or rng.random() < 0.6):
            return leaf(ss[0])
        kind = rng.choice(["S", "S", "C"])
        m, n = occ()
        if d == 0 or len(ss) <= 2:
            kids = [leaf(s) for s in ss]
        else:
            # split into 2..3 parts
            k = rng.randrange(2, min(3, len(ss)) + 1)
            cuts = sorted(rng.sample(range(1, len(ss)), k - 1))
            parts = [ss[i:j] for i, j in zip([0] + cuts, cuts + [len(ss)])]
            kids = [build(part, d - 1) for part in parts]
        return (kind, m, n, kids, "group" if rng.random() < 0.2 else "inline")

    p = build(syms, depth)
    if p[0] in ("E", "W"):
        p = ("S", 1, 1, [p], "inline")
    return p


def alphabet_for(p, rng, extra=1):
    """the symbols of p (one representative per wildcard namespace) plus foreign ones"""
    al = []
    for l in leaves(p):
        if l[0] == "E":
            if l[3] not in al:
                al.append(l[3])
        else:
            for q in [(3, 6), (4, 8), (1, 8), (2, 5)]:
                if wild_allows(l[3], q[0]) and q not in al:
                    al.append(q)
                    break
    foreign = [q for q in [(2, 5), (3, 7), (1, 8), (4, 8)] if q not in al]
    return al, foreign[:extra]
