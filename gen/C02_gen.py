"""Generators for C02/C03: random lexical documents (abstract content + every lexical choice) serialised for
`xm_C02 render`, and the single-constraint mutation operators of the malformed stream.
Everything derives from the rng passed in (ctx.rng, seeded by VERIF_SEED)."""
import copy

WS = [0x20, 0x20, 0x20, 0x09, 0x0A]
NAME_START = [ord(c) for c in "abcdefgxyzABCXYZ_"] + [0xE9, 0x3A9, 0x4E2D, 0xC0, 0x2C00, 0xD7A3]
NAME_CHAR = NAME_START + [ord(c) for c in "0123456789-."] + [0xB7, 0x300, 0x203F]
TEXT_POOL = ([ord(c) for c in "abc xyz012,;:!?=/()[]{}*+-_'\"<>&]]>\t\n\r#%@~^|\\`$"] +
             [0x7F, 0x80, 0x85, 0xA0, 0xE9, 0xFF, 0x100, 0x2028, 0x20AC, 0x4E2D, 0xD7FF, 0xE000, 0xFFFD,
              0x10000, 0x1F600, 0x10FFFF, 0xFFFF0])
ENT = {0x26: "amp", 0x3C: "lt", 0x3E: "gt", 0x22: "quot", 0x27: "apos"}


def ws(rng, lo=0, hi=3):
    return [rng.choice(WS) for _ in range(rng.randrange(lo, hi + 1))]


def name(rng, colon=False, supp=True):
    n = [rng.choice(NAME_START)] + [rng.choice(NAME_CHAR) for _ in range(rng.choice([0, 0, 1, 2, 3, 5, 9]))]
    if supp and rng.random() < 0.05:
        n += [0xD800 + rng.randrange(0, 0x380), 0xDC00 + rng.randrange(0x400)]   # supplementary name char (pair)
        n += [rng.choice(NAME_CHAR) for _ in range(rng.randrange(2))]
    if colon and rng.random() < 0.2:
        n += [0x3A] + [rng.choice(NAME_START)]
    if len(n) == 3 and bytes(c & 0xFF for c in n).lower() == b"xml" and all(c < 128 for c in n):
        n.append(0x61)
    return n


def ref_kind(rng, cp, allow_lit):
    """choose a representation of code point cp"""
    opts = ["d", "h"]
    if allow_lit:
        opts += ["l"] * 6
    if cp in ENT:
        opts += ["e"] * 3
    k = rng.choice(opts)
    if k == "d":
        return "d" + "0" * rng.choice([0, 0, 0, 1, 3, 12, 40]) + str(cp)
    if k == "h":
        h = "%x" % cp
        h = "".join(c.upper() if rng.random() < 0.5 else c for c in h)
        return "h" + "0" * rng.choice([0, 0, 0, 1, 4, 9, 17, 40]) + h
    return k


def ltext(rng, n, attq=None):
    """n characters with representations; attq = quote code for attribute values, None for character data.
    Mirrors Spec02.lit_ok_text / lit_ok_att / no_cdend so that the result is well-formed."""
    out = []
    st = 0   # ]]> state over literals
    for _ in range(n):
        cp = rng.choice(TEXT_POOL) if rng.random() < 0.8 else rng.choice([0x61, 0x20, 0x62])
        if attq is None:
            lit = cp not in (0x3C, 0x26, 0x0D) and not (cp == 0x3E and st == 2)
        else:
            lit = cp not in (0x3C, 0x26, attq, 9, 10, 13)
        k = ref_kind(rng, cp, lit)
        if k == "l":
            st = min(st + 1, 2) if cp == 0x5D else 0
        else:
            st = 0
        out.append((cp, k))
    return out


def body_cps(rng, n, forbid_cr=True):
    out = []
    for _ in range(n):
        cp = rng.choice(TEXT_POOL)
        if cp == 0x0D:
            cp = 0x0A
        out.append(cp)
    return out


def comment_body(rng):
    s = body_cps(rng, rng.choice([0, 1, 3, 8, 20]))
    out = []
    for c in s:
        if c == 0x2D and out and out[-1] == 0x2D:
            c = 0x2B
        out.append(c)
    if out and out[-1] == 0x2D:
        out.append(0x20)
    return out


def pi_parts(rng, nsf_colon_ok):
    # PI targets stay in the BMP: a supplementary character in a PI target is known finding F40 (DOM builders
    # throw DOMException INVALID_CHARACTER_ERR); the witness is replayed separately by the check
    t = name(rng, colon=False, supp=False)
    d = body_cps(rng, rng.choice([0, 0, 1, 4, 12]))
    d2 = []
    for c in d:
        if c == 0x3E and d2 and d2[-1] == 0x3F:
            c = 0x21
        d2.append(c)
    while d2 and d2[0] in (0x20, 9, 10):
        d2.pop(0)
    w = ws(rng, 1, 3) if d2 else ws(rng, 0, 2)
    return t, w, d2


def cdata_body(rng):
    s = body_cps(rng, rng.choice([0, 1, 2, 5, 15]))
    out = []
    for c in s:
        if c == 0x3E and len(out) >= 2 and out[-1] == 0x5D and out[-2] == 0x5D:
            c = 0x29
        out.append(c)
    return out


def attrs(rng, colon):
    n = rng.choice([0, 0, 1, 1, 2, 3, 6])
    out = []
    names = []
    while len(out) < n:
        nm = name(rng, colon)
        if nm in names or nm == [0x78, 0x6D, 0x6C, 0x6E, 0x73]:
            continue
        names.append(nm)
        dq = rng.random() < 0.5
        q = 0x22 if dq else 0x27
        out.append([ws(rng, 1, 3), nm, ws(rng, 0, 2), ws(rng, 0, 2), dq, ltext(rng, rng.choice([0, 1, 2, 5, 12]), q)])
    return out


def misc(rng, n):
    out = []
    for _ in range(n):
        r = rng.random()
        if r < 0.4:
            out.append(["mw", ws(rng, 1, 3)])
        elif r < 0.7:
            out.append(["mc", comment_body(rng)])
        else:
            t, w, d = pi_parts(rng, False)
            out.append(["mp", t, w, d])
    return out


def pseudo(rng):
    return [ws(rng, 1, 2), ws(rng, 0, 1), ws(rng, 0, 1), rng.random() < 0.5]


def gen_doc(rng, enc, colon=False, size=None):
    """enc: 'utf8' | 'utf16' (the byte encoding the document will be sent in: the declaration must agree)"""
    doc = {"decl": None, "prolog": [], "body": [], "epilog": []}
    if rng.random() < 0.5:
        e = None
        if rng.random() < 0.6:
            nm = {"utf8": ["UTF-8", "utf-8", "Utf-8"], "utf16": ["UTF-16", "utf-16"]}[enc]
            e = [pseudo(rng), [ord(c) for c in rng.choice(nm)]]
        s = [pseudo(rng), rng.random() < 0.5] if rng.random() < 0.4 else None
        doc["decl"] = {"ver": pseudo(rng), "enc": e, "sd": s, "wsend": ws(rng, 0, 2)}
    doc["prolog"] = misc(rng, rng.choice([0, 0, 1, 2, 4]))
    doc["epilog"] = misc(rng, rng.choice([0, 0, 1, 2, 4]))
    budget = size if size is not None else rng.choice([1, 2, 4, 8, 16, 30])
    body = []
    stack = []
    root = name(rng, colon)
    if budget <= 1 and rng.random() < 0.5:
        body.append(["ie", root, attrs(rng, colon), ws(rng, 0, 2), rng.random() < 0.5, ws(rng, 0, 2)])
        doc["body"] = body
        return doc
    body.append(["is", root, attrs(rng, colon), ws(rng, 0, 2)])
    stack.append(root)
    prev_text = False
    while budget > 0 and stack:
        budget -= 1
        r = rng.random()
        if r < 0.22 and not prev_text:
            body.append(["it", ltext(rng, rng.choice([1, 1, 2, 4, 9, 25]))])
            prev_text = True
            continue
        n0 = len(body)
        if r < 0.45 and len(stack) < 12:
            nm = name(rng, colon)
            body.append(["is", nm, attrs(rng, colon), ws(rng, 0, 2)])
            stack.append(nm)
        elif r < 0.6:
            body.append(["ie", name(rng, colon), attrs(rng, colon), ws(rng, 0, 2), rng.random() < 0.5, ws(rng, 0, 2)])
        elif r < 0.7:
            body.append(["id", cdata_body(rng)])
        elif r < 0.78:
            body.append(["ic", comment_body(rng)])
        elif r < 0.85:
            t, w, d = pi_parts(rng, False)
            body.append(["ip", t, w, d])
        elif len(stack) > 1:
            body.append(["ix", stack.pop(), ws(rng, 0, 2)])
        if len(body) > n0:
            prev_text = False
    while stack:
        body.append(["ix", stack.pop(), ws(rng, 0, 2)])
    doc["body"] = body
    return doc


# ---- serialisation for `xm_C02 render`
def nl(xs):
    return "-" if not xs else ",".join("%X" % x for x in xs)


def lt(t):
    return "-" if not t else ",".join("%X:%s" % (cp, k) for cp, k in t)


def fl(b):
    return "1" if b else "0"


def ser_pseudo(p):
    return [nl(p[0]), nl(p[1]), nl(p[2]), fl(p[3])]


def ser_attr(a):
    return [nl(a[0]), nl(a[1]), nl(a[2]), nl(a[3]), fl(a[4]), lt(a[5])]


def ser_misc(m):
    if m[0] == "mc":
        return ["mc", nl(m[1])]
    if m[0] == "mp":
        return ["mp", nl(m[1]), nl(m[2]), nl(m[3])]
    return ["mw", nl(m[1])]


def ser_item(i):
    k = i[0]
    if k == "is":
        return ["is", nl(i[1]), str(len(i[2]))] + [t for a in i[2] for t in ser_attr(a)] + [nl(i[3])]
    if k == "ie":
        return ["ie", nl(i[1]), str(len(i[2]))] + [t for a in i[2] for t in ser_attr(a)] + [nl(i[3]), fl(i[4]), nl(i[5])]
    if k == "ix":
        return ["ix", nl(i[1]), nl(i[2])]
    if k == "it":
        return ["it", lt(i[1])]
    if k in ("id", "ic"):
        return [k, nl(i[1])]
    return ["ip", nl(i[1]), nl(i[2]), nl(i[3])]


def serialise(doc, eols="-"):
    t = []
    d = doc["decl"]
    if d is None:
        t.append("d0")
    else:
        t.append("d1")
        t += ser_pseudo(d["ver"])
        if d["enc"]:
            t += ["e1"] + ser_pseudo(d["enc"][0]) + [nl(d["enc"][1])]
        else:
            t.append("e0")
        if d["sd"]:
            t += ["s1"] + ser_pseudo(d["sd"][0]) + [fl(d["sd"][1])]
        else:
            t.append("s0")
        t.append(nl(d["wsend"]))
    t += ["P", str(len(doc["prolog"]))] + [x for m in doc["prolog"] for x in ser_misc(m)]
    t += ["B", str(len(doc["body"]))] + [x for i in doc["body"] for x in ser_item(i)]
    t += ["E", str(len(doc["epilog"]))] + [x for m in doc["epilog"] for x in ser_misc(m)]
    t += ["L", eols]
    return " ".join(t)


def eol_choices(rng, n=64):
    r = rng.random()
    if r < 0.4:
        return "-"
    return "".join(rng.choice("0012") for _ in range(n))


# ---- abstract-level mutation operators: each returns a mutated deep copy violating ONE constraint, or None when
#      the document offers no site for the operator
def _sites(doc, kinds):
    return [k for k, i in enumerate(doc["body"]) if i[0] in kinds]


def _tag_with_attr(rng, doc, minatts=1):
    s = [k for k in _sites(doc, ("is", "ie")) if len(doc["body"][k][2]) >= minatts]
    return rng.choice(s) if s else None


def m_dup_attr(rng, doc):
    k = _tag_with_attr(rng, doc)
    if k is None:
        return None
    a = copy.deepcopy(rng.choice(doc["body"][k][2]))
    a[5] = []
    doc["body"][k][2].insert(rng.randrange(len(doc["body"][k][2]) + 1), a)
    return doc


def _mut_attval(rng, doc, f):
    k = _tag_with_attr(rng, doc)
    if k is None:
        return None
    a = rng.choice(doc["body"][k][2])
    a[5] = f(a)
    return doc


def _ins(rng, t, x):
    t = list(t)
    t.insert(rng.randrange(len(t) + 1), x)
    return t


def m_lt_in_attr(rng, doc):
    return _mut_attval(rng, doc, lambda a: _ins(rng, a[5], (0x3C, "l")))


def m_amp_in_attr(rng, doc):
    return _mut_attval(rng, doc, lambda a: _ins(rng, a[5], (0x26, "l")))


def m_quote_in_attr(rng, doc):
    # the delimiter quote followed by a name character at the END of the value: `a="v"x"` can never be well-formed
    # (a quote inserted at a random position can leave a well-formed tag behind)
    return _mut_attval(rng, doc, lambda a: list(a[5]) + [(0x22 if a[4] else 0x27, "l"), (0x78, "l")])


def m_ctrl_in_attr(rng, doc):
    return _mut_attval(rng, doc, lambda a: _ins(rng, a[5], (rng.choice([1, 8, 0xB, 0xC, 0x1F, 0xFFFE, 0xFFFF]), "l")))


def _text_site(rng, doc):
    s = _sites(doc, ("it",))
    if not s:
        # make one inside the root
        if doc["body"][0][0] != "is":
            return None
        doc["body"].insert(1, ["it", [(0x61, "l")]])
        if len(doc["body"]) > 2 and doc["body"][2][0] == "it":
            doc["body"].pop(2)
        return 1
    return rng.choice(s)


def _mut_text(rng, doc, xs, at_end=False):
    k = _text_site(rng, doc)
    if k is None:
        return None
    t = list(doc["body"][k][1])
    p = len(t) if at_end else rng.randrange(len(t) + 1)
    doc["body"][k][1] = t[:p] + xs + t[p:]
    return doc


def m_lt_in_text(rng, doc):
    return _mut_text(rng, doc, [(0x3C, "l"), (0x20, "l")])


def m_amp_in_text(rng, doc):
    return _mut_text(rng, doc, [(0x26, "l"), (0x20, "l")])


def m_cdend_in_text(rng, doc):
    return _mut_text(rng, doc, [(0x5D, "l")] * rng.choice([2, 2, 3]) + [(0x3E, "l")])


def m_ctrl_in_text(rng, doc):
    return _mut_text(rng, doc, [(rng.choice([1, 2, 8, 0xB, 0xC, 0xE, 0x1F, 0xFFFE, 0xFFFF]), "l")])


def m_nul_in_text(rng, doc):
    return _mut_text(rng, doc, [(0, "l")])


def m_badref_text(rng, doc):
    bad = rng.choice([(0, "d0"), (1, "d1"), (8, "h8"), (0xB, "hB"), (0xFFFE, "hfffe"), (0xFFFF, "hFFFF"), (0xD800, "hD800"),
                      (0xDFFF, "d57343"), (0x110000, "h110000"), (0x110000, "d1114112"), (0xFFFFFFFF, "hFFFFFFFF"),
                      (0x1F, "d31")])
    return _mut_text(rng, doc, [bad])


def m_badref_attr(rng, doc):
    bad = rng.choice([(0, "d0"), (1, "d1"), (0xFFFE, "hfffe"), (0xD800, "hD800"), (0x110000, "h110000")])
    return _mut_attval(rng, doc, lambda a: _ins(rng, a[5], bad))


def _huge_ref(rng):
    """a numeric character reference whose value is far outside the code-point range - around and above 2^32 / 2^64,
    decimal and hexadecimal, with leading zeros - and whose low 32 (64) bits are sometimes a legal character: an
    accumulator that wraps around would accept it.  Returned as (cp, repr) with cp != value, so wf_ldoc is false."""
    low = rng.choice([0x41, 0x20AC, 0x10000, 0x9, 0x10FFFF, 0x0, 0x1, 0xFFFE, 0x3C])
    big = rng.choice([1 << 32, 1 << 64, 3 << 32, (1 << 32) * 0x10001, 1 << 63, 1 << 96, (1 << 31) * 2])
    v = big + low
    if rng.random() < 0.25:
        v = rng.choice([(1 << 32) - 1, (1 << 32) + 0x110000, (1 << 64) - 1, 0xFFFFFFFF00000041, 10 ** 30 + 65])
    z = "0" * rng.choice([0, 0, 1, 7, 30])
    if rng.random() < 0.5:
        h = "%x" % v
        h = "".join(c.upper() if rng.random() < 0.5 else c for c in h)
        return (low if low else 0x41, "h" + z + h)
    return (low if low else 0x41, "d" + z + str(v))


def m_hugeref_text(rng, doc):
    return _mut_text(rng, doc, [_huge_ref(rng)])


def m_hugeref_attr(rng, doc):
    bad = _huge_ref(rng)
    return _mut_attval(rng, doc, lambda a: _ins(rng, a[5], bad))


def m_dashdash_comment(rng, doc):
    k = rng.randrange(3)
    body = [0x61, 0x2D, 0x2D, 0x62] if rng.random() < 0.5 else [0x2D, 0x2D]
    if rng.random() < 0.3:
        body = [0x61, 0x2D]          # comment ending in '-'  ("--->")
    tgt = ["prolog", "body", "epilog"][k]
    if tgt == "body":
        if doc["body"][0][0] != "is":
            return None
        doc["body"].insert(1, ["ic", body])
    else:
        doc[tgt].insert(rng.randrange(len(doc[tgt]) + 1), ["mc", body])
    return doc


def m_ctrl_in_comment(rng, doc):
    doc["prolog"].append(["mc", [0x61, rng.choice([1, 0xB, 0x1F, 0xFFFE, 0xFFFF]), 0x62]])
    return doc


def m_ctrl_in_pi(rng, doc):
    doc["epilog"].append(["mp", [0x70], [0x20], [0x61, rng.choice([1, 0xC, 0xFFFF]), 0x62]])
    return doc


def m_ctrl_in_cdata(rng, doc):
    if doc["body"][0][0] != "is":
        return None
    doc["body"].insert(1, ["id", [0x61, rng.choice([1, 0xB, 0xFFFE]), 0x62]])
    return doc


def m_pi_xml(rng, doc):
    t = [ord(c) for c in rng.choice(["xml", "XML", "Xml", "xMl", "xmL"])]
    where = rng.choice(["prolog", "epilog", "body"])
    if where == "body":
        if doc["body"][0][0] != "is":
            return None
        doc["body"].insert(1, ["ip", t, [0x20], [0x61]])
    else:
        # in the prolog a lower-case "xml" target followed by S at the very start would be an XML declaration:
        # put a comment first
        doc[where] = [["mc", [0x63]]] + doc[where] + [["mp", t, [0x20], [0x61]]] if where == "prolog" else \
            doc[where] + [["mp", t, [0x20], [0x61]]]
    return doc


def m_mismatch_end(rng, doc):
    s = _sites(doc, ("ix",))
    if not s:
        return None
    k = rng.choice(s)
    n = list(doc["body"][k][1])
    r = rng.random()
    if r < 0.4:
        n[-1] = n[-1] + 1 if n[-1] in (0x61, 0x62, 0x78) else 0x61 if n[-1] != 0x61 else 0x62
    elif r < 0.7:
        n = n + [0x78]
    elif len(n) > 1:
        n = n[:-1]
    else:
        n = [0x7A, 0x7A]
    if n == doc["body"][k][1]:
        return None
    doc["body"][k][1] = n
    return doc


def m_drop_end(rng, doc):
    s = _sites(doc, ("ix",))
    if not s:
        return None
    doc["body"].pop(rng.choice(s))
    return doc


def m_extra_end(rng, doc):
    doc["body"].append(["ix", [0x61], []])
    return doc


def m_two_roots(rng, doc):
    doc["body"].append(["ie", [0x72, 0x32], [], [], True, []])
    return doc


def m_text_after_root(rng, doc):
    doc["body"].append(["it", [(0x61, "l")]])
    return doc


def m_ref_after_root(rng, doc):
    doc["body"].append(["it", [(0x61, "d97")]])
    return doc


def m_text_before_root(rng, doc):
    doc["body"].insert(0, ["it", [(0x61, "l")]])
    return doc


def m_cdata_outside(rng, doc):
    if rng.random() < 0.5:
        doc["body"].insert(0, ["id", [0x61]])
    else:
        doc["body"].append(["id", [0x61]])
    return doc


def m_bad_elem_name(rng, doc):
    k = rng.choice(_sites(doc, ("is", "ie")))
    bad = rng.choice([[0x31, 0x61], [0x2D, 0x61], [0x2E], [0x20, 0x61], [0xB7, 0x61], [0x25], [0xD7], [0x3D]])
    if doc["body"][k][0] == "is":
        # rename the matching end tag as well so that only the name is wrong: find it
        depth = 0
        for j in range(k + 1, len(doc["body"])):
            if doc["body"][j][0] == "is":
                depth += 1
            elif doc["body"][j][0] == "ix":
                if depth == 0:
                    doc["body"][j][1] = bad
                    break
                depth -= 1
    doc["body"][k][1] = bad
    return doc


def m_bad_attr_name(rng, doc):
    k = _tag_with_attr(rng, doc)
    if k is None:
        return None
    a = rng.choice(doc["body"][k][2])
    a[1] = rng.choice([[0x31, 0x61], [0x2D, 0x61], [0x2E, 0x62], [0x25], [0xB7, 0x61], [0x2A]])
    return doc


def m_no_ws_between_attrs(rng, doc):
    k = _tag_with_attr(rng, doc, 2)
    if k is None:
        return None
    doc["body"][k][2][rng.randrange(1, len(doc["body"][k][2]))][0] = []
    return doc


def m_undefined_entity(rng, doc):
    # rendered through a literal '&' followed by a name and ';'
    nm = rng.choice(["foo", "nbsp", "AMP", "Lt", "amp2", "x"])
    return _mut_text(rng, doc, [(0x26, "l")] + [(ord(c), "l") for c in nm] + [(0x3B, "l")])


def m_entity_no_semi(rng, doc):
    nm = rng.choice(["amp", "lt", "quot"])
    return _mut_text(rng, doc, [(0x26, "l")] + [(ord(c), "l") for c in nm] + [(0x20, "l")])


def m_charref_forms(rng, doc):
    s = rng.choice(["&#;", "&#x;", "&#65", "&#X41;", "&#6A;", "&#x4G;", "&# 65;", "&#-1;", "&#x;a", "&#65 ;", "&;", "& ;",
                    "&#", "&#x"])
    return _mut_text(rng, doc, [(ord(c), "l") for c in s] + [(0x20, "l")])


ABSTRACT_OPS = [
    ("dup-attr", m_dup_attr), ("lt-in-attr", m_lt_in_attr), ("amp-in-attr", m_amp_in_attr),
    ("quote-in-attr", m_quote_in_attr), ("ctrl-in-attr", m_ctrl_in_attr), ("lt-in-text", m_lt_in_text),
    ("amp-in-text", m_amp_in_text), ("cdend-in-text", m_cdend_in_text), ("ctrl-in-text", m_ctrl_in_text),
    ("nul-in-text", m_nul_in_text), ("badref-text", m_badref_text), ("badref-attr", m_badref_attr),
    ("dashdash-comment", m_dashdash_comment), ("ctrl-in-comment", m_ctrl_in_comment), ("ctrl-in-pi", m_ctrl_in_pi),
    ("ctrl-in-cdata", m_ctrl_in_cdata), ("pi-target-xml", m_pi_xml), ("mismatch-end", m_mismatch_end),
    ("drop-end", m_drop_end), ("extra-end", m_extra_end), ("two-roots", m_two_roots),
    ("text-after-root", m_text_after_root), ("ref-after-root", m_ref_after_root),
    ("text-before-root", m_text_before_root), ("cdata-outside", m_cdata_outside), ("bad-elem-name", m_bad_elem_name),
    ("bad-attr-name", m_bad_attr_name), ("no-ws-between-attrs", m_no_ws_between_attrs),
    ("undefined-entity", m_undefined_entity), ("entity-no-semi", m_entity_no_semi), ("charref-forms", m_charref_forms),
    ("hugeref-text", m_hugeref_text), ("hugeref-attr", m_hugeref_attr),
]


# ---- text-level operators on the rendered UTF-16 units of a well-formed document.  Each returns new units or None.
def _find(units, pat, start=0):
    n = len(pat)
    for i in range(start, len(units) - n + 1):
        if units[i:i + n] == pat:
            return i
    return -1


def _all(units, pat):
    out = []
    i = _find(units, pat)
    while i >= 0:
        out.append(i)
        i = _find(units, pat, i + 1)
    return out


def S(s):
    return [ord(c) for c in s]


def t_truncate(rng, u, info):
    # cut strictly inside the part that ends with the root's end tag
    end = info["root_end"]
    if end < 2:
        return None
    return u[:rng.randrange(1, end)]


def t_empty(rng, u, info):
    return rng.choice([[], [0x20], [0x0A, 0x20], S("<!--c-->"), S("<?p?>"), S("<?xml version='1.0'?>")])


def t_drop_gt(rng, u, info):
    i = info["root_end"] - 1            # the '>' that closes the root element
    return u[:i] + u[i + 1:]


def t_unquote(rng, u, info):
    return _splice_root(u, info, S(" q=v"))


def t_attr_novalue(rng, u, info):
    return _splice_root(u, info, rng.choice([S(" q"), S(" q="), S(" q= "), S(" =\"v\""), S(" \"v\""),
                                             # (a missing / mismatched closing quote is not guaranteed to break the
                                             #  document: the value may run on to a later quote and leave a
                                             #  well-formed tag; that class is covered by the truncation operator)
                                             S(" q \"v\""), S(" q=\"v\"r=\"w\""), S(" q=\"v\" q=\"w\""),
                                             S(" q==\"v\""), S(" q=\"<\""), S(" q=\"&\""), S(" q=\"&z;\"")]))


def _splice_root(u, info, extra):
    # insert text right after the root element's name
    i = info["root_name_end"]
    return u[:i] + extra + u[i:]


def t_space_in_tag(rng, u, info):
    i = info["root_start"]
    j = info["root_etag_start"]
    if j is None or rng.random() < 0.5:
        return u[:i + 1] + [0x20] + u[i + 1:]          # "< a>"
    return u[:j + 2] + [0x20] + u[j + 2:]              # "</ a>"


def t_decl_not_first(rng, u, info):
    pre = rng.choice([[0x20], [0x0A], S("<!--c-->"), S("<?p?>"), [0x20, 0x20]])
    if u[:5] != S("<?xml"):
        u = S("<?xml version=\"1.0\"?>") + u
    return pre + u


def t_decl_forms(rng, u, info):
    if u[:5] == S("<?xml"):
        j = _find(u, S("?>"))
        u = u[j + 2:]
    d = rng.choice(["<?xml?>", "<?xml ?>", "<?xml encoding='UTF-8'?>", "<?xml encoding='UTF-8' version='1.0'?>",
                    "<?xml version='2.0'?>", "<?xml version=''?>", "<?xml version='1.0' standalone='maybe'?>",
                    "<?xml version='1.0' standalone='YES'?>", "<?xml version='1.0' version='1.0'?>",
                    "<?xml version='1.0'>", "<?xml version='1.0'", "<?xml version='1.0' ?", "<?XML version='1.0'?>",
                    "<?xml version='1.0' encoding='8utf'?>", "<?xml version='1.0' encoding=''?>",
                    "<?xml version='1.0' foo='bar'?>", "<?xml version='1.0'encoding='UTF-8'?>",
                    "<?xml version=1.0?>", "<?xml version '1.0'?>", "<?xml version='1.0\"?>",
                    "<?xml version='1.0' standalone='yes' encoding='UTF-8'?>", "<?xml standalone='yes' version='1.0'?>",
                    "<?xml version='1.0' encoding='UTF-8' standalone?>", "<?xml version='1.0' ?x>"])
    if "'1.0\"" in d:
        # the version value runs on to the next apostrophe: a repaired scanner (VersionNum syntax check, fix for F43)
        # reports UnsupportedXMLVersion first, the unrepaired one a later error: held to the verdict only
        return S(d) + u, "code-free"
    return S(d) + u


def t_decl_after_root(rng, u, info):
    return u + S(rng.choice(["<?xml version='1.0'?>", "<?XML version='1.0'?>", "<?xml ?>"]))


def t_unterminated(rng, u, info):
    tail = rng.choice(["<!--c", "<!--c--", "<!--c-", "<?p d", "<?p d?", "<?p", "<![CDATA[x", "<![CDATA[x]]", "<![CDATA[x]",
                       "<![CDATA", "<!-", "<!", "<"])
    i = info["root_name_end"]
    j = _find(u, [0x3E], i)
    if j < 0 or u[j - 1] == 0x2F:
        # empty root: put it in the epilog instead (only the comment / PI forms are reachable there)
        return u + S(rng.choice(["<!--c", "<?p d", "<!-", "<", "<!--c--"]))
    return u[:j + 1] + S(tail)


def t_markup_garbage(rng, u, info):
    g = rng.choice(["<!x>", "<!DOCTYP>", "<![cdata[x]]>", "<![CDATA x]]>", "<!- c -->", "</>", "<>", "< >", "<=>", "<?>",
                    "<? p?>", "<??>", "<![CDATA[<![CDATA[x]]>]]>"])
    i = info["root_name_end"]
    j = _find(u, [0x3E], i)
    if j < 0 or u[j - 1] == 0x2F:
        return None
    return u[:j + 1] + S(g) + u[j + 1:]


def t_epilog_garbage(rng, u, info):
    return u + S(rng.choice(["x", "&amp;", "&#32;", "<![CDATA[]]>", "</a>", "<a", "<!x>", "<!DOCTYPE a>", "]]>", "é"]))


def t_prolog_garbage(rng, u, info):
    g = S(rng.choice(["x", "&amp;", "<![CDATA[]]>", "</a>", "<!x>", "]]>", "=", "é"]))
    i = info["root_start"]
    return u[:i] + g + u[i:]


def t_nul(rng, u, info):
    where = rng.choice(["epilog", "prolog", "intag"])
    if where == "epilog":
        # known finding F41: a NUL character after the root element is taken for the end of input
        return u + [0] + S(rng.choice(["", "x", "<b/>", "garbage <<<"])), "nul-epilog"
    if where == "prolog":
        i = info["root_start"]
        return u[:i] + [0] + u[i:]
    return _splice_root(u, info, [0])


def t_lone_surrogate(rng, u, info):
    """only meaningful for UTF-16 input"""
    s = rng.choice([[0xD800], [0xDBFF], [0xDC00], [0xDFFF], [0xDC00, 0xD800], [0xD800, 0xD800, 0xDC00], [0xD800, 0x61]])
    where = rng.choice(["text", "attr", "attr-end", "comment", "pi", "cdata", "name", "text-ref", "attr-ref"])
    i = info["root_name_end"]
    j = _find(u, [0x3E], i)
    if where in ("text-ref", "attr-ref"):
        # an unpaired high surrogate directly before a character / predefined-entity reference, with or without a low
        # surrogate after the reference (class sur-before-ref: finding F63, fixes/C02-surrogate-before-reference.patch)
        hi = rng.choice([0xD800, 0xDBFF, 0xD83D])
        ref = S(rng.choice(["&amp;", "&#65;", "&#x10000;", "&lt;", "&#x20;"]))
        tail = rng.choice([[0xDC00], [0xDFFF], [], S("b")])
        s2 = S(rng.choice(["", "a"])) + [hi] + ref + tail
        if where == "attr-ref":
            return _splice_root(u, info, S(" q=\"") + s2 + S("\"")), "sur-before-ref"
        if j < 0 or u[j - 1] == 0x2F:
            return None
        return u[:j + 1] + s2 + u[j + 1:], "sur-before-ref"
    if where in ("attr", "attr-end"):
        v = S(" q=\"a") + s + (S("b\"") if where == "attr" else S("\""))
        # known finding F42: an unpaired high surrogate directly before the closing quote is not diagnosed
        tag = "sur-attr-end" if where == "attr-end" and s in ([0xD800], [0xDBFF]) else None
        return _splice_root(u, info, v), tag
    if where == "name":
        return _splice_root(u, info, s)
    if j < 0 or u[j - 1] == 0x2F:
        return u + S("<!--") + s + S("-->")
    wrap = {"text": ([], []), "comment": (S("<!--"), S("-->")), "pi": (S("<?p "), S("?>")),
            "cdata": (S("<![CDATA["), S("]]>"))}[where]
    tag = "sur-pi-end" if where == "pi" and s in ([0xD800], [0xDBFF]) else None
    return u[:j + 1] + wrap[0] + s + wrap[1] + u[j + 1:], tag


TEXT_OPS = [
    ("truncate", t_truncate), ("empty-doc", t_empty), ("drop-gt", t_drop_gt), ("unquoted-attr", t_unquote), ("attr-forms", t_attr_novalue), ("space-in-tag", t_space_in_tag),
    ("decl-not-first", t_decl_not_first), ("decl-forms", t_decl_forms), ("decl-after-root", t_decl_after_root),
    ("unterminated", t_unterminated), ("markup-garbage", t_markup_garbage), ("epilog-garbage", t_epilog_garbage),
    ("prolog-garbage", t_prolog_garbage), ("nul", t_nul),
]
UTF16_OPS = [("lone-surrogate", t_lone_surrogate)]
