"""C08 generators, second part: deep instances over recursive types, substitution-group chains, attribute-wildcard
combinations.  Every function returns a list of case dicts in the format of checks/C08.py."""
import itertools

import C08_gen as G

a, b, c, d, e = (2, 1), (2, 2), (2, 3), (2, 4), (2, 5)
for _i in range(5):
    G.LOCAL[11 + _i] = "n%d" % _i
NEST = [(2, 11 + i) for i in range(5)]
UX, VZ, Z0 = (3, 6), (4, 8), (1, 8)


# ------------------------------------------------------------------------------------------------
# 1. deep instances: n0 > n1 > n2 > n3 > n4 > n0 > ... ; every level has content that continues after the nested
#    element returns and whose validity depends on the content-model state kept per open element
# ------------------------------------------------------------------------------------------------
def deep_schema():
    el = lambda n, t="xs:string", o="": '<xs:element name="%s" type="%s"%s/>' % (n, t, o)
    nest = lambda k: '<xs:choice><xs:element ref="t:n%d"/><xs:element ref="t:e"/></xs:choice>' % k
    types = [
        '<xs:sequence>%s%s<xs:any namespace="##other" processContents="skip"/></xs:sequence>' % (el("d"), nest(1)),
        '<xs:sequence>%s<xs:any namespace="##any" processContents="skip"/>%s</xs:sequence>' % (nest(2), el("b", "xs:int")),
        '<xs:sequence>%s%s%s</xs:sequence>' % (el("a", o=' minOccurs="2" maxOccurs="3"'), nest(3), el("c", o=' minOccurs="2" maxOccurs="2"')),
        '<xs:all><xs:element ref="t:n4" minOccurs="0"/>%s%s</xs:all>' % (el("a"), el("b")),
        '<xs:sequence>%s%s%s</xs:sequence>' % (nest(0), el("b", "xs:int"), el("c", o=' maxOccurs="2"')),
    ]
    body = "".join('<xs:element name="n%d" type="t:L%d"/><xs:complexType name="L%d">%s</xs:complexType>' % (k, k, k, t)
                   for k, t in enumerate(types))
    return ('<xs:schema xmlns:xs="%s" xmlns:t="urn:t" targetNamespace="urn:t" elementFormDefault="qualified">%s'
            '<xs:element name="e" type="xs:string"/></xs:schema>' % (G.XSD, body))


DEEP_MODEL = [
    "P S 1 1 3 E 1 1 2 4 C 1 1 2 E 1 1 2 12 E 1 1 2 5 W 1 1 not 2",
    "P S 1 1 3 C 1 1 2 E 1 1 2 13 E 1 1 2 5 W 1 1 any E 1 1 2 2",
    "P S 1 1 3 E 2 3 2 1 C 1 1 2 E 1 1 2 14 E 1 1 2 5 E 2 2 2 3",
    "A 0 3 2 15 0 2 1 1 2 2 1",
    "P S 1 1 3 C 1 1 2 E 1 1 2 11 E 1 1 2 5 E 1 1 2 2 E 1 2 2 3",
]
N = "N"
# per level type: the valid child list first, then variants: (children, forced_invalid); a child = N | (qname, text)
DEEP_VARIANTS = [
    [([(d, ""), N, (UX, "")], False), ([(d, ""), N], False), ([(d, ""), N, (e, "")], False),
     ([(d, ""), N, (UX, ""), (UX, "")], False), ([(d, ""), N, (Z0, "")], False), ([(d, ""), N, (VZ, "q")], False)],
    [([N, (VZ, ""), (b, "12")], False), ([N, (VZ, ""), (b, "not-an-int")], True), ([N, (b, "12")], False),
     ([N, (e, ""), (b, "3")], False), ([N, (b, "1"), (VZ, "")], False), ([N, (Z0, ""), (b, " 5 ")], False)],
    [([(a, ""), (a, ""), N, (c, ""), (c, "")], False), ([(a, ""), (a, ""), (a, ""), N, (c, ""), (c, "")], False),
     ([(a, ""), (a, ""), N, (c, "")], False), ([(a, ""), (a, ""), N, (c, ""), (c, ""), (c, "")], False),
     ([(a, ""), N, (c, ""), (c, "")], False), ([(a, ""), (a, ""), N, (c, ""), (a, "")], False)],
    [([(b, ""), N, (a, "")], False), ([N, (a, ""), (b, "")], False), ([(b, ""), N], False),
     ([(a, ""), N, (a, ""), (b, "")], False), ([(a, ""), N, (b, ""), (c, "")], False), ([(a, ""), (b, ""), N], False)],
    [([N, (b, "7"), (c, "")], False), ([N, (b, "x7"), (c, "")], True), ([N, (b, "7"), (c, ""), (c, "")], False),
     ([N, (b, "7"), (c, ""), (c, ""), (c, "")], False), ([N, (c, "")], False), ([N, (b, "7")], False)],
]


def deep_instance(depth, observed, variant):
    """levels 0..depth-1; level i has type i%5; the observed level carries the variant, all others the valid list"""
    def render(i):
        k = i % 5
        kids = variant if i == observed else DEEP_VARIANTS[k][0][0]
        out = ""
        for ch in kids:
            if ch == N:
                if i + 1 < depth:
                    out += render(i + 1)
                elif k != 3:
                    out += "<t:e/>"
            else:
                q, txt = ch
                out += "<%s>%s</%s>" % (G.tagname(q), txt, G.tagname(q)) if txt else "<%s/>" % G.tagname(q)
        attrs = ' xmlns:t="urn:t" xmlns:u="urn:u" xmlns:v="urn:v"' if i == 0 else ""
        return "<t:n%d%s>%s</t:n%d>" % (k, attrs, out, k)
    return render(0)


def deep_word(depth, observed, variant):
    k = observed % 5
    w = []
    for ch in variant:
        if ch == N:
            if observed + 1 < depth:
                w.append(NEST[(observed + 1) % 5])
            elif k != 3:
                w.append(e)
        else:
            w.append(ch[0])
    return w


def deep_cases(rng, thorough):
    doc = deep_schema()
    depths = [2, 6, 15, 16, 17, 18, 21, 31, 33, 40, 64, 65, 70] if not thorough else list(range(1, 72))
    cases = []
    for k in range(5):
        items = []
        for D in depths:
            levels = [j for j in range(k, D, 5)]
            if not thorough and len(levels) > 5:
                levels = sorted(set(levels[:3] + [levels[-1]] + rng.sample(levels, 2)))
            for j in levels:
                vs = DEEP_VARIANTS[k] if (thorough or D in (17, 18, 33, 65) or rng.random() < 0.4) else DEEP_VARIANTS[k][:2]
                for kids, forced in vs:
                    items.append((deep_instance(D, j, kids), deep_word(D, j, kids), forced, (D, j)))
        model = "cm %s ; %s" % (DEEP_MODEL[k], " ; ".join(",".join(G.qtext(q) for q in w) or "-" for _, w, _, _ in items))
        req = G.request(model, [("main.xsd", doc)], "main.xsd", [t for t, _, _, _ in items])
        cases.append({"kind": "deep-recursive", "request": req, "n": len(items), "strict_penalty": [f for _, _, f, _ in items],
                      "words": [w for _, w, _, _ in items],
                      "info": {"level_type": k, "depth_observed": [x[3] for x in items]}})
    return cases


# ------------------------------------------------------------------------------------------------
# 2. substitution groups over type derivation chains T1 <- T2 <- T3 <- T4
# ------------------------------------------------------------------------------------------------
def _chain_types(methods, tblocks, abstract_types=()):
    """complex types T1..T4; methods[k-2] in 'e','r' = how Tk is derived from T(k-1); tblocks[k-1] = block attr or None"""
    E = lambda m, n, q: ("E", m, n, q, "local")
    new_el = {2: b, 3: c, 4: d}
    content = {1: ("S", 1, 1, [E(0, 2, a)], "inline")}
    sc = G.Schema()
    out = ""
    for k in (1, 2, 3, 4):
        attrs = ""
        if tblocks[k - 1] is not None:
            attrs += ' block="%s"' % tblocks[k - 1]
        if k in abstract_types:
            attrs += ' abstract="true"'
        if k == 1:
            out += '<xs:complexType name="T1"%s>%s</xs:complexType>' % (attrs, sc.render_particle(content[1]))
            continue
        if methods[k - 2] == "e":
            own = ("S", 1, 1, [E(0, 1, new_el[k])], "inline")
            content[k] = ("S", 1, 1, [content[k - 1], own], "inline")
            inner = '<xs:extension base="t:T%d">%s</xs:extension>' % (k - 1, sc.render_particle(own))
        else:
            content[k] = content[k - 1]
            inner = '<xs:restriction base="t:T%d">%s</xs:restriction>' % (k - 1, sc.render_particle(content[k]))
        out += '<xs:complexType name="T%d"%s><xs:complexContent>%s</xs:complexContent></xs:complexType>' % (k, attrs, inner)
    return out


def _bits(v, subst=False):
    v = v or ""
    s = "%d%d" % (1 if ("extension" in v or "#all" in v) else 0, 1 if ("restriction" in v or "#all" in v) else 0)
    if subst:
        s += "1" if ("substitution" in v or "#all" in v) else "0"
    return s


def subst_cases(rng, thorough):
    eblk = [None, "", "extension", "restriction", "substitution", "#all", "extension substitution", "restriction extension"]
    tblk = [None, None, "", "extension", "restriction", "#all"]
    bdef = [None, None, "extension", "restriction", "substitution", "#all"]
    fixed = [  # (methods, k1, k2, head block, type blocks, blockDefault)
        (("e", "r", "e"), 3, 4, None, [None, None, None, None], None),
        (("e", "r", "e"), 3, 4, None, ["extension", None, None, None], None),      # block on the head's type only
        (("e", "r", "e"), 3, 4, None, [None, None, "extension", None], None),      # block on the member's own type only
        (("r", "e", "e"), 3, 3, None, [None, "extension", None, None], None),      # block on an intermediate type only
        (("r", "e", "r"), 2, 4, None, ["restriction", None, None, None], None),
        (("e", "e", "e"), 2, 3, "extension", [None, None, None, None], None),
        (("r", "r", "e"), 2, 2, "substitution", [None, None, None, None], None),
        (("e", "r", "e"), 2, 4, None, [None, None, None, None], "restriction"),
        (("e", "r", "e"), 4, 4, None, [None, None, None, "#all"], None),
    ]
    n = 55 if not thorough else 800
    cfgs = list(fixed)
    for _ in range(n):
        k1 = rng.randrange(1, 5)
        cfgs.append((tuple(rng.choice("er") for _ in range(3)), k1, rng.randrange(k1, 5), rng.choice(eblk),
                     [rng.choice(tblk) for _ in range(4)], rng.choice(bdef)))
    cases = []
    for methods, k1, k2, hb, tbs, bd in cfgs:
        abstract_head = rng.random() < 0.15
        abstract_m1 = rng.random() < 0.1
        m1_block = rng.choice([None, None, "substitution", "#all"])
        types = _chain_types(methods, tbs)
        sattr = "" if bd is None else ' blockDefault="%s"' % bd
        hattr = ("" if hb is None else ' block="%s"' % hb) + (' abstract="true"' if abstract_head else "")
        m1attr = ("" if m1_block is None else ' block="%s"' % m1_block) + (' abstract="true"' if abstract_m1 else "")
        doc = ('<xs:schema xmlns:xs="%s" xmlns:t="urn:t" targetNamespace="urn:t" elementFormDefault="qualified"%s>'
               '<xs:element name="r"><xs:complexType><xs:sequence><xs:element ref="t:h"/></xs:sequence></xs:complexType></xs:element>'
               '<xs:element name="h" type="t:T1"%s/>'
               '<xs:element name="m1" type="t:T%d" substitutionGroup="t:h"%s/>'
               '<xs:element name="m2" type="t:T%d" substitutionGroup="t:m1"/>'
               '<xs:element name="x" type="t:T1"/>%s</xs:schema>' % (G.XSD, sattr, hattr, k1, m1attr, k2, types))
        eff = lambda v: v if v is not None else (bd or "")
        tbits = [_bits(eff(t)) for t in tbs]
        chain = lambda k: ",".join("%d:%s:%s" % (j, methods[j - 2] if j > 1 else "r", tbits[j - 1]) for j in range(k, 0, -1))
        items = [("h", "1 - %s" % chain(1), abstract_head), ("m1", "2 1 %s" % chain(k1), abstract_m1),
                 ("m2", "3 2,1 %s" % chain(k2), False), ("x", "4 - %s" % chain(1), False)]
        insts = ['<t:r xmlns:t="urn:t"><t:%s><t:a/></t:%s></t:r>' % (nm, nm) for nm, _, _ in items]
        model = "sg 1 %s 1 ; %s" % (_bits(eff(hb), True), " ; ".join(it for _, it, _ in items))
        req = G.request(model, [("main.xsd", doc)], "main.xsd", insts)
        cases.append({"kind": "substgroup-chain", "request": req, "n": len(items), "strict_penalty": [f for _, _, f in items],
                      "words": [[(2, 20 + i)] for i in range(len(items))],
                      "info": {"methods": "".join(methods), "m1_type": k1, "m2_type": k2, "head_block": hb,
                               "type_blocks": tbs, "blockDefault": bd, "abstract_head": abstract_head,
                               "abstract_m1": abstract_m1, "m1_block": m1_block}})
    return cases


# ------------------------------------------------------------------------------------------------
# 3. attribute wildcards combined through attribute groups (intersection) and extension (union)
# ------------------------------------------------------------------------------------------------
WLEAVES = [(("any",), "##any"), (("not", 2), "##other"), (("set", [1]), "##local"), (("set", [2]), "##targetNamespace"),
           (("set", [1, 3]), "##local urn:u"), (("set", [2, 4]), "##targetNamespace urn:v"), (("set", [3, 4]), "urn:u urn:v"),
           (("set", [1, 2, 3]), "##local ##targetNamespace urn:u"), (("set", [4]), "urn:v")]


def _wl(c):
    if c[0] == "any":
        return "L any"
    if c[0] == "not":
        return "L not %d" % c[1]
    return "L set %d %s" % (len(c[1]), " ".join(map(str, c[1])))


def _anyattr(txt):
    return '<xs:anyAttribute namespace="%s" processContents="skip"/>' % txt


def attwild_cases(rng, thorough):
    HDR = ('<xs:schema xmlns:xs="%s" xmlns:t="urn:t" targetNamespace="urn:t" elementFormDefault="qualified">' % G.XSD)
    grp = lambda name, txt, extra="": '<xs:attributeGroup name="%s">%s%s</xs:attributeGroup>' % (name, extra, _anyattr(txt))
    shapes = []
    pairs = list(itertools.product(range(len(WLEAVES)), repeat=2))
    triples = list(itertools.product(range(len(WLEAVES)), repeat=3))
    rng.shuffle(triples)
    if not thorough:
        triples = triples[:24]
    for i, j in pairs:
        (ci, ti), (cj, tj) = WLEAVES[i], WLEAVES[j]
        # local anyAttribute + one attribute group
        shapes.append(("local+group", "I %s %s" % (_wl(ci), _wl(cj)),
                       '<xs:element name="r"><xs:complexType><xs:attributeGroup ref="t:g1"/>%s</xs:complexType></xs:element>%s'
                       % (_anyattr(ti), grp("g1", tj))))
        # two attribute groups
        if thorough or (i + j) % 2 == 0 or i == 0:
          shapes.append(("group+group", "I %s %s" % (_wl(ci), _wl(cj)),
                       '<xs:element name="r"><xs:complexType><xs:attributeGroup ref="t:g1"/><xs:attributeGroup ref="t:g2"/>'
                       '</xs:complexType></xs:element>%s%s' % (grp("g1", ti), grp("g2", tj))))
        # extension: own wildcard united with the base type's
        shapes.append(("extension", "U %s %s" % (_wl(ci), _wl(cj)),
                       '<xs:element name="r" type="t:D"/><xs:complexType name="B">%s</xs:complexType>'
                       '<xs:complexType name="D"><xs:complexContent><xs:extension base="t:B">%s</xs:extension></xs:complexContent>'
                       '</xs:complexType>' % (_anyattr(tj), _anyattr(ti))))
        # attribute group inside an attribute group
        if thorough or (i + j) % 3 == 0:
            # the referenced group's wildcard comes first in the group's list of anyAttributes (document order)
            shapes.append(("nested-group", "I %s %s" % (_wl(cj), _wl(ci)),
                           '<xs:element name="r"><xs:complexType><xs:attributeGroup ref="t:g1"/></xs:complexType></xs:element>%s%s'
                           % (grp("g1", ti, '<xs:attributeGroup ref="t:g0"/>'), grp("g0", tj))))
    # witness of C08-attwild-emptyunion first: (##other /\ ##local) \/ ##other
    triples = [(1, 2, 1)] + [t for t in triples if t != (1, 2, 1)]
    for i, j, k in triples:
        (ci, ti), (cj, tj), (ck, tk) = WLEAVES[i], WLEAVES[j], WLEAVES[k]
        shapes.append(("local+2groups", "I %s I %s %s" % (_wl(ci), _wl(cj), _wl(ck)),
                       '<xs:element name="r"><xs:complexType><xs:attributeGroup ref="t:g1"/><xs:attributeGroup ref="t:g2"/>%s'
                       '</xs:complexType></xs:element>%s%s' % (_anyattr(ti), grp("g1", tj), grp("g2", tk))))
        shapes.append(("extension-of-groups", "U I %s %s %s" % (_wl(ci), _wl(cj), _wl(ck)),
                       '<xs:element name="r" type="t:D"/><xs:complexType name="B">%s</xs:complexType>'
                       '<xs:complexType name="D"><xs:complexContent><xs:extension base="t:B"><xs:attributeGroup ref="t:g1"/>%s'
                       '</xs:extension></xs:complexContent></xs:complexType>%s' % (_anyattr(tk), _anyattr(ti), grp("g1", tj))))
    # extension without own wildcard (inherits), restriction with a narrower own wildcard
    for i in range(len(WLEAVES)):
        ci, ti = WLEAVES[i]
        shapes.append(("extension-inherits", _wl(ci),
                       '<xs:element name="r" type="t:D"/><xs:complexType name="B">%s</xs:complexType>'
                       '<xs:complexType name="D"><xs:complexContent><xs:extension base="t:B"><xs:attribute name="q" type="xs:string"/>'
                       '</xs:extension></xs:complexContent></xs:complexType>' % _anyattr(ti)))
        shapes.append(("restriction-of-any", _wl(ci),
                       '<xs:element name="r" type="t:D"/><xs:complexType name="B">%s</xs:complexType>'
                       '<xs:complexType name="D"><xs:complexContent><xs:restriction base="t:B">%s</xs:restriction></xs:complexContent>'
                       '</xs:complexType>' % (_anyattr("##any"), _anyattr(ti))))
    atts = [(1, ' zz="1"'), (2, ' t:tt="1"'), (3, ' u:uu="1"'), (4, ' v:zz="1"')]
    cases = []
    for shape, expr, body in shapes:
        doc = HDR + body + "</xs:schema>"
        insts = ['<t:r xmlns:t="urn:t" xmlns:u="urn:u" xmlns:v="urn:v"%s/>' % t for _, t in atts]
        model = "aw %s ; %s" % (expr, " ".join(str(u) for u, _ in atts))
        req = G.request(model, [("main.xsd", doc)], "main.xsd", insts)
        cases.append({"kind": "attwildcard-" + shape, "request": req, "n": len(atts), "strict_penalty": [False] * len(atts),
                      "attwild": True, "words": [[(u, 0)] for u, _ in atts], "info": {"expr": expr}})
    return cases


# ------------------------------------------------------------------------------------------------
# 4. substitution groups through every XMLContentModel implementation (validateContentSpecial fallback)
# ------------------------------------------------------------------------------------------------
H1, S1, T1, H2, S2, XX, BAD = (2, 21), (2, 22), (2, 23), (2, 24), (2, 25), (2, 26), (2, 29)
for _q, _n in ((H1, "h1"), (S1, "s1"), (T1, "t1"), (H2, "h2"), (S2, "s2"), (XX, "x"), (BAD, "bad")):
    G.LOCAL[_q[1]] = _n

# (name, expected class, expected class when mixed, rendered particle, model content)
_ref = lambda n, o="": '<xs:element ref="t:%s"%s/>' % (n, o)
SG_SHAPES = [
    ("leaf", "Simple", "DFA", "<xs:sequence>%s</xs:sequence>" % _ref("h1"), "P S 1 1 1 E 1 1 2 21"),
    ("leaf?", "Simple", "DFA", "<xs:sequence>%s</xs:sequence>" % _ref("h1", ' minOccurs="0"'), "P S 1 1 1 E 0 1 2 21"),
    ("leaf*", "Simple", "DFA", "<xs:sequence>%s</xs:sequence>" % _ref("h1", ' minOccurs="0" maxOccurs="unbounded"'), "P S 1 1 1 E 0 -1 2 21"),
    ("leaf+", "Simple", "DFA", "<xs:sequence>%s</xs:sequence>" % _ref("h1", ' maxOccurs="unbounded"'), "P S 1 1 1 E 1 -1 2 21"),
    ("choice2", "Simple", "DFA", "<xs:choice>%s%s</xs:choice>" % (_ref("h1"), _ref("h2")), "P C 1 1 2 E 1 1 2 21 E 1 1 2 24"),
    ("choice2-rev", "Simple", "DFA", "<xs:choice>%s%s</xs:choice>" % (_ref("h2"), _ref("h1")), "P C 1 1 2 E 1 1 2 24 E 1 1 2 21"),
    ("seq2", "Simple", "DFA", "<xs:sequence>%s%s</xs:sequence>" % (_ref("h1"), _ref("h2")), "P S 1 1 2 E 1 1 2 21 E 1 1 2 24"),
    ("seq2-rev", "Simple", "DFA", "<xs:sequence>%s%s</xs:sequence>" % (_ref("h2"), _ref("h1")), "P S 1 1 2 E 1 1 2 24 E 1 1 2 21"),
    ("all2", "All", "All", "<xs:all>%s%s</xs:all>" % (_ref("h1"), _ref("h2")), "A 0 2 2 21 1 2 24 1"),
    ("all2-opt", "All", "All", '<xs:all minOccurs="0">%s%s</xs:all>' % (_ref("h1", ' minOccurs="0"'), _ref("h2")), "A 1 2 2 21 0 2 24 1"),
    ("choice3", "DFA", "DFA", "<xs:choice>%s%s%s</xs:choice>" % (_ref("h1"), _ref("h2"), _ref("x")),
     "P C 1 1 3 E 1 1 2 21 E 1 1 2 24 E 1 1 2 26"),
    ("seq3", "DFA", "DFA", "<xs:sequence>%s%s%s</xs:sequence>" % (_ref("h1"), _ref("h2"), _ref("x", ' minOccurs="0"')),
     "P S 1 1 3 E 1 1 2 21 E 1 1 2 24 E 0 1 2 26"),
    ("counted", "DFA", "DFA", "<xs:sequence>%s%s</xs:sequence>" % (_ref("h1", ' minOccurs="2" maxOccurs="3"'), _ref("h2")),
     "P S 1 1 2 E 2 3 2 21 E 1 1 2 24"),
    ("choice2-rep", "DFA", "DFA", '<xs:choice maxOccurs="2">%s%s</xs:choice>' % (_ref("h1"), _ref("h2")),
     "P C 1 2 2 E 1 1 2 21 E 1 1 2 24"),
    ("seq-star", "DFA", "DFA", "<xs:sequence>%s%s</xs:sequence>" % (_ref("h2"), _ref("h1", ' minOccurs="0" maxOccurs="unbounded"')),
     "P S 1 1 2 E 1 1 2 24 E 0 -1 2 21"),
    ("mixed-only-text", "Mixed", "Mixed", "", "P S 1 1 0"),
]


def subst_cm_cases(rng, thorough):
    cases = []
    words = G.exhaustive([H1, S1, T1, H2, S2, XX], 3 if not thorough else 4, 2000)
    cfgs = [dict(), dict(abstract_h1=True), dict(block_h1=True), dict(abstract_s1=True), dict(mixed=True),
            dict(mixed=True, abstract_h1=True), dict(block_h2=True, abstract_s1=True)]
    for name, cls, cls_mixed, body, content in SG_SHAPES:
        for cfg in cfgs:
            mixed = cfg.get("mixed", False)
            if name == "mixed-only-text" and not mixed:
                continue
            allowed1 = set() if cfg.get("abstract_h1") else {H1}
            if not cfg.get("block_h1"):
                allowed1 |= {T1} | (set() if cfg.get("abstract_s1") else {S1})
            allowed2 = {H2} | (set() if cfg.get("block_h2") else {S2})

            def canon(q):
                if q in allowed1:
                    return H1
                if q in allowed2:
                    return H2
                if q in (H1, H2):
                    return BAD       # an abstract head used directly / never reached otherwise
                return q
            gl = lambda n, extra="": '<xs:element name="%s" type="xs:string"%s/>' % (n, extra)
            doc = ('<xs:schema xmlns:xs="%s" xmlns:t="urn:t" targetNamespace="urn:t" elementFormDefault="qualified">'
                   '<xs:element name="r"><xs:complexType%s>%s</xs:complexType></xs:element>%s%s%s%s%s%s</xs:schema>'
                   % (G.XSD, ' mixed="true"' if mixed else "", body,
                      gl("h1", (' abstract="true"' if cfg.get("abstract_h1") else "") + (' block="substitution"' if cfg.get("block_h1") else "")),
                      gl("s1", ' substitutionGroup="t:h1"' + (' abstract="true"' if cfg.get("abstract_s1") else "")),
                      gl("t1", ' substitutionGroup="t:s1"'),
                      gl("h2", ' block="substitution"' if cfg.get("block_h2") else ""),
                      gl("s2", ' substitutionGroup="t:h2"'), gl("x")))
            ws = words if (thorough or name in ("choice2", "choice2-rev", "seq2", "all2", "choice3")) else \
                [w for w in words if len(w) <= 2] + rng.sample([w for w in words if len(w) == 3], 60)
            # an abstract member used directly is invalid whatever the content model says
            forced = [bool(cfg.get("abstract_s1") and S1 in w) or bool(cfg.get("abstract_h1") and H1 in w) for w in ws]
            insts = [G.instance(w, text_between=("txt" if mixed and i % 2 == 0 else None)) if w else
                     (G.instance([]).replace("></t:r>", ">txt</t:r>") if mixed and i % 2 == 0 else G.instance([]))
                     for i, w in enumerate(ws)]
            cw = [[canon(q) for q in w] for w in ws]
            model = "cm %s ; %s" % (content, " ; ".join(",".join(G.qtext(q) for q in w) or "-" for w in cw))
            req = G.request(model, [("main.xsd", doc)], "main.xsd", insts)
            cases.append({"kind": "substcm-" + name, "request": req, "n": len(ws), "strict_penalty": forced,
                          "words": [[list(q) for q in w] for w in ws], "expect_cm": cls_mixed if mixed else cls,
                          "info": dict(cfg, shape=name)})
    return cases


# ------------------------------------------------------------------------------------------------
# 5. Derivation Valid (Restriction, Complex): attribute uses and attribute wildcard of a restriction (schema-level)
# ------------------------------------------------------------------------------------------------
ATT_Q = {"a": (1, 1), "b": (1, 2), "c": (1, 3), "d": (1, 4), "u:ga": (3, 9)}
TYPES = {0: "xs:string", 1: "xs:token", 2: "xs:int"}


def _render_att(name, use, vc, val, ty):
    u = {"o": "optional", "r": "required", "p": "prohibited"}[use]
    v = "" if vc == "n" else (' default="%s"' % val if vc == "d" else ' fixed="%s"' % val)
    if name == "u:ga":
        return '<xs:attribute ref="u:ga" use="%s"%s/>' % (u, v)
    return '<xs:attribute name="%s" type="%s" use="%s"%s/>' % (name, TYPES[ty], u, v)


def _model_table(decls, wild):
    w = "none" if wild is None else _wl(wild)[2:]
    return "%d %s %s" % (len(decls), " ".join("%d %d %s %s %s %d" % (ATT_Q[n][0], ATT_Q[n][1], use, vc, G.hx(val), ty)
                                              for n, use, vc, val, ty in decls), w)


def attderiv_cases(rng, thorough):
    wl = [None, None] + [w for w in WLEAVES]
    cases = []

    def one(base, bw, decls, dw, tag):
        battrs = "".join(_render_att(*d) for d in base) + ("" if bw is None else _anyattr(bw[1]))
        dattrs = "".join(_render_att(*d) for d in decls) + ("" if dw is None else _anyattr(dw[1]))
        doc = ('<xs:schema xmlns:xs="%s" xmlns:t="urn:t" xmlns:u="urn:u" targetNamespace="urn:t" elementFormDefault="qualified">'
               '<xs:import namespace="urn:u" schemaLocation="u.xsd"/><xs:element name="r" type="t:D"/>'
               '<xs:complexType name="B">%s</xs:complexType>'
               '<xs:complexType name="D"><xs:complexContent><xs:restriction base="t:B">%s</xs:restriction></xs:complexContent>'
               '</xs:complexType></xs:schema>' % (G.XSD, battrs, dattrs))
        model = "ad %s ; %s" % (_model_table(base, bw[0] if bw else None), _model_table(decls, dw[0] if dw else None))
        req = G.request(model, [("main.xsd", doc), ("u.xsd", G.U_XSD)], "main.xsd", [])
        cases.append({"kind": "attderivation-" + tag, "request": req, "n": 0, "schema_verdict": True,
                      "info": {"base": base, "base_wild": bw[1] if bw else None, "decls": decls,
                               "derived_wild": dw[1] if dw else None}})

    # the systematic table: one base attribute, every (base use, vc) x (derived use, vc, type)
    for buse, bvc in (("o", "n"), ("o", "d"), ("o", "f"), ("r", "n"), ("r", "f")):
        for duse, dvc, dval in (("o", "n", ""), ("o", "d", "7"), ("o", "f", "7"), ("o", "f", "8"), ("r", "n", ""), ("r", "f", "7"),
                                ("r", "f", "8"), ("p", "n", "")):
            for dty in (0, 1, 2):
                if dty != 0 and not (thorough or (duse, dvc) in (("o", "n"), ("r", "n"), ("p", "n"))):
                    continue
                one([("a", buse, bvc, "7" if bvc != "n" else "", 0)], None, [("a", duse, dvc, dval, dty)], None, "use-table")
    # wildcard narrowing / widening: every pair, and new attributes against the base wildcard
    for bw in [None] + WLEAVES:
        for dw in [None] + WLEAVES:
            one([("a", "o", "n", "", 0)], bw, [], dw, "wildcard-pair")
        for newatt in ("d", "u:ga"):
            one([("a", "o", "n", "", 0)], bw, [(newatt, "o", "n", "", 0)], None, "new-attribute")
        one([("a", "o", "n", "", 0)], bw, [("d", "p", "n", "", 0)], None, "stray-prohibited")
    # random tables
    n = 60 if not thorough else 1500
    for _ in range(n):
        base = []
        for nm in ("a", "b", "c"):
            if rng.random() < 0.8:
                use = rng.choice("or")
                vc = rng.choice("ndf" if use == "o" else "nf")
                base.append((nm, use, vc, "7" if vc != "n" else "", rng.choice([0, 0, 1])))
        decls = []
        for nm, use, vc, val, ty in base:
            if rng.random() < 0.55:
                continue
            duse = rng.choice("orrp")
            if duse == "p":
                decls.append((nm, "p", "n", "", ty))
                continue
            dvc = rng.choice("ndf" if duse == "o" else "nf")
            dval = "" if dvc == "n" else rng.choice(["7", "7", "8"])
            dty = rng.choice([ty, ty, 1, 2]) if ty == 0 else rng.choice([ty, ty, 0])
            decls.append((nm, duse, dvc, dval, dty))
        if rng.random() < 0.25:
            decls.append((rng.choice(["d", "u:ga"]), rng.choice("oop"), "n", "", 0))
        bw = rng.choice(wl)
        dw = rng.choice([None, None, bw, rng.choice(wl)])
        one(base, bw, decls, dw, "random")
    return cases
